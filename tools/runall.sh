#!/bin/bash
# run every claimed check (quick tier) on the current tree, in parallel; summary at the end
cd /verif
python3 tools/build.py >/dev/null
ids=$(python3 -c "import json; print(' '.join(c['property_id'] for c in json.load(open('MANIFEST.json'))['checks']))")
mkdir -p _build/runall
for p in $ids; do ( ./check $p --tier ${1:-quick} > _build/runall/$p.log 2>&1; echo "$p rc=$?" ) & done | sort
wait
grep -h "VIOLATION\|KNOWN-FINDING" _build/runall/*.log | cut -c1-200
