#!/bin/bash
# seedtest.sh <id> [check ids...] -- confirm a sub-agent's change (/tmp/seed/out/<id>) in a fresh scratch worktree
# (applies, builds, passes the existing tests with flags off and on), then apply it to /repo, run the named
# checks (default: the property's own), and restore /repo.
set -u
id=$1; shift
checks=${@:-$id}
root=${SEEDROOT:-/tmp/seed}; out=$root/out/$id
w=$root/verify_$id
git -C /repo worktree remove --force $w >/dev/null 2>&1
git -C /repo worktree add --detach $w HEAD >/dev/null 2>&1 || { echo "worktree failed"; exit 2; }
( cd $w && git apply $out/patch.diff ) || { echo "PATCH DOES NOT APPLY"; git -C /repo worktree remove --force $w; exit 2; }
fail=0
for flags in "" "-DEDN_ENABLE_CLOJURE_EXTENSION=ON -DEDN_ENABLE_EXPERIMENTAL_EXTENSION=ON"; do
  b=$w/_b$( [ -z "$flags" ] && echo 00 || echo 11 )
  ( cd $w && cmake -G Ninja -B $b $flags >/dev/null 2>&1 && cmake --build $b >/dev/null 2>&1 ) || { echo "BUILD FAILED flags=[$flags]"; fail=1; continue; }
  n=0
  for t in $b/test_*; do [ -x $t ] || continue; n=$((n+1)); ( cd $w && timeout 120 $t >/dev/null 2>&1 ) || { echo "TEST FAILED $(basename $t) flags=[$flags]"; fail=1; }; done
  echo "tests run: $n flags=[$flags] fail=$fail"
done
git -C /repo worktree remove --force $w
[ $fail = 0 ] || { echo "NOT KEPT: existing tests fail or build broken"; exit 3; }
# run the checks against /repo with the change applied
cd /verif
git -C /repo apply $out/patch.diff || exit 2
for c in $checks; do
  ./check $c --tier quick > $out/check_$c.log 2>&1; rc=$?
  echo "check $c rc=$rc: $(grep -c VIOLATION $out/check_$c.log) violation lines"
  grep "VIOLATION" $out/check_$c.log | head -3 | cut -c1-200
  tail -1 $out/check_$c.log | cut -c1-200
done
git -C /repo checkout -- .
git -C /repo status --short | grep -v "^??" && echo "REPO NOT CLEAN"
exit 0
