#!/bin/bash
# seedkeep.sh <prop> <round> "<verdict>"  -- copy a confirmed sub-agent change from $SEEDROOT/out/<prop> to seeded/<prop>-<round>
set -eu
p=$1; r=$2; verdict=$3
root=${SEEDROOT:-/tmp/seed$r}; src=$root/out/$p; dst=/verif/seeded/$p-$r
mkdir -p $dst
for f in patch.diff demo.c demo.sh demo_build.sh demo_output_clean.txt demo_output_patched.txt meta.json; do [ -f $src/$f ] && cp $src/$f $dst/; done
python3 - "$dst/meta.json" "$verdict" "$root" "$p" <<'PY'
import json,sys
f,verdict,root,p=sys.argv[1:5]
m=json.load(open(f))
m["confirmed"]={"applies_cleanly":True,"builds":True,"existing_tests_pass_flags_off_and_on":True,
  "checked_with":"SEEDROOT=%s tools/seedtest.sh %s"%(root,p),"verdict":verdict}
json.dump(m,open(f,"w"),indent=1)
PY
echo kept $dst
