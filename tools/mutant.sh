#!/bin/bash
# usage: mutant.sh '<sed expr>' <file-under-/repo/src> <Cxx>...   -- apply, check, revert
expr="$1"; file="$2"; shift 2
cd /repo && sed -i "$expr" "src/$file" && git diff --stat | tail -1
if git diff --quiet; then echo "MUTATION DID NOT APPLY"; exit 2; fi
cd /verif
for p in "$@"; do ./check $p 2>&1 | grep -E "VIOLATION|KNOWN|obligations" | cut -c1-260; done
cd /repo && git checkout -- . 
