#!/usr/bin/env python3
"""gen.py -- seeded generators of EDN documents (structured, mostly valid), malformed
streams (single-edit corruptions, truncations) and boundary-directed families.  Every
random choice derives from one random.Random(seed)."""
import random

WS_BYTES = [0x09, 0x0A, 0x0B, 0x0C, 0x0D, 0x1C, 0x1D, 0x1E, 0x1F, 0x20, 0x2C]
SYM_FIRST = "abcdefghijklmnopqrstuvwxyzABCDEFGHIJKLMNOPQRSTUVWXYZ*!_?$%&=<>"
SYM_REST = SYM_FIRST + "0123456789.-+'"


class Gen:
    def __init__(self, seed, clj=False, exp=False, core_only=False, tags=("inst", "uuid", "my/tag", "x")):
        self.r = random.Random(seed)
        self.clj = clj and not core_only
        self.exp = exp and not core_only
        self.tags = list(tags)

    # ---------------------------------------------------------------- trivia
    def ws1(self):
        r = self.r
        k = r.random()
        if k < 0.6:
            return b" "
        if k < 0.8:
            return bytes([r.choice(WS_BYTES)])
        if k < 0.9:
            return b";" + bytes(r.choice(b"abc ;#\"[]{}\\~") for _ in range(r.randrange(0, 20))) + b"\n"
        return bytes(r.choice(WS_BYTES) for _ in range(r.randrange(1, 20)))

    def sep(self):
        n = 1 if self.r.random() < 0.8 else self.r.randrange(1, 4)
        return b"".join(self.ws1() for _ in range(n))

    def optsep(self):
        return self.sep() if self.r.random() < 0.3 else b""

    # ---------------------------------------------------------------- atoms
    def ident(self):
        r = self.r
        n = r.choice([1, 1, 2, 3, 5, 8, 15, 16, 17, 18, 30, 40]) if r.random() < 0.3 else r.randrange(1, 8)
        s = r.choice(SYM_FIRST) + "".join(r.choice(SYM_REST) for _ in range(n - 1))
        if s in ("nil", "true", "false"):
            s += "x"
        if s[0] in "+-." and len(s) > 1 and s[1].isdigit():
            s = "a" + s
        return s

    def symbol(self):
        r = self.r
        k = r.random()
        if k < 0.05:
            return b"/"
        if k < 0.1:
            return r.choice([b"+", b"-", b"*", b"<=", b"->x", b".", b"..", b"+a", b"-a"])
        if k < 0.35:
            return (self.nsname() + "/" + self.ident()).encode()
        return self.ident().encode()

    def nsname(self):
        # namespaces that extension code paths treat specially (the `_` opt-out of namespaced maps) are ordinary in core positions
        if self.r.random() < 0.15:
            return self.r.choice(["_", "__", "_x", "x_"])
        return self.ident()

    def keyword(self):
        if self.r.random() < 0.3:
            return (":" + self.nsname() + "/" + self.ident()).encode()
        return (":" + self.ident()).encode()

    def integer(self):
        r = self.r
        k = r.random()
        if k < 0.4:
            v = r.randrange(-1000, 1000)
        elif k < 0.6:
            v = r.choice([2 ** 63 - 1, -2 ** 63, 2 ** 63, -2 ** 63 - 1, 2 ** 64, 10 ** 18, 10 ** 19, 99999999,
                          100000000, 10 ** 16 - 1, 10 ** 16]) + r.randrange(-2, 3)
        else:
            v = r.randrange(-10 ** r.randrange(1, 30), 10 ** r.randrange(1, 30))
        s = str(v)
        if v >= 0 and r.random() < 0.1:
            s = "+" + s
        k = r.random()
        if k < 0.1:
            s += "N"
        elif k < 0.15:
            s += "M"
        return s.encode()

    def floating(self):
        r = self.r
        k = r.random()
        if k < 0.3:
            m = str(r.randrange(0, 10 ** r.randrange(1, 17)))
            p = r.randrange(0, len(m) + 1)
            s = (m[:p] or "0") + "." + m[p:]
        elif k < 0.6:
            s = "%d.%de%d" % (r.randrange(0, 1000), r.randrange(0, 10 ** 6), r.randrange(-30, 30))
        elif k < 0.8:
            s = repr(r.uniform(-1e10, 1e10))
            if "." not in s and "e" not in s:
                s += ".0"
        else:
            s = "%de%s%d" % (r.randrange(0, 10 ** r.randrange(1, 20)), r.choice(["", "+", "-"]), r.randrange(0, 330))
        if s[0] != "-" and r.random() < 0.2:
            s = r.choice("+-") + s
        if r.random() < 0.05:
            s += "M"
        s = s.replace("inf", "1e999").replace("nan", "0.0")
        return s.encode()

    def character(self):
        r = self.r
        k = r.random()
        if k < 0.3:
            return b"\\" + r.choice([b"newline", b"return", b"space", b"tab"])
        if k < 0.5:
            return ("\\u%04x" % r.randrange(0, 0x10000)).encode()
        c = r.choice("abcxyzAZ09!@#$%^&*()[]{}~`<>?/|;:'\"\\.,")
        return b"\\" + c.encode()

    def string(self):
        r = self.r
        n = r.choice([0, 1, 2, 5, 13, 14, 15, 16, 17, 18, 30, 31, 32, 33, 47, 48, 64]) if r.random() < 0.5 \
            else r.randrange(0, 12)
        out = bytearray()
        for _ in range(n):
            k = r.random()
            if k < 0.75:
                out.append(r.choice(b"abcdefgh XYZ019,;[]{}()#:/~"))
            elif k < 0.85:
                out += r.choice([b"\\n", b"\\t", b"\\r", b"\\\\", b"\\\""])
            elif k < 0.9:
                out.append(r.choice([0x00, 0x7F, 0x80, 0xC3, 0xA9, 0xFF, 0x0A, 0x0D]))
            elif k < 0.95 and self.clj:
                out += r.choice([b"\\f", b"\\b", b"\\u0041", b"\\u00e9", b"\\u20ac", b"\\101", b"\\7", b"\\377"])
            else:
                out.append(r.choice(b"abc"))
        return b'"' + bytes(out) + b'"'

    def atom(self):
        r = self.r
        k = r.random()
        if k < 0.15:
            return r.choice([b"nil", b"true", b"false"])
        if k < 0.35:
            return self.integer()
        if k < 0.45:
            return self.floating()
        if k < 0.6:
            return self.keyword()
        if k < 0.72:
            return self.symbol()
        if k < 0.87:
            return self.string()
        if k < 0.95:
            return self.character()
        return r.choice([b"##Inf", b"##-Inf", b"##NaN"])

    def clj_number(self):
        r = self.r
        k = r.random()
        if k < 0.25:
            return ("%s0x%x" % (r.choice(["", "-", "+"]), r.randrange(0, 2 ** r.randrange(1, 70)))).encode() + \
                   r.choice([b"", b"", b"N"])
        if k < 0.45:
            return ("%s0%o" % (r.choice(["", "-"]), r.randrange(1, 2 ** r.randrange(1, 70)))).encode()
        if k < 0.65:
            radix = r.randrange(2, 37)
            digs = "0123456789abcdefghijklmnopqrstuvwxyz"[:radix]
            return ("%s%dr%s" % (r.choice(["", "-"]), radix,
                                 "".join(r.choice(digs) for _ in range(r.randrange(1, 20))))).encode()
        a = r.choice([r.randrange(-50, 50), r.randrange(-2 ** 63, 2 ** 63), -2 ** 63, 2 ** 63 - 1,
                      r.randrange(-10 ** 25, 10 ** 25)])
        b = r.choice([r.randrange(1, 50), r.randrange(1, 2 ** 63), 2 ** 63 - 1, 2 ** 63, 1, 2])
        return ("%d/%d" % (a, b)).encode()

    def exp_number(self):
        r = self.r
        s = str(r.randrange(1, 10 ** r.randrange(2, 25)))
        out = ""
        for i, ch in enumerate(s):
            out += ch
            if i + 1 < len(s) and r.random() < 0.3:
                out += "_" * r.randrange(1, 3)
        if r.random() < 0.3:
            out += "." + str(r.randrange(0, 1000))
        elif r.random() < 0.2:
            out += "N"
        return out.encode()

    def text_block(self):
        r = self.r
        lines = []
        for _ in range(r.randrange(0, 5)):
            ind = r.choice([b"", b" ", b"  ", b"    ", b"\t", b"      "])
            body = bytes(r.choice(b"ab c\"\\x") for _ in range(r.randrange(0, 20)))
            body = body.replace(b'"""', b'""x')
            if r.random() < 0.15:
                body += b'\\"""'
            lines.append(ind + body + r.choice([b"", b" ", b"  \t"]))
        closing = r.choice([b"", b" ", b"  ", b"    "]) if r.random() < 0.7 else None
        out = b'"""\n' + b"".join(l + b"\n" for l in lines)
        if closing is None:
            out = out[:-1] if lines else out
            # the inline closing delimiter must not merge with a trailing quote or backslash
            if out.endswith((b'"', b"\\")) and lines:
                out += b"x"
            out += b'"""'
        else:
            out += closing + b'"""'
        return out

    # ---------------------------------------------------------------- forms
    def form(self, depth):
        r = self.r
        k = r.random()
        if depth <= 0 or k < 0.45:
            if self.clj and r.random() < 0.08:
                return self.clj_number()
            if self.exp and r.random() < 0.06:
                return self.exp_number()
            if self.exp and r.random() < 0.04:
                return self.text_block()
            return self.atom()
        if k < 0.6:
            return b"(" + self.elems(depth - 1) + b")"
        if k < 0.75:
            return b"[" + self.elems(depth - 1) + b"]"
        if k < 0.85:
            return b"{" + self.entries(depth - 1) + b"}"
        if k < 0.9:
            return b"#{" + self.distinct_elems(depth - 1) + b"}"
        if k < 0.95:
            return b"#" + r.choice(self.tags).encode() + self.optsep() + (b" " if r.random() < 0.7 else self.sep()) + self.form(depth - 1)
        if k < 0.98 or not self.clj:
            return b"#_" + self.optsep() + self.form(depth - 1) + self.sep() + self.form(depth - 1)
        if r.random() < 0.5:
            return b"#:" + self.ident().encode() + self.optsep() + b"{" + self.entries(depth - 1) + b"}"
        ann = r.choice([self.keyword(), self.symbol(), b'"T"', b"{" + self.entries(1) + b"}", b"[a b]"])
        tgt = r.choice([b"[" + self.elems(depth - 1) + b"]", b"(" + self.elems(depth - 1) + b")",
                        self.symbol(), b"{" + self.entries(depth - 1) + b"}"])
        return b"^" + ann + self.sep() + tgt

    def elems(self, depth):
        n = self.r.choice([0, 0, 1, 1, 2, 3, 4, 5, 8, 9, 12, 13, 18, 19])
        if n > 5 and self.r.random() < 0.7:
            n = self.r.randrange(0, 5)
        out = self.optsep()
        for i in range(n):
            out += self.form(depth) + self.sep()
        return out

    def distinct_elems(self, depth):
        n = self.r.randrange(0, 6)
        out = self.optsep()
        for i in range(n):
            out += (":k%d" % i).encode() if self.r.random() < 0.5 else str(1000 + i).encode()
            out += self.sep()
        return out

    def entries(self, depth):
        n = self.r.randrange(0, 5)
        out = self.optsep()
        for i in range(n):
            key = (":k%d" % i).encode() if self.r.random() < 0.6 else ("s%d" % i).encode()
            out += key + self.sep() + self.form(depth) + self.sep()
        return out

    def document(self, depth=3):
        pre = self.sep() if self.r.random() < 0.3 else b""
        post = self.r.choice([b"", b"", b" ", b"\n", b" trailing", b")", b"; c"])
        return pre + self.form(depth) + post

    # ---------------------------------------------------------------- malformed stream
    def corrupt(self, doc):
        r = self.r
        if not doc:
            return b"]"
        k = r.random()
        i = r.randrange(0, len(doc))
        if k < 0.25:
            return doc[:i]                                  # truncate
        if k < 0.45:
            return doc[:i] + doc[i + 1:]                    # delete
        if k < 0.7:
            return doc[:i] + bytes([r.choice(b"()[]{}#\"\\^:;_ /0")]) + doc[i + 1:]   # replace
        if k < 0.9:
            return doc[:i] + r.choice([b")", b"]", b"}", b"(", b"[", b"{", b"#{", b"#_", b"#", b"^", b"\\",
                                       b"\"", b"#foo", b"1x", b"::a", b"a/", b"/a", b"01", b"1e", b"\\u12",
                                       b"##", b"#:a", b"\x00", b"\xff"]) + doc[i:]     # insert
        return bytes(r.randrange(0, 256) if r.random() < 0.1 else b for b in doc)

    def junk(self, n):
        r = self.r
        alpha = b"()[]{}#\"\\^:;_ /0123456789abc.-+eEMNrx\n,~'`@"
        return bytes(r.choice(alpha) if r.random() < 0.9 else r.randrange(0, 256) for _ in range(n))


def hexs(b):
    return b.hex() if b else "-"
