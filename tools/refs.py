#!/usr/bin/env python3
"""refs.py -- independent byte-at-a-time reference implementations and observation helpers
used as property oracles on the implementation's output (they do not use the model)."""
import re

DELIMS = set([0x09, 0x0A, 0x0B, 0x0C, 0x0D, 0x1C, 0x1D, 0x1E, 0x1F, 0x20, 0x22, 0x23, 0x28, 0x29, 0x2C, 0x3B,
              0x5B, 0x5C, 0x5D, 0x7B, 0x7D, 0x7F])
WS = set([0x09, 0x0A, 0x0B, 0x0C, 0x0D, 0x1C, 0x1D, 0x1E, 0x1F, 0x20, 0x2C])


def ref_skipws(buf, p, e):
    while p < e:
        c = buf[p]
        if c == 0x3B:
            p += 1
            while p < e and buf[p] != 0x0A:
                p += 1
            if p < e:
                p += 1
            continue
        if c in WS:
            p += 1
        else:
            break
    return p


def ref_findquote(buf, p, e):
    seen = False
    while p < e:
        c = buf[p]
        if c == 0x5C:
            seen = True
            if p + 1 >= e:
                return None
            p += 2
        elif c == 0x22:
            return (p, seen)
        else:
            p += 1
    return None


def ref_digits(buf, p, e):
    while p < e and 0x30 <= buf[p] <= 0x39:
        p += 1
    return p


def ref_ident(buf, p, e):
    """what identifier.c scan_identifier reports: None | (end, ns(off,len)|None, name(off,len))"""
    start = p
    slash = None
    prev_colon = False
    while p < e and buf[p] not in DELIMS:
        c = buf[p]
        if c == 0x3A:
            if prev_colon:
                return None
            prev_colon = True
        else:
            prev_colon = False
        if c == 0x2F and slash is None:
            slash = p
        p += 1
    if p == start:
        return None
    length = p - start
    if slash is not None:
        if length == 1:
            return (p, None, (start, 1))
        if slash == start or slash == p - 1:
            return None
        return (p, (start, slash - start), (slash + 1, p - slash - 1))
    return (p, None, (start, length))


def scanner_ref(sc, buf, p, e):
    if sc == "skipws":
        return str(ref_skipws(buf, p, e))
    if sc == "digits":
        return str(ref_digits(buf, p, e))
    if sc == "findquote":
        r = ref_findquote(buf, p, e)
        return "NULL" if r is None else "%d %d" % (r[0], int(r[1]))
    if sc == "ident":
        r = ref_ident(buf, p, e)
        if r is None:
            return "INVALID"
        end, ns, nm = r
        return "%d %s name=%d+%d" % (end, "ns=-" if ns is None else "ns=%d+%d" % ns, nm[0], nm[1])
    if sc == "lfindex":
        pos = [i for i in range(e) if buf[i] == 0x0A]
        return "%d:%s" % (len(pos), ",".join(map(str, pos)))
    raise ValueError(sc)


# ------------------------------------------------------------------ observation helpers
def shift_obs(obs, k):
    """the observation expected for the same document prefixed with k blanks (one line)"""
    def rng(m):
        a, b = int(m.group(1)), int(m.group(2))
        if a == 0 and b == 0:          # synthetic nodes keep 0-0
            return m.group(0)
        return "@%d-%d" % (a + k, b + k)
    if obs.startswith("OK "):
        out = re.sub(r"@(\d+)-(\d+)", rng, obs)
        return re.sub(r":h(\d+)@(\d+)", lambda m: ":h%s@%d" % (m.group(1), int(m.group(2)) + k), out)
    m = re.match(r"^(ERR \S+ \S+) (\d+),(\d+),(\d+) (\d+),(\d+),(\d+)(.*)$", obs)
    if m:
        so, sl, sc, eo, el, ec = [int(m.group(i)) for i in range(2, 8)]
        sc2 = sc + k if sl == 1 else sc
        ec2 = ec + k if el == 1 else ec
        tail = re.sub(r":h(\d+)@(\d+)", lambda q: ":h%s@%d" % (q.group(1), int(q.group(2)) + k), m.group(8))
        return "%s %d,%d,%d %d,%d,%d%s" % (m.group(1), so + k, sl, sc2, eo + k, el, ec2, tail)
    return obs


class Node:
    __slots__ = ("kind", "text", "kids", "s", "e", "meta")

    def __init__(self, kind, text, kids, s, e, meta):
        self.kind, self.text, self.kids, self.s, self.e, self.meta = kind, text, kids, s, e, meta


def parse_dump(s):
    """parse the canonical dump of a value into a Node tree"""
    pos = [0]

    def node():
        i = pos[0]
        if s[i] == "(":
            j = i + 1
            while s[j] not in " )":
                j += 1
            head = s[i + 1:j]
            pos[0] = j
            kids = []
            while s[pos[0]] == " ":
                pos[0] += 1
                kids.append(node())
            assert s[pos[0]] == ")", s[pos[0]:pos[0] + 20]
            pos[0] += 1
            kind, text = (head.split(":", 1) + [""])[:2] if ":" in head else (head, "")
        else:
            j = i
            while j < len(s) and s[j] not in " )@^":
                j += 1
            tok = s[i:j]
            pos[0] = j
            kind, text = (tok.split(":", 1) + [""])[:2] if ":" in tok else (tok, "")
            kids = []
        m = re.match(r"@(\d+)-(\d+)", s[pos[0]:])
        a, b = int(m.group(1)), int(m.group(2))
        pos[0] += m.end()
        meta = None
        if pos[0] < len(s) and s[pos[0]] == "^":
            pos[0] += 1
            meta = node()
        return Node(kind, text, kids, a, b, meta)

    n = node()
    return n


def split_obs(obs):
    """('OK', dump, tail) | ('ERR', code, msg, (so,sl,sc), (eo,el,ec), tail) | (other,)"""
    if obs.startswith("OK "):
        body = obs[3:]
        i = body.rfind(" calls=")
        return ("OK", body[:i], body[i:])
    m = re.match(r"^ERR (\S+) (\S+) (\d+),(\d+),(\d+) (\d+),(\d+),(\d+)(.*)$", obs)
    if m:
        g = m.groups()
        return ("ERR", g[0], g[1], tuple(map(int, g[2:5])), tuple(map(int, g[5:8])), g[8])
    return (obs.split(" ")[0],)


# ------------------------------------------------------------------ numeric literal oracles
I64_MIN, I64_MAX = -2 ** 63, 2 ** 63 - 1


def hx(b):
    return b.hex() if b else "-"


def expect_int_literal(text, clj, exp):
    """expected dump (no range) of an integer-family literal, from Python integer arithmetic"""
    t = text
    neg = t.startswith("-")
    if t[0] in "+-":
        t = t[1:]
    clean = (lambda s: s.replace("_", "")) if exp else (lambda s: s)
    if "/" in t:
        n, d = t.split("/")
        nv, dv = int(clean(n)), int(clean(d))
        sv = -nv if neg else nv
        if nv == 0:
            return "int:0"          # 0/d is the integer 0 whatever the size of d
        if I64_MIN <= sv <= I64_MAX and dv <= I64_MAX:
            import math
            g = math.gcd(abs(sv), dv)
            a, b = (sv // g, dv // g) if g > 1 else (sv, dv)
            if g > 1:
                a = int(sv / g) if False else (abs(sv) // g) * (-1 if sv < 0 else 1)
            if a == 0:
                return "int:0"
            if b == 1:
                return "int:%d" % a
            return "ratio:%d/%d" % (a, b)
        if dv <= I64_MAX and dv == 1:
            return "bigint:%d:10:%s" % (int(neg), hx(n.encode()))
        return "bigratio:%d:%s/%s" % (int(neg), hx(n.encode()), hx(d.encode()))
    suffix = ""
    radix = 10
    digits = t
    is_radix = clj and "r" in t.lower() and not t.lower().startswith("0x")
    if is_radix:
        rdx = int(t[:t.lower().index("r")])
        # in NrDDD notation N is never a suffix, and M only when it is not a digit of the radix
        if t[-1] == "M" and rdx <= 22:
            suffix, digits = "M", t[:-1]
    elif t[-1] in "NM":
        suffix, digits = t[-1], t[:-1]
    if clj and digits.lower().startswith("0x"):
        radix, digits = 16, digits[2:]
    elif clj and "r" in digits.lower():
        i = digits.lower().index("r")
        radix, digits = int(digits[:i]), digits[i + 1:]
    elif clj and len(digits) > 1 and digits[0] == "0":
        radix = 8
    shown = clean(digits).encode()
    if suffix == "M":
        return "bigdec:%d:%s" % (int(neg), hx(shown))
    if suffix == "N":
        return "bigint:%d:%d:%s" % (int(neg), radix, hx(shown))
    v = int(clean(digits), radix)
    sv = -v if neg else v
    if I64_MIN <= sv <= I64_MAX:
        return "int:%d" % sv
    return "bigint:%d:%d:%s" % (int(neg), radix, hx(shown))


def expect_int64(digits, radix, neg, exp):
    s = digits.replace("_", "") if exp else digits
    v = int(s, radix) if s else 0
    if neg:
        return "OK %d" % (-v) if v <= 2 ** 63 else "OVERFLOW"
    return "OK %d" % v if v <= I64_MAX else "OVERFLOW"


def kind_of_text(t):
    """coarse kind of a value text (for narrow violation classes)"""
    t = t.strip()
    if b"/" in t and t.replace(b"/", b"").replace(b"-", b"").isdigit():
        n, d = t.lstrip(b"-").split(b"/")
        return "bigratio" if (int(n) > 2 ** 63 or int(d) >= 2 ** 63) else "ratio"
    return "other"


# ------------------------------------------------------------------ float oracle
import struct


def expect_float_bits(text, exp):
    t = text.replace("_", "") if exp else text
    try:
        v = float(t)
    except (ValueError, OverflowError):
        return None
    u = struct.unpack(">Q", struct.pack(">d", v))[0]
    return "%016x" % u


# ------------------------------------------------------------------ string unescape oracle
def unescape(raw, clj):
    """decoded bytes of a string literal body, or None when it contains an escape the
    configuration does not define"""
    out = bytearray()
    i, n = 0, len(raw)
    while i < n:
        c = raw[i]
        if c != 0x5C:
            out.append(c)
            i += 1
            continue
        i += 1
        if i >= n:
            return None
        e = raw[i]
        i += 1
        simple = {0x22: 0x22, 0x5C: 0x5C, 0x6E: 0x0A, 0x74: 0x09, 0x72: 0x0D}
        if e in simple:
            out.append(simple[e])
        elif clj and e == 0x66:
            out.append(0x0C)
        elif clj and e == 0x62:
            out.append(0x08)
        elif clj and e == 0x75:
            h = raw[i:i + 4]
            if len(h) < 4 or any(ch not in b"0123456789abcdefABCDEF" for ch in h):
                return None
            cp = int(h, 16)
            i += 4
            if 0xD800 <= cp <= 0xDFFF:
                return None
            out += chr(cp).encode("utf-8")
        elif clj and 0x30 <= e <= 0x37:
            v = e - 0x30
            for _ in range(2):
                if i < n and 0x30 <= raw[i] <= 0x37 and v * 8 + raw[i] - 0x30 <= 255:
                    v = v * 8 + raw[i] - 0x30
                    i += 1
                else:
                    break
            out.append(v)
        else:
            return None
    return bytes(out)


# ------------------------------------------------------------------ positions
def line_col(buf, off):
    before = buf[:off]
    line = 1 + before.count(b"\n")
    last = before.rfind(b"\n")
    return line, off - last


def crash_class(obs):
    m = re.search(r"(runtime error: [a-z -]+|AddressSanitizer: [A-Za-z-]+|LeakSanitizer|TIMEOUT|rc=-?\d+)", obs)
    return (m.group(1) if m else "crash").replace(" ", "-")[:60]


# ------------------------------------------------------------------ tag dispatch oracle
HANDLERS = {"inst": 0, "uuid": 1, "fail": 2, "nomsg": 3, "my/tag": 4, "x": 5}


def strip_for_dispatch(obs):
    """value text without ranges + handler id sequence, or error class (+handler message)"""
    so = split_obs(obs)
    if so[0] == "OK":
        calls = re.findall(r":h(\d+)@", so[2])
        return "OK " + re.sub(r"@\d+-\d+", "", so[1]) + " calls=" + ",".join(calls)
    if so[0] == "ERR":
        calls = re.findall(r":h(\d+)@", so[5])
        return "ERR %s %s calls=%s" % (so[1], so[2] if so[2].startswith("hmsg") else "msg", ",".join(calls))
    return obs


def dispatch_oracle(plain_dump, reg, mode):
    """expected observation under a registry, from the registry-free reading of the same text"""
    root = parse_dump(plain_dump)
    table = {} if reg == "+" else dict((k, int(v)) for k, v in (it.rsplit(":", 1) for it in reg.split(",")))
    calls = []

    class Fail(Exception):
        pass

    def text(n):
        # children first (inner tags first), in document order
        if n.kind == "tag":
            tag = bytes.fromhex(n.text).decode()
            inner = text(n.kids[0])
            if tag in table:
                h = table[tag]
                calls.append(str(h))
                if h == 0:
                    out = inner
                elif h == 1:
                    out = "(vec " + inner + ")"
                elif h == 2:
                    raise Fail("ERR INVALID_SYNTAX hmsg:626f6f6d")
                elif h == 3:
                    raise Fail("ERR INVALID_SYNTAX msg")
                elif h == 4:
                    out = "ext:7:42"
                else:
                    out = "kw:~:7265706c61636564"
                return out
            if mode == 1:
                return inner
            if mode == 2:
                raise Fail("ERR UNKNOWN_TAG msg")
            return "(tag:%s %s)" % (n.text, inner) + meta_text(n)
        if n.kids or n.kind in ("list", "vec", "map", "set"):
            return "(" + n.kind + "".join(" " + text(k) for k in n.kids) + ")" + meta_text(n)
        return n.kind + ((":" + n.text) if (n.text != "" or n.kind not in ("nil", "true", "false")) else "") + meta_text(n)

    def meta_text(n):
        return ("^" + text(n.meta)) if n.meta is not None else ""

    try:
        t = text(root)
        return "OK " + t + " calls=" + ",".join(calls)
    except Fail as f:
        return str(f) + " calls=" + ",".join(calls)


# ------------------------------------------------------------------ text block reference
def textblock_ref(body):
    """documented algorithm on the bytes after the opening delimiter line: returns the string
    or None when the block is not terminated.  body = everything after '\"\"\"\\n'."""
    # split into lines up to the first unescaped closing delimiter
    lines = []          # (ws, content, has_newline, terminal)
    i, n = 0, len(body)
    cur_start = 0
    while True:
        # scan one line
        j = cur_start
        while j < n and body[j] in b" \t":
            j += 1
        ws = body[cur_start:j]
        k = j
        term = None
        while k < n:
            if body[k:k + 4] == b'\\"""' and k + 3 < n:
                k += 4
                continue
            if body[k:k + 3] == b'"""':
                term = True
                break
            if body[k] == 0x0A:
                term = False
                break
            k += 1
        if term is None:
            return None
        content = body[j:k]
        lines.append((ws, content, not term, term))
        if term:
            end = k + 3
            break
        cur_start = k + 1
        if cur_start >= n:
            return None
    inds = [len(ws) for (ws, c, nl, t) in lines if c or t]
    lwp = min(inds) if inds else 0
    out = bytearray()
    for (ws, c, nl, t) in lines:
        if c:
            body_ = c.rstrip(b" \t")
            out += ws[min(lwp, len(ws)):]
            out += body_.replace(b'\\"""', b'"""')
        if nl:
            out += b"\n"
    return bytes(out), end
