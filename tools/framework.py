#!/usr/bin/env python3
"""framework.py -- common machinery of the per-property checks: proof obligations (Coq),
correspondence (implementation vs extracted model), property oracles on the implementation,
known findings, replay files, evidence files."""
import hashlib, json, os, re, subprocess, sys, time

ROOT = os.path.dirname(os.path.dirname(os.path.abspath(__file__)))
sys.path.insert(0, os.path.join(ROOT, "tools"))
import build  # noqa: E402
import run as runner  # noqa: E402

COQ = os.path.join(ROOT, "coq")
EVID = os.path.join(ROOT, "evidence")
REPLAY = os.path.join(EVID, "replay")
CFGS = ["00", "10", "01", "11"]

TRUSTED_BASE = [
    "Coq 8.16.1 kernel (vm_compute conversion used; no native_compute)",
    "tools/c2v.py translator and clang 14 AST/preprocessor output it consumes",
    "Base/Lanes.v: per-lane semantics of the SSE2 intrinsics and C integer conversions",
    "extraction (ExtrOcamlBasic directives only) + OCaml 4.13 + extract/driver.ml",
    "harness/*.c, tools/*.py (generators, oracles, differ), gcc 12 / clang 14, glibc strtod/qsort/malloc",
    "hand-written Model/*.v is tied to the C code by differential testing, not by proof",
]


class Violation:
    def __init__(self, kind, case, detail, cfg="00"):
        self.kind = kind        # narrow class of the failure (used to match known findings)
        self.case = case        # replayable input line / script
        self.detail = detail
        self.cfg = cfg


class Result:
    def __init__(self, pid, tier, seed):
        self.pid, self.tier, self.seed = pid, tier, seed
        self.t0 = time.time()
        self.violations = []        # concrete failing inputs on the implementation
        self.corr_breaks = []       # implementation != model (no property failure shown)
        self.evaluations = 0
        self.nontrivial = set()
        self.samples = []
        self.traces = 0
        self.distribution = {}
        self.notes = []
        self.rule = ""
        self.exhaustive = False

    def count(self, key, n=1):
        self.distribution[key] = self.distribution.get(key, 0) + n

    def sample(self, x):
        if len(self.samples) < 6:
            self.samples.append(x)


# ------------------------------------------------------------------------ Coq obligations
STMT_RE = re.compile(r"^\s*(Theorem|Lemma|Corollary|Example|Fact|Remark)\s+([A-Za-z0-9_']+)", re.M)


def coq_deps(vfile):
    """transitive local dependencies (Proofs/ and Props/ files only) of a .v file"""
    seen, todo = set(), [vfile]
    while todo:
        f = todo.pop()
        if f in seen:
            continue
        seen.add(f)
        txt = open(os.path.join(COQ, f)).read()
        for m in re.finditer(r"From Verif Require (?:Import |Export )?([^.]*)\.", txt):
            for name in m.group(1).split():
                for d in ("Proofs", "Props", "Model", "Base", "Gen"):
                    p = os.path.join(d, name + ".v")
                    if os.path.exists(os.path.join(COQ, p)):
                        todo.append(p)
    return sorted(seen)


def obligations(pid):
    """(obligations, discharged, assumptions text, failures, names) for Props/Properties_<pid>.v"""
    prop = os.path.join("Props", "Properties_%s.v" % pid)
    if not os.path.exists(os.path.join(COQ, prop)):
        return 0, 0, "", ["no property file"], []
    files = [f for f in coq_deps(prop) if f.startswith(("Proofs/", "Props/"))]
    # force recompilation of the property file so that Print Assumptions output is fresh
    vo = os.path.join(COQ, prop[:-2] + ".vo")
    if os.path.exists(vo):
        os.remove(vo)
    rc, out = build.sh(["timeout", "1800", "make", "-k", "-j16", prop[:-2] + ".vo"], cwd=COQ)
    total = done = 0
    fails = []
    names = []
    for f in files:
        stmts = STMT_RE.findall(open(os.path.join(COQ, f)).read())
        total += len(stmts)
        if os.path.exists(os.path.join(COQ, f[:-2] + ".vo")):
            done += len(stmts)
            if f == prop:
                names = [n for _, n in stmts]
        else:
            m = re.search(r'File "\./%s", line (\d+)[^\n]*\n((?:.*\n){0,12})' % re.escape(f), out)
            fails.append("%s does not compile%s" % (f, (": line %s: %s" % (m.group(1), m.group(2).strip()[:400])) if m else ""))
    # Gen translation failure is an obligation failure too
    assumptions = "\n".join(l for l in out.split("\n") if l.startswith(("Closed under", "Axioms:", "  ")) or
                            re.match(r"^[A-Za-z_.]+ :", l))
    return total, done, assumptions.strip(), fails, names


def grep_forbidden():
    bad = []
    pat = re.compile(r"\b(Admitted|admit|Axiom|Parameter|Conjecture|Unset Guard|bypass_check|Admit Obligations)\b")
    for d, _, fs in os.walk(COQ):
        if "/Gen" in d:
            continue
        for f in fs:
            if f.endswith(".v"):
                for i, line in enumerate(open(os.path.join(d, f))):
                    code = re.sub(r"\(\*.*?\*\)", "", line)
                    if pat.search(code):
                        bad.append("%s:%d: %s" % (os.path.join(d, f), i + 1, line.strip()))
    return bad


# ------------------------------------------------------------------------ known findings
def load_known():
    p = os.path.join(ROOT, "known_findings.json")
    if not os.path.exists(p):
        return []
    return json.load(open(p)).get("findings", [])


def match_known(pid, v, known):
    for k in known:
        if k.get("status") != "known":
            continue
        if k["property"] == pid and k["kind"] == v.kind:
            return k
    return None


# ------------------------------------------------------------------------ finishing a run
def write_replay(pid, idx, payload):
    os.makedirs(REPLAY, exist_ok=True)
    p = os.path.join(REPLAY, "%s-%d.json" % (pid, idx))
    json.dump(payload, open(p, "w"), indent=1)
    return p


def finish(res, level_note_extra=None):
    pid = res.pid
    total, done, assumptions, fails, names = obligations(pid)
    forbidden = grep_forbidden()
    if res.tier == "thorough" and done == total and total > 0:
        # independent re-check of the compiled property file and everything it depends on
        rc, out = build.sh(["timeout", "3000", "coqchk", "-silent", "-o", "-Q", ".", "Verif",
                            "Verif.Props.Properties_%s" % pid], cwd=COQ, timeout=3100)
        summary = out[out.find("CONTEXT SUMMARY"):][:3000] if "CONTEXT SUMMARY" in out else out[-1500:]
        res.notes.append("coqchk rc=%d: %s" % (rc, " ".join(summary.split())[:1500]))
        if rc != 0:
            fails.append("coqchk rejects Properties_%s: %s" % (pid, out[-400:]))
    known = load_known()
    unlisted = []
    printed_known = set()
    for v in res.violations:
        k = match_known(pid, v, known)
        if k:
            if k["id"] not in printed_known:
                print("KNOWN-FINDING: property=%s %s (e.g. %s)" % (pid, k["what"], v.case[:120]))
                printed_known.add(k["id"])
        else:
            unlisted.append(v)
    exit_code = 0
    nviol = 0
    shown = set()
    for v in unlisted:
        if v.kind in shown:
            continue
        shown.add(v.kind)
        nviol += 1
        path = write_replay(pid, nviol, {"property": pid, "kind": v.kind, "cfg": v.cfg, "case": v.case,
                                         "detail": v.detail,
                                         "how_to_replay": "echo '<case>' | _build/harness/h<cfg>_san   (after tools/build.py)"})
        print("VIOLATION property=%s replay=%s" % (pid, path))
        exit_code = 1
    if not unlisted:
        broken = []
        if fails:
            broken += fails
        if done < total:
            broken.append("%d of %d proof obligations not discharged" % (total - done, total))
        if forbidden:
            broken.append("forbidden vernacular: " + "; ".join(forbidden[:3]))
        if getattr(res, "gen_failure", None):
            broken.append("the translator could not regenerate coq/Gen from the current source, the theorems were checked against the previous model: " + res.gen_failure)
        if res.corr_breaks:
            broken.append("correspondence: implementation and model disagree on %d cases, e.g. %s" % (
                len(res.corr_breaks), json.dumps(res.corr_breaks[0])[:600]))
        if total == 0:
            broken.append("no proof obligations found for this property")
        if broken:
            nviol += 1
            path = write_replay(pid, nviol, {"property": pid, "no_failing_input_found": True,
                                             "broken": broken,
                                             "correspondence_examples": res.corr_breaks[:5]})
            print("VIOLATION property=%s replay=%s no-failing-input-found" % (pid, path))
            exit_code = 1
    ev = {
        "property_id": pid, "tier": res.tier, "seed": res.seed, "level": "proof",
        "coverage": {
            "obligations": max(total, 1), "discharged": done,
            "checker_cmd": "cd coq && make -k -j16 Props/Properties_%s.vo   (coqc 8.16.1; full .vo build)" % pid,
            "trusted_base": TRUSTED_BASE,
            "theorems": names,
            "evaluations": res.evaluations,
            "distinct_nontrivial": len(res.nontrivial),
            "rule": res.rule,
            "samples": res.samples or ["(none)"],
            "traces_validated_against_impl": res.traces,
            "input_distribution": res.distribution,
            "correspondence_disagreements": len(res.corr_breaks),
            "exhaustive": res.exhaustive,
            "notes": res.notes,
        },
        "assumptions": [a for a in assumptions.split("\n") if a.strip()][:60] or ["(Print Assumptions output not captured)"],
        "wall_s": round(time.time() - res.t0, 1),
        "violations": nviol,
    }
    os.makedirs(EVID, exist_ok=True)
    json.dump(ev, open(os.path.join(EVID, "%s.json" % pid), "w"), indent=1)
    print("%s: obligations %d/%d, cases %d (nontrivial %d), model-vs-impl traces %d, disagreements %d, violations %d, %.0fs" % (
        pid, done, total, res.evaluations, len(res.nontrivial), res.traces, len(res.corr_breaks), nviol,
        time.time() - res.t0))
    return exit_code


# ------------------------------------------------------------------------ correspondence helper
def correspond(res, cfg, kind, lines, guard=False, project=None, jobs=8, label=""):
    """run lines on implementation and model; record disagreements; returns (impl, model)"""
    impl, model = runner.run_both(cfg, kind, lines, guard=guard, jobs=jobs)
    for ln, a, b in zip(lines, impl, model):
        res.evaluations += 1
        res.traces += 1
        pa, pb = (project(a), project(b)) if project else (a, b)
        if pa != pb:
            res.corr_breaks.append({"cfg": cfg, "build": kind, "case": ln[:2000], "impl": a[:1500], "model": b[:1500],
                                    "suite": label})
    return impl, model


def strip_ranges(s):
    return re.sub(r"@\d+-\d+", "", s)


def is_crash(obs):
    return obs.startswith("CRASH") or " !! " in obs or obs.startswith("MISSING")
