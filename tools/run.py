#!/usr/bin/env python3
"""run.py -- run case lines through the C harness (implementation) and the extracted
OCaml driver (model), line for line, surviving crashes of the implementation."""
import os, subprocess, sys, tempfile

ROOT = os.path.dirname(os.path.dirname(os.path.abspath(__file__)))
BUILD = os.path.join(ROOT, "_build")


def harness(cfg, kind):
    return os.path.join(BUILD, "harness", "h%s_%s" % (cfg, kind))


def driver():
    return os.path.join(BUILD, "ocaml", "driver")


SAN_ENV = {"ASAN_OPTIONS": "detect_leaks=1:abort_on_error=0:exitcode=99:allocator_may_return_null=1:strict_string_checks=1",
           "UBSAN_OPTIONS": "print_stacktrace=0:halt_on_error=1:exitcode=98",
           "LSAN_OPTIONS": "exitcode=97", "MSAN_OPTIONS": "exitcode=95"}


def run_proc(cmd, lines, timeout, env_extra=None, limit_cpu=None, limit_mem=None):
    env = dict(os.environ)
    if env_extra:
        env.update(env_extra)
    data = ("\n".join(lines) + "\n").encode()
    pre = None
    if limit_cpu or limit_mem:
        import resource

        def pre():
            if limit_cpu:
                resource.setrlimit(resource.RLIMIT_CPU, (limit_cpu, limit_cpu + 1))
            if limit_mem:
                resource.setrlimit(resource.RLIMIT_AS, (limit_mem, limit_mem))
    try:
        p = subprocess.run(cmd, input=data, stdout=subprocess.PIPE, stderr=subprocess.PIPE, timeout=timeout,
                           env=env, preexec_fn=pre)
        return p.returncode, p.stdout.decode(errors="replace").split("\n"), p.stderr.decode(errors="replace")
    except subprocess.TimeoutExpired as ex:
        out = (ex.stdout or b"").decode(errors="replace").split("\n")
        return -999, out, "TIMEOUT"


def run_impl(cfg, kind, lines, guard=False, timeout=120, per_case_cpu=20, extra_args=(), extra_env=None, max_crashes=None):
    """returns list of observation strings, one per input line; a crashed/hung case yields
    'CRASH <rc> <first line of the report>' and the batch resumes after it"""
    out = []
    cmd = [harness(cfg, kind)] + (["--guard"] if guard else []) + list(extra_args)
    if kind == "fail":
        env_fail = dict(SAN_ENV)
        env_fail["ASAN_OPTIONS"] = SAN_ENV["ASAN_OPTIONS"] + ":detect_stack_use_after_return=1"
    else:
        env_fail = SAN_ENV
    if extra_env:
        env_fail = dict(env_fail)
        env_fail.update(extra_env)
    i = 0
    n = len(lines)
    while i < n:
        rc, got, err = run_proc(cmd, lines[i:], timeout, env_fail, limit_cpu=max(per_case_cpu, 60))
        if got and got[-1] == "":
            got = got[:-1]
        complete = got if rc == 0 else got[:len(got)]
        if rc == 0 and len(got) == n - i:
            out.extend(got)
            break
        # crashed (or leaked, reported at exit) somewhere
        done = len(got)
        if rc == 0:
            out.extend(got)
            out.extend(["MISSING"] * (n - i - done))
            break
        if done >= n - i:
            # all lines answered, failure reported at exit (leak): attribute by bisection
            out.extend(got[:n - i])
            leak = "EXITFAIL rc=%d %s" % (rc, summarize(err))
            culprit = bisect_exit_failure(cmd, lines[i:], timeout)
            if culprit is not None:
                out[i + culprit] = out[i + culprit] + " !! " + leak
            else:
                out[-1] = out[-1] + " !! " + leak
            break
        out.extend(got[:done])
        out.append("CRASH rc=%d %s" % (rc, summarize(err)))
        i += done + 1
        if max_crashes is not None:
            max_crashes -= 1
            if max_crashes <= 0:
                out.extend(["SKIPPED-AFTER-CRASH"] * (n - i))
                break
    return out


def bisect_exit_failure(cmd, lines, timeout):
    """find one line whose presence alone makes the process fail at exit"""
    idx = list(range(len(lines)))
    if len(idx) > 4000:
        return None
    while len(idx) > 1:
        half = idx[:len(idx) // 2]
        rc, _, _ = run_proc(cmd, [lines[k] for k in half], timeout, SAN_ENV)
        if rc != 0:
            idx = half
        else:
            idx = idx[len(idx) // 2:]
    rc, _, _ = run_proc(cmd, [lines[idx[0]]], timeout, SAN_ENV)
    return idx[0] if rc != 0 else None


def summarize(err):
    for ln in err.split("\n"):
        if "runtime error" in ln or "ERROR: AddressSanitizer" in ln or "ERROR: LeakSanitizer" in ln or "MemorySanitizer" in ln \
                or "SUMMARY" in ln or "TIMEOUT" in ln:
            return ln.strip()[:200]
    return (err.strip().split("\n") or [""])[0][:200]


def run_model(cfg, lines, timeout=600):
    """the model is a pure function: a wall-clock timeout only says the machine was busy, so the cases not answered
    yet are run again with twice the time (three rounds) before the run counts as failed"""
    got, t, rc, err = [], timeout, 0, ""
    for _ in range(3):
        rc, out, err = run_proc([driver(), cfg], lines[len(got):], t, limit_mem=6 << 30)
        if rc == -999:
            out = out[:-1]          # "" after the last complete line, or a partial line
            got += out
            t *= 2
            continue
        if out and out[-1] == "":
            out = out[:-1]
        got += out
        break
    if rc != 0 or len(got) != len(lines):
        got = got + ["MODELFAIL rc=%s %s" % (rc, err[:200])] * (len(lines) - len(got))
    return got


def shard(lines, k):
    n = max(1, (len(lines) + k - 1) // k)
    return [lines[i:i + n] for i in range(0, len(lines), n)]


def run_both(cfg, kind, lines, guard=False, jobs=8):
    """parallel over round-robin shards (so that a run of heavy cases is spread over all workers);
    returns (impl_obs, model_obs) in input order"""
    from concurrent.futures import ThreadPoolExecutor
    jobs = max(1, min(jobs, len(lines) or 1))
    parts = [lines[i::jobs] for i in range(jobs)]
    with ThreadPoolExecutor(jobs * 2) as ex:
        fi = [ex.submit(run_impl, cfg, kind, p, guard) for p in parts]
        fm = [ex.submit(run_model, cfg, p) for p in parts]
        ri = [f.result() for f in fi]
        rm = [f.result() for f in fm]
    impl = [None] * len(lines)
    model = [None] * len(lines)
    for k in range(jobs):
        for j, (a, b) in enumerate(zip(ri[k], rm[k])):
            impl[k + j * jobs] = a
            model[k + j * jobs] = b
    return impl, model


if __name__ == "__main__":
    cfg, kind = sys.argv[1], sys.argv[2]
    lines = [l.rstrip("\n") for l in sys.stdin]
    a, b = run_both(cfg, kind, lines)
    bad = 0
    for l, x, y in zip(lines, a, b):
        if x != y:
            bad += 1
            if bad <= 20:
                print("CASE", l[:300])
                print("  impl ", x[:600])
                print("  model", y[:600])
    print("cases=%d disagreements=%d" % (len(lines), bad))
