#!/usr/bin/env python3
"""c2v.py -- translator /repo (C11) -> coq/Gen/*.v   (run at the start of every check)

What it emits (all regenerated from the working tree, never edited by hand):
  * lookup tables and #define/enum/sizeof constants, obtained by compiling tiny probe
    programs that #include the repository's own .c files (so designated initialisers,
    #ifdef regions and enum numbering are resolved by the compiler, per flag set);
  * byte-class predicates and SSE lane predicates, translated from clang's typed AST
    (-ast-dump=json) expression trees into Gallina over Z;
  * straight-line integer leaf functions (SWAR digit check / conversion, digit_value);
  * syntactic audit lists (vector loads with their dominating guard, file-scope mutable
    objects, table subscripts with the static type of the index, string-escape labels).
Anything outside the supported subset raises TranslateError: the caller reports that as a
broken obligation, never as "holds".
"""
import hashlib, json, os, re, subprocess, sys, tempfile
from concurrent.futures import ThreadPoolExecutor

REPO = os.environ.get("VERIF_REPO", "/repo")
HERE = os.path.dirname(os.path.abspath(__file__))
ROOT = os.path.dirname(HERE)
GEN = os.path.join(ROOT, "coq", "Gen")
CACHE = os.path.join(ROOT, "_build", "c2v")

CFGS = {"00": [], "10": ["-DEDN_ENABLE_CLOJURE_EXTENSION"],
        "01": ["-DEDN_ENABLE_EXPERIMENTAL_EXTENSION"],
        "11": ["-DEDN_ENABLE_CLOJURE_EXTENSION", "-DEDN_ENABLE_EXPERIMENTAL_EXTENSION"]}
CC_BASE = ["-std=c11", "-msse4.2", "-I%s/include" % REPO, "-I%s/src" % REPO]


class TranslateError(Exception):
    pass


# ----------------------------------------------------------------------------- clang AST
def run(cmd, **kw):
    return subprocess.run(cmd, stdout=subprocess.PIPE, stderr=subprocess.PIPE, **kw)


def ast_of(cfg, src, fn):
    cmd = ["clang"] + CC_BASE + CFGS[cfg] + ["-fsyntax-only", "-Xclang", "-ast-dump=json",
                                             "-Xclang", "-ast-dump-filter=" + fn,
                                             os.path.join(REPO, "src", src)]
    r = run(cmd)
    if r.returncode != 0:
        raise TranslateError("clang failed on %s (%s): %s" % (src, cfg, r.stderr.decode()[-400:]))
    s = r.stdout.decode()
    dec = json.JSONDecoder()
    i = 0
    best = None
    while i < len(s):
        while i < len(s) and s[i].isspace():
            i += 1
        if i >= len(s):
            break
        d, i = dec.raw_decode(s, i)
        if d.get("kind") == "FunctionDecl" and d.get("name") == fn and \
                any(c.get("kind") == "CompoundStmt" for c in d.get("inner", [])):
            best = d
    return best


def kids(n):
    return n.get("inner", []) or []


def walk(n):
    yield n
    for c in kids(n):
        yield from walk(c)


def body_of(fd):
    for c in kids(fd):
        if c.get("kind") == "CompoundStmt":
            return c
    raise TranslateError("no body for " + fd.get("name", "?"))


def params_of(fd):
    return [c for c in kids(fd) if c.get("kind") == "ParmVarDecl"]


def qt(n):
    return (n.get("type") or {}).get("qualType", "")


def desug(n):
    t = n.get("type") or {}
    return t.get("desugaredQualType", t.get("qualType", ""))


# ------------------------------------------------------------------------- C types
INT_TYPES = {
    "char": (8, True), "signed char": (8, True), "unsigned char": (8, False),
    "short": (16, True), "unsigned short": (16, False),
    "int": (32, True), "unsigned int": (32, False),
    "long": (64, True), "unsigned long": (64, False),
    "long long": (64, True), "unsigned long long": (64, False),
    "_Bool": (1, False), "bool": (1, False),
    "int8_t": (8, True), "uint8_t": (8, False), "int16_t": (16, True), "uint16_t": (16, False),
    "int32_t": (32, True), "uint32_t": (32, False), "int64_t": (64, True),
    "uint64_t": (64, False), "size_t": (64, False), "uintptr_t": (64, False),
}


def ctype(qualtype):
    t = qualtype.replace("const ", "").replace("volatile ", "").strip()
    if t in INT_TYPES:
        return INT_TYPES[t]
    return None


def sanitize(name):
    if name in ("end", "in", "at", "as", "fun", "let", "match", "with", "if", "then", "else",
                "return", "type", "mod", "val"):
        return name + "_"
    return name


INTRINSICS = {"_mm_add_epi8": "add8", "_mm_cmpeq_epi8": "cmpeq8", "_mm_cmpgt_epi8": "cmpgt8",
              "_mm_cmplt_epi8": "cmplt8", "_mm_and_si128": "and8", "_mm_or_si128": "or8",
              "_mm_set1_epi8": "set1_8"}


class Tr:
    """expression translator: clang JSON expression -> Gallina term over Z (or bool)"""

    def __init__(self, tables=(), lane_var=None, enumvals=None):
        self.tables = set(tables)
        self.lane_var = lane_var
        self.enumvals = enumvals or {}

    def lit(self, v):
        v = int(v)
        return str(v) if v >= 0 else "(%d)" % v

    def callee(self, n):
        for x in walk(kids(n)[0]):
            if x.get("kind") == "DeclRefExpr":
                return x["referencedDecl"]["name"]
        raise TranslateError("indirect call")

    def cast(self, inner_term, from_t, to_t):
        f, t = ctype(from_t), ctype(to_t)
        if t is None:
            raise TranslateError("cast to unsupported type %r" % to_t)
        if f is None:
            raise TranslateError("cast from unsupported type %r" % from_t)
        (fb, fs), (tb, ts) = f, t
        if tb == 1:
            return "(b2z (z2b %s))" % inner_term
        if (fs == ts and tb >= fb) or (not fs and ts and tb > fb):
            return inner_term
        if ts:
            return "(wrapS %d %s)" % (tb, inner_term)
        return "(wrapU %d %s)" % (tb, inner_term)

    def z(self, n):
        k = n.get("kind")
        if k in ("ParenExpr", "ConstantExpr"):
            return self.z(kids(n)[0])
        if k == "IntegerLiteral":
            return self.lit(n["value"])
        if k == "CharacterLiteral":
            return self.lit(n["value"])
        if k == "DeclRefExpr":
            rd = n["referencedDecl"]
            if rd.get("kind") == "EnumConstantDecl":
                if rd["name"] in self.enumvals:
                    return self.lit(self.enumvals[rd["name"]])
                raise TranslateError("unknown enum constant " + rd["name"])
            return sanitize(rd["name"])
        if k in ("ImplicitCastExpr", "CStyleCastExpr"):
            ck = n.get("castKind")
            inner = kids(n)[-1]
            if ck in ("LValueToRValue", "NoOp", "FunctionToPointerDecay", "ArrayToPointerDecay",
                      "BuiltinFnToFnPtr", "BitCast"):
                return self.z(inner)
            if ck == "IntegralCast":
                return self.cast(self.z(inner), desug(inner), desug(n))
            if ck == "IntegralToBoolean":
                return "(b2z (z2b %s))" % self.z(inner)
            raise TranslateError("unsupported cast kind %s" % ck)
        if k == "UnaryOperator":
            op = n["opcode"]
            a = kids(n)[0]
            if op == "-":
                return "(- %s)" % self.z(a)
            if op == "+":
                return self.z(a)
            if op == "~":
                t = ctype(desug(n))
                if t and not t[1]:
                    return "(wrapU %d (Z.lnot %s))" % (t[0], self.z(a))
                return "(Z.lnot %s)" % self.z(a)
            if op == "!":
                return "(b2z (negb %s))" % self.b(a)
            raise TranslateError("unsupported unary %s" % op)
        if k == "BinaryOperator":
            op = n["opcode"]
            l, r = kids(n)
            if op in ("==", "!=", "<", "<=", ">", ">=", "&&", "||"):
                return "(b2z %s)" % self.b(n)
            t = ctype(desug(n))
            if t is None:
                raise TranslateError("arithmetic at unsupported type %r" % desug(n))
            bits, signed = t
            a, b = self.z(l), self.z(r)
            core = {"+": "(%s + %s)", "-": "(%s - %s)", "*": "(%s * %s)",
                    "&": "(Z.land %s %s)", "|": "(Z.lor %s %s)", "^": "(Z.lxor %s %s)",
                    "<<": "(Z.shiftl %s %s)", ">>": "(Z.shiftr %s %s)",
                    "/": "(Z.quot %s %s)", "%": "(Z.rem %s %s)"}.get(op)
            if core is None:
                raise TranslateError("unsupported binary %s" % op)
            e = core % (a, b)
            if not signed and op in ("+", "-", "*", "<<"):
                e = "(wrapU %d %s)" % (bits, e)
            return e
        if k == "ConditionalOperator":
            c, a, b = kids(n)
            return "(if %s then %s else %s)" % (self.b(c), self.z(a), self.z(b))
        if k == "CallExpr":
            f = self.callee(n)
            args = kids(n)[1:]
            if f in INTRINSICS:
                return "(%s %s)" % (INTRINSICS[f], " ".join(self.z(a) for a in args))
            if f == "_mm_loadu_si128":
                if self.lane_var is None:
                    raise TranslateError("vector load outside lane context")
                return self.lane_var
            raise TranslateError("unsupported call %s" % f)
        if k == "ArraySubscriptExpr":
            base, idx = kids(n)
            name = None
            for x in walk(base):
                if x.get("kind") == "DeclRefExpr":
                    name = x["referencedDecl"]["name"]
            if name in self.tables:
                return "(nthz %s %s)" % (name, self.z(idx))
            raise TranslateError("subscript of non-table %s" % name)
        raise TranslateError("unsupported expression kind %s" % k)

    def b(self, n):
        k = n.get("kind")
        if k in ("ParenExpr", "ConstantExpr"):
            return self.b(kids(n)[0])
        if k == "BinaryOperator":
            op = n["opcode"]
            l, r = kids(n)
            if op == "&&":
                return "(%s && %s)" % (self.b(l), self.b(r))
            if op == "||":
                return "(%s || %s)" % (self.b(l), self.b(r))
            cmp_ = {"==": "(%s =? %s)", "!=": "(negb (%s =? %s))", "<": "(%s <? %s)",
                    "<=": "(%s <=? %s)", ">": "(%s >? %s)", ">=": "(%s >=? %s)"}.get(op)
            if cmp_:
                return cmp_ % (self.z(l), self.z(r))
        if k == "UnaryOperator" and n["opcode"] == "!":
            return "(negb %s)" % self.b(kids(n)[0])
        if k in ("ImplicitCastExpr", "CStyleCastExpr") and n.get("castKind") in (
                "LValueToRValue", "NoOp", "IntegralCast", "IntegralToBoolean") and \
                kids(n)[-1].get("kind") in ("BinaryOperator", "ParenExpr", "UnaryOperator"):
            # int <- comparison wrappers
            inner = kids(n)[-1]
            if inner.get("kind") != "BinaryOperator" or inner["opcode"] in (
                    "==", "!=", "<", "<=", ">", ">=", "&&", "||"):
                return self.b(inner)
        return "(z2b %s)" % self.z(n)


def refs(n):
    out = set()
    for x in walk(n):
        if x.get("kind") == "DeclRefExpr" and x["referencedDecl"].get("kind") in (
                "VarDecl", "ParmVarDecl"):
            out.add(x["referencedDecl"]["name"])
    return out


def has_kind(n, kinds):
    return any(x.get("kind") in kinds for x in walk(n))


def var_decl_type(fd, name):
    for x in walk(fd):
        if x.get("kind") in ("VarDecl", "ParmVarDecl") and x.get("name") == name:
            return desug(x)
    raise TranslateError("no declaration of %s" % name)


def byte_conditions(fd, var):
    """IfStmt / return conditions over the single byte variable `var`, in source order"""
    out = []
    for x in walk(body_of(fd)):
        if x.get("kind") == "IfStmt":
            cond = kids(x)[0]
            if refs(cond) == {var} and not has_kind(cond, ("CallExpr", "ArraySubscriptExpr",
                                                           "MemberExpr")):
                derefs = [u for u in walk(cond) if u.get("kind") == "UnaryOperator"
                          and u.get("opcode") == "*"]
                if not derefs:
                    out.append(cond)
    return out


def byte_pred(name, fd, var, conds, negate=False, comment=""):
    """Definition name (b:Z) : bool, b the unsigned byte; var bound per its declared C type"""
    t = ctype(var_decl_type(fd, var))
    if t is None or t[0] != 8:
        raise TranslateError("%s: variable %s is not a byte type" % (name, var))
    bind = "sgn8 b" if t[1] else "b"
    tr = Tr()
    term = " || ".join(tr.b(c) for c in conds)
    if negate:
        term = "negb (%s)" % term
    return "(* %s *)\nDefinition %s (b : Z) : bool :=\n  let %s := %s in %s.\n" % (
        comment, name, sanitize(var), bind, term)



def deref_assignments(fd, pname):
    """right-hand sides of `*pname = rhs` in source order"""
    out = []
    for x in walk(body_of(fd)):
        if x.get("kind") == "BinaryOperator" and x.get("opcode") == "=":
            l, r = kids(x)
            if l.get("kind") == "UnaryOperator" and l.get("opcode") == "*" and refs(l) == {pname}:
                out.append(r)
    return out


def flag_expr(name, fd, rhs, comment):
    vs = sorted(refs(rhs))
    allowed = ["has_backslash", "bs_mask", "quote_mask", "special_mask", "idx"]
    for v in vs:
        if v not in allowed:
            raise TranslateError("%s: unexpected variable %s in flag expression" % (name, v))
    return "(* %s *)\nDefinition %s %s : bool :=\n  %s.\n" % (
        comment, name, " ".join("(%s : Z)" % sanitize(v) for v in allowed), Tr().b(rhs))

# ------------------------------------------------------------------- lane predicates
def lane_defs(fd, prefix):
    """for every block that starts with `chunk = _mm_loadu_si128(..)`, one definition per
    movemask variable: <prefix>_<maskvar>_lane (c:Z) : bool"""
    out = []
    names = []
    for blk in walk(body_of(fd)):
        if blk.get("kind") != "CompoundStmt":
            continue
        lets = []
        chunk_seen = False
        for st in kids(blk):
            if st.get("kind") != "DeclStmt":
                continue
            for vd in kids(st):
                if vd.get("kind") != "VarDecl" or not kids(vd):
                    continue
                init = kids(vd)[-1]
                ty = qt(vd)
                if ty == "__m128i":
                    if has_kind(init, ("CallExpr",)) and any(
                            x.get("kind") == "DeclRefExpr" and
                            x["referencedDecl"]["name"] == "_mm_loadu_si128" for x in walk(init)):
                        chunk_seen = True
                        lets = [(sanitize(vd["name"]), "c")]
                    elif chunk_seen:
                        lets.append((sanitize(vd["name"]), Tr(lane_var="c").z(init)))
                elif chunk_seen and ty == "int" and any(
                        x.get("kind") == "DeclRefExpr" and
                        x["referencedDecl"]["name"] == "_mm_movemask_epi8" for x in walk(init)):
                    call = [x for x in walk(init) if x.get("kind") == "CallExpr"][0]
                    arg = Tr(lane_var="c").z(kids(call)[1])
                    nm = "%s_%s_lane" % (prefix, vd["name"])
                    body = "".join("  let %s := %s in\n" % (a, b) for a, b in lets)
                    out.append("Definition %s (c : Z) : bool :=\n%s  msb8 %s.\n" % (nm, body, arg))
                    names.append(nm)
    if not out:
        # no vector path (e.g. it was replaced by the scalar loop): the always-false lane
        nm = "%s_mask_lane" % prefix
        out.append("Definition %s (c : Z) : bool := false.\n" % nm)
        names.append(nm)
    return out, names


def load_sites(fd):
    """(function, pointer variable, k) for each _mm_loadu_si128 whose nearest enclosing
    while/if condition is `p + k <= end`; k = 0 when no such guard dominates the load"""
    sites = []

    def rec(n, guards):
        k = n.get("kind")
        if k in ("WhileStmt", "IfStmt"):
            cond = kids(n)[0]
            g = None
            if cond.get("kind") == "BinaryOperator" and cond.get("opcode") == "<=":
                l, r = kids(cond)
                if l.get("kind") == "BinaryOperator" and l.get("opcode") == "+":
                    a, b = kids(l)
                    ra = refs(a)
                    if len(ra) == 1 and b.get("kind") == "IntegerLiteral" and refs(r) and \
                            all("end" in v for v in refs(r)):
                        g = (list(ra)[0], int(b["value"]))
            rec(cond, guards)
            for c in kids(n)[1:2]:
                rec(c, guards + ([g] if g else []))
            for c in kids(n)[2:]:
                rec(c, guards)
            return
        if k == "CallExpr":
            nm = None
            for x in walk(kids(n)[0]):
                if x.get("kind") == "DeclRefExpr":
                    nm = x["referencedDecl"]["name"]
            if nm == "_mm_loadu_si128":
                pv = refs(kids(n)[1])
                p = list(pv)[0] if len(pv) == 1 else "?"
                kk = 0
                for g in guards[::-1]:
                    if g[0] == p:
                        kk = g[1]
                        break
                sites.append((fd["name"], p, kk))
        for c in kids(n):
            rec(c, guards)

    rec(body_of(fd), [])
    return sites


# ---------------------------------------------------------------- straight-line functions
def straight_line(fd, name, tables=(), skip_memcpy_into=None, param_names=None):
    """Definition name (params) : Z := let ... in ret   for a body made of declarations with
    initialisers, plain assignments, a memcpy(&v, p, 8) (v becomes the parameter) and returns"""
    tr = Tr(tables=tables)
    params = [sanitize(p["name"]) for p in params_of(fd)]
    lines = []
    ret = None
    for st in kids(body_of(fd)):
        k = st.get("kind")
        if k == "DeclStmt":
            for vd in kids(st):
                if kids(vd) and kids(vd)[-1].get("kind") not in ("FullComment",):
                    lines.append((sanitize(vd["name"]), tr.z(kids(vd)[-1])))
        elif k == "CallExpr" and tr.callee(st) == "memcpy":
            dst = [x for x in walk(kids(st)[1]) if x.get("kind") == "DeclRefExpr"][0]
            params = [sanitize(dst["referencedDecl"]["name"])]
        elif k == "BinaryOperator" and st.get("opcode") == "=":
            l, r = kids(st)
            lines.append((sanitize(l["referencedDecl"]["name"]), tr.z(r)))
        elif k == "ReturnStmt":
            ret = tr.z(kids(st)[0])
        else:
            raise TranslateError("%s: unsupported statement %s" % (name, k))
    if ret is None:
        raise TranslateError("%s: no return" % name)
    body = "".join("  let %s := %s in\n" % (a, b) for a, b in lines)
    return "Definition %s %s : Z :=\n%s  %s.\n" % (
        name, " ".join("(%s : Z)" % p for p in params), body, ret)



def fastpath_ops(fd):
    """the two assignments d = d <op> TABLE[idx] in parse_double_fast: (branch, op, table)"""
    res = []
    for x in walk(body_of(fd)):
        if x.get("kind") == "IfStmt":
            cond = kids(x)[0]
            if refs(cond) == {"exponent"} and cond.get("kind") == "BinaryOperator" and \
                    cond.get("opcode") == "<" and len(kids(x)) == 3:
                for branch, blk in (("neg", kids(x)[1]), ("pos", kids(x)[2])):
                    for y in walk(blk):
                        if y.get("kind") == "BinaryOperator" and y.get("opcode") == "=":
                            l, r = kids(y)
                            if refs(l) == {"d"}:
                                rr = r
                                while rr.get("kind") in ("ImplicitCastExpr", "ParenExpr"):
                                    rr = kids(rr)[-1]
                                if rr.get("kind") != "BinaryOperator":
                                    raise TranslateError("fast path: unexpected rhs")
                                tabs = [z["referencedDecl"]["name"] for z in walk(rr)
                                        if z.get("kind") == "DeclRefExpr" and
                                        z["referencedDecl"]["name"].startswith("POWER_OF_TEN")]
                                if len(tabs) != 1:
                                    raise TranslateError("fast path: table not identified")
                                res.append((branch, rr["opcode"], tabs[0]))
    if sorted(b for b, _, _ in res) != ["neg", "pos"]:
        raise TranslateError("fast path: expected one assignment per sign of the exponent")
    return res

# ----------------------------------------------------------------------------- probes
PROBE_COMMON = r'''
#include <stdio.h>
#include <stddef.h>
#include <string.h>
#include <stdint.h>
static void parr_i(const char* n, long long (*f)(int), int cnt){
  printf("\"%s\":[", n); for(int i=0;i<cnt;i++) printf("%s%lld", i?",":"", f(i)); printf("],\n"); }
'''


def probe(cfg, includes, body):
    src = "".join('#include "%s/src/%s"\n' % (REPO, f) for f in includes) + PROBE_COMMON + \
        "int main(void){ printf(\"{\\n\");\n" + body + "\nprintf(\"\\\"_\\\":0}\\n\"); return 0; }\n"
    os.makedirs(CACHE, exist_ok=True)
    with tempfile.TemporaryDirectory(dir=CACHE) as td:
        c = os.path.join(td, "p.c")
        exe = os.path.join(td, "p")
        open(c, "w").write(src)
        r = run(["gcc", "-w"] + CC_BASE + CFGS[cfg] + ["-O0", "-no-pie", "-Wl,--unresolved-symbols=ignore-all", "-o", exe, c, "-lm"])
        if r.returncode != 0:
            raise TranslateError("probe compile failed (%s %s): %s" % (
                cfg, includes, r.stderr.decode()[-600:]))
        r = run([exe])
        if r.returncode != 0:
            raise TranslateError("probe run failed")
        return json.loads(r.stdout.decode())


def P_int(name, expr):
    return 'printf("\\"%s\\":%%lld,\\n", (long long)(%s));\n' % (name, expr)


def P_u64(name, expr):
    return 'printf("\\"%s\\":\\"%%llu\\",\\n", (unsigned long long)(%s));\n' % (name, expr)


def P_arr(name, expr, cnt):
    return ('printf("\\"%s\\":["); for(int i=0;i<%s;i++) printf("%%s%%lld", i?",":"", '
            '(long long)(%s)); printf("],\\n");\n' % (name, cnt, expr))


def P_arr_u64(name, expr, cnt):
    return ('printf("\\"%s\\":["); for(int i=0;i<%s;i++){ uint64_t u; double d=(%s); '
            'memcpy(&u,&d,8); printf("%%s\\"%%llu\\"", i?",":"", (unsigned long long)u);} '
            'printf("],\\n");\n' % (name, cnt, expr))


TYPE_NAMES = ["NIL", "BOOL", "INT", "BIGINT", "FLOAT", "BIGDEC", "RATIO", "BIGRATIO", "CHARACTER",
              "STRING", "SYMBOL", "KEYWORD", "LIST", "VECTOR", "MAP", "SET", "TAGGED", "EXTERNAL"]
ERR_NAMES = ["OK", "ERROR_INVALID_SYNTAX", "ERROR_UNEXPECTED_EOF", "ERROR_UNTERMINATED_COLLECTION",
             "ERROR_OUT_OF_MEMORY", "ERROR_INVALID_NUMBER", "ERROR_INVALID_STRING",
             "ERROR_INVALID_CHARACTER", "ERROR_INVALID_DISCARD", "ERROR_UNMATCHED_DELIMITER",
             "ERROR_UNKNOWN_TAG", "ERROR_DUPLICATE_KEY", "ERROR_DUPLICATE_ELEMENT"]
DISPATCH_NAMES = ["IDENTIFIER", "STRING", "CHARACTER", "LIST_OPEN", "VECTOR_OPEN", "MAP_OPEN",
                  "HASH", "SIGN", "DIGIT", "DELIMITER", "METADATA"]


def probes_for(cfg):
    clj = cfg[0] == "1"
    out = {}
    b = P_arr("DELIMITER_TABLE", "DELIMITER_TABLE[i]", 256)
    b += P_arr("char_dispatch_table", "char_dispatch_table[i]", 256)
    for nm in DISPATCH_NAMES:
        if nm == "METADATA" and not clj:
            b += P_int("CT_" + nm, "-1")
        else:
            b += P_int("CT_" + nm, "CHAR_TYPE_" + nm)
    for nm in TYPE_NAMES:
        if nm in ("RATIO", "BIGRATIO") and not clj:
            b += P_int("TY_" + nm, "-1")
        else:
            b += P_int("TY_" + nm, "EDN_TYPE_" + nm)
    for nm in ERR_NAMES:
        b += P_int("E_" + nm, "EDN_" + nm)
    b += P_int("sizeof_value", "sizeof(edn_value_t)")
    b += P_int("sizeof_ptr", "sizeof(void*)")
    b += P_int("arena_header", "offsetof(arena_block_t, data)")
    b += P_int("sizeof_arena", "sizeof(edn_arena_t)")
    b += P_int("ARENA_INITIAL_SIZE", "ARENA_INITIAL_SIZE")
    b += P_int("ARENA_MEDIUM_SIZE", "ARENA_MEDIUM_SIZE")
    b += P_int("ARENA_LARGE_SIZE", "ARENA_LARGE_SIZE")
    b += P_u64("STRING_FLAG_HAS_ESCAPES", "EDN_STRING_FLAG_HAS_ESCAPES")
    b += P_u64("STRING_LENGTH_MASK", "EDN_STRING_LENGTH_MASK")
    b += P_int("READER_PASSTHROUGH", "EDN_DEFAULT_READER_PASSTHROUGH")
    b += P_int("READER_UNWRAP", "EDN_DEFAULT_READER_UNWRAP")
    b += P_int("READER_ERROR", "EDN_DEFAULT_READER_ERROR")
    out.update(probe(cfg, ["edn.c"], b))
    b = P_arr("DIGIT_VALUES", "DIGIT_VALUES[i]", 256)
    b += P_int("POW10_POS_LEN", "sizeof(POWER_OF_TEN_POSITIVE)/sizeof(double)")
    b += P_arr_u64("POW10_POS_BITS", "POWER_OF_TEN_POSITIVE[i]",
                   "(int)(sizeof(POWER_OF_TEN_POSITIVE)/sizeof(double))")
    if "POWER_OF_TEN_NEGATIVE" in open(os.path.join(REPO, "src", "number.c")).read():
        b += P_arr_u64("POW10_NEG_BITS", "POWER_OF_TEN_NEGATIVE[i]",
                       "(int)(sizeof(POWER_OF_TEN_NEGATIVE)/sizeof(double))")
    out.update(probe(cfg, ["number.c"], b))
    b = P_int("LINEAR_THRESHOLD", "LINEAR_THRESHOLD") + P_int("SORTED_THRESHOLD", "SORTED_THRESHOLD")
    b += P_int("sizeof_hash_entry", "sizeof(hash_entry_t)")
    out.update(probe(cfg, ["uniqueness.c"], b))
    out.update(probe(cfg, ["equality.c"], P_int("MAX_RECURSION_DEPTH", "MAX_RECURSION_DEPTH")))
    out.update(probe(cfg, ["reader.c"], P_int("INITIAL_BUCKET_COUNT", "INITIAL_BUCKET_COUNT")))
    out.update(probe(cfg, ["newline_finder.c"],
                     P_int("NL_INITIAL_CAPACITY", "INITIAL_CAPACITY") +
                     P_int("NL_GROWTH_FACTOR", "GROWTH_FACTOR") +
                     P_int("sizeof_positions", "sizeof(newline_positions_t)")))
    return out


# ------------------------------------------------------------------ literal harvesting
def _strip(n):
    while n.get("kind") in ("ImplicitCastExpr", "ParenExpr", "ConstantExpr", "CStyleCastExpr") and kids(n):
        n = kids(n)[0]
    return n


def _var(n):
    n = _strip(n)
    if n.get("kind") == "DeclRefExpr":
        return n["referencedDecl"]["name"]
    return None


def _var_plus(n, var):
    """n is `var` or `var + k` (k a literal): return k, else None"""
    n = _strip(n)
    if _var(n) == var:
        return 0
    if n.get("kind") == "BinaryOperator" and n.get("opcode") == "+":
        a, b = kids(n)
        if _var(a) == var and _strip(b).get("kind") == "IntegerLiteral":
            return int(_strip(b)["value"])
    return None


def sorted_scan_loop(fd):
    """uniqueness.c edn_has_duplicates_sorted: the one loop over the sorted copy,
         for (i = FIRST; i < count - SUB; i++) if (edn_value_equal(temp[i + L], temp[i + R])) { has_dups = true; break; }
    -> (FIRST, SUB, L, R); any other shape is a translation failure (the model's scan is written for this shape)"""
    loops = [x for x in walk(body_of(fd)) if x.get("kind") in ("ForStmt", "WhileStmt", "DoStmt")]
    if len(loops) != 1 or loops[0].get("kind") != "ForStmt":
        raise TranslateError("edn_has_duplicates_sorted: expected exactly one for loop")
    parts = kids(loops[0])
    if len(parts) != 5:
        raise TranslateError("edn_has_duplicates_sorted: unexpected for-statement layout")
    init, _cv, cond, inc, body = parts
    vds = [x for x in walk(init) if x.get("kind") == "VarDecl"]
    if init.get("kind") != "DeclStmt" or len(vds) != 1:
        raise TranslateError("edn_has_duplicates_sorted: loop must declare one index variable")
    iv = vds[0]["name"]
    ini = [x for x in kids(vds[0])]
    if len(ini) != 1 or _strip(ini[0]).get("kind") != "IntegerLiteral":
        raise TranslateError("edn_has_duplicates_sorted: index must start at a literal")
    first = int(_strip(ini[0])["value"])
    cond = _strip(cond)
    if cond.get("kind") != "BinaryOperator" or cond.get("opcode") != "<" or _var(kids(cond)[0]) != iv:
        raise TranslateError("edn_has_duplicates_sorted: loop condition must be `i < bound`")
    bound = _strip(kids(cond)[1])
    if _var(bound) == "count":
        sub = 0
    elif bound.get("kind") == "BinaryOperator" and bound.get("opcode") == "-" and _var(kids(bound)[0]) == "count" \
            and _strip(kids(bound)[1]).get("kind") == "IntegerLiteral":
        sub = int(_strip(kids(bound)[1])["value"])
    else:
        raise TranslateError("edn_has_duplicates_sorted: loop bound must be `count` or `count - k`")
    inc = _strip(inc)
    if inc.get("kind") != "UnaryOperator" or inc.get("opcode") != "++" or _var(kids(inc)[0]) != iv:
        raise TranslateError("edn_has_duplicates_sorted: loop step must be `i++`")
    stmts = [x for x in kids(body)] if body.get("kind") == "CompoundStmt" else [body]
    if len(stmts) != 1 or stmts[0].get("kind") != "IfStmt":
        raise TranslateError("edn_has_duplicates_sorted: loop body must be a single if")
    ic = _strip(kids(stmts[0])[0])
    if ic.get("kind") != "CallExpr" or Tr().callee(ic) != "edn_value_equal" or len(kids(ic)) != 3:
        raise TranslateError("edn_has_duplicates_sorted: loop test must be edn_value_equal(a, b)")
    offs = []
    for arg in kids(ic)[1:]:
        a = _strip(arg)
        if a.get("kind") != "ArraySubscriptExpr" or _var(kids(a)[0]) != "temp":
            raise TranslateError("edn_has_duplicates_sorted: operands must be temp[...]")
        k = _var_plus(kids(a)[1], iv)
        if k is None:
            raise TranslateError("edn_has_duplicates_sorted: subscripts must be i or i + k")
        offs.append(k)
    then = kids(stmts[0])[1]
    if not any(x.get("kind") == "BreakStmt" for x in walk(then)) or \
            not any(x.get("kind") == "BinaryOperator" and x.get("opcode") == "=" and _var(kids(x)[0]) == "has_dups" for x in walk(then)):
        raise TranslateError("edn_has_duplicates_sorted: the then-branch must set has_dups and break")
    # nothing else may touch the verdict
    assigns = [x for x in walk(body_of(fd)) if x.get("kind") == "BinaryOperator" and x.get("opcode") == "=" and _var(kids(x)[0]) == "has_dups"]
    if len(assigns) != 1:
        raise TranslateError("edn_has_duplicates_sorted: has_dups must be assigned exactly once")
    return first, sub, offs[0], offs[1]


def int_literals(fd):
    return [int(x["value"]) for x in walk(body_of(fd)) if x.get("kind") == "IntegerLiteral"]


def globals_audit(cfg):
    """file-scope objects that are not const-qualified (clang -ast-dump of each TU, filtered
    textually: cheap and sufficient for 16 small files)"""
    out = []
    for f in sorted(os.listdir(os.path.join(REPO, "src"))):
        if not f.endswith(".c"):
            continue
        cmd = ["clang"] + CC_BASE + CFGS[cfg] + ["-fsyntax-only", "-Xclang", "-ast-dump",
                                                 os.path.join(REPO, "src", f)]
        r = run(cmd)
        if r.returncode != 0:
            raise TranslateError("clang failed on %s" % f)
        cur_file = ""
        for line in r.stdout.decode(errors="replace").splitlines():
            # clang prints the file name of a top-level declaration only when it changes
            mt = re.match(r"^[|`]-\w+ \S+ (?:prev \S+ )?<([^>]*)>", line)
            if mt:
                mf = re.match(r"^(/[^:]+):", mt.group(1))
                if mf:
                    cur_file = mf.group(1)
            # function-level objects with static storage duration are shared state just the same
            ms = re.search(r"VarDecl \S+ <[^>]*> \S+(?: \S+)*? (\w+) '([^']*)' static", line)
            if ms and not re.match(r"^[|`]-VarDecl", line) and cur_file.startswith(REPO):
                base = ms.group(2).split("[")[0].strip()
                if not (base.startswith("const ") or base.endswith(" const") or "*const" in base.replace(" ", "")):
                    out.append("%s:%s(function-static)" % (f, ms.group(1)))
                continue
            # top-level declarations are the ones prefixed by exactly "|-" or "`-"
            m = re.match(r"^[|`]-VarDecl\s+\S+\s+(?:prev \S+ )?<([^>]*)>\s+\S+(?: \S+)*?\s(\w+) '([^']*)'", line)
            if not m:
                continue
            loc, name, ty = m.groups()
            if "/repo/" not in loc and "src/" not in loc and not loc.startswith("line:") \
                    and not loc.startswith("col:"):
                continue
            if " extern" in line:
                continue
            base = ty.split("[")[0].strip()
            is_const = base.startswith("const ") or base.endswith(" const") or "*const" in base.replace(" ", "")
            if not is_const:
                out.append("%s:%s" % (f, name))
    return out


def escape_labels(cfg):
    fd = ast_of(cfg, "string.c", "decode_escape_sequence")
    if fd is None:
        raise TranslateError("decode_escape_sequence not found")
    labs = []
    for x in walk(body_of(fd)):
        if x.get("kind") == "CaseStmt":
            for y in walk(kids(x)[0]):
                if y.get("kind") in ("CharacterLiteral", "IntegerLiteral"):
                    labs.append(int(y["value"]))
                    break
    return labs


def subscript_audit(cfg):
    """(file, table, index type) for each subscript of a file-scope lookup table"""
    res = []
    for f, fn, tables in (("edn.c", "edn_read_value", ("char_dispatch_table",)),
                          ("number.c", "digit_value", ("DIGIT_VALUES",)),
                          ("identifier.c", "scan_identifier", ())):
        fd = ast_of(cfg, f, fn)
        if fd is None:
            raise TranslateError("%s not found" % fn)
        for x in walk(body_of(fd)):
            if x.get("kind") == "ArraySubscriptExpr":
                base, idx = kids(x)
                nm = [y["referencedDecl"]["name"] for y in walk(base)
                      if y.get("kind") == "DeclRefExpr"]
                if nm and nm[0] in tables:
                    it = idx
                    while it.get("kind") in ("ImplicitCastExpr", "ParenExpr") and \
                            it.get("castKind") != "IntegralCast":
                        it = kids(it)[-1]
                    res.append("%s:%s:%s" % (f, nm[0], desug(idx)))
    # is_delimiter(unsigned char c) { return DELIMITER_TABLE[c]; } lives in the header
    fd = ast_of(cfg, "identifier.c", "is_delimiter")
    if fd is None:
        raise TranslateError("is_delimiter not found")
    p = params_of(fd)[0]
    res.append("edn_internal.h:DELIMITER_TABLE:%s" % desug(p))
    return res


# --------------------------------------------------------------------------- emission
def zlist(xs):
    return "[" + "; ".join(("%d" % x) if x >= 0 else "(%d)" % x for x in xs) + "]"


def slist(xs):
    return "[" + "; ".join('"%s"' % x for x in xs) + "]"


HEADER = """(* GENERATED by tools/c2v.py from %s -- do not edit; regenerated on every check run *)
From Coq Require Import ZArith List Bool String.
From Verif Require Import Lanes.
Import ListNotations.
Local Open Scope string_scope.
Local Open Scope bool_scope.
Local Open Scope Z_scope.

"""


def gen_common(P, A):
    """P: probe dict (cfg 00); A: dict of AST function decls (cfg 00)"""
    o = [HEADER % "src/*.c, src/edn_internal.h, include/edn.h (flag-independent items)"]
    for t in ("DELIMITER_TABLE", "DIGIT_VALUES"):
        o.append("Definition %s : list Z :=\n  %s.\n" % (t, zlist(P[t])))
    if "POW10_NEG_BITS" not in P:
        P = dict(P)
        P["POW10_NEG_BITS"] = []
    for t in ("POW10_POS_BITS", "POW10_NEG_BITS"):
        o.append("(* IEEE-754 bit patterns of the compiled table entries *)\n"
                 "Definition %s : list Z :=\n  %s.\n" % (t, zlist([int(x) for x in P[t]])))
    for c in ("LINEAR_THRESHOLD", "SORTED_THRESHOLD", "MAX_RECURSION_DEPTH", "INITIAL_BUCKET_COUNT",
              "ARENA_INITIAL_SIZE", "ARENA_MEDIUM_SIZE", "ARENA_LARGE_SIZE", "NL_INITIAL_CAPACITY",
              "NL_GROWTH_FACTOR", "sizeof_ptr", "arena_header", "sizeof_arena", "sizeof_positions",
              "sizeof_hash_entry", "READER_PASSTHROUGH", "READER_UNWRAP", "READER_ERROR"):
        o.append("Definition %s : Z := %d.\n" % (c, P[c]))
    for c in ("STRING_FLAG_HAS_ESCAPES", "STRING_LENGTH_MASK"):
        o.append("Definition %s : Z := %d.\n" % (c, int(P[c])))
    for nm in ERR_NAMES:
        o.append("Definition E_%s : Z := %d.\n" % (nm, P["E_" + nm]))

    # byte predicates
    fd = A[("edn.c", "edn_read_value")]
    conds = byte_conditions(fd, "c")
    if not conds:
        raise TranslateError("dispatcher pre-filter not found")
    o.append(byte_pred("prefilter", fd, "c", conds[:1], comment="edn.c edn_read_value: trivia pre-filter"))
    fd = A[("simd.c", "edn_simd_skip_whitespace")]
    conds = byte_conditions(fd, "c")
    if len(conds) != 1:
        raise TranslateError("scalar whitespace test: expected 1 condition, got %d" % len(conds))
    o.append(byte_pred("ws_scalar", fd, "c", conds, comment="simd.c edn_simd_skip_whitespace: scalar test"))
    fd = A[("number.c", "validate_number_delimiter")]
    conds = byte_conditions(fd, "next")
    if len(conds) < 1:
        raise TranslateError("number delimiter conditions not found")
    o.append(byte_pred("numdelim_ws", fd, "next", conds[:1],
                       comment="number.c validate_number_delimiter: whitespace part"))
    o.append(byte_pred("numdelim", fd, "next", conds,
                       comment="number.c validate_number_delimiter: all accepted followers"))
    fd = A[("tagged.c", "edn_read_tagged")]
    conds = byte_conditions(fd, "next")
    if len(conds) != 1:
        raise TranslateError("tag adjacency test: expected 1 condition")
    o.append(byte_pred("tag_adjacent_ws", fd, "next", conds, comment="tagged.c: no blank after '#'"))

    # lane predicates + load audit
    sites = []
    lane_names = []
    for (f, fn, prefix) in (("simd.c", "edn_simd_skip_whitespace", "skipws"),
                            ("simd.c", "edn_simd_find_newline_sse", "findnl"),
                            ("simd.c", "edn_simd_find_quote", "findquote"),
                            ("simd.c", "edn_simd_scan_digits", "digits"),
                            ("newline_finder.c", "newline_find_all_simd", "lfindex")):
        fd = A.get((f, fn))
        if fd is None:
            if fn == "edn_simd_find_newline_sse":
                o.append("Definition findnl_mask_lane (c : Z) : bool := false.\n")
                lane_names.append("findnl_mask_lane")
                continue
            raise TranslateError("%s not found in %s" % (fn, f))
        defs, names = lane_defs(fd, prefix)
        o.extend(defs)
        lane_names.extend(names)
        sites.extend(load_sites(fd))
    o.append("Definition lane_names : list string := %s.\n" % slist(lane_names))
    fd = A[("simd.c", "edn_simd_find_quote")]
    rhs = deref_assignments(fd, "out_has_backslash")
    if len(rhs) < 1:
        raise TranslateError("find_quote: no assignment to *out_has_backslash")
    has_vec = any(x.get("kind") == "CallExpr" and Tr().callee(x) == "_mm_loadu_si128"
                  for x in walk(body_of(fd)) if x.get("kind") == "CallExpr")
    o.append(flag_expr("findquote_flag_vec", fd, rhs[0],
                       "simd.c edn_simd_find_quote: value stored to *out_has_backslash in the chunk loop"))
    o.append(flag_expr("findquote_flag_tail", fd, rhs[-1],
                       "simd.c edn_simd_find_quote: value stored to *out_has_backslash in the scalar tail"))
    o.append("Definition findquote_has_vector_path : bool := %s.\n" % str(has_vec and len(rhs) >= 2).lower())

    # SWAR leaf functions, digit_value
    o.append(straight_line(A[("number.c", "is_made_of_eight_digits_fast")], "eight_digits_check"))
    o.append(straight_line(A[("number.c", "parse_eight_digits_unrolled")], "eight_digits_value"))
    o.append(straight_line(A[("number.c", "digit_value")], "digit_value", tables=("DIGIT_VALUES",)))

    # FNV constants wherever they are written
    big = sorted(set(v for v in int_literals(A[("equality.c", "edn_value_hash_internal")]) if v > 2 ** 32))
    big2 = sorted(set(v for v in int_literals(A[("reader.c", "hash_tag")]) if v > 2 ** 32))
    big3 = sorted(set(v for v in int_literals(A[("equality.c", "edn_value_hash")]) if v > 2 ** 32))
    o.append("Definition fnv_literals_hash_internal : list Z := %s.\n" % zlist(big))
    o.append("Definition fnv_literals_hash_tag : list Z := %s.\n" % zlist(big2))
    o.append("Definition fnv_literals_hash_null : list Z := %s.\n" % zlist(big3))
    for branch, op, tab in fastpath_ops(A[("number.c", "parse_double_fast")]):
        o.append('Definition fastpath_%s_op : string := "%s".\n' % (branch, op))
        o.append('Definition fastpath_%s_table : list Z := %s.\n' % (
            branch, "POW10_POS_BITS" if tab == "POWER_OF_TEN_POSITIVE" else "POW10_NEG_BITS"))
    # sizing of the duplicate-detection hash table: table_size = (count * NUM) / DEN, first size INIT (uniqueness.c)
    hl = int_literals(A[("uniqueness.c", "edn_has_duplicates_hash")])
    if len(hl) < 3:
        raise TranslateError("edn_has_duplicates_hash: expected the load-factor and initial-size literals")
    o.append("Definition hash_table_literals : list Z := %s.\n" % zlist(hl))
    o.append("Definition HASH_LOAD_NUM : Z := %d.\nDefinition HASH_LOAD_DEN : Z := %d.\nDefinition HASH_INIT_SIZE : Z := %d.\n" % (hl[0], hl[1], hl[2]))
    # the scan over the sorted copy (uniqueness.c edn_has_duplicates_sorted)
    try:
        sf, ss, sl, sr = sorted_scan_loop(A[("uniqueness.c", "edn_has_duplicates_sorted")])
    except TranslateError as ex:
        # the loop no longer has the shape the model's scan is written for: emit parameters no proof accepts, so that exactly
        # the obligations about the sort-based strategy break (SortDup.window_is_adjacent) instead of the whole translation
        o.append("(* NOT TRANSLATED: %s *)\n" % str(ex).replace("*)", "* )"))
        sf, ss, sl, sr = -1, -1, -1, -1
    o.append("Definition SORTED_SCAN_FIRST : Z := %d.\nDefinition SORTED_SCAN_BOUND_SUB : Z := %d.\n"
             "Definition SORTED_SCAN_LEFT : Z := %d.\nDefinition SORTED_SCAN_RIGHT : Z := %d.\n" % (sf, ss, sl, sr))
    # fast-path constants of parse_double_fast / parse_double_from_buffer
    o.append("Definition fastpath_literals : list Z := %s.\n" % zlist(
        sorted(set(int_literals(A[("number.c", "parse_double_fast")])))))
    return "\n".join(o), sites


def gen_cfg(cfg, P, A, sites, globs, esc, subs):
    clj, exp = cfg[0] == "1", cfg[1] == "1"
    o = [HEADER % ("the working tree compiled with flags " + (" ".join(CFGS[cfg]) or "(none)"))]
    o.append("Definition clj : bool := %s.\nDefinition exp : bool := %s.\n" % (
        str(clj).lower(), str(exp).lower()))
    o.append("Definition dispatch_table : list Z :=\n  %s.\n" % zlist(P["char_dispatch_table"]))
    for nm in DISPATCH_NAMES:
        o.append("Definition CT_%s : Z := %d.\n" % (nm, P["CT_" + nm]))
    for nm in TYPE_NAMES:
        o.append("Definition TY_%s : Z := %d.\n" % (nm, P["TY_" + nm]))
    o.append("Definition sizeof_value : Z := %d.\n" % P["sizeof_value"])
    fd = A[("character.c", "is_valid_single_char")]
    conds = byte_conditions(fd, "c")
    if len(conds) != 1:
        raise TranslateError("is_valid_single_char: expected 1 condition")
    o.append(byte_pred("valid_single_char", fd, "c", conds, negate=True,
                       comment="character.c is_valid_single_char"))
    if exp:
        for fn, prefix in (("edn_parse_text_block_line", "tbblank"), ("simd_scan_line_content", "tbcontent")):
            fd = A[("string.c", fn)]
            defs, names = lane_defs(fd, prefix)
            o.extend(defs)
            sites = sites + load_sites(fd)
    o.append("Definition vector_load_sites : list (string * string * Z) :=\n  [%s].\n" % "; ".join(
        '("%s", "%s", %d)' % s for s in sites))
    o.append("Definition mutable_globals : list string := %s.\n" % slist(globs))
    o.append("Definition escape_labels : list Z := %s.\n" % zlist(esc))
    o.append("Definition table_subscripts : list string := %s.\n" % slist(subs))
    return "\n".join(o)


WANTED = [("edn.c", "edn_read_value"), ("simd.c", "edn_simd_skip_whitespace"),
          ("simd.c", "edn_simd_find_newline_sse"), ("simd.c", "edn_simd_find_quote"),
          ("simd.c", "edn_simd_scan_digits"), ("newline_finder.c", "newline_find_all_simd"),
          ("number.c", "validate_number_delimiter"), ("tagged.c", "edn_read_tagged"),
          ("number.c", "is_made_of_eight_digits_fast"), ("number.c", "parse_eight_digits_unrolled"),
          ("number.c", "digit_value"), ("equality.c", "edn_value_hash_internal"),
          ("equality.c", "edn_value_hash"), ("reader.c", "hash_tag"),
          ("number.c", "parse_double_fast"), ("character.c", "is_valid_single_char"),
          ("uniqueness.c", "edn_has_duplicates_hash"), ("uniqueness.c", "edn_has_duplicates_sorted")]
WANTED_EXP = [("string.c", "edn_parse_text_block_line"), ("string.c", "simd_scan_line_content")]
OPTIONAL = {("simd.c", "edn_simd_find_newline_sse")}


def tree_hash():
    h = hashlib.sha256()
    for d in ("src", "include"):
        for f in sorted(os.listdir(os.path.join(REPO, d))):
            p = os.path.join(REPO, d, f)
            if os.path.isfile(p):
                h.update(f.encode())
                h.update(open(p, "rb").read())
    h.update(open(os.path.abspath(__file__), "rb").read())
    return h.hexdigest()


def write_if_changed(path, text):
    if os.path.exists(path) and open(path).read() == text:
        return False
    open(path, "w").write(text)
    return True


def main():
    os.makedirs(GEN, exist_ok=True)
    os.makedirs(CACHE, exist_ok=True)
    stamp = os.path.join(CACHE, "stamp")
    th = tree_hash()
    files = ["Common.v"] + ["G%s.v" % c for c in CFGS]
    if "--force" not in sys.argv and os.path.exists(stamp) and open(stamp).read() == th and \
            all(os.path.exists(os.path.join(GEN, f)) for f in files):
        print("c2v: Gen up to date")
        return 0
    try:
        jobs = {}
        with ThreadPoolExecutor(16) as ex:
            for cfg in CFGS:
                want = WANTED + (WANTED_EXP if cfg[1] == "1" else [])
                for (f, fn) in want:
                    jobs[(cfg, f, fn)] = ex.submit(ast_of, cfg, f, fn)
                jobs[(cfg, "probe")] = ex.submit(probes_for, cfg)
                jobs[(cfg, "globals")] = ex.submit(globals_audit, cfg)
                jobs[(cfg, "esc")] = ex.submit(escape_labels, cfg)
                jobs[(cfg, "subs")] = ex.submit(subscript_audit, cfg)
        A = {c: {} for c in CFGS}
        for key, fut in jobs.items():
            if len(key) == 3:
                cfg, f, fn = key
                fd = fut.result()
                if fd is None and (f, fn) not in OPTIONAL:
                    raise TranslateError("function %s not found in %s (cfg %s)" % (fn, f, cfg))
                if fd is not None:
                    A[cfg][(f, fn)] = fd
        commons = {}
        sites = {}
        for cfg in CFGS:
            commons[cfg], sites[cfg] = gen_common(jobs[(cfg, "probe")].result(), A[cfg])
        agree = all(commons[c] == commons["00"] for c in CFGS)
        common_text = commons["00"] + \
            "\n(* the flag-independent items above are textually identical under all 4 flag sets *)\n" \
            "Definition common_items_agree : bool := %s.\n" % str(agree).lower()
        texts = {"Common.v": common_text}
        for cfg in CFGS:
            texts["G%s.v" % cfg] = gen_cfg(cfg, jobs[(cfg, "probe")].result(), A[cfg], sites[cfg],
                                           jobs[(cfg, "globals")].result(), jobs[(cfg, "esc")].result(),
                                           jobs[(cfg, "subs")].result())
    except TranslateError as e:
        print("c2v: TRANSLATION FAILED: %s" % e)
        if os.path.exists(stamp):
            os.remove(stamp)
        return 2
    changed = [f for f, t in texts.items() if write_if_changed(os.path.join(GEN, f), t)]
    open(stamp, "w").write(th)
    print("c2v: regenerated; changed: %s" % (", ".join(changed) or "nothing"))
    return 0


if __name__ == "__main__":
    sys.exit(main())
