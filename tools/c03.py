#!/usr/bin/env python3
"""c03.py -- what a document denotes, computed independently of the implementation:
 (1) evaluator of derivation trees of the published grammar (tools/ebnf.py) into canonical,
     range-free value text;
 (2) value-first generator: abstract EDN values and several surface renderings of each."""
import struct
from fractions import Fraction
import refs

WRAP = ("EdnElement", "ReadableEdnElement", "MapEntry")
CHARNAMES = {"newline": 10, "space": 32, "tab": 9, "return": 13, "formfeed": 12, "backspace": 8}


def ev(t, discarded=None):
    """values denoted by a derivation tree (list of 0 or 1 values; MapEntry gives 2).
    discarded: list collecting the values of discarded elements (for duplicate screening)"""
    n = t.name
    if n in WRAP:
        out = []
        for k in t.kids:
            out += ev(k, discarded)
        return out
    if n == "DiscardSequence":
        vals = []
        for k in t.kids:
            vals += ev(k, discarded)
        if discarded is not None:
            discarded.extend(vals)
        return []
    if n in ("Spacing", "Tag"):
        return []
    if n == "Nil":
        return ["nil"]
    if n == "Boolean":
        return [t.text.decode()]
    if n == "Character":
        k = t.kids[0]
        if k.name == "CharName":
            cp = CHARNAMES[k.text.decode()]
        elif k.name == "UnicodeEscape":
            cp = int(k.text[1:], 16)
        else:
            s = k.text.decode("utf-8", "replace")
            cp = ord(s) if len(s) == 1 else -1
        return ["char:%d" % cp]
    if n == "String":
        out = bytearray()
        for sc in t.kids:
            k = sc.kids[0]
            if k.name == "InputCharacter":
                out += k.text
            else:
                out.append({"t": 9, "r": 13, "n": 10, "\\": 92, '"': 34}[k.text[1:].decode()])
        return ["str:%d:%s" % (len(out), refs.hx(bytes(out)))]
    if n == "Integer":
        return [refs.expect_int_literal(t.text.decode(), False, False)]
    if n == "Float":
        s = t.text.decode()
        if s.endswith("M"):
            return ["bigdec:%d:%s" % (int(s[0] == "-"), refs.hx(s[:-1].lstrip("+-").encode()))]
        return ["float:" + refs.expect_float_bits(s, False)]
    if n in ("Symbol", "Keyword"):
        s = t.text[1:] if n == "Keyword" else t.text
        head = "kw" if n == "Keyword" else "sym"
        if s != b"/" and b"/" in s:
            ns, nm = s.split(b"/", 1)
            return ["%s:%s:%s" % (head, refs.hx(ns), refs.hx(nm))]
        return ["%s:~:%s" % (head, refs.hx(s))]
    if n in ("List", "Vector", "Set", "Map"):
        vals = []
        for k in t.kids:
            vals += ev(k, discarded)
        return [({"List": "list", "Vector": "vec", "Set": "set", "Map": "map"}[n], vals)]
    if n == "TaggedElement":
        tag = t.find("Tag")[0].text
        vals = []
        for k in t.kids:
            vals += ev(k, discarded)
        return [("tag:" + refs.hx(tag), vals)]
    raise KeyError(n)


def canon(v):
    if isinstance(v, str):
        return v
    h, vals = v
    cs = [canon(x) for x in vals]
    if h == "set":
        cs = sorted(cs)
    if h == "map":
        cs = sorted(cs[i] + " " + cs[i + 1] for i in range(0, len(cs), 2))
    return "(" + h + "".join(" " + c for c in cs) + ")"


def coarse(v):
    """a key that identifies at least everything the reader's equality identifies (numbers by
    numeric value across kinds, lists with vectors): used only to keep accidental duplicates
    out of generated sets and maps"""
    if isinstance(v, str):
        k = v.split(":")
        try:
            if k[0] == "int":
                return "num:%s" % Fraction(int(k[1]))
            if k[0] == "bigint":
                return "num:%s" % (Fraction(int(bytes.fromhex(k[3]))) * (-1 if k[1] == "1" else 1))
            if k[0] == "float":
                f = struct.unpack(">d", bytes.fromhex(k[1]))[0]
                if f != f:
                    return "num:nan"
                return "num:%s" % Fraction(f) if abs(f) != float("inf") else v
            if k[0] == "bigdec":
                return "num:%s" % (Fraction(bytes.fromhex(k[2]).decode()) * (-1 if k[1] == "1" else 1))
        except Exception:
            pass
        return v
    h, vals = v
    if h in ("list", "vec"):
        return "(seq " + " ".join(coarse(x) for x in vals) + ")"
    if h == "map":
        return "(map " + " ".join(sorted(coarse(vals[i]) + "=" + coarse(vals[i + 1]) for i in range(0, len(vals) - 1, 2))) + ")"
    return "(" + h + " " + " ".join(sorted(coarse(x) for x in vals)) + ")"


def has_dups(v):
    if isinstance(v, str):
        return False
    h, vals = v
    if any(has_dups(x) for x in vals):
        return True
    if h == "set":
        cs = [coarse(x) for x in vals]
        return len(set(cs)) != len(cs)
    if h == "map":
        cs = [coarse(x) for x in vals[0::2]]
        return len(set(cs)) != len(cs)
    return False


def norm_impl(n):
    """canonical range-free text of the implementation's dump, comparable with canon()"""
    if n.kind == "str":
        p = n.text.split(":")
        return "str:" + p[2] + ":" + p[3] if len(p) >= 4 else "str:" + n.text
    if n.kids or n.kind in ("list", "vec", "map", "set", "tag"):
        cs = [norm_impl(k) for k in n.kids]
        if n.kind == "set":
            cs = sorted(cs)
        if n.kind == "map":
            cs = sorted(cs[i] + " " + cs[i + 1] for i in range(0, len(cs), 2))
        return "(" + n.kind + ((":" + n.text) if n.text else "") + "".join(" " + c for c in cs) + ")"
    if n.kind in ("nil", "true", "false"):
        return n.kind
    return n.kind + ":" + n.text


def features(t, acc=None):
    """spellings of the derivation that fall under a recorded finding or a documented ambiguity"""
    if acc is None:
        acc = set()
    if t.name == "Comment" and t.text.endswith(b"\r"):
        acc.add("cr-comment")
    if t.name in ("Symbol", "Keyword", "Tag"):
        if b"#" in t.text:
            acc.add("hash-in-identifier")
        if b"::" in t.text:
            acc.add("double-colon")
    if t.name == "CharLiteral" and (len(t.text) > 1 or t.text[0] >= 0x80):
        acc.add("non-ascii-char")
    if t.name == "DiscardSequence":
        inner = [k for k in t.kids if k.name == "EdnElement"]
        if inner and inner[0].kids and inner[0].kids[0].name == "DiscardSequence":
            acc.add("discard-of-discard")
    for k in t.kids:
        features(k, acc)
    return acc


# ------------------------------------------------------------------ value-first generator
SYMCH = "abcdefghijklmnopqrstuvwxyzABCDEFGHIJKLMNOPQRSTUVWXYZ*!_?$%&=<>"


class ValueGen:
    def __init__(self, rnd):
        self.r = rnd

    def name(self):
        r = self.r
        n = r.choice([1, 2, 3, 5, 8, 15, 16, 17, 31, 33])
        s = r.choice(SYMCH) + "".join(r.choice(SYMCH + "0123456789.-+':") for _ in range(n - 1))
        s = s.replace("::", ":a")
        if s.endswith(":"):
            s = s[:-1] + "x"
        if s in ("nil", "true", "false"):
            s += "x"
        return s

    def value(self, depth):
        r = self.r
        k = r.random()
        if depth <= 0 or k < 0.5:
            a = r.random()
            if a < 0.08:
                return ("nil",)
            if a < 0.16:
                return ("bool", r.random() < 0.5)
            if a < 0.3:
                return ("int", r.choice([0, 1, -1, 2 ** 63 - 1, -2 ** 63, 99999999, 100000000, r.randrange(-10 ** 18, 10 ** 18),
                                         r.randrange(-1000, 1000)]))
            if a < 0.36:
                return ("bigint", r.choice([2 ** 63, -2 ** 63 - 1, 10 ** 30 + r.randrange(0, 1000), -10 ** 25]))
            if a < 0.46:
                return ("float", r.choice([0.0, 1.5, -2.25, 1e10, 1e-5, 123456.789, 3.0, 1e22, 1e23, 5e-324, 1.7976931348623157e308,
                                           r.uniform(-1e6, 1e6), float(r.randrange(0, 2 ** 53))]))
            if a < 0.5:
                return ("symbolic", r.choice(["Inf", "-Inf", "NaN"]))
            if a < 0.62:
                n = r.choice([0, 1, 2, 5, 14, 15, 16, 17, 31, 32, 33, 40])
                return ("str", bytes(r.choice(b"abc XYZ019,;[]{}()#:/~\n\t\r\"\\" + bytes([0xC3, 0xA9])) for _ in range(n)))
            if a < 0.7:
                return ("char", r.choice([10, 32, 9, 13, 65, 97, 48, 0x3BB, 0x20AC, 0xE9, 40, 44, 59, 92, 34, 0x7E]))
            # names that collide with, or nearly with, the reserved words and the number / tag syntax
            tricky = ["nil", "true", "false", "nil?", "nilx", "ni", "tru", "truex", "fals", "falsey", "N", "M", "e", "inst", "uuid",
                      "Inf", "NaN", "a.b", "x'", "-a", "+a", ".a", "a-1", "a1", "r", "x",
                      # colons inside a name (legal when not doubled): one, several, near a 16-byte boundary
                      "a:b", "a:b:c", "http:port", "x:y:z:w", "db:user.id:v2", "abcdefghijklmn:o:p", "abcdefghijklmno:p:q:r"]
            if a < 0.85:
                return ("kw", r.choice([None, None, self.name(), "nil", "true"]), r.choice([self.name(), self.name(), r.choice(tricky)]))
            nm = r.choice([self.name(), self.name(), "/", "+", "-", ".", "<=", "->x", r.choice(tricky[3:])])
            ns_ = r.choice([None, None, self.name(), "nil", "true", "false"])
            if ns_ is None and nm in ("nil", "true", "false"):
                nm += "?"
            return ("sym", ns_, nm)
        n = r.choice([0, 1, 2, 3, 5])
        if r.random() < 0.25:
            # wide collections: around the builders' inline capacity and every doubling after it;
            # pairwise distinct elements / keys so that sets and maps survive the duplicate screening
            n = r.choice([7, 8, 9, 12, 13, 16, 17, 31, 32, 33, 64, 65])
            mk = [lambda i: ("int", i * 3 - 50), lambda i: ("kw", None, "k%d" % i), lambda i: ("str", b"s%d" % i),
                  lambda i: ("sym", "ns", "y%d" % i), lambda i: ("vec", [("int", i)]), lambda i: ("char", 0x100 + i)]
            if r.random() < 0.4:
                # all-scalar keys / elements of one kind (the sort-based duplicate strategy), larger sizes too
                n = r.choice([17, 18, 33, 65, 200])
                one = r.choice(mk[:4])
                distinct = [one((i * 7919) % 1000 + (1000 if i % 2 else 0)) for i in range(n)]
                distinct = list({repr(d): d for d in distinct}.values())
            else:
                distinct = [r.choice(mk)(i) for i in range(n)]
            kind = r.choice(["list", "vec", "set", "map", "map", "map"])
            if kind == "map":
                body = []
                for d in distinct:
                    body += [d, self.value(0)]
                return ("map", body)
            return (kind, distinct)
        if k < 0.62:
            return ("list", [self.value(depth - 1) for _ in range(n)])
        if k < 0.76:
            return ("vec", [self.value(depth - 1) for _ in range(n)])
        if k < 0.84:
            return ("set", [self.value(depth - 1) for _ in range(n)])
        if k < 0.94:
            return ("map", [self.value(depth - 1) for _ in range(2 * n)])
        return ("tag", r.choice(["inst", "uuid", "my/tag", "x", "a.b/c-d", "my:app:tag", "ns:x/t:y"]), self.value(depth - 1))

    # expected canonical text
    def expect(self, v):
        k = v[0]
        if k == "nil":
            return "nil"
        if k == "bool":
            return "true" if v[1] else "false"
        if k == "int":
            return "int:%d" % v[1]
        if k == "bigint":
            return "bigint:%d:10:%s" % (int(v[1] < 0), refs.hx(str(abs(v[1])).encode()))
        if k == "float":
            return "float:%016x" % struct.unpack(">Q", struct.pack(">d", v[1]))[0]
        if k == "symbolic":
            return "float:" + {"Inf": "7ff0000000000000", "-Inf": "fff0000000000000", "NaN": "7ff8000000000000"}[v[1]]
        if k == "str":
            return "str:%d:%s" % (len(v[1]), refs.hx(v[1]))
        if k == "char":
            return "char:%d" % v[1]
        if k in ("kw", "sym"):
            return "%s:%s:%s" % (k, "~" if v[1] is None else refs.hx(v[1].encode()), refs.hx(v[2].encode()))
        if k in ("list", "vec", "set", "map"):
            return (k, [self.expect(x) for x in v[1]])
        if k == "tag":
            return ("tag:" + refs.hx(v[1].encode()), [self.expect(v[2])])
        raise KeyError(k)

    # one surface rendering
    def trivia(self, must):
        r = self.r
        out = b""
        n = r.choice([0, 0, 1, 1, 2, 3]) if not must else r.choice([1, 1, 2, 3])
        for _ in range(n):
            a = r.random()
            if a < 0.5:
                out += b" "
            elif a < 0.7:
                out += bytes([r.choice([0x09, 0x0A, 0x0D, 0x20, 0x2C])])
            elif a < 0.8:
                out += b";" + bytes(r.choice(b"abc ;#\"[]{}\\~") for _ in range(r.randrange(0, 20))) + b"\n"
            elif a < 0.9:
                out += b"#_" + r.choice([b"x", b"[1 2]", b"\"s\"", b" 5", b"{:a 1}", b"\\a", b"#t 1"]) + b" "
            else:
                out += b" " * r.randrange(1, 20)
        return out

    def render(self, v):
        r = self.r
        k = v[0]
        if k == "nil":
            return b"nil"
        if k == "bool":
            return b"true" if v[1] else b"false"
        if k == "int":
            s = str(v[1])
            if v[1] >= 0 and r.random() < 0.3:
                s = "+" + s
            if v[1] == 0 and r.random() < 0.3:
                s = "-0"
            return s.encode()
        if k == "bigint":
            return (str(v[1]) + r.choice(["", "N"])).encode()
        if k == "float":
            f = v[1]
            forms = [repr(f)]
            if f == int(f) and abs(f) < 1e15:
                forms += ["%d.0" % int(f), "%d.000" % int(f), "%de0" % int(f), "%d.0E0" % int(f), "%d.0e+0" % int(f)]
                if int(f) != 0:
                    forms.append("%d0e-1" % int(f))
            forms += ["%.17e" % f, ("%.17e" % f).replace("e", "E"), "%.20e" % f]
            s = r.choice(forms)
            if "." not in s and "e" not in s and "E" not in s:
                s += ".0"
            if f >= 0 and not s.startswith("-") and r.random() < 0.2:
                s = "+" + s
            return s.encode()
        if k == "symbolic":
            return ("##" + v[1]).encode()
        if k == "str":
            out = bytearray(b'"')
            for c in v[1]:
                if c == 0x22:
                    out += b'\\"'
                elif c == 0x5C:
                    out += b"\\\\"
                elif c == 0x0A and r.random() < 0.5:
                    out += b"\\n"
                elif c == 0x09 and r.random() < 0.5:
                    out += b"\\t"
                elif c == 0x0D and r.random() < 0.5:
                    out += b"\\r"
                else:
                    out.append(c)
            return bytes(out + b'"')
        if k == "char":
            cp = v[1]
            named = {10: b"\\newline", 32: b"\\space", 9: b"\\tab", 13: b"\\return"}
            forms = [("\\u%04x" % cp).encode(), ("\\u%04X" % cp).encode()]
            if cp in named:
                forms.append(named[cp])
                forms.append(named[cp])
            elif cp < 0x80:
                forms.append(b"\\" + bytes([cp]))
                forms.append(b"\\" + bytes([cp]))
            return r.choice(forms)
        if k in ("kw", "sym"):
            s = (v[1] + "/" if v[1] is not None else "") + v[2]
            return ((":" if k == "kw" else "") + s).encode()
        if k in ("list", "vec", "set", "map"):
            o, c = {"list": (b"(", b")"), "vec": (b"[", b"]"), "set": (b"#{", b"}"), "map": (b"{", b"}")}[k]
            out = o + self.trivia(False)
            for i, x in enumerate(v[1]):
                if i:
                    out += self.trivia(True)
                out += self.render(x)
            return out + self.trivia(False) + c
        if k == "tag":
            return b"#" + v[1].encode() + self.trivia(True) + self.render(v[2])
        raise KeyError(k)
