#!/usr/bin/env python3
"""checks.py -- per-property suites: generators, correspondence runs and property oracles."""
import os, random, re, sys

ROOT = os.path.dirname(os.path.dirname(os.path.abspath(__file__)))
sys.path.insert(0, os.path.join(ROOT, "tools"))
from framework import *  # noqa
from gen import Gen, hexs, WS_BYTES  # noqa
import refs  # noqa

PROPS = {}


def prop(pid):
    def deco(f):
        PROPS[pid] = f
        return f
    return deco


def docline(b, reg="-", mode=0, eof=0, length=None):
    return "doc %s %s %d %d" % (hexs(b), reg, mode, eof) + ("" if length is None else " %d" % length)


# =============================================================================== C12
def c12_scanner_cases(rnd, maxlen, dense):
    """direct scanner calls: (line, kind, buf, p, e)"""
    cases = []
    specials = {
        "skipws": [b";", b"\n", b"a", b"\x08", b"\x0e", b"\x1b", b"\x21", b"\xa0", b"\x00", b"\x7f", b"\x1c", b"\x20", b",", b"\x0d"],
        "findquote": [b'"', b"\\", b"x", b"\x00", b"\xa2", b"\xdc"],
        "digits": [b"/", b":", b"a", b"0", b"9", b"\xb0", b"\x00", b" "],
        "ident": [b" ", b"/", b":", b")", b"\x00", b"\x7f", b"\x80", b"#", b";", b"a"],
    }
    fills = {"skipws": [b" ", b",", b"\t", b"\x1c", b"\n"], "findquote": [b"a", b" "], "digits": [b"0", b"7", b"9"],
             "ident": [b"a", b"z", b"-", b"."]}
    suffixes = [b"", b"    ", b"0000", b'"\\"\\', b";;\n\n", b"aaaa::/", b"\xff\xff"]
    for sc in ("skipws", "findquote", "digits", "ident"):
        lens = list(range(0, maxlen + 1))
        for L in lens:
            for fill in fills[sc][: (len(fills[sc]) if dense else 2)]:
                # no special byte
                cases.append((sc, fill * L))
                if L == 0:
                    continue
                pos1s = range(L) if (dense or L <= 34) else sorted(set([0, 1, 14, 15, 16, 17, 31, 32, 33, L - 2, L - 1]) & set(range(L)))
                for p1 in pos1s:
                    for s1 in specials[sc]:
                        b = bytearray(fill * L)
                        b[p1:p1 + 1] = s1
                        cases.append((sc, bytes(b)))
                        # a second special byte at chosen distances
                        for d in (1, 2, 15, 16, 17):
                            p2 = p1 + d
                            if p2 < L and (dense or rnd.random() < 0.25):
                                s2 = rnd.choice(specials[sc])
                                b2 = bytearray(b)
                                b2[p2:p2 + 1] = s2
                                cases.append((sc, bytes(b2)))
    out = []
    for sc, region in cases:
        phase = rnd.randrange(0, 4) if not dense else rnd.randrange(0, 17)
        suf = rnd.choice(suffixes)
        buf = b"x" * phase + region + suf
        p, e = phase, phase + len(region)
        out.append(("%s %s %d %d" % (sc, hexs(buf), p, e), sc, buf, p, e))
        if suf and rnd.random() < 0.3:
            # same region, different bytes after it: the answer must not change
            buf2 = b"x" * phase + region + bytes((c ^ 0x5A) & 0xFF for c in suf)
            out.append(("%s %s %d %d" % (sc, hexs(buf2), p, e), sc, buf2, p, e))
    return out


@prop("C12")
def check_c12(res):
    rnd = random.Random(res.seed)
    thorough = res.tier == "thorough"
    res.rule = ("direct calls to edn_simd_skip_whitespace / edn_simd_find_quote / edn_simd_scan_digits / "
                "scan_identifier / newline_find_all: every length 0..%d x position of one special byte x byte class "
                "(+ second special at distance 1,2,15,16,17), random start phase and trailing bytes; all 256 byte "
                "values per classifier; documents with k=0..47 leading blanks and with altered bytes after the "
                "declared length. non-trivial = distinct (scanner, region bytes) with at least one special byte"
                % (96 if thorough else 40))
    cases = c12_scanner_cases(rnd, 96 if thorough else 40, thorough)
    # all 256 byte values through each classifier, alone and after a full chunk
    for v in range(256):
        for sc, fill in (("skipws", b" "), ("digits", b"5"), ("ident", b"a"), ("findquote", b"a")):
            for region in (bytes([v]), fill * 16 + bytes([v]) + fill, bytes([v]) * 17):
                cases.append(("%s %s 0 %d" % (sc, hexs(region), len(region)), sc, region, 0, len(region)))
    # LF index
    for L in list(range(0, 70)) + [127, 128, 129, 1000]:
        for _ in range(3 if thorough else 1):
            b = bytes(rnd.choice(b"\n\n\r ab") for _ in range(L))
            cases.append(("lfindex %s" % hexs(b), "lfindex", b, 0, L))
    lines = [c[0] for c in cases]
    for cfg in (CFGS if thorough else ["00", "11"]):
        for kind in (("san", "prod") if thorough else ("san",)):
            impl, model = correspond(res, cfg, kind, lines, label="scanners")
            for (ln, sc, buf, p, e), a in zip(cases, impl):
                want = refs.scanner_ref(sc, buf, p, e)
                res.nontrivial.add((sc, buf[p:e]))
                res.count("scanner:" + sc)
                if is_crash(a):
                    res.violations.append(Violation("scanner-crash:" + sc, ln, a, cfg))
                elif a != want:
                    res.violations.append(Violation("scanner-differs-from-scalar:" + sc, ln,
                                                    "implementation %r, byte-at-a-time reference %r" % (a, want), cfg))
        res.sample(lines[len(lines) // 3])
    # documents: k leading blanks shift positions by k; bytes after the length do not matter
    for cfg in CFGS:
        g = Gen(res.seed * 7 + int(cfg, 2), clj=cfg[0] == "1", exp=cfg[1] == "1")
        docs = [g.document(3) for _ in range(120 if thorough else 40)]
        docs += [g.corrupt(g.document(2)) for _ in range(60 if thorough else 20)]
        lines, meta = [], []
        for d in docs:
            ks = range(48) if thorough else [0, 1, 7, 15, 16, 17, 31, 47]
            for k in ks:
                lines.append(docline(b" " * k + d))
                meta.append(("shift", d, k))
            for suf in (b"]", b"abc", b'"', b"0", b" 1"):
                lines.append(docline(d + suf, length=len(d)) if d else docline(d))
                meta.append(("suffix", d, suf))
        impl, model = correspond(res, cfg, "san", lines, label="doc-shift")
        base = {}
        for (what, d, x), a in zip(meta, impl):
            res.count("doc:" + what)
            if is_crash(a):
                res.violations.append(Violation("doc-crash", docline(d), a, cfg))
                continue
            if what == "shift":
                if x == 0:
                    base[d] = a
                elif d in base and refs.shift_obs(base[d], x) != a:
                    res.violations.append(Violation("leading-blanks-change-result", docline(b" " * x + d),
                                                    "k=%d: %s vs unshifted %s" % (x, a[:300], base[d][:300]), cfg))
            elif d in base and d and a != base[d]:
                res.violations.append(Violation("bytes-after-length-change-result", docline(d + x, length=len(d)),
                                                "%s vs %s" % (a[:300], base[d][:300]), cfg))
        res.sample(lines[5])


# =============================================================================== C04
def c04_literals(rnd, cfg, n):
    clj, exp = cfg[0] == "1", cfg[1] == "1"
    out = []
    edges = [2 ** 63 - 1, 2 ** 63, 2 ** 63 + 1, 2 ** 64, 2 ** 64 - 1, 10 ** 8 - 1, 10 ** 8, 10 ** 16 - 1, 10 ** 16,
             10 ** 18, 10 ** 19 - 1, 10 ** 19, 999, 1000, 0, 1, 9, 10, 99999999999999999]
    for _ in range(n):
        k = rnd.random()
        if k < 0.25:
            v = rnd.choice(edges) + rnd.randrange(-3, 4)
            v = max(v, 0)
        elif k < 0.6:
            nd = rnd.randrange(1, 41)
            v = rnd.randrange(10 ** (nd - 1), 10 ** nd) if nd > 1 else rnd.randrange(0, 10)
        else:
            v = rnd.randrange(0, 2 ** rnd.randrange(1, 70))
        sign = rnd.choice(["", "", "-", "+"])
        form = rnd.random()
        if clj and form < 0.15:
            body = "0x%x" % v if rnd.random() < 0.5 else "0X%X" % v
            body += rnd.choice(["", "", "N"])
        elif clj and form < 0.25 and v > 0:
            body = "0" * rnd.randrange(1, 3) + "%o" % v
        elif clj and form < 0.4:
            radix = rnd.randrange(2, 37)
            digs = "0123456789abcdefghijklmnopqrstuvwxyz"
            s, x = "", v
            while True:
                s = digs[x % radix] + s
                x //= radix
                if x == 0:
                    break
            if rnd.random() < 0.3:
                s = s.upper()
            body = "%d%s%s" % (radix, rnd.choice("rR"), s)
        elif clj and form < 0.6:
            d = rnd.choice([1, 2, 3, 6, 10, 2 ** 63 - 1, 2 ** 63, rnd.randrange(1, 10 ** rnd.randrange(1, 22))])
            body = "%d/%d" % (v, d)
        else:
            body = str(v)
            if exp and len(body) > 1 and rnd.random() < 0.4:
                parts = []
                for i, ch in enumerate(body):
                    parts.append(ch)
                    if i + 1 < len(body) and rnd.random() < 0.25:
                        parts.append("_" * rnd.randrange(1, 3))
                body = "".join(parts)
            body += rnd.choice(["", "", "", "N", "M"])
        out.append(sign + body)
    return out


@prop("C04")
def check_c04(res):
    rnd = random.Random(res.seed)
    thorough = res.tier == "thorough"
    res.rule = ("integer-family literals (decimal 1..40 digits, 2^63 / 10^8k neighbourhoods, sign, N/M suffix; "
                "clj: hex, octal, NrD radix 2..36, ratios incl. INT64_MIN/MAX operands; exp: underscores) read "
                "through the public API and compared with Python integer arithmetic; direct calls of the static "
                "parse_int64_from_buffer and SWAR functions incl. every digit count 1..40 and all block-count "
                "changes; non-trivial = distinct literal text")
    n = 4000 if thorough else 1200
    for cfg in CFGS:
        clj, exp = cfg[0] == "1", cfg[1] == "1"
        lits = c04_literals(rnd, cfg, n)
        # exhaustive neighbourhood of +-2^63
        for d in range(-40 if not thorough else -2000, 41 if not thorough else 2001):
            lits.append(str(2 ** 63 + d))
            lits.append("-" + str(2 ** 63 + d))
        lines = [docline(l.encode()) for l in lits]
        impl, model = correspond(res, cfg, "san", lines, label="int-literals")
        for lit, a in zip(lits, impl):
            res.nontrivial.add((cfg, lit))
            res.count("literal:" + ("ratio" if "/" in lit else "radix" if "r" in lit.lower() and clj else
                                    "hex" if "x" in lit.lower() else "dec"))
            if is_crash(a):
                res.violations.append(Violation("int-literal-crash", docline(lit.encode()), a, cfg))
                continue
            want = "OK %s@0-%d calls=0" % (refs.expect_int_literal(lit, clj, exp), len(lit))
            if a != want:
                res.violations.append(Violation("int-literal-wrong-value", docline(lit.encode()),
                                                "literal %s: implementation %s, mathematical value %s" % (lit, a, want), cfg))
        res.sample({"cfg": cfg, "literal": lits[0]})
        # leaf calls
        leaf, meta = [], []
        for nd in range(1, 41):
            for _ in range(6 if thorough else 2):
                for radix in ([10] + (list(range(2, 37)) if thorough else [2, 8, 16, 36])):
                    digs = "0123456789abcdefghijklmnopqrstuvwxyz"[:radix]
                    s = "".join(rnd.choice(digs) for _ in range(nd))
                    if exp and nd > 2 and rnd.random() < 0.3:
                        i = rnd.randrange(1, nd)
                        s = s[:i] + "_" + s[i:]
                    for neg in (0, 1):
                        leaf.append("int64 %s %d %d" % (s.encode().hex(), radix, neg))
                        meta.append((s, radix, neg))
        impl, model = correspond(res, cfg, "san", leaf, label="parse_int64")
        for (s, radix, neg), a in zip(meta, impl):
            want = refs.expect_int64(s, radix, neg, exp)
            res.count("leaf:int64")
            if a != want:
                res.violations.append(Violation("parse-int64-wrong", "int64 %s %d %d" % (s.encode().hex(), radix, neg),
                                                "digits %s radix %d neg %d: %s, expected %s" % (s, radix, neg, a, want), cfg))
        # SWAR blocks: sampled against the model, exhaustive range on the C side
        sw = []
        for _ in range(300):
            blk = bytes(rnd.choice(b"0123456789") if rnd.random() < 0.9 else rnd.randrange(256) for _ in range(8))
            sw.append("swar %s" % blk.hex())
        correspond(res, cfg, "san", sw, label="swar")
    span = (0, 100000000) if thorough else (rnd.randrange(0, 99000000),) * 2
    if not thorough:
        span = (span[0], span[0] + 1000000)
    out = runner.run_impl("00", "prod", ["swarall %d %d" % span])
    res.evaluations += span[1] - span[0]
    res.count("swar-blocks", span[1] - span[0])
    if not out[0].startswith("OK"):
        res.violations.append(Violation("swar-block-wrong", "swarall %d %d" % span, out[0], "00"))
