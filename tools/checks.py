#!/usr/bin/env python3
"""checks.py -- per-property suites: generators, correspondence runs and property oracles."""
import os, random, re, sys

ROOT = os.path.dirname(os.path.dirname(os.path.abspath(__file__)))
sys.path.insert(0, os.path.join(ROOT, "tools"))
from framework import *  # noqa
from gen import Gen, hexs, WS_BYTES  # noqa
import refs  # noqa
from build import REPO  # noqa

PROPS = {}


def prop(pid):
    def deco(f):
        PROPS[pid] = f
        return f
    return deco


def docline(b, reg="-", mode=0, eof=0, length=None):
    return "doc %s %s %d %d" % (hexs(b), reg, mode, eof) + ("" if length is None else " %d" % length)


# =============================================================================== C12
def c12_scanner_cases(rnd, maxlen, dense):
    """direct scanner calls: (line, kind, buf, p, e)"""
    cases = []
    specials = {
        "skipws": [b";", b"\n", b"a", b"\x08", b"\x0e", b"\x1b", b"\x21", b"\xa0", b"\x00", b"\x7f", b"\x1c", b"\x20", b",", b"\x0d"],
        "findquote": [b'"', b"\\", b"x", b"\x00", b"\xa2", b"\xdc"],
        "digits": [b"/", b":", b"a", b"0", b"9", b"\xb0", b"\x00", b" "],
        "ident": [b" ", b"/", b":", b")", b"\x00", b"\x7f", b"\x80", b"#", b";", b"a"],
    }
    fills = {"skipws": [b" ", b",", b"\t", b"\x1c", b"\n"], "findquote": [b"a", b" "], "digits": [b"0", b"7", b"9"],
             "ident": [b"a", b"z", b"-", b"."]}
    suffixes = [b"", b"    ", b"0000", b'"\\"\\', b";;\n\n", b"aaaa::/", b"\xff\xff"]
    for sc in ("skipws", "findquote", "digits", "ident"):
        lens = list(range(0, maxlen + 1))
        for L in lens:
            for fill in fills[sc][: (len(fills[sc]) if dense else 2)]:
                # no special byte
                cases.append((sc, fill * L))
                if L == 0:
                    continue
                pos1s = range(L) if (dense or L <= 34) else sorted(set([0, 1, 14, 15, 16, 17, 31, 32, 33, L - 2, L - 1]) & set(range(L)))
                for p1 in pos1s:
                    for s1 in specials[sc]:
                        b = bytearray(fill * L)
                        b[p1:p1 + 1] = s1
                        cases.append((sc, bytes(b)))
                        # a second special byte at chosen distances
                        for d in (1, 2, 15, 16, 17):
                            p2 = p1 + d
                            if p2 < L and (dense or rnd.random() < 0.25):
                                s2 = rnd.choice(specials[sc])
                                b2 = bytearray(b)
                                b2[p2:p2 + 1] = s2
                                cases.append((sc, bytes(b2)))
    # block-structured regions: a special byte in the last / first lanes of one 16-byte block and EVERY special at the
    # first / last lanes of the following blocks (carry-over state between blocks, clean blocks in between)
    for sc in ("skipws", "findquote", "digits", "ident"):
        fill = fills[sc][0]
        sp = specials[sc][:4]
        for nblocks in (2, 3, 4):
            for tail in (0, 1, 5):
                L = 16 * nblocks + tail
                for p1 in (14, 15, 16, 30, 31):
                    for s1 in sp:
                        for p2 in (16, 17, 31, 32, 33, 47, 48, 49, L - 1):
                            if p1 < p2 < L:
                                for s2 in sp:
                                    b = bytearray(fill * L)
                                    b[p1:p1 + 1] = s1
                                    b[p2:p2 + 1] = s2
                                    cases.append((sc, bytes(b)))
    out = []
    for sc, region in cases:
        phase = rnd.randrange(0, 4) if not dense else rnd.randrange(0, 17)
        suf = rnd.choice(suffixes)
        buf = b"x" * phase + region + suf
        p, e = phase, phase + len(region)
        out.append(("%s %s %d %d" % (sc, hexs(buf), p, e), sc, buf, p, e))
        if suf and rnd.random() < 0.3:
            # same region, different bytes after it: the answer must not change
            buf2 = b"x" * phase + region + bytes((c ^ 0x5A) & 0xFF for c in suf)
            out.append(("%s %s %d %d" % (sc, hexs(buf2), p, e), sc, buf2, p, e))
    return out


@prop("C12")
def check_c12(res):
    rnd = random.Random(res.seed)
    thorough = res.tier == "thorough"
    res.rule = ("direct calls to edn_simd_skip_whitespace / edn_simd_find_quote / edn_simd_scan_digits / "
                "scan_identifier / newline_find_all: every length 0..%d x position of one special byte x byte class "
                "(+ second special at distance 1,2,15,16,17), random start phase and trailing bytes; all 256 byte "
                "values per classifier; documents with k=0..47 leading blanks and with altered bytes after the "
                "declared length. non-trivial = distinct (scanner, region bytes) with at least one special byte"
                % (96 if thorough else 40))
    cases = c12_scanner_cases(rnd, 96 if thorough else 40, thorough)
    # all 256 byte values through each classifier, alone and after a full chunk
    for v in range(256):
        for sc, fill in (("skipws", b" "), ("digits", b"5"), ("ident", b"a"), ("findquote", b"a")):
            for region in (bytes([v]), fill * 16 + bytes([v]) + fill, bytes([v]) * 17):
                cases.append(("%s %s 0 %d" % (sc, hexs(region), len(region)), sc, region, 0, len(region)))
    # LF index
    for L in list(range(0, 70)) + [127, 128, 129, 1000]:
        for _ in range(3 if thorough else 1):
            b = bytes(rnd.choice(b"\n\n\r ab") for _ in range(L))
            cases.append(("lfindex %s" % hexs(b), "lfindex", b, 0, L))
    # many line feeds with short, irregular lines: the index array is grown while a 16-byte block is half processed
    for nlf in (60, 63, 64, 65, 66, 70, 127, 128, 129, 130, 255, 256, 257, 300, 513, 1025):
        for _ in range(2):
            b = b"".join(b"x" * rnd.choice([0, 0, 1, 2, 3, 5, 7]) + b"\n" for _ in range(nlf))
            b = b" " * rnd.randrange(0, 16) + b
            cases.append(("lfindex %s" % hexs(b), "lfindex", b, 0, len(b)))
    lines = [c[0] for c in cases]
    for cfg in (CFGS if thorough else ["00", "11"]):
        for kind in (("san", "prod") if thorough else ("san",)):
            impl, model = correspond(res, cfg, kind, lines, label="scanners")
            for (ln, sc, buf, p, e), a in zip(cases, impl):
                want = refs.scanner_ref(sc, buf, p, e)
                res.nontrivial.add((sc, buf[p:e]))
                res.count("scanner:" + sc)
                if is_crash(a):
                    res.violations.append(Violation("scanner-crash:" + sc, ln, a, cfg))
                elif a != want:
                    res.violations.append(Violation("scanner-differs-from-scalar:" + sc, ln,
                                                    "implementation %r, byte-at-a-time reference %r" % (a, want), cfg))
        res.sample(lines[len(lines) // 3])
    # documents: k leading blanks shift positions by k; bytes after the length do not matter
    for cfg in CFGS:
        g = Gen(res.seed * 7 + int(cfg, 2), clj=cfg[0] == "1", exp=cfg[1] == "1")
        docs = [g.document(3) for _ in range(120 if thorough else 40)]
        docs += [g.corrupt(g.document(2)) for _ in range(60 if thorough else 20)]
        lines, meta = [], []
        for d in docs:
            ks = range(48) if thorough else [0, 1, 7, 15, 16, 17, 31, 47]
            for k in ks:
                lines.append(docline(b" " * k + d))
                meta.append(("shift", d, k))
            for suf in (b"]", b"abc", b'"', b"0", b" 1"):
                lines.append(docline(d + suf, length=len(d)) if d else docline(d))
                meta.append(("suffix", d, suf))
        impl, model = correspond(res, cfg, "san", lines, label="doc-shift")
        base = {}
        for (what, d, x), a in zip(meta, impl):
            res.count("doc:" + what)
            if is_crash(a):
                res.violations.append(Violation("doc-crash", docline(d), a, cfg))
                continue
            if what == "shift":
                if x == 0:
                    base[d] = a
                elif d in base and refs.shift_obs(base[d], x) != a:
                    res.violations.append(Violation("leading-blanks-change-result", docline(b" " * x + d),
                                                    "k=%d: %s vs unshifted %s" % (x, a[:300], base[d][:300]), cfg))
            elif d in base and d and a != base[d]:
                res.violations.append(Violation("bytes-after-length-change-result", docline(d + x, length=len(d)),
                                                "%s vs %s" % (a[:300], base[d][:300]), cfg))
        res.sample(lines[5])
        # tokens cut at every position with the rest of the token, a different completion, NUL or junk behind the length
        check_following_bytes(res, cfg, "bytes-after-length-change-result")
    # the accelerated text-block line scanner (experimental flag): every special byte sequence of a block line --
    # closing delimiter, escaped triple quote, lone and doubled quote, backslash, line feed -- at every offset of
    # lines that span up to four 16-byte blocks, after 0..3 leading blanks, with and without bytes behind the input
    for cfg in ("01", "11"):
        lines, meta = [], []
        for lead in (b"", b" ", b"   ", b"\t "):
            for L in range(0, 66 if thorough else 52):
                fill = bytes(b"abcdefghijklmnop"[i % 16] for i in range(L))
                bodies = [lead + fill,                                         # closing delimiter right after L bytes
                          lead + fill + b'\\"""z',                              # escaped triple quote, then close
                          lead + fill + b'" q',                                # lone quote inside the line
                          lead + fill + b'"" q',                               # two quotes
                          lead + fill + b"\\ q",                               # backslash
                          lead + fill + b"\n" + lead + b"second",              # line feed, second line
                          lead + fill + b'"\n' + lead]                         # quote as the last byte of a line
                for b_ in bodies:
                    d = b'"""\n' + b_ + b'"""'
                    lines.append(docline(d)); meta.append((b_, d, None))
                    lines.append(docline(d + b'"', length=len(d))); meta.append((b_, d, b'"'))
        impl, model = correspond(res, cfg, "san", lines, label="text-block-line-scanner")
        for (b_, d, suf), ln, a in zip(meta, lines, impl):
            res.count("text-block-line")
            res.nontrivial.add((cfg, "tbline", b_))
            ref = refs.textblock_ref(b_ + b'"""')
            if is_crash(a):
                res.violations.append(Violation("scanner-crash:text-block-line", ln, a, cfg))
            elif ref is not None and ref[1] == len(b_) + 3:
                want = "OK str:%d:%s:%d:%s@0-%d calls=0" % (1 if b'\\"""' in b_ else 0, hexs(ref[0]), len(ref[0]), hexs(ref[0]), len(d))
                if a != want:
                    res.violations.append(Violation("scanner-differs-from-scalar:text-block-line", ln,
                                                    "block %r: implementation %s, byte-at-a-time reference %s" % (b_[:70], a[:120], want[:120]), cfg))


# =============================================================================== C04
def c04_literals(rnd, cfg, n):
    clj, exp = cfg[0] == "1", cfg[1] == "1"
    out = []
    edges = [2 ** 63 - 1, 2 ** 63, 2 ** 63 + 1, 2 ** 64, 2 ** 64 - 1, 10 ** 8 - 1, 10 ** 8, 10 ** 16 - 1, 10 ** 16,
             10 ** 18, 10 ** 19 - 1, 10 ** 19, 999, 1000, 0, 1, 9, 10, 99999999999999999]
    for _ in range(n):
        k = rnd.random()
        if k < 0.25:
            v = rnd.choice(edges) + rnd.randrange(-3, 4)
            v = max(v, 0)
        elif k < 0.6:
            nd = rnd.randrange(1, 41)
            v = rnd.randrange(10 ** (nd - 1), 10 ** nd) if nd > 1 else rnd.randrange(0, 10)
        else:
            v = rnd.randrange(0, 2 ** rnd.randrange(1, 70))
        sign = rnd.choice(["", "", "-", "+"])
        form = rnd.random()
        if clj and form < 0.15:
            body = "0x%x" % v if rnd.random() < 0.5 else "0X%X" % v
            body += rnd.choice(["", "", "N"])
        elif clj and form < 0.25 and v > 0:
            body = "0" * rnd.randrange(1, 3) + "%o" % v
        elif clj and form < 0.4:
            radix = rnd.randrange(2, 37)
            digs = "0123456789abcdefghijklmnopqrstuvwxyz"
            s, x = "", v
            while True:
                s = digs[x % radix] + s
                x //= radix
                if x == 0:
                    break
            if rnd.random() < 0.3:
                s = s.upper()
            body = "%d%s%s" % (radix, rnd.choice("rR"), s)
        elif clj and form < 0.6:
            d = rnd.choice([1, 2, 3, 6, 10, 2 ** 63 - 1, 2 ** 63, rnd.randrange(1, 10 ** rnd.randrange(1, 22))])
            body = "%d/%d" % (v, d)
        else:
            body = str(v)
            if exp and len(body) > 1 and rnd.random() < 0.4:
                parts = []
                for i, ch in enumerate(body):
                    parts.append(ch)
                    if i + 1 < len(body) and rnd.random() < 0.25:
                        parts.append("_" * rnd.randrange(1, 3))
                body = "".join(parts)
            body += rnd.choice(["", "", "", "N", "M"])
        out.append(sign + body)
    return out


@prop("C04")
def check_c04(res):
    rnd = random.Random(res.seed)
    thorough = res.tier == "thorough"
    res.rule = ("integer-family literals (decimal 1..40 digits, 2^63 / 10^8k neighbourhoods, sign, N/M suffix; "
                "clj: hex, octal, NrD radix 2..36, ratios incl. INT64_MIN/MAX operands; exp: underscores) read "
                "through the public API and compared with Python integer arithmetic; direct calls of the static "
                "parse_int64_from_buffer and SWAR functions incl. every digit count 1..40 and all block-count "
                "changes; non-trivial = distinct literal text")
    n = 4000 if thorough else 1200
    for cfg in CFGS:
        clj, exp = cfg[0] == "1", cfg[1] == "1"
        lits = c04_literals(rnd, cfg, n)
        # exhaustive neighbourhood of +-2^63
        for d in range(-40 if not thorough else -2000, 41 if not thorough else 2001):
            lits.append(str(2 ** 63 + d))
            lits.append("-" + str(2 ** 63 + d))
        lines = [docline(l.encode()) for l in lits]
        impl, model = correspond(res, cfg, "san", lines, label="int-literals")
        for lit, a in zip(lits, impl):
            res.nontrivial.add((cfg, lit))
            res.count("literal:" + ("ratio" if "/" in lit else "radix" if "r" in lit.lower() and clj else
                                    "hex" if "x" in lit.lower() else "dec"))
            if is_crash(a):
                res.violations.append(Violation("int-literal-crash", docline(lit.encode()), a, cfg))
                continue
            want = "OK %s@0-%d calls=0" % (refs.expect_int_literal(lit, clj, exp), len(lit))
            if a != want:
                res.violations.append(Violation("int-literal-wrong-value", docline(lit.encode()),
                                                "literal %s: implementation %s, mathematical value %s" % (lit, a, want), cfg))
        # big numbers fetched in every order, with other lazily materialised values fetched in between: what an accessor
        # returns for a value must not change when OTHER values of the same document are materialised afterwards (the
        # cleaned digit strings live in the document's arena next to each other; lengths around the 8-byte granule)
        bl_, bm_ = [], []
        BS = b"\x5c"
        def _grp(n, r):
            ds = "".join(r.choice("123456789") for _ in range(n))
            if exp and n > 1:
                cuts = sorted(set(r.randrange(1, n) for _ in range(r.randrange(1, 4))))
                out_, prev = [], 0
                for cpos in cuts:
                    out_.append(ds[prev:cpos]); prev = cpos
                out_.append(ds[prev:])
                return "_".join(out_)
            return ds
        for n1 in (7, 8, 9, 15, 16, 17, 23, 24, 25, 32, 40):
            for n2 in (2, 8, 16, 21):
                for suf in ("N", "M"):
                    a1 = _grp(max(n1, 20) if suf == "N" and not exp and n1 < 20 else n1, rnd) + suf
                    a2 = _grp(n2, rnd) + suf
                    a3 = _grp(24, rnd) + "." + _grp(8, rnd) + "M"
                    dtxt = ("[%s %s %s " % (a1, a2, a3)).encode() + b'"q' + BS + b'nr" ' + (_grp(30, rnd) + "N").encode() + b"]"
                    first = ";".join("D0.%d" % i for i in (0, 1, 2, 4))
                    bl_.append("script P0=%s;%s;G0.3;%s;H0;%s" % (hexs(dtxt), first, first, first))
                    bm_.append(dtxt)
        bimpl, bmodel = correspond(res, cfg, "san", bl_, label="bignum-fetch-histories")
        for dtxt, ln, a in zip(bm_, bl_, bimpl):
            res.count("bignum-fetch-history")
            res.nontrivial.add((cfg, "bigfetch", dtxt))
            out = a.split(";")
            if is_crash(a):
                res.violations.append(Violation("int-literal-crash", ln[:3000], a[:200], cfg))
            elif out[0] == "ok" and (out[1:5] != out[6:10] or out[1:5] != out[11:15]):
                res.violations.append(Violation("big-number-changes-after-other-fetches", ln[:3000],
                                                "%r: first %s | after a string fetch %s | after hashing %s"
                                                % (dtxt[:80], ";".join(out[1:5])[:120], ";".join(out[6:10])[:120], ";".join(out[11:15])[:120]), cfg))
        res.sample({"cfg": cfg, "literal": lits[0]})
        # leaf calls
        leaf, meta = [], []
        for nd in range(1, 41):
            for _ in range(6 if thorough else 2):
                for radix in ([10] + (list(range(2, 37)) if thorough else [2, 8, 16, 36])):
                    digs = "0123456789abcdefghijklmnopqrstuvwxyz"[:radix]
                    s = "".join(rnd.choice(digs) for _ in range(nd))
                    if exp and nd > 2 and rnd.random() < 0.3:
                        i = rnd.randrange(1, nd)
                        s = s[:i] + "_" + s[i:]
                    for neg in (0, 1):
                        leaf.append("int64 %s %d %d" % (s.encode().hex(), radix, neg))
                        meta.append((s, radix, neg))
        impl, model = correspond(res, cfg, "san", leaf, label="parse_int64")
        for (s, radix, neg), a in zip(meta, impl):
            want = refs.expect_int64(s, radix, neg, exp)
            res.count("leaf:int64")
            if a != want:
                res.violations.append(Violation("parse-int64-wrong", "int64 %s %d %d" % (s.encode().hex(), radix, neg),
                                                "digits %s radix %d neg %d: %s, expected %s" % (s, radix, neg, a, want), cfg))
        # SWAR blocks: sampled against the model, exhaustive range on the C side
        sw = []
        for _ in range(300):
            blk = bytes(rnd.choice(b"0123456789") if rnd.random() < 0.9 else rnd.randrange(256) for _ in range(8))
            sw.append("swar %s" % blk.hex())
        correspond(res, cfg, "san", sw, label="swar")
    span = (0, 100000000) if thorough else (rnd.randrange(0, 99000000),) * 2
    if not thorough:
        span = (span[0], span[0] + 1000000)
    out = runner.run_impl("00", "prod", ["swarall %d %d" % span])
    res.evaluations += span[1] - span[0]
    res.count("swar-blocks", span[1] - span[0])
    if not out[0].startswith("OK"):
        res.violations.append(Violation("swar-block-wrong", "swarall %d %d" % span, out[0], "00"))


# =============================================================================== value pools
def value_pool(rnd, cfg, n=40):
    """texts of values with near-miss variants (same value in different renderings, one leaf
    changed, list<->vector, +-0.0, NaN, N/M spellings, reordered sets/maps)"""
    clj, exp = cfg[0] == "1", cfg[1] == "1"
    g = Gen(rnd.randrange(1 << 30), clj=clj, exp=exp)
    base = [b"nil", b"true", b"false", b"0", b"-0", b"1", b"-1", b"1N", b"1M", b"1.0", b"0.0", b"-0.0", b"1e0", b"10e-1",
            b"##NaN", b"##Inf", b"##-Inf", b"\\a", b"\\newline", b"\\u0061", b'""', b'"a"', b'"a\\n"', b'"a\n"',
            b'"\\\\"', b":a", b":a/b", b"a", b"a/b", b"/", b"()", b"[]", b"{}", b"#{}", b"(1 2)", b"[1 2]", b"[2 1]",
            b"(1 [2])", b"[1 (2)]", b"{:a 1 :b 2}", b"{:b 2 :a 1}", b"{:a 1 :b 3}", b"#{1 2 3}", b"#{3 2 1}", b"#{1 2 4}",
            b"#inst \"x\"", b"#inst \"y\"", b"#uuid \"x\"", b"[[[[1]]]]", b"((((1))))", b"{[1 2] (3 4)}", b"{(1 2) [3 4]}",
            b"#{[1] (2)}", b"#{(1) [2]}", b"9223372036854775808", b"9223372036854775808N", b"-9223372036854775808",
            b"[0.0]", b"[-0.0]", b"(0.0 ##NaN)", b"[-0.0 ##NaN]", b'[" \\t"]', b'[" \t"]']
    if clj:
        base += [b"1/2", b"2/4", b"-1/2", b"0x10", b"16", b"020", b"2r10000", b"1/3", b"99999999999999999999/3",
                 b"^:k [1]", b"[1]", b"^{:a 1} (1)", b"#:n{:a 1}", b"{:n/a 1}", b'"\\u0041"', b'"A"', b'"\\101"']
    if exp:
        base += [b"1_000", b"1000", b"1_0N", b"10N", b"1_0.5M", b"10.5M", b'"""\n ab\n """', b'"ab\\n"', b'"ab\n"']
    for _ in range(n):
        base.append(g.form(2))
    # nested up to 64
    for d in (10, 64):
        base.append(b"[" * d + b"1" + b"]" * d)
        base.append(b"(" * d + b"1" + b")" * d)
        base.append(b"[" * d + b"2" + b"]" * d)
    return base


def pool_doc(pool):
    """one vector document holding every pool value that parses on its own"""
    return b"[" + b"\n".join(pool) + b"]"


def fetch_history_scripts(clj):
    """scripts in which edn_string_get is applied to one / the other / both of two equal strings (as values, as a map
    key, as a set element, as the probe) in every order of up to 2 calls before equality, lookup, membership and the
    string-key helper are asked.  Returns [(literal, [script...])]; the answers after the prefix must be identical
    for every prefix of one literal, and the first six must be 1;1;idx0;1;1;1."""
    import itertools
    strs = [b'"a"', b'""', b'"a\\n"', b'"\\\\"', b'"say \\"hi\\""', b'"a\\tb"', b'"x' + b"y" * 40 + b'\\n"',
            b'"plain string of some length"', b'"\\n\\n\\n\\n"']
    out = []
    for s_ in strs:
        dec = refs.unescape(s_[1:-1], clj)
        twin = b'"' + dec.replace(b"\\", b"\\\\").replace(b'"', b'\\"') + b'"'     # raw spelling of the same content
        head = "script P0=%s;P1=%s;P2=%s;P3=%s;P4=%s;" % (hexs(b"[" + s_ + b"]"), hexs(b"[" + s_ + b"]"), hexs(b"{" + s_ + b" :v}"),
                                                         hexs(b"#{" + s_ + b"}"), hexs(b"[" + twin + b"]"))
        tail = "E0.0,1.0;E1.0,0.0;L2,0.0;K2,1.0;S3,0.0;S3,1.0;T2,%s;L2,4.0;S3,4.0;E0.0,4.0" % hexs(dec)
        scs = []
        for k in range(0, 3):
            for perm in itertools.permutations(["G0.0", "G1.0", "G2.0", "G3.0", "G4.0"], k):
                scs.append((k, head + "".join(o + ";" for o in perm) + tail))
        out.append((s_, scs))
    return out


def check_fetch_histories(res, cfg, kind):
    clj = cfg[0] == "1"
    groups = fetch_history_scripts(clj)
    flat = [sc for _, scs in groups for _, sc in scs]
    impl, model = correspond(res, cfg, "san", flat, label="string-fetch-histories")
    pos = 0
    for s_, scs in groups:
        base = None
        for (k, sc) in scs:
            a = impl[pos]; pos += 1
            res.count("string-fetch-history")
            res.nontrivial.add((cfg, "fetch-history", sc[-90:]))
            if is_crash(a):
                res.violations.append(Violation(kind, sc, a[:200], cfg)); continue
            tail = a.split(";")[5 + k:]
            if base is None:
                base = tail
            if tail != base or tail[:6] != ["1", "1", "idx0", "1", "1", "1"]:
                res.violations.append(Violation(kind, sc, "literal %r: answers %s after %d string fetches, %s on fresh values"
                                                % (s_[:40], ";".join(tail), k, ";".join(base)), cfg))


def parse_failcount(cobs):
    """'N[/i,j,..] <observation>' -> (N, [indices of requests that went to libc], observation)"""
    head, ref = cobs.split(" ", 1)
    if "/" in head:
        n, idx = head.split("/")
        return int(n), [int(x) for x in idx.split(",")], ref
    return int(head), [], ref


def fault_indices(n, libc, dense_below=80, head=40, tail=20, steps=40):
    """request numbers to fail: all of them for short runs; otherwise the first and last ones, an even sample,
    and EVERY libc request with its neighbours (block growth, scratch copies, tables: few, and each a distinct path)"""
    if n <= dense_below:
        return list(range(n))
    ks = set(range(min(head, n))) | set(range(max(0, n - tail), n)) | set(range(head, n, max(1, n // steps)))
    for i in libc:
        ks.update(k for k in (i - 1, i, i + 1) if 0 <= k < n)
    return sorted(ks)


def external_history_scripts(rnd, n_random):
    """scripts mixing external-type table operations (register with / without hash callback, re-register, refused
    registration, unregister -- for the type of the values and for unrelated types, in every order) with reads of
    documents whose tag handler produces external values, and equality / lookup / membership / duplicate queries on
    them.  The expected answers are the model's: the table is a finite map from type id to the latest callbacks
    (proved), equality of externals = same type and (callback or same pointer)."""
    out = []
    m_ = hexs(b"{#x 1 :a #x 2 :b #x 3 :c}")
    s_ = hexs(b"#{#x 1 #x 2 #x 3}")
    p_ = hexs(b"[#x 1001 #x 2 #x 4 #x 3003]")
    big = hexs(b"#{" + b" ".join(b"#x %d" % i for i in range(1, 20)) + b" #x 1007}")
    bigm = hexs(b"{" + b" ".join(b"#x %d %d" % (i, i) for i in range(1, 20)) + b" #x 2013 0}")
    q_ = "L0,2.0;K0,2.0;S1,2.0;L0,2.1;S1,2.1;L0,2.2;S1,2.2;L0,2.3;E0.0,2.0;E2.0,0.0;H0.0;H2.0;E0.0,2.0;L0,2.0"
    fixed = [
        "Xr7:5;R0=%s;R1=%s;R2=%s;%s;Xu7;%s" % (m_, s_, p_, q_, q_),
        "Xr9:0;Xr7:5;Xu9;R0=%s;R1=%s;R2=%s;%s" % (m_, s_, p_, q_),                 # unregister an OLDER, unrelated type
        "Xr7:5;Xr9:0;Xr5:1;Xu9;R0=%s;R1=%s;R2=%s;%s" % (m_, s_, p_, q_),
        "Xr7:6;Xr7:5;R3=%s;R4=%s" % (big, bigm),                                    # hash callback added by re-registration
        "Xr7:5;Xr7:6;R3=%s;R4=%s" % (big, bigm),                                    # ... and removed by re-registration
        "Xr7:5;R0=%s;R2=%s;L0,2.0;Xu7;L0,2.0;Xr7:0;L0,2.0;Xr7:5;L0,2.0" % (m_, p_),  # lookups around unregister / re-register
        "Xr7:5;R1=%s;R2=%s;S1,2.0;Xu7;Xr8:0;Xr6:1;S1,2.0;R1=%s;S1,2.0" % (s_, p_, s_),
        "Xr7:4;R0=%s;R2=%s;L0,2.0;Xr7:5;Xr7:4;L0,2.0" % (m_, p_),                    # refused registrations change nothing
    ]
    for f in fixed:
        out.append("script " + f)
    ids = [7, 7, 7, 9, 5]
    for _ in range(n_random):
        ops = []
        for _ in range(rnd.randrange(1, 6)):
            i = rnd.choice(ids)
            ops.append(rnd.choice(["Xr%d:0", "Xr%d:2", "Xr%d:5", "Xr%d:5", "Xr%d:6", "Xr%d:4", "Xu%d"]) % i)
        body = ops + ["R0=" + m_, "R1=" + s_, "R2=" + p_, q_]
        for _ in range(rnd.randrange(0, 4)):
            i = rnd.choice(ids)
            body.append(rnd.choice(["Xr%d:0", "Xr%d:5", "Xr%d:6", "Xu%d", "Xu%d"]) % i)
        body.append(q_)
        if rnd.random() < 0.5:
            body += ["R3=" + big, "R4=" + bigm]
        out.append("script " + ";".join(body))
    return out


def check_external_histories(res, cfg, kind, thorough):
    rnd = random.Random(res.seed * 131 + int(cfg, 2))
    scripts = external_history_scripts(rnd, 300 if thorough else 80)
    impl, model = correspond(res, cfg, "san", scripts, label="external-type-histories")
    for ln, a, mo in zip(scripts, impl, model):
        res.count("external-type-history")
        res.nontrivial.add((cfg, "ext-history", ln[-120:]))
        if is_crash(a):
            res.violations.append(Violation(kind + ":" + refs.crash_class(a), ln, a[:250], cfg))
        elif a != mo and not mo.startswith(("MODELFAIL", "DRIVERFAIL")):
            oa, om = a.split(";"), mo.split(";")
            bad = next((k for k, (x, y) in enumerate(zip(oa, om)) if x != y), min(len(oa), len(om)))
            res.violations.append(Violation(kind, ln, "answer %d is %s; a table that maps each type id to its latest callbacks gives %s (ops: %s)"
                                            % (bad, (oa[bad] if bad < len(oa) else "missing")[:60], (om[bad] if bad < len(om) else "-")[:60],
                                               ";".join(ln.split(" ", 1)[1].split(";")[: bad + 1])[-160:]), cfg))


# =============================================================================== C07
def multiline_error_docs():
    docs = []
    for lines_ in ([b"[1 2", b" 3 4)", b" 5 6", b"]"], [b"[", b"#_", b"]", b""], [b"{:a 1", b" :b 2]", b" :c 3", b"}"], [b"(", b" (", b"  }", b" )", b")"],
                   [b"; comment", b"[1", b"2 \"open", b"3]", b""], [b"[:a", b"#", b"]"], [b"{:k", b"}", b"", b""], [b"[1", b" 2", b" 3", b" 4", b" \\u12", b" 5]"],
                   [b"[", b"1 2 3 4 5 6 7 8 9 10 11 12 13 14 15 16 17 18 19 20)", b"x", b"]"]):
        for sepch in (b"\n", b"\r\n", b"\n\x0b", b"\n\x0b\x0b", b"\n\t", b"\n\x0c", b"\n\x1c"):
            docs.append(sepch.join(lines_))
            docs.append(b" " * 7 + sepch.join(lines_))
            docs.append(b";" + b"c" * 14 + b"\n" + sepch.join(lines_))
    return docs


def following_bytes_cases(cfg):
    """(prefix that is the input, tails that may stand behind it in memory): tokens cut at every position, alone and
    inside collections; the tails continue the token, complete a different token, or are NUL / blank / junk"""
    BS = b"\x5c"
    toks = [b"##Inf", b"##-Inf", b"##NaN", BS + b"newline", BS + b"space", BS + b"tab", BS + b"return", BS + b"formfeed", BS + b"backspace",
            BS + b"u0041", BS + b"a", b"nil", b"true", b"false", b"123456", b"-17", b"1.5e10", b"1e-5", b"2.5e30", b"-1e23", b"0.30000000000000004", b"1.7976931348623157e308",
            b"12345678901234567.5", b"12N", b"3.5M", b'"string"',
            b'"a' + BS + b'nb"', b'"a' + BS + b'u0041b"', b":kw/name", b"sym", b"ns/sym", b"#inst 1", b"#_1 2", b"#{1 2}", b"[1 2]", b"{:a 1}"]
    if cfg[0] == "1":
        toks += [b"0x1F", b"017", b"1/2", b"-3/4", b"^:a [1]", b"#:n{:a 1}", BS + b"o101", b"36rZZ", b'"a' + BS + b'101b"']
    if cfg[1] == "1":
        toks += [b"1_000", b"1_0.5", b'"""\nab\n"""', b'"""\n  a"""']
    cases = []
    for tk in toks:
        for cut in range(1, len(tk) + 1):
            for (pre, post) in ((b"", b""), (b"[1 ", b"]"), (b"{:k ", b"}")):
                head = pre + tk[:cut]
                rest = tk[cut:] + post
                tails = [b"", rest, rest + b" 1 2 3 4 5 6 7 8 9 0 1 2 3 4 5 6 7 8 9", b"\x00" * 20, b"f", b"e", b"0", b"7", b"e5", b"e-3", b".5", b"a" * 20, b"\"" + b" " * 20,
                         b"1" * 20, b" " * 20, BS * 20, b"\xff" * 20]
                cases.append((head, tails))
    return cases


def check_following_bytes(res, cfg, kind_name):
    """the result of reading the first n bytes is the same whatever stands behind them in the buffer"""
    cases = following_bytes_cases(cfg)
    lines, meta = [], []
    for ci, (head, tails) in enumerate(cases):
        for t in tails:
            lines.append(docline(head + t, length=len(head)))
            meta.append(ci)
    impl, model = correspond(res, cfg, "san", lines, label="bytes-behind-the-length")
    prod = runner.run_impl(cfg, "prod", lines)
    res.evaluations += 2 * len(lines)
    first = {}
    for ci, ln, a, b in zip(meta, lines, impl, prod):
        res.count("bytes-behind-the-length")
        res.nontrivial.add((cfg, "behind", ln))
        for which, obs in (("sanitized", a), ("-O2", b)):
            if is_crash(obs):
                res.violations.append(Violation(kind_name, ln[:3000], "%s build: %s" % (which, obs[:200]), cfg))
                continue
            key = (ci, which)
            if key in first and first[key][1] != obs:
                res.violations.append(Violation(kind_name, ln[:3000], "input %r (length %d): %s | with other bytes behind it (%s): %s"
                                                % (cases[ci][0], len(cases[ci][0]), obs[:120], first[key][0][:80], first[key][1][:120]), cfg))
            first.setdefault(key, (ln, obs))


@prop("C07")
def check_c07(res):
    rnd = random.Random(res.seed)
    thorough = res.tier == "thorough"
    res.rule = ("scripts over two independently parsed copies of a pool of values and near-miss variants: all pairs "
                "(equality both ways, hash), sampled triples (transitivity), each repeated after up to 4 preceding "
                "hash/equal/lookup/string-get calls on the operands in every order (bounded exhaustive for one op set); "
                "oracles on the implementation: reflexive on copies, symmetric, transitive, equal => same hash, answers "
                "independent of history. non-trivial = distinct (pair, history)")
    for cfg in CFGS:
        pool = value_pool(rnd, cfg, 60 if thorough else 25)
        # keep only values that parse alone
        lines = [docline(p) for p in pool]
        impl = runner.run_impl(cfg, "san", lines)
        pool = [p for p, a in zip(pool, impl) if a.startswith("OK ")]
        doc = pool_doc(pool)
        n = len(pool)
        hexdoc = hexs(doc)
        scripts, meta = [], []
        pairs = [(i, j) for i in range(n) for j in range(n)]
        # one script: all pairs on fresh copies (no hash cached yet), then hash everything, then all pairs again
        ops1 = ["E0.%d,1.%d;E1.%d,0.%d" % (i, j, j, i) for (i, j) in pairs]
        opsh = ["H0.%d;H1.%d" % (i, i) for i in range(n)]
        scripts.append("script P0=%s;P1=%s;%s;%s;%s" % (hexdoc, hexdoc, ";".join(ops1), ";".join(opsh), ";".join(ops1)))
        meta.append(("allpairs",))
        # histories: up to 4 preceding operations in every order for selected pairs
        import itertools
        sel = rnd.sample(pairs, min(len(pairs), 40 if thorough else 10))
        for (i, j) in sel:
            opset = ["H0.%d" % i, "H1.%d" % j, "E0.%d,0.%d" % (i, (i + 1) % n), "G0.%d" % i]
            for k in range(0, 5):
                for perm in itertools.permutations(opset, k):
                    scripts.append("script P0=%s;P1=%s;%sE0.%d,1.%d" % (hexdoc, hexdoc, "".join(o + ";" for o in perm), i, j))
                    meta.append(("hist", i, j))
        triples = [(rnd.randrange(n), rnd.randrange(n), rnd.randrange(n)) for _ in range(400 if thorough else 120)]
        for (i, j, k) in triples:
            scripts.append("script P0=%s;P1=%s;P2=%s;E0.%d,1.%d;E1.%d,2.%d;E0.%d,2.%d" % (hexdoc, hexdoc, hexdoc, i, j, j, k, i, k))
            meta.append(("triple", i, j, k))
        impl, model = correspond(res, cfg, "san", scripts, label="equality-scripts", jobs=12)
        base_answer = {}
        for m_, ln, a in zip(meta, scripts, impl):
            res.nontrivial.add((cfg, ln[-60:]))
            res.count("script:" + m_[0])
            if is_crash(a):
                res.violations.append(Violation("equality-crash", ln, a, cfg))
                continue
            out = a.split(";")
            if m_[0] == "allpairs":
                np_ = len(pairs)
                first = out[2:2 + 2 * np_]
                hashes = out[2 + 2 * np_:2 + 2 * np_ + 2 * n]
                second = out[2 + 2 * np_ + 2 * n:]
                for idx, (i, j) in enumerate(pairs):
                    e1, e2 = first[2 * idx], first[2 * idx + 1]
                    e3, e4 = second[2 * idx], second[2 * idx + 1]
                    h1, h2 = hashes[2 * i], hashes[2 * j + 1]
                    res.evaluations += 1
                    res.nontrivial.add((cfg, i, j))
                    one = "script P0=%s;P1=%s;E0.%d,1.%d;E1.%d,0.%d;H0.%d;H1.%d;E0.%d,1.%d" % (
                        hexs(b"[" + pool[i] + b"\n" + pool[j] + b"]"), hexs(b"[" + pool[i] + b"\n" + pool[j] + b"]"),
                        0, 1, 1, 0, 0, 1, 0, 1)
                    if i == j and e1 != "1":
                        res.violations.append(Violation("copies-of-same-text-unequal:" + refs.kind_of_text(pool[i]), one, "value %r" % pool[i][:60], cfg))
                    if e1 != e2:
                        res.violations.append(Violation("equality-not-symmetric", one, "%r vs %r" % (pool[i][:40], pool[j][:40]), cfg))
                    if e1 == "1" and h1 != h2:
                        res.violations.append(Violation("equal-values-hash-differently", one, "%r vs %r" % (pool[i][:40], pool[j][:40]), cfg))
                    if (e1, e2) != (e3, e4):
                        res.violations.append(Violation("equality-changes-after-hashing", one, "%r vs %r" % (pool[i][:40], pool[j][:40]), cfg))
                    base_answer[(i, j)] = e1
            elif m_[0] == "hist":
                _, i, j = m_
                if (i, j) in base_answer and out[-1] != base_answer[(i, j)]:
                    res.violations.append(Violation("equality-depends-on-history", ln, "%r vs %r" % (pool[i][:40], pool[j][:40]), cfg))
            else:
                if out[3] == "1" and out[4] == "1" and out[5] != "1":
                    res.violations.append(Violation("equality-not-transitive", ln, str(m_), cfg))
        # lookup / membership queries: the answer must not depend on which operand was hashed, compared or fetched before
        import itertools as _it
        lq, lmeta = [], []
        for k_ in pool[: (25 if thorough else 12)]:
            mdoc = b"{" + k_ + b" :v :other 1}"
            sdoc = b"#{" + k_ + b" :other}"
            pdoc = b"[" + k_ + b" :absent]"
            opset = ["H0", "H1", "H2", "H2.0", "H0.0", "E2.0,0.0", "G2.0", "L0,2.1"]
            for klen in range(0, 3):
                for perm in _it.permutations(opset, klen):
                    lq.append("script P0=%s;P1=%s;P2=%s;%sL0,2.0;K0,2.0;S1,2.0;L0,2.1;S1,2.1" % (
                        hexs(mdoc), hexs(sdoc), hexs(pdoc), "".join(o + ";" for o in perm)))
                    lmeta.append((k_, klen))
        limpl, lmodel = correspond(res, cfg, "san", lq, label="lookup-histories", jobs=12)
        lmsan = runner.run_impl(cfg, "msan", lq)
        res.evaluations += len(lq)
        for (k_, klen), ln, a, am in zip(lmeta, lq, limpl, lmsan):
            res.nontrivial.add((cfg, "lookup-history", ln[-80:]))
            res.count("lookup-history")
            for which, obs in (("", a), ("(MemorySanitizer build) ", am)):
                if is_crash(obs):
                    res.violations.append(Violation("lookup-crash-or-uninitialised-read", ln[:3000], which + obs[:200], cfg))
                    continue
                out = obs.split(";")
                if out[:3] == ["ok", "ok", "ok"] and out[3 + klen:] != ["idx0", "1", "1", "none", "0"]:
                    res.violations.append(Violation("lookup-answer-depends-on-history", ln[:3000],
                                                    "%skey %r after %d preceding calls: %s" % (which, k_[:40], klen, ";".join(out[3 + klen:])), cfg))
        # sets and maps of 2..130 elements against a permuted copy (equal) and a copy with one element changed (unequal)
        sl, sm = [], []
        for n_ in (2, 8, 16, 17, 31, 32, 33, 40, 63, 64, 65, 100, 130):
            els = [rnd.choice([b"%d" % i, b":k%d" % i, b"\"s%d\"" % i, b"[%d]" % i, b"(%d x)" % i]) for i in range(n_)]
            perm = list(els); rnd.shuffle(perm)
            changed = list(perm); changed[rnd.randrange(n_)] = b":changed"
            for kind_, wrap in (("set", lambda xs: b"#{" + b" ".join(xs) + b"}"),
                                ("map", lambda xs: b"{" + b" ".join(x + b" " + x for x in xs) + b"}")):
                sl.append("script P0=%s;P1=%s;P2=%s;E0,1;E1,0;E0,2;E2,0;H0;H1;E0,1;E0,2" % (hexs(wrap(els)), hexs(wrap(perm)), hexs(wrap(changed))))
                sm.append((kind_, n_))
        simpl, smodel = correspond(res, cfg, "san", sl, label="unordered-collections")
        for (kind_, n_), ln, a in zip(sm, sl, simpl):
            res.nontrivial.add((cfg, "unordered", kind_, n_))
            res.count("unordered-collection")
            out = a.split(";")
            if is_crash(a) or out[:3] != ["ok", "ok", "ok"] or out[3:7] != ["1", "1", "0", "0"] or out[7] != out[8] or out[9:11] != ["1", "0"]:
                res.violations.append(Violation("unordered-collection-equality-wrong", ln[:3000],
                                                "%s of %d elements vs permuted / changed copy: %s" % (kind_, n_, ";".join(out[3:])[:200]), cfg))
        # all-scalar sets and maps (the sort-based duplicate strategy: comparator order) of integers far apart, floats and
        # strings: a permuted copy is equal both ways, a copy with one element REPEATED is not a value at all -- if the
        # reader accepts it, equality stops being an equivalence (A = B but B /= A)
        wl, wm = [], []
        for n_ in (17, 18, 40, 200, 1000):
            for fam in ("wideint", "widefloat", "str"):
                els = c08_elements(rnd, cfg, fam, n_)
                perm = list(els); rnd.shuffle(perm)
                for _ in range(3):
                    dupd = list(perm)
                    dupd[rnd.randrange(n_)] = dupd[rnd.randrange(n_)] if rnd.random() < 0.5 else els[0]
                    if len(set(dupd)) == len(dupd):
                        dupd[0] = dupd[-1]
                    for kind_, wrap in (("set", lambda xs: b"#{" + b" ".join(xs) + b"}"),
                                        ("map", lambda xs: b"{" + b" ".join(x + b" 0" for x in xs) + b"}")):
                        wl.append("script P0=%s;P1=%s;P2=%s;E0,1;E1,0;E0,2;E2,0" % (hexs(wrap(els)), hexs(wrap(perm)), hexs(wrap(dupd))))
                        wm.append((kind_, fam, n_))
        wimpl, wmodel = correspond(res, cfg, "san", wl, label="scalar-collections")
        for (kind_, fam, n_), ln, a in zip(wm, wl, wimpl):
            res.nontrivial.add((cfg, "scalar-coll", kind_, fam, n_, ln[-40:]))
            res.count("scalar-collection")
            out = a.split(";")
            if is_crash(a) or out[:2] != ["ok", "ok"] or out[3:5] != ["1", "1"]:
                res.violations.append(Violation("unordered-collection-equality-wrong", ln[:3000],
                                                "%s of %d %s elements vs permuted copy: %s" % (kind_, n_, fam, ";".join(out)[:200]), cfg))
            elif out[2] == "ok":
                res.violations.append(Violation("collection-with-repeated-element-accepted-equality-not-an-equivalence", ln[:3000],
                                                "%s of %d %s elements with one element repeated is accepted; equal both ways: %s" % (kind_, n_, fam, ";".join(out[5:7])), cfg))
        # equality / lookup answers before and after edn_string_get on either operand
        check_fetch_histories(res, cfg, "equality-or-lookup-depends-on-string-fetch")
        # deeply nested values: two reads of the same document must be equal with equal hashes at every depth
        dl, dm = [], []
        for (o, c_) in ((b"[", b"]"), (b"(", b")"), (b"{:k ", b"}"), (b"#{", b"}"), (b"#t ", b"")):
            for d in (10, 50, 98, 99, 100, 101, 150, 400):
                doc = o * d + b"1" + c_ * d
                dl.append("script P0=%s;P1=%s;E0,1;E1,0;H0;H1;E0,1" % (hexs(doc), hexs(doc)))
                dm.append((o, d))
        impl, model = correspond(res, cfg, "san", dl, label="deep-values")
        for (o, d), ln, a in zip(dm, dl, impl):
            res.nontrivial.add((cfg, "deep", o, d))
            res.count("deep-value")
            out = a.split(";")
            if is_crash(a):
                res.violations.append(Violation("equality-crash", ln[:3000], a[:200], cfg))
            elif out[:2] == ["ok", "ok"] and (out[2:4] != ["1", "1"] or out[4] != out[5] or out[6] != "1"):
                res.violations.append(Violation("equal-false-beyond-depth-cap" if d >= 100 else "copies-not-equal", ln[:3000],
                                                "two reads of %r nested %d deep: equal %s/%s, hashes %s %s, after hashing %s"
                                                % (o, d, out[2], out[3], out[4], out[5], out[6]), cfg))
        # the same literal in different surroundings: what FOLLOWS a token (a character literal, a string with escapes, a
        # comment, nothing) must not leak into the value -- compared with the literal followed by plain integers
        cl_, cm_ = [], []
        BS = b"\x5c"
        lits = [b'"' + b"abcdefghijklmnopqrstuvwxyz"[:k] + b'"' for k in (0, 1, 2, 3, 5, 7, 8, 9, 13, 14, 15, 16, 17, 20)]
        lits += [b'"a' + BS + b'nb"', b'"q' + BS + b'"r"', b":kw", b":ns/kw", b"sym", b"ns/sym", b"17", b"-4.5", BS + b"a", BS + b"newline",
                 b"12N", b"1.5M", b"nil", b"true"]
        pad = b" 0 0 0 0 0 0 0 0 0 0"
        ctxs = [b" 1", b" " + BS + b"a", b' "' + BS + b'n"', b" " + BS + BS, b";c\n:k", b" :k", b"," + BS + b"space", b" #_" + BS + b"a 2",
                b' "' + BS + BS + b'"', b"\t" + BS + b"tab"]
        # a string needs no separator in front of the next token
        glued = [BS + b"a", b'"x' + BS + b'ty"']
        for lit in lits:
            base = b"[" + lit + ctxs[0] + pad + b"]"
            for cx in ctxs[1:] + (glued if lit.startswith(b'"') else []):
                other = b"[" + lit + cx + pad + b"]"
                cl_.append("script P0=%s;P1=%s;E0.0,1.0;E1.0,0.0;H0.0;H1.0;E0.0,1.0" % (hexs(base), hexs(other)))
                cm_.append((lit, cx))
        cimpl, cmodel = correspond(res, cfg, "san", cl_, label="literal-in-context")
        for (lit, cx), ln, a in zip(cm_, cl_, cimpl):
            res.nontrivial.add((cfg, "context", lit, cx))
            res.count("literal-in-context")
            res.evaluations += 1
            out = a.split(";")
            if is_crash(a):
                res.violations.append(Violation("equality-crash", ln[:3000], a[:200], cfg))
            elif out[:2] == ["ok", "ok"] and (out[2:4] != ["1", "1"] or out[4] != out[5] or out[6] != "1"):
                res.violations.append(Violation("same-literal-unequal-in-another-context", ln[:3000],
                                                "%r followed by %r vs followed by integers: equal %s/%s, hashes %s %s, after hashing %s"
                                                % (lit, cx, out[2], out[3], out[4], out[5], out[6]), cfg))
        res.sample({"cfg": cfg, "script": scripts[1][:300]})


# =============================================================================== C08
def c08_elements(rnd, cfg, kind, count):
    """count pairwise distinct element texts of the given flavour"""
    if kind == "int":
        return [str(i * 7 + 1).encode() for i in range(count)]
    if kind == "kw":
        return [(":k%d" % i).encode() for i in range(count)]
    if kind == "str":
        return [('"s%d"' % i).encode() for i in range(count)]
    if kind == "vec":
        return [("[%d %d]" % (i, i + 1)).encode() for i in range(count)]
    if kind == "wideint":
        # magnitudes far apart (differences beyond 2^31 / 2^32 / 2^63): timestamps, powers of two, the extremes
        base = [1700000000000 + 1500000000 * i for i in range(count)]
        extra = [2 ** 31 * (i + 1) * (-1) ** i for i in range(40)] + [2 ** 63 - 1, -2 ** 63, 2 ** 62, -2 ** 62, 2 ** 32, -2 ** 32, 0, -1]
        pool_ = list(dict.fromkeys(extra + base))
        rnd.shuffle(pool_)
        return [str(v).encode() for v in pool_[:count]]
    if kind == "widefloat":
        vals = [(-1) ** i * (1.5 + i) * 10.0 ** ((i * 7) % 300 - 150) for i in range(count)]
        return [repr(v).encode() for v in vals]
    if kind == "longstr":
        # long common prefixes, lengths differing by small and by huge amounts
        out = []
        for i in range(count):
            n = [3, 40, 300, 5000][i % 4] if i < 8 else 20 + i % 7
            out.append(('"' + "p" * n + "%d" % i + '"').encode())
        return out
    if kind == "bignums":
        out = []
        for i in range(count):
            out.append(rnd.choice([("%d.5M" % i).encode(), ("%dM" % (i * 3)).encode(), ("1234567890123456789%dN" % i).encode(), ("%dN" % i).encode(),
                                   str(i * 5 - count).encode(), (":b%d" % i).encode(), ("%d.75" % i).encode()]))
        return list(dict.fromkeys(out)) + [(":pad%d" % i).encode() for i in range(count - len(set(out)))]
    if kind == "scalars":
        out = []
        for i in range(count):
            out.append(rnd.choice([str(i * 3 - count).encode(), (":m%d" % i).encode(), (":ns%d/m" % (i % 5)).encode() + b"%d" % i,
                                   ('"x%d"' % i).encode(), ("sym%d" % i).encode(), ("%d.25" % (i - count // 2)).encode(),
                                   str((-1) ** i * (2 ** 40) * (i + 1)).encode()]))
        out[:3] = [b"nil", b"true", b"false"][:min(3, count)]
        return out
    if kind == "mixed":
        out = []
        for i in range(count):
            out.append(rnd.choice([str(i * 3).encode(), (":m%d" % i).encode(), ('"x%d"' % i).encode(),
                                   ("[%d]" % i).encode(), ("(%d :a)" % i).encode(), ("{:k %d}" % i).encode(),
                                   ("#{%d}" % i).encode(), ("#t %d" % i).encode(), ("sym%d" % i).encode(),
                                   ("%d.5" % i).encode(), ("\\u%04x" % (0x100 + i)).encode()]))
        return out
    raise ValueError(kind)


def c08_twins(cfg):
    clj, exp = cfg[0] == "1", cfg[1] == "1"
    tw = [(b"[1 2]", b"[1 2]"), (b"(1 2)", b"[1 2]"), (b"0.0", b"-0.0"), (b"##NaN", b"##NaN"), (b"1", b"1"),
          (b'"a"', b'"a"'), (b":a/b", b":a/b"), (b"{:a [1]}", b"{:a (1)}"), (b"#{1 2}", b"#{2 1}"),
          (b"#t [1]", b"#t (1)"), (b"12345678901234567890N", b"12345678901234567890N"), (b"1.5M", b"1.5M"),
          (b"\\a", b"\\a"), (b"nil", b"nil"), (b"[[[0.0]]]", b"(((-0.0)))"), (b'"abcdefgh"', b'"abcdefgh"'),
          (b"1.0", b"1.0"), (b"1e0", b"1.0")]
    if clj:
        tw += [(b"1/2", b"2/4"), (b"0x10", b"16"), (b"99999999999999999999/3", b"99999999999999999999/3")]
    if exp:
        tw += [(b"1_0N", b"10N"), (b"1_000", b"1000"), (b"1_0.5M", b"10.5M")]
    return tw


@prop("C08")
def check_c08(res):
    rnd = random.Random(res.seed)
    thorough = res.tier == "thorough"
    res.rule = ("set and map literals with element counts around every strategy edge (2,3,15,16,17,18,999,1000,1001,1002,1600) "
                "x element flavours x an equal pair of every kind (twins incl. list/vector, +-0.0, NaN, N/M spellings, "
                "composites) at positions (first,last),(adjacent),(random) x shuffles; oracle: rejected with DUPLICATE_* "
                "iff a twin pair was inserted (twins are equal by the equality property), and the verdict is the same "
                "for every permutation. non-trivial = distinct (count, flavour, twin, positions)")
    counts = [2, 3, 15, 16, 17, 18, 100, 999, 1000, 1001, 1002, 1600] if thorough else [2, 3, 16, 17, 18, 1000, 1001]
    for cfg in CFGS:
        tl8, tm8 = [], []
        for (t1, t2) in ((b"#pt 1", b"#ptx 1"), (b"#a/b :x", b"#a/bc :x"), (b"#t [1 2]", b"#tt [1 2]"), (b"#x \"s\"", b"#xy \"s\"")):
            for pad_n in (0, 3, 14, 15, 16, 30, 1000):
                padding = [b":p%d" % i for i in range(pad_n)]
                for order in ((t1, t2), (t2, t1)):
                    els_ = list(order) + padding
                    tl8.append(docline(b"#{" + b" ".join(els_) + b"}")); tm8.append(order)
                    tl8.append(docline(b"{" + b" ".join(e_ + b" 0" for e_ in els_) + b"}")); tm8.append(order)
                    tl8.append(docline(b"#{" + b" ".join(padding + list(order)) + b"}")); tm8.append(order)
        timpl8, tmodel8 = correspond(res, cfg, "san", tl8, label="prefix-tags")
        for order, ln, a in zip(tm8, tl8, timpl8):
            res.count("prefix-tags")
            res.nontrivial.add((cfg, "prefixtags", ln[-50:]))
            if is_crash(a) or not a.startswith("OK "):
                res.violations.append(Violation("pairwise-distinct-literal-rejected", ln[:3000],
                                                "tagged values %r and %r are different values: %s" % (order[0], order[1], a[:100]), cfg))
        lines, meta = [], []
        twins = c08_twins(cfg)
        for count in counts:
            kinds_ = ["int", "kw", "str", "vec", "mixed", "wideint", "widefloat", "longstr", "scalars", "bignums"] if thorough else \
                (["int", "mixed", "vec", "wideint", "scalars", "longstr", "bignums"] if count < 100 else ["mixed", "wideint", "scalars", "bignums"])
            for kind in kinds_:
                els = c08_elements(rnd, cfg, kind, count)
                # no duplicates: must be accepted, for 2 shuffles
                for _ in range(2):
                    rnd.shuffle(els)
                    lines.append(docline(b"#{" + b" ".join(els) + b"}"))
                    meta.append(("set", count, kind, None))
                    lines.append(docline(b"{" + b" ".join(e + b" 0" for e in els) + b"}"))
                    meta.append(("map", count, kind, None))
                # a second copy of one of the elements themselves, at three position pairs x shuffles
                for _ in range(6 if (thorough or count < 100) else 3):
                    seq = list(els[: count - 1])
                    rnd.shuffle(seq)
                    e = rnd.choice(seq)
                    seq.insert(rnd.randrange(0, len(seq) + 1), e)
                    lines.append(docline(b"#{" + b" ".join(seq) + b"}"))
                    meta.append(("set", count, kind, (e, e)))
                    lines.append(docline(b"{" + b" ".join(x + b" 0" for x in seq) + b"}"))
                    meta.append(("map", count, kind, (e, e)))
                # with one equal pair
                for (a, b) in (twins if (thorough or count < 100) else rnd.sample(twins, 2)):
                    body = [e for e in els[: count - 2]]
                    positions = [(0, count - 1), (count // 2, count // 2 + 1)]
                    positions.append(tuple(sorted(rnd.sample(range(count), 2))))
                    if count >= 100 and not thorough:
                        positions = [rnd.choice(positions)]
                    for (i, j) in positions:
                        seq = list(body)
                        seq.insert(i, a)
                        seq.insert(j, b)
                        lines.append(docline(b"#{" + b" ".join(seq) + b"}"))
                        meta.append(("set", count, kind, (a, b)))
                        if rnd.random() < 0.5:
                            lines.append(docline(b"{" + b" ".join(e + b" 0" for e in seq) + b"}"))
                            meta.append(("map", count, kind, (a, b)))
        for d in (50, 99, 100, 150):
            for (o, c_) in ((b"[", b"]"), (b"#{", b"}")):
                deep = o * d + b"1" + c_ * d
                lines.append(docline(b"#{" + deep + b" " + deep + b"}"))
                meta.append(("set", 2, "deep%d" % d, (deep[:8], deep[:8])))
                lines.append(docline(b"{" + deep + b" 1 " + deep + b" 2}"))
                meta.append(("map", 2, "deep%d" % d, (deep[:8], deep[:8])))
        # the duplicate-carrying literal in other positions: nested, as a map value, as a tag operand, inside a discarded form
        for (a_, b_) in twins[:6]:
            for inner in (b"#{" + a_ + b" 7 " + b_ + b"}", b"{" + a_ + b" 1 :z 2 " + b_ + b" 3}"):
                for ctx in (b"[%s]", b"[1 [%s] 2]", b"{:v %s}", b"#t %s", b"[#_ %s 2]", b"#_ %s :x", b"[#_ [%s] 2]", b"(#_ #t %s 1)"):
                    lines.append(docline(ctx % inner))
                    meta.append(("set" if inner.startswith(b"#") else "map", 3, "nested", (a_, b_)))
        # are the twins really equal / the plain elements really distinct per the implementation's equality?
        impl, model = correspond(res, cfg, "san", lines, label="duplicates", jobs=12)
        for m_, ln, a in zip(meta, lines, impl):
            coll, count, kind, twin = m_
            res.nontrivial.add((cfg, coll, count, kind, twin))
            res.count("%s:%s" % (coll, "dup" if twin else "nodup"))
            if is_crash(a):
                res.violations.append(Violation("duplicate-check-crash", ln[:200], a, cfg))
                continue
            rejected = ("DUPLICATE_ELEMENT" in a) or ("DUPLICATE_KEY" in a)
            if twin and not rejected and kind.startswith("deep") and int(kind[4:]) >= 100:
                res.violations.append(Violation("duplicate-beyond-depth-cap-accepted", ln[:3000],
                                                "%s holding two copies of a value nested %s deep accepted" % (coll, kind[4:]), cfg))
            elif twin and not rejected:
                res.violations.append(Violation("duplicate-accepted", ln[:100000],
                                                "%s of %d %s elements containing %r and %r accepted: %s" % (coll, count, kind, twin[0], twin[1], a[:80]), cfg))
            if not twin and not a.startswith("OK "):
                res.violations.append(Violation("distinct-elements-rejected", ln[:100000],
                                                "%s of %d distinct %s elements: %s" % (coll, count, kind, a[:120]), cfg))
        # the verdict under memory pressure: when the hash table (or any other request) cannot be allocated the reader
        # may report out-of-memory, but a literal holding an equal pair must never be ACCEPTED.  Every single request
        # k and every "all requests from k on" schedule, through the EDN_C_VERIF allocation hook.
        fdocs = []
        for (a_, b_) in twins[:2] + twins[7:10] + twins[14:15] + [t_ for t_ in twins if b"_" in t_[0]]:
            for n_ in (20, 300):
                filler = [b"[%d x]" % i for i in range(n_ // 2)] + [b"%d" % i for i in range(n_ // 2)]
                seq = list(filler); seq.insert(1, a_); seq.insert(n_ // 2 + 3, b_)
                fdocs.append(b"#{" + b" ".join(seq) + b"}")
                fdocs.append(b"{" + b" ".join(x + b" 0" for x in seq) + b"}")
        fdocs.append(b"#{" + b" ".join(b"%d" % (i % 1050) for i in range(1100)) + b"}")
        fcounts = runner.run_impl(cfg, "fail", ["failcount %s" % hexs(d) for d in fdocs])
        flines = []
        for d, cobs in zip(fdocs, fcounts):
            if is_crash(cobs) or not parse_failcount(cobs)[2].startswith("ERR"):
                continue                       # accepted without any failure: already reported above
            n_, libc_, _ = parse_failcount(cobs)
            for k in fault_indices(n_, libc_, dense_below=40, head=10, tail=12, steps=50):
                flines.append("failat %d %s" % (k, hexs(d)))
                flines.append("failfrom %d %s" % (k, hexs(d)))
        fimpl = runner.run_impl(cfg, "fail", flines)
        res.evaluations += len(flines)
        for ln, a in zip(flines, fimpl):
            res.count("dup-under-allocation-failure")
            res.nontrivial.add((cfg, "fault", ln[:40], len(ln)))
            if is_crash(a) or a.startswith("OK "):
                res.violations.append(Violation("duplicate-accepted-under-allocation-failure", ln[:100000],
                                                "literal with an equal pair: %s" % a[:120], cfg))
        check_external_histories(res, cfg, "external-value-duplicates-disagree-with-type-table", thorough)
        res.sample({"cfg": cfg, "doc": lines[3][:200]})


# =============================================================================== C09
@prop("C09")
def check_c09(res):
    rnd = random.Random(res.seed)
    thorough = res.tier == "thorough"
    res.rule = ("maps and sets of 0..1500 entries with keys of every kind; for every (sampled for large maps) entry index "
                "i: lookup/contains of an independently parsed copy of key i, absent probes, keyword / namespaced keyword / "
                "string-key helpers, before and after hashing; oracle: lookup(copy of key i) = value i, contains = 1, "
                "absent = none, helper = general lookup. non-trivial = distinct (map size, key kind, probe)")
    for cfg in CFGS:
        clj = cfg[0] == "1"
        scripts, meta = [], []
        all_kinds = [":k%d", ":n%d/k", "s%d", '"str%d"', '"e\\\\n%d"', "%d", "[%d]", "(%d)", "{:a %d}", "#{%d}", "%d.5",
                     "#t %d", "%dN", "%d.0M"]
        scalar_kinds = [":k%d", ":n%d/k", "s%d", '"str%d"', "%d", "%d.5"]
        profiles = [("mixed", all_kinds, [0, 1, 2, 5, 16, 17, 40] + ([1001, 1500] if thorough else [1001])),
                    ("scalars", scalar_kinds, [16, 17, 40, 1000, 1001] + ([300, 999] if thorough else [])),
                    ("keywords", [":k%d"], [17, 1000, 1001] if thorough else [17, 200]),
                    ("strings", ['"str%d"'], [17, 1000] if thorough else [17, 200]),
                    ("ints", ["%d"], [17, 1000] if thorough else [17, 200]),
                    # the same name with and without a namespace, in both orders: the helpers must tell them apart
                    ("kw-ns-collisions", [":n/k%d :k%d" , ":k%d :n/k%d", ":user/k%d", ":k%d"], [2, 6, 17, 40])]
        for mdoc_ in (b"{:a 1 :b nil}", b"{nil nil}", b"{[1 2] nil :k false}", b"{:a nil :b nil :c nil}", b"{\"s\" nil 7 [] :z {}}", b"{nil 1 false nil true false}"):
            nk = {b"{:a 1 :b nil}": 2, b"{nil nil}": 1, b"{[1 2] nil :k false}": 2, b"{:a nil :b nil :c nil}": 3, b"{\"s\" nil 7 [] :z {}}": 3, b"{nil 1 false nil true false}": 3}[mdoc_]
            inner = mdoc_[1:-1]
            ops_ = []
            for i_ in range(nk):
                ops_ += ["L0,1.%d" % (2 * i_), "K0,1.%d" % (2 * i_)]
            scripts.append("script P0=%s;P1=%s;%s" % (hexs(mdoc_), hexs(b"[" + inner + b"]"), ";".join(ops_)))
            meta.append(("nilvalues", nk, mdoc_, 0, "nilvalues"))
        for pname, kinds, size in [(pn, ks, sz) for pn, ks, szs in profiles for sz in szs]:
            keys = []
            for i in range(size):
                kk = rnd.choice(kinds)
                txt = kk % ((i,) * kk.count("%d"))
                for piece in (txt.split(" ") if pname == "kw-ns-collisions" else [txt]):
                    keys.append(piece.encode())
            keys = keys[:size] if pname != "kw-ns-collisions" else keys
            size = len(keys)
            mdoc = b"{" + b" ".join(k + (" %d" % i).encode() for i, k in enumerate(keys)) + b"}"
            sdoc = b"#{" + b" ".join(keys) + b"}"
            kdoc = b"[" + b" ".join(keys) + b" :absent [99999] \"zz\" 1e99]"
            idxs = range(size) if size <= 40 else rnd.sample(range(size), 25)
            for pre in ("", "H0;", "H0.0;" if size else "", "H2;", "H2;H0;" if size else "", "H1;"):
                ops = []
                for i in idxs:
                    ops.append("L0,2.%d" % i)
                    ops.append("K0,2.%d" % i)
                    ops.append("S1,2.%d" % i)
                    res.count("probe:present")
                for j in range(size, size + 4):
                    ops.append("L0,2.%d" % j)
                    ops.append("K0,2.%d" % j)
                    ops.append("S1,2.%d" % j)
                    res.count("probe:absent")
                scripts.append("script P0=%s;P1=%s;P2=%s;%s%s" % (hexs(mdoc), hexs(sdoc), hexs(kdoc), pre, ";".join(ops)))
                meta.append(("general", size, list(idxs), len(pre.split(";")) - 1, pname))
            # each probe hashed (cached hash set) right before it is used, the collection's keys never hashed
            ops = []
            for i in list(idxs) + list(range(size, size + 4)):
                ops += ["H2.%d" % i, "L0,2.%d" % i, "K0,2.%d" % i, "S1,2.%d" % i]
            scripts.append("script P0=%s;P1=%s;P2=%s;%s" % (hexs(mdoc), hexs(sdoc), hexs(kdoc), ";".join(ops)))
            meta.append(("hashed-probe", size, list(idxs), 0, pname))
            # helpers
            hops, hexp = [], []
            for i in idxs:
                k = keys[i].decode()
                if k.startswith(":") and "/" not in k:
                    hops.append("W0,%s" % k[1:].encode().hex()); hexp.append(i)
                elif k.startswith(":"):
                    ns, nm = k[1:].split("/")
                    hops.append("N0,%s,%s" % (ns.encode().hex(), nm.encode().hex())); hexp.append(i)
                    # the plain-keyword helper with the bare name: only an UNQUALIFIED key of that name may answer
                    plain = (":" + nm).encode()
                    hops.append("W0,%s" % nm.encode().hex())
                    hexp.append(keys.index(plain) if plain in keys else ("none",))
                    # and the namespaced helper with another namespace: not found
                    hops.append("N0,%s,%s" % (b"zz".hex(), nm.encode().hex())); hexp.append(("none",))
                elif k.startswith('"str'):
                    hops.append("T0,%s" % k[1:-1].encode().hex()); hexp.append(i)
                elif k.startswith('"e'):
                    # literal written with an escape: the helper is given the decoded content
                    hops.append("T0,%s" % k[1:-1].replace("\\\\n", "\\n").encode().hex()); hexp.append(("esc", i))
            if hops:
                scripts.append("script P0=%s;%s" % (hexs(mdoc), ";".join(hops)))
                meta.append(("helpers", size, hexp, 0, pname))
        impl, model = correspond(res, cfg, "san", scripts, label="lookup-scripts", jobs=12)
        # the same scripts preceded by reads that leave non-zero bytes in freed heap blocks, under MemorySanitizer:
        # a result that depends on uninitialised storage is reported there
        small = [sc for sc in scripts if len(sc) < 20000]
        pollute = docline(b'["' + b"\xff" * 12000 + b'" "' + b"z\\n" * 3000 + b'"]')
        mlines = []
        for sc in small:
            mlines += [pollute, sc]
        mout = runner.run_impl(cfg, "msan", mlines)
        res.evaluations += len(mlines)
        res.count("msan-lookup-scripts", len(small))
        for ln, a, ref_ in zip(small, mout[1::2], [impl[scripts.index(sc)] for sc in small]):
            if is_crash(a) or a != ref_:
                res.violations.append(Violation("lookup-depends-on-uninitialised-memory-or-history", ln[:3000],
                                                "after unrelated reads / under MemorySanitizer: %s | fresh: %s" % (a[:160], ref_[:160]), cfg))
        for m_, ln, a in zip(meta, scripts, impl):
            res.nontrivial.add((cfg, m_[0], m_[1], m_[3], m_[4]))
            res.count("map:%s:%d" % (m_[4], m_[1]))
            if is_crash(a):
                res.violations.append(Violation("lookup-crash", ln[:3000], a, cfg))
                continue
            out = a.split(";")
            if m_[0] == "nilvalues":
                for i_ in range(m_[1]):
                    l, k = out[2 + 2 * i_], out[3 + 2 * i_]
                    if l != "idx%d" % i_ or k != "1":
                        res.violations.append(Violation("present-key-not-found", ln[:3000],
                                                        "%r: copy of key %d -> lookup %s contains-key %s" % (m_[2], i_, l, k), cfg))
                continue
            if m_[0] in ("general", "hashed-probe"):
                _, size, idxs, npre, _pn = m_
                body = out[3 + npre:]
                if m_[0] == "hashed-probe":
                    body = [x for j, x in enumerate(body) if j % 4 != 0]       # drop the hash outputs
                pos = 0
                for i in idxs:
                    l, k, s = body[pos:pos + 3]
                    pos += 3
                    if l != "idx%d" % i or k != "1" or s != "1":
                        res.violations.append(Violation("present-key-not-found", ln[:3000],
                                                        "map of %d: copy of key %d -> lookup %s contains %s set %s" % (size, i, l, k, s), cfg))
                for _ in range(4):
                    l, k, s = body[pos:pos + 3]
                    pos += 3
                    if l != "none" or k != "0" or s != "0":
                        res.violations.append(Violation("absent-key-found", ln[:3000], "lookup %s contains %s set %s" % (l, k, s), cfg))
            else:
                _, size, hexp, _, _pn = m_
                for want, got in zip(hexp, out[1:]):
                    if want == ("none",):
                        if got != "none":
                            res.violations.append(Violation("helper-disagrees-with-lookup", ln[:3000], "bare-name / foreign-namespace probe returned %s" % got, cfg))
                    elif isinstance(want, tuple):
                        if got != "idx%d" % want[1]:
                            res.violations.append(Violation("string-key-helper-misses-escaped-literal", ln[:3000],
                                                            "key %d written with an escape: helper returned %s" % (want[1], got), cfg))
                    elif got != "idx%d" % want:
                        res.violations.append(Violation("helper-disagrees-with-lookup", ln[:3000], "entry %d: %s" % (want, got), cfg))
        check_fetch_histories(res, cfg, "lookup-depends-on-string-fetch")
        check_external_histories(res, cfg, "external-value-lookup-disagrees-with-type-table", thorough)
        res.sample({"cfg": cfg, "script": scripts[2][:300]})


# =============================================================================== C05
def c05_literals(rnd, n, thorough):
    out = []
    for _ in range(n):
        k = rnd.random()
        sign = rnd.choice(["", "", "-", "+"])
        if k < 0.2:       # fast-path boundary cells: digits 1..17, |e| around 22
            nd = rnd.randrange(1, 18)
            m = str(rnd.randrange(10 ** (nd - 1), 10 ** nd))
            e = rnd.choice([-24, -23, -22, -21, -1, 0, 1, 21, 22, 23, 24]) if rnd.random() < 0.7 else rnd.randrange(-30, 30)
            if rnd.random() < 0.5:
                p = rnd.randrange(0, len(m) + 1)
                s = (m[:p] or "0") + "." + m[p:] + ("e%d" % e if rnd.random() < 0.7 else "")
            else:
                s = m + "e%d" % e
        elif k < 0.35:    # 2^53 neighbourhood and 15/16 digit mantissas
            m = rnd.choice([2 ** 53 - 1, 2 ** 53, 2 ** 53 + 1, 10 ** 15 - 1, 10 ** 15, 999999999999999, 9007199254740993]) + rnd.randrange(-2, 3)
            s = "%d.0" % m if rnd.random() < 0.5 else "%de%d" % (m, rnd.randrange(-25, 25))
        elif k < 0.5:     # shortest round-trip renderings of random doubles
            import struct
            u = rnd.getrandbits(64)
            d = struct.unpack(">d", struct.pack(">Q", u))[0]
            if d != d or d in (float("inf"), float("-inf")):
                d = rnd.uniform(-1e300, 1e300)
            s = repr(abs(d))
            if "e" not in s and "." not in s:
                s += ".0"
            sign = "-" if d < 0 else sign
        elif k < 0.6:     # halfway cases: exact decimal expansion of midpoints between adjacent doubles
            from fractions import Fraction
            import struct
            u = rnd.getrandbits(62) | (1 << 52)
            u &= (1 << 63) - 1
            if ((u >> 52) & 0x7FF) in (0x7FF,):
                u = 0x3FF0000000000000 + rnd.getrandbits(30)
            a = struct.unpack(">d", struct.pack(">Q", u))[0]
            b = struct.unpack(">d", struct.pack(">Q", u + 1))[0]
            if a == float("inf") or b == float("inf") or a != a:
                s = "0.5"
            else:
                mid = (Fraction(a) + Fraction(b)) / 2
                # exact decimal only if denominator is a power of 2: always true here
                num, den = mid.numerator, mid.denominator
                k2 = den.bit_length() - 1
                dec = num * 5 ** k2
                ds = str(dec)
                if len(ds) > 700 or k2 > 700:
                    s = repr(a)
                else:
                    ds = ds.rjust(k2 + 1, "0")
                    s = ds[:-k2] + "." + ds[-k2:] if k2 else ds + ".0"
        elif k < 0.7:     # subnormal / overflow thresholds
            s = rnd.choice(["4.9e-324", "2.4703282292062327e-324", "2.4703282292062328e-324", "2.225073858507201e-308",
                            "2.2250738585072014e-308", "1.7976931348623157e308", "1.7976931348623158e308",
                            "1.797693134862315807e308", "1.8e308", "1e309", "1e-400", "0e999999999", "1e-9999999999",
                            "123456789e-340", "0.0000000000000000000000000000001e350"])
        elif k < 0.85:    # long literals
            nd = rnd.choice([20, 50, 100, 300, 500, 509, 510, 511] + ([512, 513, 600, 1000, 2000] if True else []))
            m = "".join(rnd.choice("0123456789") for _ in range(nd))
            m = (rnd.choice("123456789") + m)[:nd]
            p = rnd.randrange(1, len(m))
            s = m[:p] + "." + m[p:]
            if rnd.random() < 0.4:
                s += "e%d" % rnd.randrange(-400, 400)
        else:
            s = "%d.%de%s%d" % (rnd.randrange(0, 10 ** 6), rnd.randrange(0, 10 ** 9), rnd.choice(["", "+", "-"]), rnd.randrange(0, 40))
        if s[0] in "+-":
            sign = ""
        out.append(sign + s)
    # the digit count compensates the written exponent: values in the double range written with exponents far outside it
    for E in (-330, -700, -1001, -1100, -2000, -5000):
        for T in (-330, -324, -323, -308, -200, -1, 0, 5, 300, 308, 309):
            L = T - E + 1
            if 1 <= L <= 6000:
                m = rnd.choice("123456789") + "".join(rnd.choice("0123456789") for _ in range(min(L - 1, 30))) + "0" * max(0, L - 31)
                out.append(rnd.choice(["", "-"]) + m[:L] + "e%d" % E)
                out.append(rnd.choice(["", "-"]) + m[:L] + ".0e%d" % E)
    for mant in ("1", "1.5", "2.5", "123.456", "9007199254740993", "0.1"):
        for ev in (0, 3, 5, 10, 22, 23, 100, 220, 308, 400):
            for zs in (1, 2, 3, 4, 5, 8):
                for sg in ("", "+", "-"):
                    out.append("%se%s%s%d" % (mant, sg, "0" * zs, ev))
    for E in (330, 700, 1001, 1100, 2000, 5000):
        for T in (-330, -324, -308, -1, 0, 300, 308, 309):
            Z = E - T - 1
            if 0 <= Z <= 6000:
                out.append(rnd.choice(["", "-"]) + "0." + "0" * Z + str(rnd.randrange(1, 10 ** 6)) + "e%s%d" % (rnd.choice(["", "+"]), E))
    return out


@prop("C05")
def check_c05(res):
    rnd = random.Random(res.seed)
    thorough = res.tier == "thorough"
    res.rule = ("float literals [sign]digits[.digits][e[sign]digits], 1..2000 characters: fast-path boundary cells "
                "(digit count x exponent), 2^53 neighbourhood, shortest round-trip renderings of random doubles, exact "
                "half-way cases, subnormal/overflow thresholds, long literals; bit patterns compared with Python's "
                "correctly rounded float(); the same literals through the static parse_double_from_buffer against the "
                "model (incl. its strtod model). non-trivial = distinct literal")
    n = 12000 if thorough else 2500
    for cfg in CFGS:
        exp = cfg[1] == "1"
        lits = c05_literals(rnd, n, thorough)
        lits += ["0.1", "0.2", "0.3", "1.1", "3e-1", "0.7", "1e23", "8.5e-5", "9007199254740993.0", "1e22", "1e-22", "123456789012345e-22",
                 "0.0", "-0.0", "0e0", "1.", "1.e3", "5e-324", "3e-324", "2e-324"]
        if exp:
            lits += ["1_0.5", "1_000.000_1e1_0", "1.5e1_0"]
        lines = [docline(l.encode()) for l in lits]
        impl, model = correspond(res, cfg, "san", lines, label="float-literals")
        for lit, a in zip(lits, impl):
            res.nontrivial.add(lit)
            nchars = len(lit)
            res.count("len<=15" if nchars <= 15 else "len<=40" if nchars <= 40 else "len<512" if nchars < 512 else "len>=512")
            if is_crash(a):
                res.violations.append(Violation("float-literal-crash", docline(lit.encode()), a, cfg))
                continue
            want_bits = refs.expect_float_bits(lit, exp)
            want = "OK float:%s@0-%d calls=0" % (want_bits, len(lit))
            if a != want:
                kind = "float-literal-of-512-or-more-bytes" if nchars >= 512 else "float-not-correctly-rounded"
                res.violations.append(Violation(kind, docline(lit.encode()),
                                                "literal %s (%d chars): implementation %s, correctly rounded %s" % (lit[:60], nchars, a[:60], want[:60]), cfg))
        leaf = ["double %s" % l.encode().hex() for l in lits[:800]]
        correspond(res, cfg, "prod", leaf, label="parse_double")
        # the literal is the LAST thing of an explicit-length input and the bytes behind the length would continue a
        # number: the value must not depend on them (and they must not be read)
        tails = [b"5", b"78", b"e3", b".5", b"e-2", b"0" * 20]
        sl_, sm_ = [], []
        for lit in [l for l in lits if len(l) >= 17 or "e" in l or "E" in l][: (600 if thorough else 200)] + ["1.5e30", "2.5e-30", "0.1234567890123456", "1234567.1234567890"]:
            for tl_ in rnd.sample(tails, 2):
                sl_.append(docline(lit.encode() + tl_, length=len(lit)))
                sm_.append((lit, tl_))
        simpl, smodel = correspond(res, cfg, "san", sl_, label="float-literal-at-end-of-explicit-length-input")
        for (lit, tl_), ln, a in zip(sm_, sl_, simpl):
            res.count("float-at-end-of-input")
            res.nontrivial.add((cfg, "tail", lit, tl_))
            want = "OK float:%s@0-%d calls=0" % (refs.expect_float_bits(lit, exp), len(lit))
            if is_crash(a) or a != want:
                res.violations.append(Violation("float-depends-on-bytes-behind-the-input", ln,
                                                "literal %s followed in memory by %r: %s, correctly rounded %s" % (lit[:40], tl_, a[:80], want[:60]), cfg))
        # long literals under memory pressure (EDN_C_VERIF allocation hook): whichever single request fails, the read
        # reports an error or the correctly rounded double of the WHOLE literal, never the value of a truncated copy
        longs = ["1234567890" * 60 + "e-590", "0." + "0" * 600 + "25e601", "1" + "0" * 600 + ".5e-300",
                 "-" + "9" * 511 + ".5e-500", "7" * 512, "3." + "1" * 509, "3." + "1" * 510 + "e2"]
        flines, fmeta = [], []
        counts = runner.run_impl(cfg, "fail", ["failcount %s" % hexs(l.encode()) for l in longs])
        for lit, cobs in zip(longs, counts):
            if is_crash(cobs):
                continue
            for k in range(parse_failcount(cobs)[0]):
                for mode in ("failat", "failfrom"):
                    flines.append("%s %d %s" % (mode, k, hexs(lit.encode())))
                    fmeta.append(lit)
        fimpl = runner.run_impl(cfg, "fail", flines)
        res.evaluations += len(flines)
        for lit, ln, a in zip(fmeta, flines, fimpl):
            res.count("long-literal-under-allocation-failure")
            res.nontrivial.add((cfg, ln[:12], lit[:8], len(lit)))
            want = "OK float:%s@0-%d calls=0" % (refs.expect_float_bits(lit, exp), len(lit))
            if is_crash(a) or (a.startswith("OK ") and a != want) or not (a.startswith("OK ") or a.startswith("ERR ")):
                res.violations.append(Violation("float-of-truncated-literal-under-allocation-failure", ln,
                                                "literal %s... (%d chars): %s, correctly rounded %s" % (lit[:30], len(lit), a[:60], want[:60]), cfg))
        res.sample({"cfg": cfg, "literal": lits[7]})


# =============================================================================== C06
def c06_bodies(rnd, cfg, n):
    clj = cfg[0] == "1"
    out = []
    esc_ok = [b"\\n", b"\\t", b"\\r", b"\\\\", b'\\"']
    esc_clj = [b"\\f", b"\\b", b"\\u0041", b"\\u00e9", b"\\u20AC", b"\\uD7FF", b"\\uE000", b"\\101", b"\\7", b"\\377", b"\\400", b"\\08", b"\\u0000", b"\\0"]
    esc_bad = [b"\\x", b"\\a", b"\\ ", b"\\u12", b"\\uD800", b"\\uzzzz", b"\\8"]
    for _ in range(n):
        L = rnd.choice(list(range(0, 40)) + [47, 48, 49, 63, 64, 65, 100, 200, 300])
        body = bytearray()
        while len(body) < L:
            k = rnd.random()
            if k < 0.7:
                body.append(rnd.choice(b"abcdefghijklmnopqrstuvwxyz 0123456789,;[]{}()#:/~\n\t") if rnd.random() < 0.9
                            else rnd.choice([0x00, 0x7F, 0x80, 0xC3, 0xA9, 0xFF]))
            elif k < 0.85:
                body += rnd.choice(esc_ok)
            elif k < 0.95:
                body += rnd.choice(esc_clj)
            else:
                body += rnd.choice(esc_bad)
        out.append(bytes(body))
    return out


def check_raw_nul_strings(res, cfg, crash_kind):
    """literals without escapes that contain raw NUL bytes: bytes / length exact, and the C-string comparison helper never
    equal (a C string cannot contain NUL); under ASan the probe is an exact-size heap block"""
    nul_scripts, nul_meta = [], []
    for body in (b"id\x00", b"id\x00xxxxxxxx", b"\x00xy", b"ab\x00cd", b"\x00", b"a\x00\x00b", b"q" * 15 + b"\x00" + b"r" * 20, b"\x00" * 5):
        for probe in (body.split(b"\x00")[0], b"", body.replace(b"\x00", b""), body.split(b"\x00")[0] + b"x", b"zz"):
            for pre_ in ("", "G0.0;"):
                nul_scripts.append("script P0=%s;%sQ0.0,%s;G0.0;Q0.0,%s" % (hexs(b'["' + body + b'"]'), pre_, hexs(probe), hexs(probe)))
                nul_meta.append((body, probe))
    nimpl, nmodel = correspond(res, cfg, "san", nul_scripts, label="raw-nul-strings")
    for (body, probe), ln, a in zip(nul_meta, nul_scripts, nimpl):
        res.count("raw-nul-string")
        res.nontrivial.add((cfg, "rawnul", body, probe, ln[-30:]))
        out = a.split(";")
        if is_crash(a):
            res.violations.append(Violation(crash_kind, ln[:3000], a[:300], cfg))
        elif out[0] == "ok":
            qs = [x for x in out[1:] if x in ("0", "1")]
            gets = [x for x in out[1:] if ":" in x]
            if any(g != "%d:%s" % (len(body), hexs(body)) for g in gets):
                res.violations.append(Violation("string-bytes-or-length-wrong", ln[:3000], "content with raw NUL %r: %s" % (body, a[:160]), cfg))
            if any(q != "0" for q in qs):       # a C string never equals content that contains NUL
                res.violations.append(Violation("string-equals-helper-disagrees-with-bytes", ln[:3000],
                                                "content %r (length %d) equals the C string %r: %s" % (body, len(body), probe, a[:120]), cfg))


@prop("C06")
def check_c06(res):
    rnd = random.Random(res.seed)
    thorough = res.tier == "thorough"
    res.rule = ("string literals of 0..300 bytes over content bytes (incl. NUL, 0x80..0xFF) and escapes (core, Clojure-only, "
                "undefined), a quote/backslash at every offset of short literals, each followed by a different suffix "
                "(closing context, more tokens, backslashes after the closing quote); get/get/equals histories; oracle: "
                "Python unescape per configuration: exact bytes, exact length, NUL terminator, stable pointer, equals "
                "helper agrees. non-trivial = distinct literal body")
    for cfg in CFGS:
        clj = cfg[0] == "1"
        bodies = c06_bodies(rnd, cfg, 1500 if thorough else 500)
        # a backslash or quote-escape at every offset of literals up to 36 bytes
        for L in range(1, 37 if thorough else 20):
            for off in range(L):
                b = bytearray(b"a" * L)
                b[off:off + 1] = b"\\n"
                bodies.append(bytes(b))
                b = bytearray(b"a" * L)
                b[off:off + 1] = b'\\"'
                bodies.append(bytes(b))
        lines, meta = [], []
        for body in bodies:
            suffix = rnd.choice([b"", b" ", b" \\a", b'\\', b' "x\\\\y"', b"]", b" ;c\\\n"])
            doc = b'"' + body + b'"' + suffix
            lines.append(docline(doc))
            meta.append(body)
        impl, model = correspond(res, cfg, "san", lines, label="string-literals")
        for body, ln, a in zip(meta, lines, impl):
            res.nontrivial.add((cfg, body))
            if is_crash(a):
                res.violations.append(Violation("string-crash", ln, a, cfg))
                continue
            # body may contain an unescaped quote only via our generator? no: bodies never contain a bare quote
            has_esc = b"\\" in body
            want_dec = refs.unescape(body, clj)
            res.count("esc" if has_esc else "plain")
            if want_dec is None:
                want_get = "NULL"
                res.count("undefined-escape")
            else:
                want_get = "%d:%s" % (len(want_dec), hexs(want_dec))
            want = "str:%d:%s:%s@0-%d" % (int(has_esc), hexs(body), want_get, len(body) + 2)
            got = a[3:].split(" calls=")[0] if a.startswith("OK ") else a
            if got != want:
                if want_dec is not None and b"\x00" in want_dec and has_esc:
                    kind = "decoded-nul-truncates-reported-length"
                else:
                    kind = "string-bytes-or-length-wrong"
                res.violations.append(Violation(kind, ln, "body %r: implementation %s, expected %s" % (body[:40], got[:120], want[:120]), cfg))
        # histories: get twice, equals helper
        scripts, smeta = [], []
        hbodies = rnd.sample(meta, 150 if thorough else 60)
        # literals that are (almost) nothing but escapes: the decoded content is much shorter than the spelling
        for esc_ in ([b"\\n", b"\\\\", b'\\"', b"\\t"] + ([b"\\u0041", b"\\u00e9", b"\\u20AC", b"\\101", b"\\7", b"\\f"] if clj else [])):
            for k_ in (1, 2, 3, 8, 17):
                hbodies.append(esc_ * k_)
                hbodies.append(b"a" + esc_ * k_)
        for body in hbodies:
            dec = refs.unescape(body, clj)
            if dec is None or b"\x00" in dec:
                continue
            doc = b'["' + body + b'"]'
            other = dec + b"x"
            shorter = dec[:-1] if dec else b"y"
            # every order of {get, equals(same), equals(other)} as the FIRST calls on a fresh value
            for order in ("G0.0;Q0.0,%s;Q0.0,%s" % (hexs(dec), hexs(other)), "Q0.0,%s;G0.0;Q0.0,%s" % (hexs(dec), hexs(other)),
                          "Q0.0,%s;Q0.0,%s;G0.0" % (hexs(other), hexs(dec)), "Q0.0,%s;Q0.0,%s;G0.0" % (hexs(shorter), hexs(dec))):
                scripts.append("script P0=%s;%s;G0.0;H0.0;G0.0;Q0.0,%s" % (hexs(doc), order, hexs(dec)))
                smeta.append((body, dec, order))
        check_raw_nul_strings(res, cfg, "string-helper-crash")
        impl, model = correspond(res, cfg, "san", scripts, label="string-get-scripts")
        for (body, dec, order), ln, a in zip(smeta, scripts, impl):
            out = a.split(";")
            want_g = "%d:%s" % (len(dec), hexs(dec))
            first3 = out[1:4]
            exp3 = []
            for op in order.split(";"):
                if op.startswith("G"):
                    exp3.append(want_g)
                else:
                    exp3.append("1" if op.split(",")[1] == hexs(dec) else "0")
            if is_crash(a) or first3 != exp3 or out[4] != want_g or out[6] != want_g or out[7] != "1":
                res.violations.append(Violation("string-get-unstable-or-equals-disagrees", ln, "%s (expected %s then get %s)" % (a[:200], exp3, want_g[:60]), cfg))
        # literals with an escape this build does not define: EVERY access reports the error (NULL / not equal), not only
        # the first one; nothing half-decoded may be handed out later
        ul_, um_ = [], []
        und = [b"abc\\qdef", b"\\x41", b"ab\\ ", b"tail\\a", b"\\u12", b"\\uD800", b"x\\ y", b"long prefix " * 8 + b"\\q"] + \
              ([] if clj else [b"ab\\fcd", b"\\u0041", b"p\\101q", b"\\b"])
        for body in und:
            if refs.unescape(body, clj) is not None:
                continue
            doc = b'["' + body + b'" "ok\\n"]'
            pre = body.split(b"\\")[0]
            for ops in ("G0.0;G0.0;G0.0", "G0.0;G0.1;G0.0;Q0.0,%s;G0.0" % hexs(pre), "Q0.0,%s;G0.0;Q0.0,%s;G0.0" % (hexs(pre), hexs(pre)),
                        "G0.0;H0.0;G0.0;D0.0;G0.0"):
                ul_.append("script P0=%s;%s" % (hexs(doc), ops))
                um_.append((body, ops))
        uimpl, umodel = correspond(res, cfg, "san", ul_, label="undefined-escape-histories")
        for (body, ops), ln, a in zip(um_, ul_, uimpl):
            res.count("undefined-escape-history")
            out = a.split(";")[1:]
            bad = is_crash(a)
            for op, o_ in zip(ops.split(";"), out):
                if (op.startswith("G0.0") and o_ != "NULL") or (op.startswith("Q0.0") and o_ != "0"):
                    bad = True
            if bad:
                res.violations.append(Violation("undefined-escape-returned-or-accepted-on-a-later-access", ln,
                                                "literal %r, accesses %s: %s" % (body[:40], ops[:60], a[:160]), cfg))
        # several strings of ONE document fetched in interleaved order: a later lazy materialisation (another string's
        # decode buffer, or any other arena request) must not disturb a buffer handed out earlier.  Decoded lengths
        # sit around the arena's 8-byte granule and the usual block sizes.
        scripts, smeta = [], []
        escs = [b"", b"\\n", b"\\t", b"\\\\", b'\\"'] + ([b"\\u00e9", b"\\101"] if clj else [])      # b"": no escape at all
        lens = [0, 1, 7, 8, 9, 15, 16, 17, 24, 31, 32, 33, 64, 255, 256, 4088, 4096] if thorough else [0, 7, 8, 9, 16, 24, 32, 64, 256, 4096]
        for L in lens:
            for esc_ in escs:
                declen = len(refs.unescape(esc_, clj))
                if L < declen:
                    continue
                first = esc_ + b"b" * (L - declen)                        # decoded length exactly L
                others = [rnd.choice([b"xyz", b"x\\ny", b"q" * rnd.choice([1, 8, 16, 40]) + b"\\t", b"plain"]) for _ in range(3)]
                strs = [first] + others
                doc = b"[" + b" ".join(b'"' + s_ + b'"' for s_ in strs) + b"]"
                decs = [refs.unescape(s_, clj) for s_ in strs]
                for order in ([0, 1, 0, 2, 0, 3, 1, 0], [1, 0, 2, 1, 0, 3, 3, 0], [0, 0, 1, 2, 3, 0, 1, 2]):
                    ops = []
                    for i_ in order:
                        ops.append("G0.%d" % i_)
                        ops.append("Q0.%d,%s" % (i_, hexs(decs[i_])))
                    scripts.append("script P0=%s;%s" % (hexs(doc), ";".join(ops)))
                    smeta.append((doc, decs, order))
        impl, model = correspond(res, cfg, "san", scripts, label="interleaved-string-gets")
        for (doc, decs, order), ln, a in zip(smeta, scripts, impl):
            res.count("interleaved-gets")
            out = a.split(";")
            want = ["ok"]
            for i_ in order:
                want += ["%d:%s" % (len(decs[i_]), hexs(decs[i_])), "1"]
            if is_crash(a) or out != want:
                bad = next((k for k, (x, y) in enumerate(zip(out, want)) if x != y), len(out))
                res.violations.append(Violation("string-buffer-disturbed-by-later-fetch", ln,
                                                "doc %r order %s: result %d is %s, expected %s" % (doc[:60], order, bad, (out[bad] if bad < len(out) else "missing")[:80], (want[bad] if bad < len(want) else "-")[:80]), cfg))
        res.sample({"cfg": cfg, "literal": lines[0][:120]})


# =============================================================================== C10
def c10_predictable(rnd, cfg, n):
    """(document, acceptable error classes) for defects with a predictable outcome"""
    clj, exp = cfg[0] == "1", cfg[1] == "1"
    g = Gen(rnd.randrange(1 << 30), clj=clj, exp=exp)
    out = []
    openers = [(b"(", b")"), (b"[", b"]"), (b"{", b"}"), (b"#{", b"}")]

    def valid_elems(k, kind):
        if kind == b"{":
            return b" ".join((":k%d %d" % (i, i)).encode() for i in range(k))
        return b" ".join(str(100 + i).encode() for i in range(k))
    for _ in range(n):
        k = rnd.random()
        op, cl = rnd.choice(openers)
        cnt = rnd.randrange(0, 6)
        if k < 0.15:        # unterminated at top level
            out.append((op + valid_elems(cnt, op) + rnd.choice([b"", b" ", b"\n"]), {"UNTERMINATED_COLLECTION"}))
        elif k < 0.25:      # unterminated nested
            out.append((b"[1 " + op + valid_elems(cnt, op), {"UNTERMINATED_COLLECTION"}))
        elif k < 0.4:       # mismatched closer
            wrong = rnd.choice([c for c in (b")", b"]", b"}") if c != cl])
            out.append((op + valid_elems(cnt, op) + wrong, {"UNMATCHED_DELIMITER"}))
        elif k < 0.45:      # stray closer at top level
            out.append((rnd.choice([b" ", b""]) + rnd.choice([b")", b"]", b"}"]) + b" 1", {"UNMATCHED_DELIMITER"}))
        elif k < 0.55:      # odd map
            out.append((b"{" + valid_elems(cnt, b"{") + b" :odd}", {"INVALID_SYNTAX"}))
        elif k < 0.65:      # orphans at top level before EOF
            out.append((rnd.choice([b"#foo", b"#foo ", b"#_", b"#_ ", b"#foo #_ 1", b"#_ #_ 1"]), {"UNEXPECTED_EOF"}))
        elif k < 0.72:      # orphans before a closer
            inner = rnd.choice([b"#foo", b"#_", b"#foo #_ 1"])
            out.append((b"[1 " + inner + b"]", {"UNTERMINATED_COLLECTION", "INVALID_DISCARD", "UNEXPECTED_EOF", "INVALID_SYNTAX"}))
        elif k < 0.78 and clj:
            inner = rnd.choice([b"^", b"^:a", b"^{:a 1}", b"^:a ^:b"])
            if rnd.random() < 0.5:
                out.append((b"[1 " + inner + b"]", {"INVALID_SYNTAX", "UNTERMINATED_COLLECTION"}))
            else:
                out.append((inner, {"UNEXPECTED_EOF"}))
        else:               # definitely-invalid tokens, alone or spliced into a collection
            tok, cls = rnd.choice([(b"1x", "INVALID_NUMBER"), (b"1e", "INVALID_NUMBER"), (b"1.5e+", "INVALID_NUMBER"),
                                   (b"12abc", "INVALID_NUMBER"), (b"\\", "INVALID_CHARACTER"), (b"\\u12", "INVALID_CHARACTER"),
                                   (b"\\newlinex", "INVALID_CHARACTER"), (b"\\ ", "INVALID_CHARACTER"),
                                   (b"::a", "INVALID_SYNTAX"), (b"a/", "INVALID_SYNTAX"), (b"/a", "INVALID_SYNTAX"),
                                   (b":", "INVALID_SYNTAX"), (b":a/", "INVALID_SYNTAX"), (b"a::b", "INVALID_SYNTAX"),
                                   (b'"abc', "INVALID_STRING"), (b'"abc\\', "INVALID_STRING"), (b"##Foo", "INVALID_SYNTAX"),
                                   (b"##", "INVALID_SYNTAX"), (b"# foo", "INVALID_SYNTAX"), (b"#:foo 1", "INVALID_SYNTAX" if clj else None)])
            if cls is None:
                continue
            if not clj and tok == b"01":
                pass
            if rnd.random() < 0.5 and not tok.startswith(b'"'):
                out.append((b"[1 2 " + tok + b" 3]", {cls}))
            else:
                out.append((tok, {cls}))
    if not clj:
        out += [(b"01", {"INVALID_NUMBER"}), (b"-007", {"INVALID_NUMBER"}), (b"[00]", {"INVALID_NUMBER"})]
    # an identifier with a doubled colon at EVERY offset of tokens that span one, two and three 16-byte blocks,
    # alone (end of input right after it) and followed by a long tail; symbols, keywords, namespaced, tags
    for L in (6, 17, 18, 20, 33, 36, 50):
        for off in range(1, L - 2):
            tok = b"a" * off + b"::" + b"b" * (L - off - 2)
            for t_ in (tok, b":" + tok, b"n/" + tok, b"#" + tok + b" 1"):
                out.append((t_, {"INVALID_SYNTAX"}))
                out.append((b"[" + t_ + b" 1 2 3 4 5 6 7 8 9 10 11 12]", {"INVALID_SYNTAX"}))
    # a number token glued to a byte that neither continues nor terminates a number
    for num in (b"1", b"42", b"3.5", b"-7N", b"1e5", b"2.5M", b"0"):
        for glue in (b"\\a", b"\\newline", b"\x7f", b"'", b"~", b"@", b"`", b"\x01", b"\x80", b"\xc3\xa9", b"|", b"$", b"!"):
            out.append((num + glue, {"INVALID_NUMBER"}))
            out.append((b"[" + num + glue + b"]", {"INVALID_NUMBER"}))
    return out


@prop("C10")
def check_c10(res):
    rnd = random.Random(res.seed)
    thorough = res.tier == "thorough"
    res.rule = ("(a) documents with one defect of predictable outcome (missing / wrong closer, odd map, orphan #tag / #_ / ^ before "
                "EOF or closer, invalid number / character / identifier / string tokens, alone and spliced into collections): "
                "must be rejected with NULL value, the documented class, a message; (b) value-xor-error on every string up "
                "to length %d over a 24-symbol structural alphabet (exhaustive) and on random corruptions of generated "
                "documents. non-trivial = distinct document" % (5 if thorough else 4))
    alphabet = [b"(", b")", b"[", b"]", b"{", b"}", b"#", b"_", b"^", b":", b"/", b'"', b"\\", b";", b" ", b"\n", b"a", b"1",
                b"-", b".", b"e", b",", b"N", b"0"]
    import itertools
    for cfg in CFGS:
        cases = c10_predictable(rnd, cfg, 1200 if thorough else 500)
        lines = [docline(d) for d, _ in cases]
        impl, model = correspond(res, cfg, "san", lines, label="predictable-defects")
        for (d, classes), ln, a in zip(cases, lines, impl):
            res.nontrivial.add((cfg, d))
            res.count("defect")
            so = refs.split_obs(a)
            if is_crash(a):
                res.violations.append(Violation("malformed-crash", ln, a, cfg))
            elif so[0] != "ERR":
                res.violations.append(Violation("ill-formed-document-accepted", ln, "%r -> %s" % (d, a[:120]), cfg))
            elif so[1] not in classes or so[2] == "nomsg":
                res.violations.append(Violation("wrong-error-class:" + so[1], ln, "%r -> %s (expected %s)" % (d, a[:80], sorted(classes)), cfg))
        # (b) xor invariant, exhaustive short strings: implementation only is fast; model on a sample
        maxlen = 5 if thorough else 4
        docs = []
        for L in range(0, maxlen + 1):
            if L == maxlen and not thorough and cfg not in ("00", "11"):
                continue
            for tup in itertools.product(alphabet, repeat=L):
                docs.append(b"".join(tup))
        lines = [docline(d) for d in docs]
        impl = []
        from concurrent.futures import ThreadPoolExecutor
        parts = runner.shard(lines, 16)
        with ThreadPoolExecutor(16) as ex:
            for part in ex.map(lambda p: runner.run_impl(cfg, "prod", p), parts):
                impl.extend(part)
        res.evaluations += len(docs)
        res.count("xor-exhaustive", len(docs))
        for d, ln, a in zip(docs, lines, impl):
            head = a.split(" ")[0]
            if head in ("NEITHER", "BOTH") or is_crash(a) or (head == "ERR" and " nomsg " in a):
                res.violations.append(Violation("value-xor-error-broken:" + head, ln, "%r -> %s" % (d, a[:100]), cfg))
        sample = rnd.sample(lines, 3000 if thorough else 1200)
        correspond(res, cfg, "san", sample, label="xor-sample")
        # (c) the same invariant on every sequence of up to 5 (thorough: 6) TOKENS: discards, tags, markers, openers, closers
        tokens = [b"#_", b"#t ", b"1 ", b"]", b")", b"}", b"[", b"(", b"{", b"#{", b":a ", b"\"s\" "] + ([b"^:m ", b"#:n"] if cfg[0] == "1" else [])
        tmax = 6 if thorough else 5
        tdocs = []
        for L in range(1, tmax + 1):
            if L == tmax and not thorough and cfg not in ("00", "11"):
                continue
            for tup in itertools.product(tokens, repeat=L):
                tdocs.append(b"".join(tup))
        tlines = [docline(d) for d in tdocs]
        timpl = []
        with ThreadPoolExecutor(16) as ex:
            for part in ex.map(lambda p: runner.run_impl(cfg, "prod", p), runner.shard(tlines, 16)):
                timpl.extend(part)
        res.evaluations += len(tdocs)
        res.count("xor-token-sequences", len(tdocs))
        for d, ln, a in zip(tdocs, tlines, timpl):
            head = a.split(" ")[0]
            if head in ("NEITHER", "BOTH") or is_crash(a) or (head == "ERR" and " nomsg " in a):
                res.violations.append(Violation("value-xor-error-broken:" + head, ln, "%r -> %s" % (d, a[:100]), cfg))
        correspond(res, cfg, "san", rnd.sample(tlines, min(len(tlines), 3000 if thorough else 1000)), label="xor-token-sample")
        g = Gen(rnd.randrange(1 << 30), clj=cfg[0] == "1", exp=cfg[1] == "1")
        lines = [docline(g.corrupt(g.document(3))) for _ in range(1500 if thorough else 500)]
        impl, model = correspond(res, cfg, "san", lines, label="corruptions")
        for ln, a in zip(lines, impl):
            head = a.split(" ")[0]
            if head in ("NEITHER", "BOTH") or is_crash(a) or (head == "ERR" and " nomsg " in a):
                res.violations.append(Violation("value-xor-error-broken:" + head, ln, a[:100], cfg))
        if cfg[1] == "1":
            c10_textblock_prefixes(res, cfg)
        res.sample({"cfg": cfg, "doc": cases[0][0].decode(errors="replace")})


# =============================================================================== C01
def c01_boundary_lengths():
    sizes = set([16, 32, 64, 256, 1024, 4096])
    for f in sorted(os.listdir(os.path.join(REPO, "src"))):
        if not f.endswith((".c", ".h")):
            continue
        txt = open(os.path.join(REPO, "src", f), errors="replace").read()
        for m in re.finditer(r"\b\w+\s+\w+\[(\d+)\]\s*;", txt):
            sizes.add(int(m.group(1)))
        for m in re.finditer(r"#define\s+\w*(?:SIZE|LEN|MAX|THRESHOLD|CAP)\w*\s+\(?(\d+)\)?", txt):
            sizes.add(int(m.group(1)))
    out = set()
    for n in sizes:
        if 8 <= n <= 20000:
            out.update(range(n - 2, n + 3))
    return sorted(out)


def c01_long_tokens(L, cfg):
    """tokens of exactly L bytes of every family that is copied or scanned through a bounded buffer"""
    L = max(L, 4)
    out = [b"1." + b"7" * (L - 2),                         # float, beyond the fast path
           b"-" + b"1" * (L - 6) + b"e-300",               # float with exponent
           b"9" * L,                                       # integer -> big integer
           b"1." + b"3" * (L - 3) + b"M",                  # big decimal
           b"s" * L, b":" + b"k" * (L - 1), b"n/" + b"s" * (L - 2),
           b'"' + b"a" * (L - 4) + b'\\n"',                  # string with an escape (decoded lazily)
           b"#" + b"t" * (L - 3) + b" 1"]
    if cfg[0] == "1":
        out += [b"0x" + b"f" * (L - 2), b"1" * (L // 2) + b"/" + b"3" * (L - L // 2 - 1)]
    if cfg[1] == "1":
        out += [b"1_" * ((L - 3) // 2) + b"1.5", b"1_" * ((L - 1) // 2) + b"1"]
    return out


@prop("C01")
def check_c01(res):
    rnd = random.Random(res.seed)
    thorough = res.tier == "thorough"
    res.rule = ("generated, corrupted and truncated (at every offset) documents and raw random bytes, read (a) in the "
                "ASan+UBSan -O1 build from exact-size heap buffers and (b) in the production -O2 -msse4.2 build with the "
                "last input byte flush against a PROT_NONE page on PROT_READ pages, at every start phase mod 16, 4 flag "
                "sets; then every accessor / equality / hash / lookup on the returned tree (script D, H, E, L, G); any "
                "sanitizer report or signal is a violation; the model must predict the same result. non-trivial = distinct bytes")
    for cfg in CFGS:
        g = Gen(res.seed * 13 + int(cfg, 2), clj=cfg[0] == "1", exp=cfg[1] == "1")
        docs = []
        for _ in range(400 if thorough else 120):
            docs.append(g.document(3))
        for _ in range(300 if thorough else 100):
            docs.append(g.corrupt(g.document(3)))
        for _ in range(200 if thorough else 60):
            docs.append(g.junk(g.r.randrange(1, 60)))
        for _ in range(100 if thorough else 30):
            docs.append(bytes(g.r.randrange(256) for _ in range(g.r.randrange(1, 80))))
        # token families truncated at the buffer end
        toks = [b'"abc\\n', b"\\u12", b"\\newlin", b"##In", b"##-In", b"#", b"#_", b"#:", b"#:a", b"1e", b"1.", b"1/", b"0x",
                b"36r", b"-", b"+", b"^", b":", b"a/", b'"""\n abc', b'"""\n', b'"""', b"\\o7", b"\\", b"[", b"{:a", b"#{",
                b"1234567", b"12345678", b"123456789012345678", b"0." + b"1" * 20, b"a" * 15, b"a" * 16, b"a" * 17,
                b" " * 15 + b"x", b" " * 16, b" " * 17, b";" + b"c" * 15, b";" + b"c" * 16, b'"' + b"a" * 15, b'"' + b"a" * 16 + b"\\"]
        docs += toks
        # extreme scalars side by side in collections of every duplicate-strategy size (comparators, hashing)
        ext = [b"9223372036854775807", b"-9223372036854775808", b"4611686018427387904", b"-4611686018427387904", b"0", b"-1",
               b"1.7976931348623157e308", b"-1.7976931348623157e308", b"5e-324", b"-0.0", b"##Inf", b"##-Inf", b"##NaN",
               b"\"\"", b'"' + b"z" * 300 + b'"', b"\\u0000" if False else b"\\a", b":k", b"sym", b"nil", b"true"]
        for n_ in (3, 17, 40, 1001):
            fillers = [b"%d" % (1000 + i) for i in range(max(0, n_ - len(ext)))]
            for _ in range(2):
                els = ext[:n_] + fillers
                g.r.shuffle(els)
                docs.append(b"#{" + b" ".join(els) + b"}")
                docs.append(b"{" + b" ".join(x + b" 1" for x in els) + b"}")
        # tokens whose byte length sits around every fixed-size buffer / threshold constant the source declares
        # (read from /repo at run time) and around powers of two
        for L in c01_boundary_lengths():
            for fam in c01_long_tokens(L, cfg):
                docs.append(fam)
        # all truncations of some documents
        for d in (docs[:40] if thorough else docs[:12]):
            for i in range(1, len(d)):
                docs.append(d[:i])
        lines = []
        for d in docs:
            phase = g.r.randrange(16)
            lines.append(docline(b" " * phase + d))
        check_raw_nul_strings(res, cfg, "memory-error-or-undefined-behaviour:accessor")
        impl, model = correspond(res, cfg, "san", lines, label="sanitized")
        for ln, a in zip(lines, impl):
            res.nontrivial.add(ln)
            res.count("san")
            if is_crash(a):
                res.violations.append(Violation("sanitizer-report:" + refs.crash_class(a), ln, a, cfg))
        implg = runner.run_impl(cfg, "prod", lines, guard=True)
        res.evaluations += len(lines)
        for ln, a, b in zip(lines, implg, impl):
            res.count("guard-page")
            if is_crash(a):
                res.violations.append(Violation("fault-at-guard-page", ln, a, cfg))
            elif a != b and not is_crash(b):
                res.violations.append(Violation("production-build-differs", ln, "%s vs %s" % (a[:120], b[:120]), cfg))
        # memory the library hands out must be aligned for what it holds: tag handlers that request scratch blocks of
        # ODD sizes from the arena (small, and larger than the arena's block sizes so that the request opens a new
        # block), followed by more values in the same document; text blocks longer than an arena block
        hl = []
        for sizes in ([1, 3, 7, 9, 15], [16383, 5, 16385, 1], [20001], [65537, 3, 100001], [4093, 4099, 8191, 8193, 12289, 1, 1, 1],
                      [rnd.randrange(1, 70000) | 1 for _ in range(6)]):
            body = b" ".join(b"#x %d [%d :k \"s\\n\" {:a 1.5} 12345678901234567890N]" % (n_, n_) for n_ in sizes)
            hl.append(docline(b"[" + body + b" #x :not-an-int (1 2 3)]", reg="x:4"))
        if cfg[1] == "1":
            for L in (100, 16000, 20000, 70000):
                tb = b'"""\n' + b"".join(b"  line %d of the block\n" % i for i in range(L // 24)) + b'  """'
                hl.append(docline(b"[" + tb + b" [1 2 3] \"after\" {:a 1} " + tb + b" :end]"))
        himpl, hmodel = correspond(res, cfg, "san", hl, label="handler-scratch-and-long-blocks")
        for ln, a in zip(hl, himpl):
            res.nontrivial.add(ln[:200])
            res.count("arena-alignment")
            if is_crash(a) or "!MISALIGNED" in a:
                res.violations.append(Violation("misaligned-or-invalid-arena-memory:" + (refs.crash_class(a) if is_crash(a) else "alignment"),
                                                ln[:200000], a[:200], cfg))
        check_external_histories(res, cfg, "invalid-access-in-external-type-table", thorough)
        # accessors on the returned trees
        scripts = []
        for d in docs[: (300 if thorough else 100)]:
            scripts.append("script P0=%s;P1=%s;D0;H0;E0,1;H1;E0,1;D0.0;H0.0;G0;G0.0;L0,1.0;K0,1;S0,1.0;W0,61;T0,61;D0.m;E0.0,1.0" % (hexs(d), hexs(d)))
        impl, model = correspond(res, cfg, "san", scripts, label="accessors")
        for ln, a in zip(scripts, impl):
            res.count("accessors")
            if is_crash(a):
                res.violations.append(Violation("sanitizer-report-in-accessor:" + refs.crash_class(a), ln, a, cfg))
        # reads of uninitialised storage (undefined behaviour as soon as they steer a branch): MemorySanitizer build
        mlines = lines[: (1500 if thorough else 500)] + scripts
        mout = runner.run_impl(cfg, "msan", mlines)
        res.evaluations += len(mlines)
        res.count("msan", len(mlines))
        for ln, a in zip(mlines, mout):
            if is_crash(a):
                res.violations.append(Violation("uninitialised-read:" + refs.crash_class(a), ln, a, cfg))
        res.sample({"cfg": cfg, "doc": lines[3][:100]})


def c10_textblock_prefixes(res, cfg):
    """every proper prefix of a text block whose only unescaped triple quote is its closing delimiter is ill-formed"""
    BS = b"\x5c"
    pieces = [b"ab", b" ", b"\n", BS + b'"""', b'"x', b'""y', b"  z", BS + b"n", b"q" + BS + b'"""', BS + b'"""' + BS + b'"""']
    rnd = random.Random(res.seed * 3 + 1)
    blocks = [b'"""\n' + BS + b'"""' + b'"""', b'"""\nab' + BS + b'"""' + b'"""', b'"""\n  a\n  ' + BS + b'"""' + b'\n  """']
    for _ in range(12):
        body = b"".join(rnd.choice(pieces) for _ in range(rnd.randrange(1, 8)))
        if body.endswith(b'"'):
            body += b" "
        blocks.append(b'"""\n' + body + b'"""')
    lines, meta = [], []
    for blk in blocks:
        for (pre, post) in ((b"", b""), (b"[1 ", b"]"), (b"{:k ", b"}")):
            full = pre + blk + post
            for cut in range(len(pre) + 4, len(pre) + len(blk)):       # from the line feed on, the block has begun
                lines.append(docline(full[:cut])); meta.append((full, cut, "nul"))
                lines.append(docline(full, length=cut)); meta.append((full, cut, "len"))
    impl, model = correspond(res, cfg, "san", lines, label="text-block-prefixes")
    for (full, cut, how), ln, a in zip(meta, lines, impl):
        res.count("text-block-prefix")
        res.nontrivial.add((cfg, "tbprefix", full, cut, how))
        if is_crash(a):
            res.violations.append(Violation("ill-formed-crash", ln[:3000], a[:200], cfg))
        elif not a.startswith("ERR "):
            res.violations.append(Violation("truncated-text-block-accepted", ln[:3000],
                                            "%r cut after %d bytes (%s): %s" % (full[:80], cut, how, a[:120]), cfg))


# =============================================================================== C11
def c11_check_ranges(res, cfg, doc, obs, clj):
    """ranges of every node: inside the input, children inside the parent, ordered, disjoint"""
    so = refs.split_obs(obs)
    if so[0] != "OK":
        return []
    root = refs.parse_dump(so[1])
    bad = []
    rereads = []

    def synthetic(n, parent, in_meta):
        return n.s == 0 and n.e == 0 and (in_meta or (clj and parent is not None and parent.kind == "map"))

    def walk(n, parent, in_meta):
        if synthetic(n, parent, in_meta):
            for k in n.kids:
                walk(k, n, in_meta)
            return
        if not (0 <= n.s <= n.e <= len(doc)) or (n.s == n.e):
            bad.append(("range-outside-input-or-empty", "%s@%d-%d in document of %d bytes" % (n.kind, n.s, n.e, len(doc))))
            return
        if parent is not None and not synthetic(parent, None, in_meta) and not (parent.s <= n.s and n.e <= parent.e) and not in_meta:
            bad.append(("child-range-outside-parent", "%s@%d-%d parent %s@%d-%d" % (n.kind, n.s, n.e, parent.kind, parent.s, parent.e)))
        prev = None
        for k in n.kids:
            if synthetic(k, n, in_meta):
                walk(k, n, in_meta)
                continue
            if prev is not None and n.kind in ("list", "vec", "map", "set") and k.s < prev.e:
                bad.append(("sibling-ranges-overlap-or-out-of-order", "%s@%d-%d after %s@%d-%d" % (k.kind, k.s, k.e, prev.kind, prev.s, prev.e)))
            prev = k
            walk(k, n, in_meta)
        if n.meta is not None:
            walk(n.meta, n, True)
        if not in_meta:
            rereads.append(n)

    walk(root, None, False)
    return bad, rereads, root


def dump_of(n, shift=0):
    """canonical text of a parsed dump node without ranges (for re-read comparison)"""
    if n.kids or n.kind in ("list", "vec", "map", "set", "tag"):
        head = n.kind + ((":" + n.text) if n.text else "")
        s = "(" + head + "".join(" " + dump_of(k) for k in n.kids) + ")"
    else:
        s = n.kind + ((":" + n.text) if n.text != "" or ":" in n.kind else "")
        if n.kind in ("nil", "true", "false"):
            s = n.kind
    if n.meta is not None:
        s += "^" + dump_of(n.meta)
    return s


@prop("C11")
def check_c11(res):
    rnd = random.Random(res.seed)
    thorough = res.tier == "thorough"
    res.rule = ("(a) generated multi-line documents with leading trivia, discards, tags (with and without handlers), metadata: "
                "every non-synthetic node's range inside the input, inside its parent, siblings ordered and disjoint, and "
                "re-reading exactly that byte range gives the same value; (b) corrupted / truncated / random documents with "
                "0..5000 line feeds around 16-byte block edges: 0<=start<=end<=len and line/column = 1+LFs before / 1+distance "
                "from the last LF (Python count). non-trivial = distinct document")
    for cfg in CFGS:
        clj = cfg[0] == "1"
        g = Gen(res.seed * 17 + int(cfg, 2), clj=clj, exp=cfg[1] == "1")
        docs = [g.document(3) for _ in range(500 if thorough else 150)]
        docs += [b"\n\n ;c\n" + g.document(2) for _ in range(50)]
        regs = ["-", "inst:0,uuid:1,x:5", "+"]
        lines = [docline(d, reg=rnd.choice(regs)) for d in docs]
        impl, model = correspond(res, cfg, "san", lines, label="ranges")
        reread_lines, reread_meta = [], []
        for d, ln, a in zip(docs, lines, impl):
            res.nontrivial.add((cfg, d))
            res.count("ok-doc" if a.startswith("OK") else "rejected-doc")
            if is_crash(a) or not a.startswith("OK "):
                continue
            bad, rereads, root = c11_check_ranges(res, cfg, d, a, clj)
            for kind, detail in bad:
                res.violations.append(Violation(kind, ln, detail, cfg))
            if " - " in ln:      # re-read only for documents read without handlers (handler results are not re-readable text)
                for n in rereads[:40]:
                    sub = d[n.s:n.e]
                    reread_lines.append(docline(sub))
                    reread_meta.append((ln, n))
        rimpl = runner.run_impl(cfg, "san", reread_lines)
        res.evaluations += len(reread_lines)
        for (ln, n), sub_ln, a in zip(reread_meta, reread_lines, rimpl):
            res.count("reread")
            so = refs.split_obs(a)
            if so[0] != "OK":
                res.violations.append(Violation("range-does-not-reread", ln, "node %s@%d-%d: re-reading its bytes gives %s" % (n.kind, n.s, n.e, a[:80]), cfg))
                continue
            again = refs.parse_dump(so[1])
            if dump_of(again) != dump_of(n):
                res.violations.append(Violation("range-rereads-to-different-value", ln,
                                                "node @%d-%d: %s vs %s" % (n.s, n.e, dump_of(n)[:100], dump_of(again)[:100]), cfg))
        # (b) error positions
        edocs = []
        for _ in range(600 if thorough else 200):
            d = g.corrupt(g.document(3))
            if rnd.random() < 0.5:
                nl = rnd.choice([0, 1, 2, 15, 16, 17, 31, 32, 33, 64, 100] + ([1000, 5000] if thorough else [300]))
                pre = bytearray()
                for _ in range(nl):
                    pre += b" " * rnd.choice([0, 0, 1, 14, 15, 16]) + b"\n"
                d = bytes(pre) + d
            edocs.append(d)
        edocs += [b"\n" * k + b"]" for k in (0, 1, 15, 16, 17, 63, 64, 65, 129)]
        edocs += [b"\\u12", b"[\n\n  \\u12", b'"abc', b"[1 2\n", b"{:a\n}", b"#foo"]
        edocs += multiline_error_docs()
        lines = [docline(d) for d in edocs]
        impl, model = correspond(res, cfg, "san", lines, label="error-positions")
        for d, ln, a in zip(edocs, lines, impl):
            so = refs.split_obs(a)
            res.count("err-doc" if so[0] == "ERR" else "other-doc")
            if so[0] != "ERR":
                continue
            (o1, l1, c1), (o2, l2, c2) = so[3], so[4]
            if not (0 <= o1 <= o2 <= len(d)):
                res.violations.append(Violation("error-range-outside-input", ln, "offsets %d..%d, length %d" % (o1, o2, len(d)), cfg))
                continue
            for (o_, l_, c_) in ((o1, l1, c1), (o2, l2, c2)):
                if (l_, c_) != refs.line_col(d, o_):
                    res.violations.append(Violation("error-line-column-wrong", ln,
                                                    "offset %d: reported %d:%d, expected %d:%d" % ((o_, l_, c_) + refs.line_col(d, o_)), cfg))
        # (c) inputs given with an explicit length that ends INSIDE a token while the buffer continues with the rest of
        # it (a slice of a larger buffer): no reported offset -- value range or error range -- may exceed the length
        tl_, tm_ = [], []
        toks_ = [b"##Inf", b"##-Inf", b"##NaN", b"\\newline", b"\\u0041", b"nil", b"true", b"false", b"123456", b"1.5e10",
                 b'"string"', b":kw/name", b"sym", b"#inst 1", b"12N", b"3.5M"] + ([b"0x1F", b"1/2", b"^:a [1]", b"#:n{:a 1}"] if cfg[0] == "1" else [])
        for tk in toks_:
            for cut in range(1, len(tk)):
                for (pre, post) in ((b"", b""), (b"[1 ", b"]"), (b"{:k ", b"}")):
                    full = pre + tk + post
                    L_ = len(pre) + cut
                    tl_.append(docline(full, length=L_))
                    tm_.append((full, L_))
        timpl, tmodel = correspond(res, cfg, "san", tl_, label="explicit-length-inside-token")
        for (full, L_), ln, a in zip(tm_, tl_, timpl):
            res.count("explicit-length-inside-token")
            res.nontrivial.add((cfg, "cut", full, L_))
            if is_crash(a):
                res.violations.append(Violation("error-range-outside-input", ln, a[:200], cfg))
                continue
            offs = [int(x) for pair in re.findall(r"@(\d+)-(\d+)", a) for x in pair]
            so = refs.split_obs(a)
            if so[0] == "ERR":
                offs += [so[3][0], so[4][0]]
            if any(o_ > L_ for o_ in offs):
                res.violations.append(Violation("error-range-outside-input" if so[0] == "ERR" else "value-range-outside-input", ln,
                                                "input %r with length %d: %s" % (full, L_, a[:120]), cfg))
        res.sample({"cfg": cfg, "doc": lines[0][:120]})


# =============================================================================== C13
def c13_trivia(rnd, pool):
    """pool: forms known to be well-formed on their own"""
    k = rnd.random()
    if k < 0.3:
        return bytes([rnd.choice(WS_BYTES)])
    if k < 0.5:
        return bytes(rnd.choice(WS_BYTES) for _ in range(rnd.randrange(1, 41)))
    if k < 0.65:
        return b";" + bytes(rnd.choice(b"abc ;#\"[]{}\\~:^") for _ in range(rnd.randrange(0, 30))) + b"\n"
    if k < 0.8:
        return b"#_" + rnd.choice([b"", b" ", b"\n"]) + rnd.choice(pool) + b" "
    if k < 0.9:
        return b"#_ #_ " + rnd.choice(pool) + b" " + rnd.choice(pool) + b" "
    return b"#_#inst[1 #_ 2 #uuid 3]" + b" "


@prop("C13")
def check_c13(res):
    rnd = random.Random(res.seed)
    thorough = res.tier == "thorough"
    res.rule = ("generated documents x insertion points (start and end offset of every node, incl. directly before closing "
                "delimiters and after tag symbols) x trivia strings (each of the 11 whitespace bytes, runs of 1..40, comments "
                "ending in LF, nested and chained discards of every form kind containing registered tags); with registries so "
                "that handler-call logs are compared; comment-to-EOF and trivia-only documents with and without eof value. "
                "oracle: value (ranges stripped) and handler calls unchanged. non-trivial = distinct (document, point, trivia)")
    for cfg in CFGS:
        clj = cfg[0] == "1"
        g = Gen(res.seed * 19 + int(cfg, 2), clj=clj, exp=cfg[1] == "1")
        docs = [g.document(3) for _ in range(120 if thorough else 40)]
        reg = "inst:0,uuid:1,x:5,my/tag:4"
        cand = [g.form(2) for _ in range(200)]
        okc = runner.run_impl(cfg, "prod", [docline(f) for f in cand])
        pool = [f for f, a in zip(cand, okc) if a.startswith("OK ") and a.endswith("@0-%d calls=0" % len(f))] or [b"1"]
        pool += [b"#foo 42", b"#unknown/tag [1 #x 2]", b"#inst \"2020\"", b"{:a #nope 1}", b"#x #y z"]
        # every document is read under one of the registry x default-reader-mode settings; trivia must not
        # change the observation under that same setting (incl. unknown tags inside discarded forms)
        settings = [(reg, 0), (reg, 1), (reg, 2), ("+", 0), ("+", 1), ("+", 2), ("-", 0), ("-", 2)]
        dset = [settings[i % len(settings)] for i in range(len(docs))]
        base_lines = [docline(d, reg=r_, mode=m_) for d, (r_, m_) in zip(docs, dset)]
        base = runner.run_impl(cfg, "san", base_lines)
        lines, meta = [], []
        for d, a, (reg_d, mode_d) in zip(docs, base, dset):
            if not a.startswith("OK "):
                continue
            # insertion points come from a registry-free read (generic tagged values keep all ranges)
            plain = runner.run_impl(cfg, "prod", [docline(d)])[0]
            if not plain.startswith("OK "):
                continue
            root = refs.parse_dump(refs.split_obs(plain)[1])
            pts = set()

            def walk(n):
                if not (n.s == 0 and n.e == 0):
                    pts.add(n.s)
                    pts.add(n.e)
                for k in n.kids:
                    walk(k)
                if n.meta is not None:
                    pass
            walk(root)
            pts = sorted(p for p in pts if 0 <= p <= len(d))
            if len(pts) > 12 and not thorough:
                pts = rnd.sample(pts, 12)
            for p in pts:
                for _ in range(3 if thorough else 2):
                    t = c13_trivia(rnd, pool)
                    # trivia inserted at a token end needs the token to stay delimited: all trivia starts with a delimiter
                    lines.append(docline(d[:p] + t + d[p:], reg=reg_d, mode=mode_d))
                    meta.append((d, p, t, a))
        impl, model = correspond(res, cfg, "san", lines, label="trivia-insertion")
        for (d, p, t, a0), ln, a in zip(meta, lines, impl):
            res.nontrivial.add((cfg, d, p, t))
            res.count("insertion:" + ("discard" if t.startswith(b"#_") else "comment" if t.startswith(b";") else "ws"))
            if is_crash(a):
                res.violations.append(Violation("trivia-crash", ln, a, cfg))
                continue
            strip = lambda x: re.sub(r":h(\d+)@\d+", r":h\1", strip_ranges(x))
            if strip(a) != strip(a0):
                res.violations.append(Violation("trivia-changes-value-or-handler-calls", ln,
                                                "inserting %r at %d of %r: %s vs %s" % (t, p, d[:60], strip(a)[:150], strip(a0)[:150]), cfg))
        # k chained / nested discards in front of a kept form, k around the widths a nesting counter could have:
        # the value is the kept form, no handler runs, no unknown-tag fallback fires
        dl, dmeta = [], []
        for k_ in (1, 2, 40, 127, 128, 255, 256, 257, 511, 512):
            for inner in (b"#inst [1 2]", b"#nope 3", b"#x #y 4"):
                for d_ in (b"#_ " * k_ + inner + b" " + b"0 " * (k_ - 1) + b":kept", b"#_[" * k_ + inner + b"]" * k_ + b" :kept"):
                    for (r_, m_) in ((reg, 0), (reg, 2), ("+", 1), ("+", 2)):
                        dl.append(docline(d_, reg=r_, mode=m_))
                        dmeta.append((k_, inner, r_, m_))
        impl, model = correspond(res, cfg, "san", dl, label="deep-discards")
        for (k_, inner, r_, m_), ln, a in zip(dmeta, dl, impl):
            res.count("deep-discard")
            res.nontrivial.add((cfg, "deep-discard", k_, inner, r_, m_))
            if is_crash(a) or not a.startswith("OK kw:~:6b657074@") or not a.endswith("calls=0"):
                res.violations.append(Violation("trivia-changes-value-or-handler-calls", ln[:3000],
                                                "%d discards around %r (registry %s, mode %d): %s" % (k_, inner, r_[:12], m_, a[:120]), cfg))
        # trivia-only documents
        tl, tmeta = [], []
        for _ in range(200 if thorough else 80):
            t = b"".join(c13_trivia(rnd, pool) for _ in range(rnd.randrange(0, 4)))
            if rnd.random() < 0.3:
                t += b"; comment to EOF"
            for eof in (0, 1):
                r_, m_ = rnd.choice(settings)
                tl.append(docline(t, reg=r_, mode=m_, eof=eof))
                tmeta.append((t, eof))
        impl, model = correspond(res, cfg, "san", tl, label="trivia-only")
        for (t, eof), ln, a in zip(tmeta, tl, impl):
            res.count("trivia-only")
            want_prefix = "EOFVALUE" if eof else "ERR UNEXPECTED_EOF"
            if not a.startswith(want_prefix) or "calls=0" not in a:
                res.violations.append(Violation("trivia-only-not-end-of-input", ln, "%r (eof=%d) -> %s" % (t[:60], eof, a[:100]), cfg))
        res.sample({"cfg": cfg, "doc": lines[0][:140] if lines else ""})


# =============================================================================== C14
def c14_expected(node, reg, mode, discard=False):
    """transform a registry-free dump tree by the configured dispatch: returns (text, calls) or raises Fail"""
    class Fail(Exception):
        pass


@prop("C14")
def check_c14(res):
    rnd = random.Random(res.seed)
    thorough = res.tier == "thorough"
    res.rule = ("(a) all register / re-register / unregister / lookup sequences up to length %d over 4 tag names (incl. a pair "
                "colliding in the 16-bucket table) x 2 handlers, and the same for the external-type table: oracle = last "
                "registered entry or none (Python dict); (b) generated documents with tags from registered / unregistered / "
                "namespaced names at every nesting position x 3 default modes x {registry, none} x inside/outside discards: "
                "model vs implementation, plus oracle derived from the registry-free reading (handler applied once, inner "
                "first, failure -> INVALID_SYNTAX with the handler's message, defaults). non-trivial = distinct sequence / document"
                % (6 if thorough else 4))
    import itertools
    # a colliding pair for the FNV-1a 16-bucket table
    def fnv(b):
        h = 14695981039346656037
        for ch in b:
            h = ((h ^ ch) * 1099511628211) % 2 ** 64
        return h
    names = ["a", "b"]
    want = fnv(b"a") % 16
    k = 0
    while len(names) < 3:
        cand = "t%d" % k
        if fnv(cand.encode()) % 16 == want:
            names.append(cand)
        k += 1
    names.append("ns/x")
    # a second name set: names that extend one another (prefix-related) AND share a bucket, plus the empty-ish edge
    def ext_collide(base):
        k2 = 0
        while True:
            cand = "%s%d" % (base, k2)
            if fnv(cand.encode()) % 16 == fnv(base.encode()) % 16:
                return cand
            k2 += 1
    n1 = ext_collide("vec")
    names2 = ["vec", n1, ext_collide(n1), "ve"]
    L = 6 if thorough else 4
    seqs = []
    for nameset in (names, names2):
        ops = []
        for nme in nameset:
            ops += ["r%s:0" % nme, "r%s:1" % nme, "u%s" % nme, "l%s" % nme]
        for n in range(1, L + 1):
            allseq = itertools.product(ops, repeat=n)
            if n >= 4:
                allseq = [s for s in allseq if rnd.random() < (0.02 if n == 4 and not thorough else 0.002 if n >= 5 else 1)]
            for sq in allseq:
                seqs.append(list(sq) + ["l%s" % nme for nme in nameset])
    # every sequence (no sampling) over TWO names that share a bucket, one level longer: chains with more than one entry
    # are where re-registration and removal can go wrong
    for pair in ((names[0], names[2]), (names2[0], names2[1]), (names2[1], names2[2])):
        pops = []
        for nme in pair:
            pops += ["r%s:0" % nme, "r%s:1" % nme, "u%s" % nme, "l%s" % nme]
        for n in range(1, min(L + 1, 6) + 1):
            if n > min(L, 5) and pair != (names[0], names[2]):
                continue
            for sq in itertools.product(pops, repeat=n):
                seqs.append(list(sq) + ["l%s" % nme for nme in pair])
    lines = ["reg " + ";".join(sq) for sq in seqs]
    for cfg in (CFGS if thorough else ["00", "11"]):
        impl, model = correspond(res, cfg, "san", lines, label="registry-ops", jobs=12)
        for sq, ln, a in zip(seqs, lines, impl):
            res.nontrivial.add(ln)
            res.count("registry-seq")
            d = {}
            want = []
            for op in sq:
                if op[0] == "r":
                    nm, h = op[1:].rsplit(":", 1)
                    d[nm] = int(h)
                    want.append("1")
                elif op[0] == "u":
                    d.pop(op[1:], None)
                    want.append("-")
                else:
                    want.append("h%d" % d[op[1:]] if op[1:] in d else "none")
            if a != ";".join(want):
                res.violations.append(Violation("registry-is-not-a-map", ln, "%s expected %s" % (a, ";".join(want)), cfg))
    # external type table
    eops = []
    # callbacks: 0 / 1 = two (equality, hash) pairs, 2 / 3 = the same equalities WITHOUT a hash callback (allowed:
    # pointer hash), 4 = no equality callback (the registration is refused and must leave the table as it was)
    for i in (5, 21, 4294967295):
        eops += ["r%d:0" % i, "r%d:1" % i, "r%d:2" % i, "r%d:3" % i, "r%d:4" % i, "u%d" % i, "l%d" % i]
    eseqs = []
    for n in range(1, 5):
        for sq in itertools.product(eops, repeat=n):
            if n >= 3 and rnd.random() > (0.05 if n == 3 else 0.003):
                continue
            eseqs.append(list(sq) + ["l5", "l21", "l4294967295"])
    # every ordered pair and triple of registrations of ONE id (each entry replaced by each other one)
    for n in (2, 3):
        for ks_ in itertools.product("01234", repeat=n):
            eseqs.append(["r5:%s" % k_ for k_ in ks_] + ["l5", "l21"])
    elines = ["ext " + ";".join(sq) for sq in eseqs]
    impl, model = correspond(res, "00", "san", elines, label="ext-table-ops", jobs=12)
    for sq, ln, a in zip(eseqs, elines, impl):
        res.count("ext-seq")
        d = {}
        want = []
        for op in sq:
            if op[0] == "r":
                i, kk = op[1:].split(":")
                if kk == "4":
                    want.append("0")
                else:
                    d[i] = int(kk)
                    want.append("1")
            elif op[0] == "u":
                d.pop(op[1:], None)
                want.append("-")
            else:
                want.append({0: "k00", 1: "k11", 2: "k0n", 3: "k1n"}[d[op[1:]]] if op[1:] in d else "none")
        if a != ";".join(want):
            res.violations.append(Violation("external-type-table-is-not-a-map", ln, "%s expected %s" % (a, ";".join(want)), "00"))
    # documents
    for cfg in CFGS:
        check_external_histories(res, cfg, "external-type-table-is-not-a-map", res.tier == "thorough")
        g = Gen(res.seed * 23 + int(cfg, 2), clj=cfg[0] == "1", exp=cfg[1] == "1", tags=("inst", "uuid", "my/tag", "x", "y", "fail", "nomsg"))
        docs = [g.document(4) for _ in range(300 if thorough else 100)]
        docs += [b"#inst #uuid #x 1", b"[#fail 1 #inst 2]", b"#_ #fail 1 #inst 2", b"#inst #_ #fail 1 2", b"#nomsg [#inst 1]",
                 b"{#inst 1 #uuid 2}", b"#{#x 1}", b"#y #y #y 1", b"#my/tag {:a #inst 1}",
                 b"#_ [#_ 1 #fail 2] 3", b"[#_ (#_ a #inst b) #uuid c]", b"#_ #_ 1 #fail 2 #inst 3",
                 b"#_ {#_ #fail 1 :a #fail 2} #x 4", b"#_ #inst #_ #fail 1 #fail 2 5"]
        # a tagged element under k nested discards, k around the widths a nesting counter could have (8 / 9 bits)
        for k_ in (2, 127, 128, 255, 256, 257, 511, 512):
            docs.append(b"#_ " * k_ + b"#fail 1 " + b"0 " * (k_ - 1) + b":end")
            docs.append(b"#_[" * k_ + b"#fail 1 #unknown 2" + b"]" * k_ + b" :end")
        regs = ["-", "+", "inst:0,uuid:1,fail:2,nomsg:3,my/tag:4,x:5"]
        lines, meta = [], []
        for d in docs:
            for reg in regs:
                for mode in (0, 1, 2):
                    lines.append(docline(d, reg=reg, mode=mode))
                    meta.append((d, reg, mode))
        impl, model = correspond(res, cfg, "san", lines, label="tag-dispatch", jobs=12)
        byplain = {}
        for (d, reg, mode), ln, a in zip(meta, lines, impl):
            res.count("dispatch:" + ("noreg" if reg == "-" else "empty" if reg == "+" else "reg") + ":m%d" % mode)
            if is_crash(a):
                res.violations.append(Violation("tag-dispatch-crash", ln, a, cfg))
                continue
            if reg == "-":
                byplain.setdefault(d, a)
                if a != byplain[d]:
                    res.violations.append(Violation("default-mode-matters-without-registry", ln, a[:100], cfg))
                if "calls=0" not in a:
                    res.violations.append(Violation("handler-called-without-registry", ln, a[:100], cfg))
        for (d, reg, mode), ln, a in zip(meta, lines, impl):
            if reg == "-" or d not in byplain or not byplain[d].startswith("OK "):
                continue
            want = refs.dispatch_oracle(refs.split_obs(byplain[d])[1], reg, mode)
            got = refs.strip_for_dispatch(a)
            if want is not None and got != want:
                res.violations.append(Violation("tag-dispatch-differs-from-configuration", ln,
                                                "%r reg=%s mode=%d: %s expected %s" % (d[:60], reg, mode, got[:160], want[:160]), cfg))
        res.sample({"cfg": cfg, "doc": lines[5][:120]})


# =============================================================================== C16
def c16_corpus(cfg):
    clj, exp = cfg[0] == "1", cfg[1] == "1"
    docs = [b"1", b"nil", b'"abc"', b'"a\\nb"', b":a/b", b"sym", b"\\a", b"1.5", b"12345678901234567890", b"1M", b"##Inf",
            b"[]", b"[1]", b"[1 2 3 4 5 6 7 8]", b"[1 2 3 4 5 6 7 8 9]", b"[" + b" ".join(str(i).encode() for i in range(13)) + b"]",
            b"(1 (2 (3)))", b"{:a 1}", b"{:a 1 :b 2 :c 3 :d 4 :e 5 :f 6 :g 7 :h 8 :i 9}", b"#{1 2 3}", b"#inst \"x\"", b"#_ 1 2",
            b"[1 2", b"{:a}", b"[1 2\n3 4\n \\u12]", b"#{1 1}", b"{:a 1 :a 2}",
            b"#{" + b" ".join(str(i).encode() for i in range(20)) + b"}",
            b"#{" + b" ".join(str(i).encode() for i in range(1100)) + b"}",
            b"#{" + b" ".join(("[%d]" % i).encode() for i in range(30)) + b"}",
            b"[" + b" ".join(b'"s%d\\n"' % i for i in range(40)) + b"]",
            b'"' + b"y" * 20000 + b'"', b'[1 "' + b"z" * 17000 + b'" "short" "' + b"w" * 40000 + b'"]',
            b"1." + b"5" * 600, b"[" + b"x" * 20000 + b" 1]", b"1234567890" * 60 + b"e-590", b"0." + b"0" * 600 + b"25e601",
            b"[" + b" ".join(b"%d" % i for i in range(400)) + b"]", b"{" + b" ".join(b":k%d [%d \"v\"]" % (i, i) for i in range(700)) + b"}",
            # duplicates that only the hash-based / sort-based strategies see (rejected in the failure-free run:
            # under a fault the result must stay an error)
            b"#{" + b" ".join(("[%d]" % (i % 19)).encode() for i in range(20)) + b"}",
            b"#{" + b" ".join(("[%d]" % i).encode() for i in range(19)) + b" [0]}",
            b"{" + b" ".join(("(%d) 1" % (i % 25)).encode() for i in range(26)) + b"}",
            b"#{" + b" ".join(str(i % 18).encode() for i in range(19)) + b"}",
            b"#{" + b" ".join(("\"k%d\"" % (i % 1050)).encode() for i in range(1100)) + b"}",
            b"#{" + b" ".join(("#t %d" % (i % 21)).encode() for i in range(22)) + b"}",
            b"#{" + b" ".join(("%d00000000000000000000N" % (i % 17)).encode() for i in range(18)) + b"}"]
    if clj:
        docs += [b"^:a ^:b x", b"[[1] ^:a ^:b x]", b"^\"T\" ^:b [1]", b"^[p] ^:a ^sym {}", b"^sym ^\"S\" x", b"{:k ^:a ^:b [1]}", b"^:a ^:b ^:c ^:d (1)",
                 b"^:a [1]", b"^{:a 1} ^:b ^\"T\" ^[x] (1)", b"#:n{:a 1 :b/c 2 :_/d 3}", b"1/2", b"99999999999999999999/3", b"0x10", b"[^:a]"]
    if exp:
        docs += [b'"""\n  a\n  b\n  """', b'"""\n' + b"".join(b" l%d\n" % i for i in range(20)) + b' """', b'"""\n a \\""" b"""',
                 b'"""\n abc', b"1_000", b"1_0N", b"[1_0.5M]",
                 # big numbers whose digits are cleaned lazily, compared with each other by the duplicate check
                 b"#{1_0N 200N}", b"#{1_0N 2_0N 300N 4_00N}", b"{1_0.5M 1 20.5M 2}",
                 b"#{" + b" ".join(b"%d_0N" % i for i in range(1, 20)) + b"}", b"#{1_0N 10N}"]
    return docs


@prop("C16")
def check_c16(res):
    thorough = res.tier == "thorough"
    res.rule = ("for each document of a corpus covering every reader and collection growth path (0,1,8,9,13 elements, maps, "
                "sets of 20 / 30 composite / 1100 elements, 40 escaped strings, 600-digit float, 20 kB symbol, text blocks, "
                "metadata, namespaced maps, error documents with multi-line positions): count the allocation requests "
                "(libc requests and arena requests, numbered together), then for every index k: {fail only request k, fail "
                "every request from k on}; the dump exercises the lazy string / big-number accessors under the same "
                "schedule. oracle: the call returns; result = the complete value of the failure-free run, or NULL + error "
                "+ message; no sanitizer report (incl. stack-use-after-return), no leak. non-trivial = distinct (document, k, mode)")
    for cfg in CFGS:
        docs = c16_corpus(cfg)
        counts = runner.run_impl(cfg, "fail", ["failcount %s" % hexs(d) for d in docs])
        lines, meta = [], []
        for d, cobs in zip(docs, counts):
            if is_crash(cobs):
                res.violations.append(Violation("crash-without-failure", "failcount %s" % hexs(d), cobs, cfg))
                continue
            n, libc_, ref = parse_failcount(cobs)
            ks = range(n) if thorough else fault_indices(n, libc_)
            for k in ks:
                for mode in ("failat", "failfrom"):
                    lines.append("%s %d %s" % (mode, k, hexs(d)))
                    meta.append((d, k, mode, ref))
        env_lines = lines
        from concurrent.futures import ThreadPoolExecutor
        parts = runner.shard(env_lines, 16)
        impl = []
        os.environ["ASAN_OPTIONS_EXTRA"] = "detect_stack_use_after_return=1"
        with ThreadPoolExecutor(16) as ex:
            for part in ex.map(lambda p: runner.run_impl(cfg, "fail", p), parts):
                impl.extend(part)
        for (d, k, mode, ref), ln, a in zip(meta, lines, impl):
            res.evaluations += 1
            res.nontrivial.add((cfg, d[:40], k, mode))
            res.count(mode)
            if is_crash(a):
                res.violations.append(Violation("crash-or-leak-under-allocation-failure:" + refs.crash_class(a), ln, a[:300], cfg))
            elif a.startswith("OK "):
                if a != ref:
                    res.violations.append(Violation("incomplete-or-different-value-under-allocation-failure", ln,
                                                    "request %d (%s): %s vs failure-free %s" % (k, mode, a[:150], ref[:150]), cfg))
                res.count("completed")
            elif a.startswith("ERR "):
                if a.endswith("nomsg"):
                    res.violations.append(Violation("error-without-message-under-allocation-failure", ln, a, cfg))
                res.count("clean-error")
            else:
                res.violations.append(Violation("neither-value-nor-error-under-allocation-failure", ln, a[:200], cfg))
        res.sample({"cfg": cfg, "case": lines[0][:100] if lines else ""})


# =============================================================================== C15
@prop("C15")
def check_c15(res):
    rnd = random.Random(res.seed)
    thorough = res.tier == "thorough"
    res.rule = ("(a) accepted and rejected documents (every error path: predictable defects, text-block errors, >16-element and "
                ">1000-element collections with duplicates, multi-line inputs, eof value substitution) in the ASan+LSan build: "
                "a leak / double free / use after free at exit is a violation; (b) accessor sequences that trigger lazy "
                "allocation, then re-reading every buffer handed out earlier (pointer and length must not change), registry "
                "destroyed before the value is inspected, edn_free(NULL); (c) arena request sequences over 0,1,7,8,9, block "
                "edges, 2^20, SIZE_MAX-k: aligned, disjoint, writable for the full size, NULL when unrepresentable. "
                "non-trivial = distinct document / script / sequence")
    for cfg in CFGS:
        clj, exp = cfg[0] == "1", cfg[1] == "1"
        g = Gen(res.seed * 29 + int(cfg, 2), clj=clj, exp=exp)
        docs = [d for d, _ in c10_predictable(rnd, cfg, 300 if thorough else 120)]
        docs += [g.document(3) for _ in range(100)] + [g.corrupt(g.document(3)) for _ in range(100)]
        docs += c16_corpus(cfg)
        docs += [b"#{" + b" ".join(str(i % 900).encode() for i in range(1100)) + b"}", b"", b"  ; only a comment", b"\n\n\n]"]
        for n_ in (300, 1000, 2100, 4200):
            big = b"[" + b" ".join(b"1" for _ in range(n_)) + b"]"
            bigs = b"[" + b" ".join(b'"s%d"' % i for i in range(n_ // 4)) + b"]"
            docs += [b"[:a #_" + big + b" :b]", b"#_" + big + b" 1", b"[#_" + big + b" #_" + bigs + b"]", b"{:k #_" + bigs + b" 1}",
                     b"[:a #_" + big + b" " + b" ".join(b"%d" % i for i in range(n_ // 3)) + b"]", b"#_" + big, b"[#_#_" + big + b" " + bigs + b" x]"]
        # tokens whose length sits on / next to every fixed-size buffer and threshold the source declares: a scratch
        # copy taken at one side of a threshold must be released at that same side
        for L in c01_boundary_lengths():
            for fam in c01_long_tokens(L, cfg):
                docs.append(fam)
                docs.append(b"[1 {:k " + fam + b"} \"x\"]")
        lines = []
        for d in docs:
            lines.append(docline(d, reg=rnd.choice(["-", "inst:0,uuid:1,fail:2"]), mode=rnd.randrange(3), eof=rnd.randrange(3)))
            if rnd.random() < 0.3:
                lines.append("docreg %s inst:1,uuid:4,x:5 0 0" % hexs(d))
        # every way of reaching end of input, with no / a static / a library-made end-of-input value
        for d in (b"", b" ", b"\n\n", b"; c", b"; c\n", b",,,", b"#_ x", b"#_[1 2 3]", b"#_" + b"[" + b" ".join(b"7" for _ in range(4000)) + b"]", b"#tag", b"#_ #_ 1 2 ;z"):
            for e_ in (0, 1, 2):
                for reg_ in ("-", "inst:0"):
                    lines.append(docline(d, reg=reg_, mode=0, eof=e_))
        lines.append("freenull")
        impl, model = correspond(res, cfg, "san", lines, label="ownership")
        for ln, a in zip(lines, impl):
            res.nontrivial.add(ln)
            res.count("doc")
            if is_crash(a):
                res.violations.append(Violation("leak-or-invalid-free:" + refs.crash_class(a), ln, a[-300:], cfg))
        # accessor scripts
        scripts = []
        for _ in range(150 if thorough else 50):
            d = b"[" + b" ".join(rnd.choice([g.string(), g.integer(), b"12345678901234567890N", b"1.5M", g.keyword()]) for _ in range(6)) + b"]"
            ops = ["P0=%s" % hexs(d)]
            for _ in range(12):
                ops.append(rnd.choice(["G0.%d", "H0.%d", "D0.%d", "G0.%d"]) % rnd.randrange(6))
            ops += ["G0.%d" % i for i in range(6)] + ["D0"]
            scripts.append("script " + ";".join(ops))
        impl, model = correspond(res, cfg, "san", scripts, label="lazy-buffers")
        for ln, a in zip(scripts, impl):
            res.count("script")
            if is_crash(a) or "!PTRCHANGED" in a or "!LENCHANGED" in a or "!NOTERM" in a:
                res.violations.append(Violation("handed-out-buffer-changed-or-invalid", ln, a[:300], cfg))
    # arena sequences
    sizes = ["0", "1", "7", "8", "9", "15", "16", "17", "88", "16383", "16384", "16385", "65535", "65536", "65537", "262144", "262145",
             "1048576", "M0", "M3", "M6", "M7", "M8", "M15", "M16", "M23", "M24", "M25", "M100", "M16383", "4611686018427387904"]
    seqs = []
    for _ in range(400 if thorough else 150):
        seqs.append(",".join(rnd.choice(sizes) for _ in range(rnd.randrange(1, 14))))
    lines = ["arena " + sq for sq in seqs]
    impl, model = correspond(res, "00", "san", lines, label="arena")
    for ln, a in zip(lines, impl):
        res.count("arena-seq")
        res.nontrivial.add(ln)
        want = ";".join("NULL" if (t[0] == "M" or int(t) > 2 ** 40) else "ok" for t in ln.split(" ")[1].split(","))
        if is_crash(a) or a != want:
            res.violations.append(Violation("arena-request-sequence", ln, "%s expected %s" % (a[:200], want[:200]), "00"))
    res.sample({"arena": lines[0]})


# =============================================================================== C18
@prop("C18")
def check_c18(res):
    thorough = res.tier == "thorough"
    res.rule = ("documents from the core generator (no ^, #:, leading zeros, 0x, NrD, / or _ in numbers, extra escapes or "
                "character names, triple quotes) read under the 4 flag combinations: canonical observations (value with kind "
                "names, ranges, errors) must be identical pairwise; the model is checked on the same documents under each "
                "flag set. non-trivial = distinct document")
    g = Gen(res.seed * 31, core_only=True)
    docs = [g.document(4) for _ in range(3000 if thorough else 1000)]
    docs += [g.corrupt(g.document(3)) for _ in range(0)]
    lines = [docline(d) for d in docs]
    outs = {}
    for cfg in CFGS:
        impl, model = correspond(res, cfg, "san", lines, label="core-docs")
        outs[cfg] = impl
    for i, (d, ln) in enumerate(zip(docs, lines)):
        res.nontrivial.add(d)
        res.count("core-doc")
        base = outs["00"][i]
        if not base.startswith("OK "):
            continue
        for cfg in CFGS[1:]:
            if outs[cfg][i] != base:
                res.violations.append(Violation("core-document-reads-differently-with-flags", ln,
                                                "flags %s: %s vs core %s" % (cfg, outs[cfg][i][:200], base[:200]), cfg))
    # names that extension code paths treat specially, in ordinary core positions: the `_` namespace (opt-out marker of
    # namespaced maps) and its look-alikes as keys of plain maps, set elements, nested keys, colliding pairs
    special = []
    for ns in ("_", "__", "_x", "x_", "n"):
        for col in (":", ""):
            q, u = (col + ns + "/a").encode(), (col + "a").encode()
            special += [b"{" + q + b" 1}", b"{" + q + b" 1 " + u + b" 2}", b"{" + u + b" 2 " + q + b" 1}", b"{" + q + b" {" + q + b" 1 " + u + b" 2}}",
                        b"#{" + q + b" " + u + b"}", b"[" + q + b" " + u + b"]", b"{[" + q + b"] 1 [" + u + b"] 2}", b"{" + q + b" 1 " + q + b" 2}",
                        b"(" + q + b")", q, b"{:k " + q + b"}", b"#t {" + q + b" 1 " + u + b" 2}", b"#_{" + q + b" 1} {" + q + b" 1 " + u + b" 2}"]
    special += [b"{:_ 1 :_/_ 2}", b"{_ 1 _/_ 2 :_ 3}", b"{:a/_ 1 :a 2 :_ 3}"]
    rnd18 = random.Random(res.seed * 5 + 3)
    for n_ in (16, 17, 18, 40, 300, 1000, 1001):
        for fam in ("bignums", "scalars", "wideint"):
            els = c08_elements(rnd18, "00", fam, n_)
            special.append(b"#{" + b" ".join(els) + b"}")
            for _ in range(2):
                dupd = list(els)
                i_, j_ = rnd18.sample(range(n_), 2)
                dupd[j_] = dupd[i_]
                special.append(b"#{" + b" ".join(dupd) + b"}")
                special.append(b"{" + b" ".join(x + b" 0" for x in dupd) + b"}")
        bd = [b"1.5M", b"2.5M", b"1.5M"] + [b"%d" % i for i in range(1, n_ - 2)]
        special.append(b"#{" + b" ".join(bd) + b"}")
        special.append(b"#{" + b" ".join([b"7N", b"12345678901234567890", b"7N"] + [b":k%d" % i for i in range(n_ - 3)]) + b"}")
    nl18 = []
    for lit in ("1e3M", "2.5E-3M", "-4e2M", "0e3M", "1.5M", "-0.5M", "123456789012345678901234567890.5M", "1e400M", "1e-400M", "7M", "12.5e+10M", "3E0M"):
        nl18.append("script P0=%s;N0.0;N0.1;D0.0" % hexs(("[%s -%s]" % (lit, lit.lstrip("-"))).encode()))
    nouts = {}
    for cfg in CFGS:
        impl, model = correspond(res, cfg, "san", nl18, label="bigdec-as-double")
        nouts[cfg] = impl
    for i, ln in enumerate(nl18):
        res.count("bigdec-as-double")
        res.nontrivial.add(("asdouble", ln))
        for cfg in CFGS[1:]:
            if nouts[cfg][i] != nouts["00"][i]:
                res.violations.append(Violation("core-document-reads-differently-with-flags", ln,
                                                "edn_number_as_double, flags %s: %s vs core %s" % (cfg, nouts[cfg][i][:120], nouts["00"][i][:120]), cfg))
    slines = [docline(d) for d in special]
    souts = {}
    for cfg in CFGS:
        impl, model = correspond(res, cfg, "san", slines, label="special-names")
        souts[cfg] = impl
    for i, (d, ln) in enumerate(zip(special, slines)):
        res.nontrivial.add(d)
        res.count("special-name")
        for cfg in CFGS[1:]:
            if souts[cfg][i] != souts["00"][i]:
                res.violations.append(Violation("core-document-reads-differently-with-flags", ln,
                                                "%r flags %s: %s vs core %s" % (d, cfg, souts[cfg][i][:200], souts["00"][i][:200]), cfg))
    # every single-byte character literal, every string with one escape letter
    fam = [b"\\" + bytes([b]) + b" " for b in range(256)] + [b'"\\' + bytes([b]) + b'"' for b in range(256)]
    flines = [docline(d) for d in fam]
    fouts = {}
    for cfg in CFGS:
        impl, model = correspond(res, cfg, "san", flines, label="byte-families")
        fouts[cfg] = impl
    for i, (d, ln) in enumerate(zip(fam, flines)):
        res.nontrivial.add(d)
        res.count("byte-family")
        base = fouts["00"][i]
        if not base.startswith("OK ") or ":NULL@" in base:      # rejected, or escape the core decoder refuses
            continue
        for cfg in CFGS[1:]:
            if fouts[cfg][i] != base:
                kind = "core-document-reads-differently-with-flags"
                if d in (b"\\\x0c ", b"\\\x08 ") and cfg in ("10", "11") and fouts[cfg][i].startswith("ERR INVALID_CHARACTER"):
                    kind = "raw-formfeed-or-backspace-character-literal-rejected-with-clojure-flag"
                res.violations.append(Violation(kind, ln, "%r flags %s: %s vs core %s" % (d, cfg, fouts[cfg][i][:100], base[:100]), cfg))
    # core string literals behave alike under every flag set also ACROSS API call sequences: equality, lookup and
    # membership answers before / after edn_string_get on either operand (core escapes only)
    for cfg in CFGS:
        check_fetch_histories(res, cfg, "core-strings-behave-differently-with-flags-after-a-fetch")
    res.sample({"doc": lines[0][:120]})


# =============================================================================== C19
@prop("C19")
def check_c19(res):
    rnd = random.Random(res.seed)
    thorough = res.tier == "thorough"
    res.rule = ("(a) namespaced maps with mixed key kinds (unqualified / qualified / _-qualified keywords and symbols, other "
                "kinds) x prefixes, compared with their explicit expansion (equality, dump without ranges), incl. keys that "
                "collide after qualification; prefix validation; (b) metadata chains of length 1..6 over the five annotation "
                "forms with overlapping keys on every target kind at every nesting position incl. directly before a closing "
                "delimiter: merged map = expansions merged with outer winning (Python), gate on target/annotation kinds, "
                "value / equality / hash of the target unchanged. non-trivial = distinct document")
    for cfg in ("10", "11"):
        scripts, meta = [], []
        for _ in range(600 if thorough else 200):
            ns = rnd.choice(["n", "my.ns", "a", "_x", "_", "_", "__", "other"])
            entries, expanded = [], []
            used = set()
            for i in range(rnd.randrange(0, 7)):
                kind = rnd.choice(["kw", "kwq", "kw_", "sym", "symq", "sym_", "str", "int", "vec"])
                nm = "k%d" % rnd.randrange(0, 4)
                if kind == "kw":
                    k, x = ":" + nm, ":%s/%s" % (ns, nm)
                elif kind == "kwq":
                    q = rnd.choice(["other", ns])
                    k = x = ":%s/%s" % (q, nm)
                    if q == "_":
                        x = ":" + nm                  # a key qualified with `_` is unqualified, whatever the prefix is
                elif kind == "kw_":
                    k, x = ":_/" + nm, ":" + nm
                elif kind == "sym":
                    k, x = nm, "%s/%s" % (ns, nm)
                elif kind == "symq":
                    q = rnd.choice(["other", ns])
                    k = x = "%s/%s" % (q, nm)
                    if q == "_":
                        x = nm
                elif kind == "sym_":
                    k, x = "_/" + nm, nm
                elif kind == "str":
                    k = x = '"%s"' % nm
                elif kind == "int":
                    k = x = str(rnd.randrange(0, 4))
                else:
                    k = x = "[%s]" % nm
                entries.append("%s %d" % (k, i))
                expanded.append("%s %d" % (x, i))
                used.add(x)
            sp = rnd.choice(["", " ", "\n", ",", "\r", "\r\n", "\t", "\x0b", "\x0c", "\x1c", "\x1d", "\x1e", "\x1f", ";c\n", " ;c\n ", ",,"])
            d1 = ("#:%s%s{%s}" % (ns, sp, " ".join(entries))).encode()
            d2 = ("{%s}" % " ".join(expanded)).encode()
            scripts.append("script P0=%s;P1=%s;E0,1;E1,0;D0;D1;H0;H1" % (hexs(d1), hexs(d2)))
            meta.append((d1, d2))
        impl, model = correspond(res, cfg, "san", scripts, label="nsmap-vs-expansion")
        for (d1, d2), ln, a in zip(meta, scripts, impl):
            res.nontrivial.add(d1)
            res.count("nsmap")
            out = a.split(";")
            if is_crash(a):
                res.violations.append(Violation("nsmap-crash", ln, a, cfg))
            elif out[0] != out[1] and not (out[0].startswith("err") and out[1].startswith("err")):
                res.violations.append(Violation("namespaced-map-accepted-differently-from-expansion", ln,
                                                "%r -> %s but %r -> %s" % (d1, out[0], d2, out[1]), cfg))
            elif out[0] == "ok" and (out[2] != "1" or out[3] != "1" or out[4] != out[5] or out[6] != out[7]):
                res.violations.append(Violation("namespaced-map-differs-from-expansion", ln, "%r vs %r: %s" % (d1, d2, a[:200]), cfg))
        # every trivia byte (and short runs) between the prefix and the map, at top level and nested
        seps_ = [bytes([b]) for b in WS_BYTES] + [b",", b";c\n", b"\r\n", b" \r", b"\r ", b"\x1f\x1f", b"\x1f ", b" \x1f", b",\r,"]
        sscripts, smeta = [], []
        for sp_ in seps_:
            for (t1, t2) in ((b"#:p%s{:a 1 b 2}", b"{:p/a 1 p/b 2}"), (b"[#:p%s{:a 1 :_/b 2}]", b"[{:p/a 1 :b 2}]"), (b"{:k #:p%s{x 1}}", b"{:k {p/x 1}}"),
                             (b"#:p%s{}", b"{}")):
                d1 = t1.replace(b"%s", sp_)
                sscripts.append("script P0=%s;P1=%s;E0,1;E1,0;D0;D1;H0;H1" % (hexs(d1), hexs(t2)))
                smeta.append((d1, t2))
        simpl, smodel = correspond(res, cfg, "san", sscripts, label="nsmap-separators")
        for (d1, d2), ln, a in zip(smeta, sscripts, simpl):
            res.nontrivial.add(d1)
            res.count("nsmap-separator")
            out = a.split(";")
            if is_crash(a):
                res.violations.append(Violation("nsmap-crash", ln, a, cfg))
            elif out[0] != "ok" or out[1] != "ok" or out[2] != "1" or out[3] != "1" or out[4] != out[5] or out[6] != out[7]:
                res.violations.append(Violation("namespaced-map-differs-from-expansion", ln, "%r vs %r: %s" % (d1, d2, a[:200]), cfg))
        bad_prefix = [b"#:{:a 1}", b"#:a/b{:a 1}", b"#:a [1]", b"#:a", b"#: a{}", b"#:a{:b}", b"#:a{:b 1 :b 2}", b"#:a{:b 1 :a/b 2}"]
        lines = [docline(d) for d in bad_prefix]
        impl, model = correspond(res, cfg, "san", lines, label="nsmap-prefix")
        for d, ln, a in zip(bad_prefix, lines, impl):
            if not a.startswith("ERR "):
                res.violations.append(Violation("invalid-namespaced-map-accepted", ln, "%r -> %s" % (d, a[:100]), cfg))
        # metadata
        anns = {"kw": lambda i: (":m%d" % i, [(":m%d" % i, "true")]),
                "map": lambda i: ("{:m%d %d :shared %d}" % (i, i, i), [(":m%d" % i, str(i)), (":shared", str(i))]),
                "str": lambda i: ('"T%d"' % i, [(":tag", '"T%d"' % i)]),
                "sym": lambda i: ("Sym%d" % i, [(":tag", "Sym%d" % i)]),
                "vec": lambda i: ("[p%d]" % i, [(":param-tags", "[p%d]" % i)])}
        targets_ok = ["[1 2]", "(a b)", "{:k 1}", "#{1}", "#inst \"x\"", "sym", "ns/sym"]
        targets_bad = ["1", '"s"', ":kw", "nil", "true", "\\c", "1.5"]
        mlines, mmeta = [], []
        for _ in range(800 if thorough else 250):
            chain = [rnd.choice(list(anns)) for _ in range(rnd.randrange(1, 7))]
            texts, exp_entries = [], []
            for idx, kind in enumerate(chain):
                i = rnd.randrange(0, 3)
                t, ents = anns[kind](i)
                texts.append(t)
                for (k, v) in ents:
                    if k not in [e[0] for e in exp_entries]:
                        exp_entries.append((k, v))        # outer (earlier) wins
            tgt = rnd.choice(targets_ok)
            tsep = lambda: rnd.choice([" ", " ", "\n", ",", "\r", "\r\n", "\t", "\x0b", "\x0c", "\x1c", "\x1d", "\x1e", "\x1f", ";c\n", "  "])
            body = "".join("^" + t + tsep() for t in texts) + tgt
            pos = rnd.choice(["%s", "[0 %s]", "{:x %s}", "(%s)", "[[%s]]"])
            d = (pos % body).encode()
            mlines.append(docline(d))
            mmeta.append(("ok", d, tgt, exp_entries, pos))
        # the gates hold wherever the marker stands: at top level, nested, as a tag operand, and inside a form that
        # is being DISCARDED (a discarded form must still be well-formed)
        ctxs = ["%s", "[1 %s 2]", "{:k %s}", "#t %s", "[1 #_ %s 2]", "#_ [1 %s 2] :after", "#_ %s foo", "[#_ #_ 0 %s 1]"]
        for tgt in targets_bad + ["12345678901234567890N", "1.5M", "##Inf"]:
            for ctx in ctxs:
                mlines.append(docline((ctx % ("^:a " + tgt)).encode()))
                mmeta.append(("badtarget", None, ctx % ("^:a " + tgt), None, None))
        for ann in ["1", "(a)", "#{1}", "nil", "1.5", "\\c"]:
            for ctx in ctxs:
                mlines.append(docline((ctx % ("^" + ann + " [1]")).encode()))
                mmeta.append(("badann", None, ctx % ("^" + ann + " [1]"), None, None))
        for d in [b"[^:a]", b"[^]", b"{:k ^:a}", b"(^{:a 1})", b"^", b"^:a", b"#{^:a}", b"[^:a ^:b]",
                  b"[^:a #_x]", b"{^[T] #_k}", b"#{^\"T\" #_[1 2]}", b"[[1] ^:a ^:b #_ #_ 2 3]", b"[1 2 ^#_:a]", b"[^ #_x]", b"(^:a #_ #_ 1 2)",
                  b"{:k ^:a #_v}", b"[^:a ;c\n#_x\n]", b"#:n{^T #_k}", b"^:a #_x", b"[^{:a 1} #_[^:b x]]"]:
            mlines.append(docline(d))
            mmeta.append(("missing", d, None, None, None))
        # handler results as metadata targets: id returns the operand, w wraps it in a vector, k returns a keyword, x an external value
        hreg = "id:0,w:1,k:5,x:4"
        hl_, hm_ = [], []
        for (tagname, operand, accept) in (("id", "[1]", True), ("id", "5", False), ("id", "sym", True), ("w", "5", True), ("k", "[1]", False),
                                            ("x", "[1 2]", False), ("x", "7", False), ("nope", "[1]", True), ("nope", "5", True)):
            for ann in ("^:a ", "^:a ^{:b 1} ", "^String "):
                for pos in ("%s", "[0 %s]", "{:x %s}"):
                    for mode in (0, 1):
                        if tagname == "nope" and mode == 1:
                            acc = operand in ("[1]",)          # UNWRAP: the target is the operand itself
                        else:
                            acc = accept
                        d = (pos % (ann + "#" + tagname + " " + operand)).encode()
                        hl_.append(docline(d, reg=hreg, mode=mode)); hm_.append((d, acc))
        himpl, hmodel = correspond(res, cfg, "san", hl_, label="metadata-on-handler-results")
        for (d, acc), ln, a in zip(hm_, hl_, himpl):
            res.count("meta:handler-result")
            res.nontrivial.add((cfg, "metahandler", ln[-60:]))
            if is_crash(a):
                res.violations.append(Violation("metadata-crash", ln, a, cfg))
            elif a.startswith("OK ") != acc:
                res.violations.append(Violation("metadata-kind-gate-wrong-on-handler-result", ln,
                                                "%r: %s, expected %s" % (d, a[:100], "accepted" if acc else "rejected"), cfg))
        impl, model = correspond(res, cfg, "san", mlines, label="metadata")
        plain_lines, plain_idx = [], []
        for idx, (mm, ln, a) in enumerate(zip(mmeta, mlines, impl)):
            res.count("meta:" + mm[0])
            if is_crash(a):
                res.violations.append(Violation("metadata-crash", ln, a, cfg))
                continue
            if mm[0] != "ok":
                if not a.startswith("ERR "):
                    res.violations.append(Violation("metadata-%s-accepted" % mm[0], ln, "%s -> %s" % (mm[1] or mm[2], a[:100]), cfg))
                continue
            _, d, tgt, exp_entries, pos = mm
            so = refs.split_obs(a)
            if so[0] != "OK":
                res.violations.append(Violation("metadata-chain-rejected", ln, "%r -> %s" % (d, a[:100]), cfg))
                continue
            root = refs.parse_dump(so[1])
            node = root
            for step in {"%s": [], "[0 %s]": [1], "{:x %s}": [1], "(%s)": [0], "[[%s]]": [0, 0]}[pos]:
                node = node.kids[step]
            if node.meta is None:
                res.violations.append(Violation("metadata-not-attached", ln, "%r" % d, cfg))
                continue
            got = [(dump_of(node.meta.kids[2 * i]), dump_of(node.meta.kids[2 * i + 1])) for i in range(len(node.meta.kids) // 2)]
            want_lines = [docline(("[" + " ".join(k + " " + v for k, v in exp_entries) + "]").encode())]
            wobs = runner.run_impl(cfg, "prod", want_lines)[0]
            wroot = refs.parse_dump(refs.split_obs(wobs)[1])
            want = [(dump_of(wroot.kids[2 * i]), dump_of(wroot.kids[2 * i + 1])) for i in range(len(wroot.kids) // 2)]
            if sorted(got) != sorted(want) or len(set(k for k, _ in got)) != len(got):
                res.violations.append(Violation("metadata-merge-wrong", ln, "%r: attached %s, expected %s" % (d, got, want), cfg))
        # transparency: equality and hash of the target unchanged
        tl = []
        for tgt in targets_ok:
            d1 = ("[^{:a 1} ^:b " + tgt + "]").encode()
            d2 = ("[" + tgt + "]").encode()
            tl.append("script P0=%s;P1=%s;E0.0,1.0;E1.0,0.0;H0.0;H1.0;E0,1" % (hexs(d1), hexs(d2)))
        impl, model = correspond(res, cfg, "san", tl, label="metadata-transparent")
        for ln, a in zip(tl, impl):
            out = a.split(";")
            if is_crash(a) or out[2:4] != ["1", "1"] or out[4] != out[5] or out[6] != "1":
                res.violations.append(Violation("metadata-changes-target-equality-or-hash", ln, a[:200], cfg))
        res.sample({"cfg": cfg, "doc": mlines[0][:100]})


# =============================================================================== C20
def c20_blocks(rnd, n, thorough):
    out = []
    inds = [b"", b" ", b"  ", b"   ", b"    ", b"\t", b" \t", b"        ", b" " * 20]
    for _ in range(n):
        nl = rnd.choice([0, 0, 1, 1, 2, 3, 4, 5] + ([8, 12] if thorough else []))
        lines = []
        for _ in range(nl):
            k = rnd.random()
            ind = rnd.choice(inds)
            if k < 0.15:
                lines.append(b"")                     # empty line
            elif k < 0.3:
                lines.append(ind)                     # blank line with blanks
            else:
                body = bytes(rnd.choice(b"abcxyz \"\\{}:;#" + (b"\xc3\xa9\xe2\x82\xac\xf0\x9f\x98\x80\x80\xff" if rnd.random() < 0.25 else b"")) for _ in range(rnd.choice([1, 2, 5, 10, 14, 15, 16, 17, 20, 33])))
                body = body.lstrip(b" ")
                body = body.replace(b'"""', b'""x').replace(b'\\"""', b"\\x")
                for _ in range(rnd.choice([0, 0, 0, 1, 2, 3])):
                    p = rnd.randrange(0, len(body) + 1)
                    body = body[:p] + b'\\"""' + body[p:]
                if not body:
                    body = b"x"
                lines.append(ind + body + rnd.choice([b"", b"", b" ", b" \t "]))
        if rnd.random() < 0.6:
            closing = rnd.choice(inds)                # closing delimiter on its own line
            text = b"".join(l + b"\n" for l in lines) + closing
        else:
            # inline closing delimiter after the last line's content
            if not lines or not lines[-1].strip(b" \t"):
                lines.append(rnd.choice(inds) + b"end")
            last = lines[-1].rstrip(b" \t")
            if last.endswith((b'"', b"\\")):
                last += b"x"
            text = b"".join(l + b"\n" for l in lines[:-1]) + last
        out.append(text)
    return out


@prop("C20")
def check_c20(res):
    rnd = random.Random(res.seed)
    thorough = res.tier == "thorough"
    res.rule = ("text blocks of 0..5 (thorough: ..12) lines: indentation 0..20 of spaces / tabs per line incl. 0 on the first "
                "line, empty and blank-with-blanks lines, trailing blanks, 0..3 escaped triple quotes per line, closing delimiter "
                "inline or on its own line at every indentation, lines crossing 16-byte blocks; oracle: Python reference of the "
                "documented algorithm: exact bytes, exact length, NUL terminator, source range; equality / hash / duplicate "
                "collision with the ordinary literal of the same content; unterminated blocks rejected. non-trivial = distinct block")
    for cfg in ("01", "11"):
        blocks = c20_blocks(rnd, 1500 if thorough else 500, thorough)
        lines, meta = [], []
        for b in blocks:
            pre = rnd.choice([b"", b" ", b"[1 "])
            post = b"]" if pre.startswith(b"[") else rnd.choice([b"", b" 2"])
            d = pre + b'"""\n' + b + b'"""' + post
            lines.append(docline(d))
            meta.append((b, pre, post, d))
        impl, model = correspond(res, cfg, "san", lines, label="text-blocks")
        scripts, smeta = [], []
        for (b, pre, post, d), ln, a in zip(meta, lines, impl):
            res.nontrivial.add(b)
            res.count("block")
            if is_crash(a):
                res.violations.append(Violation("text-block-crash", ln, a, cfg))
                continue
            ref = refs.textblock_ref(b + b'"""')
            so = refs.split_obs(a)
            if ref is None or ref[1] != len(b) + 3:
                res.count("block-closes-early(skipped)")
                continue
            want, end = ref
            if so[0] != "OK":
                res.violations.append(Violation("text-block-rejected", ln, "%r -> %s" % (b[:80], a[:100]), cfg))
                continue
            root = refs.parse_dump(so[1])
            node = root.kids[1] if pre.startswith(b"[") else root
            parts = node.text.split(":")
            got_get = parts[2] + ":" + parts[3] if len(parts) >= 4 else "?"
            want_get = "%d:%s" % (len(want), hexs(want))
            rs, re_ = len(pre), len(pre) + 4 + end
            if node.kind != "str" or got_get != want_get or (node.s, node.e) != (rs, re_):
                res.violations.append(Violation("text-block-content-length-or-range-wrong", ln,
                                                "block %r: got %s@%d-%d expected %s@%d-%d" % (b[:80], got_get[:100], node.s, node.e, want_get[:100], rs, re_), cfg))
                continue
            # equality with the ordinary literal of the same content (only when it needs no escapes)
            needs_esc = b'"' in want or b"\\" in want
            if len(scripts) < 150 and (not needs_esc or len([1 for x in smeta if x[1]]) < 30):
                lit = b'"' + want.replace(b"\\", b"\\\\").replace(b'"', b'\\"') + b'"'
                scripts.append("script P0=%s;P1=%s;E0,1;E1,0;H0;H1;P2=%s" % (hexs(b'"""\n' + b + b'"""'), hexs(lit),
                                                                             hexs(b"#{" + b'"""\n' + b + b'""" ' + lit + b"}")))
                smeta.append((b, needs_esc))
                if len(scripts) % 5 == 0:
                    # the same pair among 17 other elements, one of them a collection: the hash-table strategy decides
                    pad = b" ".join(b":p%d" % i for i in range(16)) + b" []"
                    scripts.append("script P0=%s;P1=%s;E0,1;E1,0;H0;H1;P2=%s" % (hexs(b'"""\n' + b + b'"""'), hexs(lit),
                                                                                 hexs(b"#{" + pad + b' """\n' + b + b'""" ' + lit + b"}")))
                    smeta.append((b, needs_esc))
        impl, model = correspond(res, cfg, "san", scripts, label="text-block-vs-literal")
        for (b, needs_esc), ln, a in zip(smeta, scripts, impl):
            out = a.split(";")
            res.count("block-vs-literal" + ("-with-escapes" if needs_esc else ""))
            if is_crash(a) or out[2:4] != ["1", "1"] or out[4] != out[5] or not out[6].startswith("err:DUPLICATE"):
                kind = "text-block-not-equal-to-escaped-spelling-of-same-content" if needs_esc and not is_crash(a) \
                    else "text-block-not-equal-to-ordinary-literal"
                res.violations.append(Violation(kind, ln, "%r: %s" % (b[:60], a[:200]), cfg))
        # unterminated
        ul = []
        for b in blocks[:100]:
            ul.append(docline(b'"""\n' + b))
            ul.append(docline(b'"""\n' + b + b'"'))
            ul.append(docline(b'"""\n' + b + b'""'))
        impl, model = correspond(res, cfg, "san", ul, label="unterminated-blocks")
        for ln, a in zip(ul, impl):
            d = bytes.fromhex(ln.split()[1])
            if refs.textblock_ref(d[4:]) is None and not a.startswith("ERR INVALID_STRING"):
                res.violations.append(Violation("unterminated-text-block-accepted", ln, "%r -> %s" % (d[:80], a[:100]), cfg))
        res.sample({"cfg": cfg, "block": lines[0][:120]})


# =============================================================================== C03
C03_ISOLATED = [
    # (known-finding kind, document, value the published grammar gives it)
    ("comment-ended-by-carriage-return-swallows-rest", b"[1 ;c\r2]", "(vec int:1 int:2)"),
    ("comment-ended-by-carriage-return-swallows-rest", b";c\r7", "int:7"),
    ("hash-inside-symbol-keyword-or-tag", b"a#b", "sym:~:612362"),
    ("hash-inside-symbol-keyword-or-tag", b":a#", "kw:~:6123"),
    ("hash-inside-symbol-keyword-or-tag", b"#t# 1", "(tag:7423 int:1)"),
    ("double-colon-inside-identifier", b"a::b", "sym:~:613a3a62"),
    ("double-colon-inside-identifier", b":a::b", "kw:~:613a3a62"),
    ("non-ascii-character-literal-rejected", b"\\\xc3\xa9", "char:233"),
    ("non-ascii-character-literal-rejected", b"\\\xe2\x82\xac", "char:8364"),
]


@prop("C03")
def check_c03(res):
    import ebnf, c03
    rnd = random.Random(res.seed)
    thorough = res.tier == "thorough"
    res.rule = ("(a) value-first: abstract values of the EDN data model (depth <= 4) x 4 surface renderings each (white space kinds, "
                "commas, comments, discards, sign / exponent / escape / \\uXXXX spellings): every rendering must read to the value "
                "computed in Python (types, order and count, set of elements / entries, code points, namespace and name bytes, tags, "
                "symbolic floats), in all 4 configurations, model run on the same documents; (b) grammar-first: random derivation "
                "trees of docs/grammar/edn_grammar.ebnf (parsed from /repo at run time; elements separated by spacing; derivations "
                "whose sets / maps contain equal elements, discard-of-discard, and the spellings under a recorded finding are "
                "filtered from the clean stream) evaluated by an independent evaluator of the derivation tree; the recorded findings "
                "are re-observed on isolated witnesses. non-trivial = distinct document")
    vg = c03.ValueGen(rnd)
    vals = []
    while len(vals) < (600 if thorough else 200):
        v = vg.value(rnd.choice([1, 2, 3, 4]))
        e = vg.expect(v)
        if not c03.has_dups(e):
            vals.append((v, c03.canon(e)))
    docs = []
    for v, want in vals:
        for _ in range(4):
            docs.append((vg.trivia(False) + vg.render(v) + vg.trivia(False), want))
    lines = [docline(d) for d, _ in docs]
    for cfg in CFGS:
        impl, model = correspond(res, cfg, "san", lines, label="value-renderings")
        for (d, want), ln, a in zip(docs, lines, impl):
            res.nontrivial.add(d)
            res.count("rendering")
            so = refs.split_obs(a)
            if is_crash(a):
                res.violations.append(Violation("rendering-crash", ln, a[:200], cfg))
            elif so[0] != "OK":
                res.violations.append(Violation("well-formed-document-rejected", ln, "%r -> %s" % (d[:120], a[:100]), cfg))
            else:
                got = c03.norm_impl(refs.parse_dump(so[1]))
                if got != want:
                    res.violations.append(Violation("document-read-to-a-different-value", ln,
                                                    "%r: read %s, denotes %s" % (d[:120], got[:200], want[:200]), cfg))
    # the same renderings through edn_read_with_options: an (empty) handler registry with the PASSTHROUGH default
    # must not change anything; the UNWRAP default yields the value with every tag wrapper removed; also with the
    # caller's end-of-input value supplied (irrelevant for a document that holds a form)
    def strip_tags(e_):
        if isinstance(e_, str):
            return e_
        h_, vals_ = e_
        if h_.startswith("tag:"):
            return strip_tags(vals_[0])
        return (h_, [strip_tags(x) for x in vals_])
    odocs = []
    for v, want in vals[: (300 if thorough else 120)]:
        e_ = vg.expect(v)
        d_ = vg.trivia(False) + vg.render(v) + vg.trivia(False)
        odocs.append((d_, 0, want))
        st_ = strip_tags(e_)
        if not c03.has_dups(st_):
            odocs.append((d_, 1, c03.canon(st_)))
    olines = [docline(d, reg="+", mode=mo, eof=rnd.randrange(2)) for d, mo, _ in odocs]
    for cfg in CFGS:
        impl, model = correspond(res, cfg, "san", olines, label="value-renderings-with-options")
        for (d, mo, want), ln, a in zip(odocs, olines, impl):
            res.count("rendering-with-options")
            res.nontrivial.add((d, mo))
            so = refs.split_obs(a)
            if is_crash(a):
                res.violations.append(Violation("rendering-crash", ln, a[:200], cfg))
            elif so[0] != "OK":
                res.violations.append(Violation("well-formed-document-rejected", ln, "%r (registry, default mode %d) -> %s" % (d[:120], mo, a[:100]), cfg))
            else:
                got = c03.norm_impl(refs.parse_dump(so[1]))
                if got != want:
                    res.violations.append(Violation("document-read-to-a-different-value", ln,
                                                    "%r (registry, default mode %d): read %s, denotes %s" % (d[:120], mo, got[:200], want[:200]), cfg))
    # (b) the published grammar
    rules = ebnf.load(os.path.join(REPO, "docs", "grammar", "edn_grammar.ebnf"))
    dv = ebnf.Deriver(rules, res.seed)
    gdocs = []
    skipped = {}
    target = 6000 if thorough else 2000
    while len(gdocs) < target:
        pre = dv.derive("Spacing", 3) if dv.r.random() < .3 else None
        t = dv.derive("ReadableEdnElement", dv.r.choice([2, 3, 4, 5, 6, 7]))
        post = dv.derive("Spacing", 3) if dv.r.random() < .3 else None
        fs = set()
        for x in (pre, t, post):
            if x is not None:
                c03.features(x, fs)
        if fs:
            for f in fs:
                skipped[f] = skipped.get(f, 0) + 1
            continue
        disc = []
        v = c03.ev(t, disc)
        if len(v) != 1 or c03.has_dups(v[0]) or any(c03.has_dups(x) for x in disc):
            skipped["equal-elements"] = skipped.get("equal-elements", 0) + 1
            continue
        gdocs.append(((pre.text if pre else b"") + t.text + (post.text if post else b""), c03.canon(v[0])))
    for k, n in skipped.items():
        res.count("derivation-filtered:" + k, n)
    for k, n in dv.stats.items():
        res.count("rule:" + k, n)
    lines = [docline(d) for d, _ in gdocs]
    for cfg in CFGS if thorough else ("00", "11"):
        impl, model = correspond(res, cfg, "san", lines, label="grammar-derivations")
        for (d, want), ln, a in zip(gdocs, lines, impl):
            res.nontrivial.add(d)
            res.count("derivation")
            so = refs.split_obs(a)
            if is_crash(a):
                res.violations.append(Violation("derivation-crash", ln, a[:200], cfg))
            elif so[0] != "OK":
                res.violations.append(Violation("grammar-derivation-rejected", ln, "%r -> %s" % (d[:120], a[:100]), cfg))
            else:
                got = c03.norm_impl(refs.parse_dump(so[1]))
                if got != want:
                    res.violations.append(Violation("grammar-derivation-read-to-a-different-value", ln,
                                                    "%r: read %s, grammar gives %s" % (d[:120], got[:200], want[:200]), cfg))
    # recorded findings, re-observed on isolated witnesses
    ucps = sorted(set([0x21, 0x41, 0x7E, 0x7F, 0x80, 0xFF, 0x100, 0x7FF, 0x800, 0xD7FF, 0xD800, 0xD801, 0xDBFF, 0xDC00, 0xDFFF, 0xE000, 0xFFFD, 0xFFFE, 0xFFFF]
                      + list(range(0x0100, 0x10000, 0x0333))))
    for cfg in CFGS:
        ul_ = []
        for cp in ucps:
            for fmt in ("%04X", "%04x"):
                ul_.append((cp, docline(("[:a \\u" + fmt % cp + " 1]").encode())))
                ul_.append((cp, docline(("\\u" + fmt % cp).encode())))
        uimpl, umodel = correspond(res, cfg, "san", [l for _, l in ul_], label="unicode-character-literals")
        for (cp, ln), a in zip(ul_, uimpl):
            res.count("unicode-char")
            res.nontrivial.add((cfg, "uchar", ln))
            if is_crash(a) or ("char:%d@" % cp) not in a:
                res.violations.append(Violation("well-formed-document-rejected" if a.startswith("ERR") else "document-read-to-a-different-value", ln,
                                                "character literal U+%04X: %s" % (cp, a[:120]), cfg))
    lines = [docline(d) for _, d, _ in C03_ISOLATED]
    impl, model = correspond(res, "00", "san", lines, label="isolated-witnesses")
    for (kind, d, want), ln, a in zip(C03_ISOLATED, lines, impl):
        so = refs.split_obs(a)
        got = c03.norm_impl(refs.parse_dump(so[1])) if so[0] == "OK" else a[:60]
        if got != want:
            res.violations.append(Violation(kind, ln, "%r: grammar gives %s, reader gives %s" % (d, want, got), "00"))
    res.sample({"doc": lines[0][:100]})


# =============================================================================== C17
@prop("C17")
def check_c17(res):
    rnd = random.Random(res.seed)
    thorough = res.tier == "thorough"
    res.rule = ("generated / corrupted / junk documents x {registry, modes}: (a) the observation (tree or error code, message class, "
                "positions) must be identical in the builds gcc -O0, -O1+ASan/UBSan, -O2, -O3, clang -O2 and equal to the model; "
                "(b) in one process, each document is read first, again after N unrelated reads and frees, and once more at the end "
                "of a shuffled stream: all three observations identical; (c) inputs mapped read-only flush against an unmapped page "
                "(a write to the input faults); (d) 2..16 threads reading the same and different documents with one shared "
                "registry under ThreadSanitizer: every dump equals the single-threaded dump, inputs unchanged, no race report. "
                "non-trivial = distinct document")
    for cfg in CFGS:
        g = Gen(res.seed * 17 + int(cfg, 2), clj=cfg[0] == "1", exp=cfg[1] == "1")
        docs = [g.document(4) for _ in range(500 if thorough else 150)]
        docs += [g.corrupt(rnd.choice(docs)) for _ in range(300 if thorough else 100)]
        docs += [g.junk(rnd.randrange(1, 40)) for _ in range(100 if thorough else 30)]
        # sets / maps large enough for the sort- and hash-based duplicate strategies (address-ordered comparator)
        for n in (17, 40, 200, 1001, 1200):
            docs.append(b"#{" + b" ".join(rnd.choice([b"[%d]" % i, b"%d" % i, b"\"s%d\"" % i, b":k%d" % i, b"(%d x)" % i]) for i in range(n)) + b"}")
            docs.append(b"#{" + b" ".join(b"[%d]" % (i % (n - 1)) for i in range(n)) + b"}")
        for nd in (300, 511, 512, 600, 2000):
            lit = b"1." + bytes(rnd.choice(b"0123456789") for _ in range(nd - 2))
            docs += [b"[" + lit + b" 2]", lit + b" :after", b"{:k " + lit + b" :j -" + lit + b"e-3}", b"[" + lit + b"]", lit]
        regs = ["-", "inst:0,uuid:1,x:2", "my/tag:1,x:0"]
        lines = [docline(d, reg=rnd.choice(regs), mode=rnd.randrange(3), eof=rnd.randrange(2)) for d in docs]
        impl, model = correspond(res, cfg, "san", lines, label="docs")
        base = impl
        for d in docs:
            res.nontrivial.add(d)
        res.count("doc", len(docs))
        # (a) builds
        for kind in ("o0", "prod", "o3", "clang"):
            other = runner.run_impl(cfg, kind, lines)
            res.evaluations += len(lines)
            res.count("build:" + kind, len(lines))
            for ln, a, b in zip(lines, base, other):
                if a != b:
                    res.violations.append(Violation("result-differs-between-builds", ln, "san: %s | %s: %s" % (a[:160], kind, b[:160]), cfg))
        # (b) history within one process
        idx = list(range(len(lines)))
        stream = list(idx)
        second = list(idx)
        rnd.shuffle(second)
        stream += second
        third = list(idx)
        rnd.shuffle(third)
        stream += third
        for kind in ("prod", "san"):
            outs = runner.run_impl(cfg, kind, [lines[i] for i in stream])
            res.evaluations += len(stream)
            res.count("history:" + kind, len(stream))
            seen = {}
            for i, o in zip(stream, outs):
                if i in seen and seen[i] != o:
                    res.violations.append(Violation("result-depends-on-earlier-reads", lines[i], "%s | later: %s" % (seen[i][:160], o[:160]), cfg))
                seen.setdefault(i, o)
                if o != base[i] and kind == "prod" and i not in seen:
                    pass
        # (c) read-only pages
        ro = runner.run_impl(cfg, "prod", lines, guard=True)
        res.evaluations += len(lines)
        res.count("read-only-input", len(lines))
        for ln, a, b in zip(lines, base, ro):
            if a != b:
                res.violations.append(Violation("result-differs-or-faults-on-read-only-input", ln, "%s | read-only: %s" % (a[:160], b[:160]), cfg))
        # (c') MemorySanitizer: any dependence of control flow on uninitialised storage (arena bytes, padding) is reported
        ms = runner.run_impl(cfg, "msan", lines)
        res.evaluations += len(lines)
        res.count("msan", len(lines))
        for ln, a, b in zip(lines, base, ms):
            if a != b:
                res.violations.append(Violation("result-depends-on-uninitialised-memory", ln, "%s | MemorySanitizer build: %s" % (a[:160], b[:160]), cfg))
        # (d) threads under the race detector
        tl = []
        small = [d for d in docs if len(d) < 4000]
        # per-thread documents that go through each duplicate-detection strategy and the lazy accessors
        def scalar_set(n, seed_):
            r2 = random.Random(seed_)
            els = ["%d" % (r2.randrange(-10 ** 9, 10 ** 9) * 7 + i) for i in range(n)]
            return ("#{" + " ".join(els) + "}").encode()
        def kw_map(n, seed_):
            return ("{" + " ".join(":k%d-%d \"v\\n%d\"" % (seed_, i, i) for i in range(n)) + "}").encode()
        longf = [b"[" + b"1." + bytes(random.Random(77 + k).choice(b"0123456789") for _ in range(nd)) + b" 2 3]" for k, nd in enumerate([511, 512, 600, 3000])]
        heavy = longf + [scalar_set(n, 100 + j) for j, n in enumerate([17, 40, 300, 600, 1000, 1001, 1500])] + \
                [kw_map(n, j) for j, n in enumerate([17, 200, 999])] + \
                [b"#{" + b" ".join(b"[%d]" % i for i in range(300)) + b"}"]
        for _ in range(40 if thorough else 12):
            n = rnd.choice([2, 3, 4, 8, 16])
            k = rnd.choice([1, 1, 2, 3, n])
            ds = [rnd.choice(small) for _ in range(min(k, 16))]
            ds = [d for d in ds if d] or [b"[1 2 3]"]
            tl.append("threads %d %s %s" % (n, ",".join(hexs(d) for d in ds), rnd.choice(regs)))
        for _ in range(16 if thorough else 6):
            n = rnd.choice([4, 8, 16])
            ds = [rnd.choice(heavy) for _ in range(rnd.choice([2, 3, 4, 8]))]
            tl.append("threads %d %s %s" % (n, ",".join(hexs(d) for d in ds), "-"))
        bigreg = ",".join("t%d:%d" % (i, i % 2) for i in range(64))
        for _ in range(8 if thorough else 4):
            n = rnd.choice([4, 8, 16])
            ds = [b"[" + b" ".join(b"#t%d %d" % (rnd.randrange(64), j) for j in range(40)) + b"]" for _ in range(rnd.choice([1, 2, 4]))]
            tl.append("threads %d %s %s" % (n, ",".join(hexs(d) for d in ds), bigreg))
        outs = runner.run_impl(cfg, "tsan", tl, extra_env={"TSAN_OPTIONS": "exitcode=66:halt_on_error=1:report_signal_unsafe=0"})
        res.evaluations += len(tl)
        res.count("threads", len(tl))
        for ln, o in zip(tl, outs):
            if not o.startswith("SAME |"):
                res.violations.append(Violation("concurrent-readers-disagree-or-race", ln, o[:300], cfg))
        # reads whose elements are external values, between changes of the external-type table: the result of a read is
        # a function of the bytes and the table as it is NOW, not of what earlier reads looked up
        check_external_histories(res, cfg, "result-depends-on-earlier-reads-or-lookups", thorough)
        # (e) the same bytes and length with different memory behind them (a reused buffer, a slice of a larger document)
        check_following_bytes(res, cfg, "result-depends-on-memory-behind-the-input")
        res.sample({"cfg": cfg, "doc": lines[0][:100]})


# =============================================================================== C02
C02_FAMILIES = {
    "list": (b"(", b")"), "vector": (b"[", b"]"), "map-value": (b"{1 ", b"}"), "set": (b"#{", b"}"),
    "tag": (b"#t ", b""), "discard": (b"#_", b""), "mixed": None,
}
C02_FAMILIES_CLJ = {"meta": (b"^", b""), "meta-map": (b"^{:a 1} [", b"]"), "nsmap": (b"#:n{:a ", b"}")}


def c02_nested(fam, depth, cfg, rnd):
    if fam == "mixed":
        openers = [(b"(", b")"), (b"[", b"]"), (b"{1 ", b"}"), (b"#{", b"}"), (b"#t ", b""), (b"#_ 0 ", b"")]
        if cfg[0] == "1":
            openers += [(b"^:m [", b"]"), (b"#:n{:a ", b"}")]
        r2 = random.Random(depth)
        seq = [r2.choice(openers) for _ in range(depth)]
        return b"".join(o for o, _ in seq) + b"1" + b"".join(c for _, c in reversed(seq))
    o, c = {**C02_FAMILIES, **C02_FAMILIES_CLJ}[fam]
    core = b"1" if fam != "meta" else b"[]"
    if fam == "discard":
        return o * depth + b"1 " * depth + b"2"
    if fam == "meta":
        return b"^:a " * depth + b"[]"
    return o * depth + core + c * depth


@prop("C02")
def check_c02(res):
    rnd = random.Random(res.seed)
    thorough = res.tier == "thorough"
    res.rule = ("(a) nesting families {each opener, #tag, #_, ^x, mixed} x depths 1..10^5 (thorough: 10^6), incl. unterminated variants, read on a "
                "thread with a 1 MiB stack and a guard page, CPU limit per batch: the call must return (value or error), never overflow "
                "the stack; (b) time: documents of growing size n (wide collections with the sort / hash duplicate strategies, long tokens, "
                "long comment and blank runs, deep-but-safe nesting): CPU time per read must stay under c*n*log n with a generous c; "
                "(c) ratio operands: all pairs over the int64 boundary set {0, +-1, +-2, 2^31.., 2^62.., 2^63-1, -2^63} as literals and as "
                "direct calls of the gcd, plus sampled interiors: returns, result = Python gcd; (d) all generated and corrupted documents "
                "under the same stack and CPU limits, model run on the same documents (the model's fuel bound 8+4*len must never be hit). "
                "non-trivial = distinct input")
    depths_safe = [1, 2, 10, 50, 99, 100, 101, 200, 500]
    depths_deep = [1000, 3000, 10000, 30000, 100000] + ([300000, 1000000] if thorough else [])
    for cfg in CFGS:
        fams = list(C02_FAMILIES) + (list(C02_FAMILIES_CLJ) if cfg[0] == "1" else [])
        # shallow: implementation and model
        lines, meta = [], []
        for fam in fams:
            for d in depths_safe:
                doc = c02_nested(fam, d, cfg, rnd)
                lines.append(docline(doc)); meta.append((fam, d, "closed"))
                if fam not in ("discard", "tag", "meta"):
                    lines.append(docline(doc[:len(doc) // 2 + 1])); meta.append((fam, d, "unterminated"))
        impl, model = correspond(res, cfg, "san", lines, label="nesting-shallow")
        outs = runner.run_impl(cfg, "prod", lines, extra_args=["--stack1m"])
        for (fam, d, var), ln, a, b in zip(meta, lines, outs, impl):
            res.nontrivial.add(ln)
            res.count("nest:%s" % fam)
            if is_crash(a) or a.startswith("MISSING"):
                res.violations.append(Violation("stack-exhausted-by-nesting", ln, "%s depth %d (%s): %s" % (fam, d, var, a[:120]), cfg))
            elif a != b:
                res.violations.append(Violation("small-stack-read-differs", ln, "%s depth %d: %s vs %s" % (fam, d, a[:100], b[:100]), cfg))
            elif var == "closed" and not a.startswith("OK "):
                res.violations.append(Violation("nested-document-rejected", ln, "%s depth %d: %s" % (fam, d, a[:100]), cfg))
        # deep: implementation only, 1 MiB stack
        for fam in fams:
            for d in depths_deep:
                doc = c02_nested(fam, d, cfg, rnd)
                for var, dd in (("closed", doc), ("unterminated", doc[:len(doc) // 2 + 1])):
                    if var == "unterminated" and fam in ("discard", "tag", "meta"):
                        continue
                    ln = docline(dd)
                    a = runner.run_impl(cfg, "prod", [ln], extra_args=["--stack1m"], timeout=300)[0]
                    res.evaluations += 1
                    res.nontrivial.add(ln)
                    res.count("deep:%s" % fam)
                    if is_crash(a) or a.startswith("MISSING"):
                        res.violations.append(Violation("stack-exhausted-by-nesting", "doc <%s depth %d %s>" % (fam, d, var),
                                                        "%s depth %d (%s), 1 MiB stack: %s" % (fam, d, var, a[:120]), cfg))
                        break        # deeper ones of the same family fail alike
                else:
                    continue
                break
        # single tokens far longer than the stack: stack use must not scale with token length
        big = 3 << 20 if thorough else (1 << 20) + (1 << 18)
        toks = {"float": b"1." + b"0" * big, "float-exp": b"1" * big + b"e5", "integer": b"7" * big, "symbol": b"s" * big,
                "keyword": b":" + b"k" * big, "string": b'"' + b"x" * big + b'"', "string-escapes": b'"' + b"\\n" * (big // 2) + b'"',
                "comment": b";" + b"c" * big + b"\n1", "blanks": b" " * big + b"1", "tag": b"#" + b"t" * big + b" 1",
                "bigdec": b"1." + b"3" * big + b"M"}
        for name, tk in toks.items():
            a = runner.run_impl(cfg, "prod", [docline(tk)], extra_args=["--stack1m"], timeout=300)[0]
            res.evaluations += 1
            res.count("megabyte-token")
            res.nontrivial.add((cfg, "bigtoken", name))
            if is_crash(a) or a.startswith("MISSING"):
                res.violations.append(Violation("stack-or-time-exhausted-by-long-token", "doc <%s token of %d bytes>" % (name, len(tk)),
                                                "%s token of %d bytes on a 1 MiB stack: %s" % (name, len(tk), a[:120]), cfg))
        # (b) time growth
        import time as _t
        shapes = {
            "wide-set-ints": lambda n: b"#{" + b" ".join(b"%d" % i for i in range(n)) + b"}",
            "wide-set-vectors": lambda n: b"#{" + b" ".join(b"[%d]" % i for i in range(n)) + b"}",
            "wide-map-strings": lambda n: b"{" + b" ".join(b"\"k%d\" %d" % (i, i) for i in range(n)) + b"}",
            "wide-vector": lambda n: b"[" + b" ".join(b"%d" % i for i in range(n)) + b"]",
            "long-string": lambda n: b'"' + b"a\\n" * n + b'"',
            "long-symbol": lambda n: b"a" * (4 * n),
            "long-integer": lambda n: b"1" * (2 * n),
            "long-float": lambda n: b"1." + b"5" * (2 * n),
            "blank-run": lambda n: b" ," * (2 * n) + b"1",
            "comment-lines": lambda n: b";c\n" * n + b"1",
            "many-newlines-then-error": lambda n: b"\n" * (3 * n) + b")",
            "nested-sets": lambda n: b"#{" * 60 + b" ".join(b"%d" % i for i in range(n)) + b"}" * 60,
            # operands that agree in their low / high bits, long shared prefixes: adversarial for hash tables and sorting
            "wide-set-ints-stride-2^20": lambda n: b"#{" + b" ".join(b"%d" % (i << 20) for i in range(n)) + b"}",
            "wide-set-ints-stride-2^32": lambda n: b"#{" + b" ".join(b"%d" % (i << 32) for i in range(n)) + b"}",
            "wide-set-negative-ints": lambda n: b"#{" + b" ".join(b"%d" % (-(i << 12) - 1) for i in range(n)) + b"}",
            "wide-set-floats-same-mantissa": lambda n: b"#{" + b" ".join(b"1.5e%d" % (i % 600 - 300) + b"%d" % (i // 600) for i in range(n)) + b"}",
            "wide-set-keywords-shared-prefix": lambda n: b"#{" + b" ".join(b":shared-prefix-shared-prefix/%d" % i for i in range(n)) + b"}",
            "wide-map-strings-shared-suffix": lambda n: b"{" + b" ".join(b"\"%d-shared-suffix-shared\" 1" % i for i in range(n)) + b"}",
            "wide-set-chars-and-mixed": lambda n: b"#{" + b" ".join((b"\\u%04x" % (i % 60000)) if i < 60000 else b"%d" % i for i in range(n)) + b"}",
        }
        sizes = [4000, 16000, 64000] + ([128000] if thorough else [])
        for name, mkdoc in shapes.items():
            times = []
            for n in sizes:
                ln = docline(mkdoc(n))
                import resource as _rs
                r0 = _rs.getrusage(_rs.RUSAGE_CHILDREN)
                a = runner.run_impl(cfg, "prod", [ln], timeout=120)[0]
                r1 = _rs.getrusage(_rs.RUSAGE_CHILDREN)
                dt = (r1.ru_utime + r1.ru_stime) - (r0.ru_utime + r0.ru_stime)     # CPU time of the harness process
                res.evaluations += 1
                res.count("time:%s" % name)
                times.append((n, len(ln) // 2, dt))
                if is_crash(a) or a.startswith("MISSING"):
                    res.violations.append(Violation("read-does-not-return-in-time", "doc <%s n=%d>" % (name, n), "%s n=%d: %s" % (name, n, a[:100]), cfg))
            # growth between the two largest sizes must be sub-quadratic: t(4n) <= 8*t(n) + slack
            (n1, l1, t1), (n2, l2, t2) = times[-2], times[-1]
            if t2 > 7.0 * max(t1, 0.03) + 0.1:
                res.violations.append(Violation("read-time-grows-quadratically", "doc <%s>" % name,
                                                "%s: %.2fs at n=%d, %.2fs at n=%d" % (name, t1, n1, t2, n2), cfg))
            res.sample({"cfg": cfg, "shape": name, "times": [(n, round(t, 3)) for n, _, t in times]})
        # (c) ratio operands
        if cfg[0] == "1":
            B = sorted(set([0, 1, 2, 3, 2 ** 31 - 1, 2 ** 31, 2 ** 32, 2 ** 62, 2 ** 63 - 2, 2 ** 63 - 1] +
                           [-x for x in [1, 2, 3, 2 ** 31, 2 ** 32, 2 ** 62, 2 ** 63 - 1, 2 ** 63]]))
            import math
            gl, gm = [], []
            for a in B:
                for b in B:
                    if b > 0:
                        gl.append("gcd %d %d" % (a, b)); gm.append((a, b))
            for _ in range(300 if thorough else 100):
                a = rnd.randrange(-2 ** 63, 2 ** 63); b = rnd.randrange(1, 2 ** 63)
                gl.append("gcd %d %d" % (a, b)); gm.append((a, b))
            # (a call that does not return within the CPU limit ends its batch: at most 2 such calls per shard are waited for)
            from concurrent.futures import ThreadPoolExecutor as _TPE
            gparts = [gl[i::8] for i in range(8)]
            with _TPE(8) as ex_:
                gres = list(ex_.map(lambda p_: runner.run_impl(cfg, "san", p_, timeout=30, max_crashes=2), gparts))
            impl = [None] * len(gl)
            for k_ in range(8):
                for j_, o_ in enumerate(gres[k_]):
                    impl[k_ + j_ * 8] = o_
            gmodel = runner.run_model(cfg, gl)
            res.evaluations += len(gl); res.traces += len(gl)
            for (a, b), ln, o, mo in zip(gm, gl, impl, gmodel):
                res.count("gcd")
                res.nontrivial.add(ln)
                if o == "SKIPPED-AFTER-CRASH":
                    continue
                if o != mo and not is_crash(o):
                    res.corr_breaks.append({"cfg": cfg, "build": "san", "case": ln, "impl": o[:200], "model": mo[:200], "suite": "gcd"})
                if is_crash(o) or o.strip() != str(math.gcd(a, b)):
                    res.violations.append(Violation("gcd-wrong-or-does-not-return", ln, "gcd(%d,%d) -> %s, expected %d" % (a, b, o[:60], math.gcd(a, b)), cfg))
            rl = []
            for a in B:
                for b in B:
                    if b > 0:
                        rl.append(docline(b"%d/%d" % (a, b)))
            rparts = [rl[i::8] for i in range(8)]
            with _TPE(8) as ex_:
                rres = list(ex_.map(lambda p_: runner.run_impl(cfg, "san", p_, timeout=30, max_crashes=2), rparts))
            impl = [None] * len(rl)
            for k_ in range(8):
                for j_, o_ in enumerate(rres[k_]):
                    impl[k_ + j_ * 8] = o_
            rmodel = runner.run_model(cfg, rl)
            res.evaluations += len(rl); res.traces += len(rl)
            for ln, o, mo in zip(rl, impl, rmodel):
                res.count("ratio-literal")
                res.nontrivial.add(ln)
                if o == "SKIPPED-AFTER-CRASH":
                    continue
                if o != mo and not is_crash(o):
                    res.corr_breaks.append({"cfg": cfg, "build": "san", "case": ln, "impl": o[:200], "model": mo[:200], "suite": "ratio-literals"})
                if is_crash(o):
                    res.violations.append(Violation("ratio-literal-crash-or-hang", ln, o[:120], cfg))
        # (e) reads with a handler registry that has a HISTORY (every tag registered, some or all registered again, some
        # removed and added back): whatever the registry went through, a read must return, for registered and for
        # unregistered tags in every bucket, under each default-reader mode
        tags_ = ["t%d" % i for i in range(48)]
        hist = {"twice": tags_ + tags_, "older-again": tags_ + tags_[:24], "newer-again": tags_ + tags_[24:],
                "reversed-again": tags_ + tags_[::-1], "thrice-interleaved": [t for t in tags_ for _ in range(3)] + tags_[::3]}
        probes = ["inst", "uuid", "my/tag", "x", "unknown"] + ["u%d" % i for i in range(40)] + tags_[::5]
        pdocs = [b"#" + t.encode() + b" 1" for t in probes] + [b"[" + b" ".join(b"#" + t.encode() + b" " + b"%d" % i for i, t in enumerate(probes)) + b"]"]
        stop = False
        for hname, seq in hist.items():
            spec = ",".join("%s:%d" % (t, (i * 7) % 4) for i, t in enumerate(seq))
            for mode in (0, 1, 2):
                rl_ = [docline(d, reg=spec, mode=mode) for d in pdocs]
                ri_ = runner.run_impl(cfg, "san", rl_, timeout=40, max_crashes=1)
                rm_ = runner.run_model(cfg, rl_)
                res.evaluations += len(rl_)
                for ln, a, mo in zip(rl_, ri_, rm_):
                    res.count("registry-history-read")
                    res.nontrivial.add((cfg, "reghist", hname, mode, ln[4:40]))
                    if is_crash(a) or a.startswith("MISSING"):
                        res.violations.append(Violation("read-with-registry-history-does-not-return", ln, "registry history %s, mode %d: %s (model: %s)" % (hname, mode, a[:100], mo[:60]), cfg))
                        stop = True
                        break
                    res.traces += 1
                    if a != mo:
                        res.corr_breaks.append({"cfg": cfg, "build": "san", "case": ln[:2000], "impl": a[:1500], "model": mo[:1500],
                                                "suite": "registry-history-reads"})
                if stop:
                    break
            if stop:
                break
        # (c') the duplicate check compares elements with the depth-capped structural equality: two elements that are long
        # chains of one-element collections differing only at the innermost position make it walk both chains once -- the
        # read must come back in time linear in the depth (a comparison that retries a failed pair doubles per level)
        cl_, cm_ = [], []
        for (o_, c_) in ((b"#{", b"}"), (b"[", b"]"), (b"{:k ", b"}"), (b"(", b")"), (b"#{[", b"]}")):
            for d in (4, 12, 20, 28, 40, 60, 90):
                a1 = o_ * d + b"1" + c_ * d
                a2 = o_ * d + b"2" + c_ * d
                for doc in (b"#{" + a1 + b" " + a2 + b"}", b"{" + a1 + b" 1 " + a2 + b" 2}", b"#{" + a1 + b" " + a2 + b" " + o_ * d + b"3" + c_ * d + b"}"):
                    cl_.append(docline(doc)); cm_.append((o_, d))
        for part_start in range(0, len(cl_), 15):
            part = cl_[part_start:part_start + 15]
            outs_ = runner.run_impl(cfg, "prod", part, timeout=60, per_case_cpu=10, max_crashes=1)
            for (o_, d), ln, a in zip(cm_[part_start:part_start + 15], part, outs_):
                res.count("chain-elements")
                res.nontrivial.add((cfg, "chains", o_, d, ln[-20:]))
                res.evaluations += 1
                if is_crash(a) or a.startswith("MISSING"):
                    res.violations.append(Violation("read-does-not-return-in-time", ln[:3000],
                                                    "two chains of %r nested %d deep, differing innermost, as elements / keys: %s" % (o_, d, a[:100]), cfg))
            if any(is_crash(a) or a.startswith("MISSING") for a in outs_):
                break
        # (d) generated documents under the limits
        g = Gen(res.seed * 13 + int(cfg, 2), clj=cfg[0] == "1", exp=cfg[1] == "1")
        docs = [g.document(5) for _ in range(400 if thorough else 150)]
        docs += [g.corrupt(rnd.choice(docs)) for _ in range(300 if thorough else 100)]
        # malformed multi-line documents (defect at the end of a middle line): they must come back; run apart from the rest,
        # with a small CPU budget and giving up after two hangs, so that a looping implementation cannot stall the check
        ml_ = [docline(d) for d in multiline_error_docs()]
        mo_ = runner.run_impl(cfg, "prod", ml_, timeout=60, per_case_cpu=5, max_crashes=2)
        for ln, a in zip(ml_, mo_):
            res.count("multiline-error-doc")
            res.evaluations += 1
            if is_crash(a) or a.startswith("MISSING"):
                res.violations.append(Violation("read-does-not-return-or-crashes", ln[:3000], "multi-line malformed document: %s" % a[:120], cfg))
                break
        for v in range(256):
            docs.append(b"[1 2 " + bytes([v]) + b" 3]")
            docs.append(b"[1 2 " + bytes([v]) + b" 3 4 5 6 7 8 9 10 11 12 13 14 15]")
            docs.append(b"{:a " + bytes([v]) + bytes([v]) + b" :bbbbbbbbbbbbbbbbbbbbbbbbbb 1}")
        lines = [docline(d) for d in docs]
        impl, model = correspond(res, cfg, "san", lines, label="docs")
        outs = runner.run_impl(cfg, "prod", lines, extra_args=["--stack1m"])
        for ln, a, b, mo in zip(lines, outs, impl, model):
            res.nontrivial.add(ln)
            res.count("doc")
            if is_crash(b) or b.startswith("MISSING"):
                res.violations.append(Violation("read-does-not-return-or-crashes", ln, "sanitized build: %s (model: %s)" % (b[:120], mo[:80]), cfg))
            elif is_crash(a) or a != b:
                res.violations.append(Violation("small-stack-read-differs", ln, "%s vs %s" % (a[:100], b[:100]), cfg))
            if "FUEL" in mo or "OutOfFuel" in mo:
                res.violations.append(Violation("model-fuel-bound-hit", ln, mo[:100], cfg))
