#!/usr/bin/env python3
"""build.py -- (re)build everything a check needs, from /repo's current working tree:
   Gen (c2v), the Coq development (make -k), the extracted OCaml driver, the C harnesses.
   Each step is skipped when its inputs did not change (content hashes), and the whole
   thing runs under a file lock so concurrent checks do not trample each other."""
import fcntl, hashlib, json, os, shutil, subprocess, sys, time

ROOT = os.path.dirname(os.path.dirname(os.path.abspath(__file__)))
REPO = os.environ.get("VERIF_REPO", "/repo")
BUILD = os.path.join(ROOT, "_build")
COQ = os.path.join(ROOT, "coq")
SRC_FILES = ["arena", "character", "collection", "discard", "edn", "equality", "identifier", "metadata",
             "newline_finder", "number", "reader", "simd", "string", "symbolic", "tagged", "uniqueness"]
CFG_FLAGS = {"00": [], "10": ["-DEDN_ENABLE_CLOJURE_EXTENSION"],
             "01": ["-DEDN_ENABLE_EXPERIMENTAL_EXTENSION"],
             "11": ["-DEDN_ENABLE_CLOJURE_EXTENSION", "-DEDN_ENABLE_EXPERIMENTAL_EXTENSION"]}
KINDS = {
    "san": ["gcc", "-O1", "-g", "-fsanitize=address,undefined", "-fno-sanitize-recover=all"],
    "prod": ["gcc", "-O2", "-DNDEBUG"],
    "o0": ["gcc", "-O0"],
    "o3": ["gcc", "-O3", "-DNDEBUG"],
    "clang": ["clang", "-O2", "-DNDEBUG"],
    "fail": ["gcc", "-O1", "-g", "-fsanitize=address,undefined", "-fno-sanitize-recover=all", "-DVERIF_FAILINJECT", "-DEDN_C_VERIF"],
    "tsan": ["gcc", "-O1", "-g", "-fsanitize=thread"],
    "msan": ["clang", "-O1", "-g", "-fsanitize=memory", "-fno-omit-frame-pointer"],
}


def sh(cmd, cwd=None, timeout=3600):
    p = subprocess.run(cmd, cwd=cwd, stdout=subprocess.PIPE, stderr=subprocess.STDOUT, timeout=timeout)
    return p.returncode, p.stdout.decode(errors="replace")


def hash_paths(paths):
    h = hashlib.sha256()
    for p in sorted(paths):
        if os.path.isfile(p):
            h.update(p.encode())
            h.update(open(p, "rb").read())
    return h.hexdigest()


def repo_hash():
    ps = []
    for d in ("src", "include"):
        for f in os.listdir(os.path.join(REPO, d)):
            ps.append(os.path.join(REPO, d, f))
    return hash_paths(ps)


def stamp_ok(name, value):
    p = os.path.join(BUILD, "stamps", name)
    return os.path.exists(p) and open(p).read() == value


def stamp_set(name, value):
    os.makedirs(os.path.join(BUILD, "stamps"), exist_ok=True)
    open(os.path.join(BUILD, "stamps", name), "w").write(value)


def stamp_clear(name):
    p = os.path.join(BUILD, "stamps", name)
    if os.path.exists(p):
        os.remove(p)


def coq_sources():
    out = []
    for d, _, fs in os.walk(COQ):
        for f in fs:
            if f.endswith(".v") or f == "_CoqProject":
                out.append(os.path.join(d, f))
    return out


def step_gen(log):
    rc, out = sh([sys.executable, os.path.join(ROOT, "tools", "c2v.py")])
    log["c2v"] = out.strip()
    return rc == 0


def step_coq(log, targets=None):
    """make -k: build what can be built; returns dict file->built?"""
    if not os.path.exists(os.path.join(COQ, "Makefile")) or \
            os.path.getmtime(os.path.join(COQ, "Makefile")) < os.path.getmtime(os.path.join(COQ, "_CoqProject")):
        sh(["coq_makefile", "-f", "_CoqProject", "-o", "Makefile"], cwd=COQ)
    t0 = time.time()
    rc, out = sh(["timeout", "3000", "make", "-k", "-j16"] + (targets or []), cwd=COQ)
    log["coq_make_s"] = round(time.time() - t0, 1)
    log["coq_make_rc"] = rc
    log["coq_make_tail"] = out[-3000:]
    return rc == 0


def step_extract(log):
    """re-extract + rebuild the driver when the model or Gen changed"""
    ins = [p for p in coq_sources() if "/Proofs/" not in p and "/Props/" not in p] + \
          [os.path.join(ROOT, "extract", "driver.ml")]
    h = hash_paths(ins)
    odir = os.path.join(BUILD, "ocaml")
    if stamp_ok("extract", h) and os.path.exists(os.path.join(odir, "driver")):
        log["extract"] = "up to date"
        return True
    os.makedirs(odir, exist_ok=True)
    wdir = os.path.join(BUILD, "extract_tmp")
    shutil.rmtree(wdir, ignore_errors=True)
    os.makedirs(wdir)
    rc, out = sh(["timeout", "600", "coqc", "-Q", COQ, "Verif", os.path.join(COQ, "Extract.v")], cwd=wdir)
    if rc != 0:
        log["extract"] = "extraction failed: " + out[-1500:]
        stamp_clear("extract")
        return False
    for f in ("model.ml", "model.mli"):
        shutil.copy(os.path.join(wdir, f), os.path.join(odir, f))
    shutil.copy(os.path.join(ROOT, "extract", "driver.ml"), os.path.join(odir, "driver.ml"))
    rc, out = sh(["ocamlfind", "ocamlopt", "-w", "-a", "model.mli", "model.ml", "driver.ml", "-o", "driver.new"], cwd=odir)
    if rc != 0:
        log["extract"] = "driver build failed: " + out[-1500:]
        stamp_clear("extract")
        return False
    os.replace(os.path.join(odir, "driver.new"), os.path.join(odir, "driver"))
    stamp_set("extract", h)
    log["extract"] = "rebuilt"
    return True


def harness_path(cfg, kind):
    return os.path.join(BUILD, "harness", "h%s_%s" % (cfg, kind))


def step_harness(log, kinds=("san", "prod")):
    hdir = os.path.join(BUILD, "harness")
    os.makedirs(hdir, exist_ok=True)
    unity = os.path.join(hdir, "unity.c")
    open(unity, "w").write("".join('#include "%s/src/%s.c"\n' % (REPO, f) for f in SRC_FILES))
    h = repo_hash() + hash_paths([os.path.join(ROOT, "harness", f) for f in os.listdir(os.path.join(ROOT, "harness"))])
    procs = []
    ok = True
    for kind in kinds:
        for cfg, flags in CFG_FLAGS.items():
            name = "h%s_%s" % (cfg, kind)
            if stamp_ok(name, h) and os.path.exists(harness_path(cfg, kind)):
                continue
            cmd = KINDS[kind] + ["-std=c11", "-msse4.2", "-w", "-I%s/include" % REPO, "-I%s/src" % REPO,
                                 "-I%s/harness" % ROOT, '-DVERIF_UNITY="%s"' % unity] + flags + \
                  [os.path.join(ROOT, "harness", "h_main.c"), "-o", harness_path(cfg, kind) + ".new", "-lm", "-lpthread"]
            procs.append((name, cfg, kind, subprocess.Popen(cmd, stdout=subprocess.PIPE, stderr=subprocess.STDOUT)))
    results = []
    for name, cfg, kind, p in procs:
        out = p.communicate()[0].decode(errors="replace")
        if p.returncode != 0:
            # a changed signature of a static leaf function must not take the whole harness down: once more without the
            # direct leaf calls (they then answer NOLEAF and show up as disagreements of the leaf suites only)
            cmd2 = list(p.args)
            cmd2.insert(1, "-DH_NO_LEAF")
            p2 = subprocess.run(cmd2, stdout=subprocess.PIPE, stderr=subprocess.STDOUT)
            if p2.returncode == 0:
                log.setdefault("harness_leaf_disabled", {})[name] = out[-600:]
                results.append((name, cfg, kind, 0, out))
                continue
        results.append((name, cfg, kind, p.returncode, out))
    for name, cfg, kind, rc_, out in results:
        if rc_ != 0:
            ok = False
            log.setdefault("harness_errors", {})[name] = out[-1500:]
            stamp_clear(name)
        else:
            os.replace(harness_path(cfg, kind) + ".new", harness_path(cfg, kind))
            stamp_set(name, h)
    log["harness"] = "built %d" % len(procs)
    return ok


def prepare(kinds=("san", "prod"), coq_targets=None):
    os.makedirs(BUILD, exist_ok=True)
    log = {}
    with open(os.path.join(BUILD, "lock"), "w") as lk:
        fcntl.flock(lk, fcntl.LOCK_EX)
        log["gen_ok"] = step_gen(log)
        log["coq_ok"] = step_coq(log, coq_targets)
        log["extract_ok"] = step_extract(log)
        log["harness_ok"] = step_harness(log, kinds)
    return log


if __name__ == "__main__":
    kinds = ("san", "prod", "o0", "o3", "clang") if "--all-kinds" in sys.argv else ("san", "prod")
    lg = prepare(kinds)
    print(json.dumps({k: v for k, v in lg.items() if k != "coq_make_tail"}, indent=1))
    if not all(lg.get(k) for k in ("gen_ok", "coq_ok", "extract_ok", "harness_ok")):
        print(lg.get("coq_make_tail", "")[-2000:])
        sys.exit(1)
