#!/usr/bin/env python3
"""ebnf.py -- executes the grammar the project publishes (docs/grammar/*.ebnf, ISO-EBNF subset):
parser of the .ebnf file, random derivation generator (derivation trees, so that the value a
document denotes can be computed from the tree), and a recogniser used for the `-` exceptions.
Everything here reads the grammar file from /repo at run time."""
import random, re


# ------------------------------------------------------------------ grammar AST
# ("t", bytes) | ("ref", name) | ("sp", text) | ("seq", [..]) | ("alt", [..]) | ("rep", x, atleast1)
# | ("opt", x) | ("exc", x, y)
def tokenize(src):
    src = re.sub(r"\(\*.*?\*\)", " ", src, flags=re.S)
    toks = []
    i, n = 0, len(src)
    while i < n:
        c = src[i]
        if c.isspace():
            i += 1
        elif c in "\"'":
            j = src.index(c, i + 1)
            toks.append(("t", src[i + 1:j]))
            i = j + 1
        elif c == "?":
            j = src.index("?", i + 1)
            toks.append(("sp", src[i + 1:j].strip()))
            i = j + 1
        elif c.isalpha():
            j = i
            while j < n and (src[j].isalnum() or src[j] == "_"):
                j += 1
            toks.append(("id", src[i:j]))
            i = j
        elif src.startswith("}-", i):
            toks.append(("p", "}-"))
            i += 2
        else:
            toks.append(("p", c))
            i += 1
    return toks


def unesc_terminal(s):
    # the grammar writes "\t" "\n" "\r" inside quoted terminals for the control characters
    s = s.replace("\\t", "\t").replace("\\n", "\n").replace("\\r", "\r").replace("\\f", "\f")
    s = re.sub(r"\\u([0-9A-Fa-f]{4})", lambda m: chr(int(m.group(1), 16)), s)
    return s.encode()


class Parser:
    def __init__(self, toks):
        self.t, self.i = toks, 0

    def peek(self):
        return self.t[self.i] if self.i < len(self.t) else ("eof", "")

    def eat(self, kind, val=None):
        k, v = self.peek()
        assert k == kind and (val is None or v == val), "expected %s %s at %d, got %s %s" % (kind, val, self.i, k, v)
        self.i += 1
        return v

    def grammar(self):
        rules = {}
        order = []
        while self.peek()[0] != "eof":
            name = self.eat("id")
            self.eat("p", "=")
            rules[name] = self.alt()
            order.append(name)
            self.eat("p", ";")
        return rules, order

    def alt(self):
        xs = [self.seq()]
        while self.peek() == ("p", "|"):
            self.i += 1
            xs.append(self.seq())
        return xs[0] if len(xs) == 1 else ("alt", xs)

    def seq(self):
        xs = [self.term()]
        while self.peek() == ("p", ","):
            self.i += 1
            xs.append(self.term())
        return xs[0] if len(xs) == 1 else ("seq", xs)

    def term(self):
        x = self.factor()
        if self.peek() == ("p", "-"):
            self.i += 1
            return ("exc", x, self.factor())
        return x

    def factor(self):
        k, v = self.peek()
        self.i += 1
        if k == "t":
            return ("t", unesc_terminal(v))
        if k == "sp":
            return ("sp", v)
        if k == "id":
            return ("ref", v)
        if (k, v) == ("p", "("):
            x = self.alt()
            self.eat("p", ")")
            return x
        if (k, v) == ("p", "["):
            x = self.alt()
            self.eat("p", "]")
            return ("opt", x)
        if (k, v) == ("p", "{"):
            x = self.alt()
            k2, v2 = self.peek()
            self.i += 1
            assert v2 in ("}", "}-")
            return ("rep", x, v2 == "}-")
        raise AssertionError("unexpected %s %s" % (k, v))


def load(path):
    rules, order = Parser(tokenize(open(path, encoding="utf-8").read())).grammar()
    return rules


# ------------------------------------------------------------------ special sequences
ANY_POOL = [bytes([c]) for c in range(0x21, 0x7F)] + [b" ", b"\t"] + ["é".encode(), "€".encode(), "😀".encode(), b"\x01", b"\x7f"]
ALNUM = [bytes([c]) for c in b"abcdefghijklmnopqrstuvwxyzABCDEFGHIJKLMNOPQRSTUVWXYZ0123456789"]
ALPHA = ALNUM[:52]
DIGIT = [bytes([c]) for c in b"0123456789"]
HEX = [bytes([c]) for c in b"0123456789abcdefABCDEF"]


def special_pool(text):
    t = text.lower()
    t = t.replace(" ", "")
    if t in ("0-7", "0-3", "0-6"):
        return DIGIT[:int(t[2]) + 1]
    if t.startswith("0-9,a-z"):
        return ALNUM
    if t.startswith("anychar"):
        return ANY_POOL + [b"\n", b"\r"]
    if t.startswith("alphanumeric"):
        return ALNUM
    if t.startswith("alpha"):
        return ALPHA
    if t.startswith("decimaldigit"):
        return DIGIT
    if t.startswith("0-9"):
        return HEX
    if t.startswith("endofinput"):
        return None
    raise KeyError(text)


def utf8_len(b0):
    if b0 < 0x80:
        return 1
    if b0 >> 5 == 6:
        return 2
    if b0 >> 4 == 14:
        return 3
    if b0 >> 3 == 30:
        return 4
    return 1


# ------------------------------------------------------------------ recogniser (set of end positions)
class Matcher:
    def __init__(self, rules):
        self.rules = rules

    def full(self, node, s):
        self.memo = {}
        return len(s) in self.ends(node, s, 0)

    def ends(self, node, s, i):
        key = (id(node), i)
        if key in self.memo:
            return self.memo[key]
        self.memo[key] = frozenset()
        k = node[0]
        if k == "t":
            r = {i + len(node[1])} if s.startswith(node[1], i) else set()
        elif k == "sp":
            pool = special_pool(node[1])
            if pool is None:
                r = {i} if i == len(s) else set()
            elif i < len(s):
                if node[1].lower().startswith("any char"):
                    r = {min(len(s), i + utf8_len(s[i]))}
                else:
                    r = {i + 1} if s[i:i + 1] in pool else set()
            else:
                r = set()
        elif k == "ref":
            r = self.ends(self.rules[node[1]], s, i)
        elif k == "seq":
            cur = {i}
            for x in node[1]:
                nxt = set()
                for p in cur:
                    nxt |= self.ends(x, s, p)
                cur = nxt
            r = cur
        elif k == "alt":
            r = set()
            for x in node[1]:
                r |= self.ends(x, s, i)
        elif k == "opt":
            r = {i} | set(self.ends(node[1], s, i))
        elif k == "rep":
            seen = set() if node[2] else {i}
            frontier = {i}
            while frontier:
                nxt = set()
                for p in frontier:
                    for q in self.ends(node[1], s, p):
                        if q not in seen and q > p:
                            nxt.add(q)
                seen |= nxt
                frontier = nxt
            r = seen
        elif k == "exc":
            xs = self.ends(node[1], s, i)
            r = set()
            for q in xs:
                sub = Matcher(self.rules)
                if not sub.full(node[2], s[i:q]):
                    r.add(q)
        else:
            raise AssertionError(k)
        self.memo[key] = frozenset(r)
        return self.memo[key]


# ------------------------------------------------------------------ derivation generator
class Tree:
    """derivation of one nonterminal: name, text (bytes), kids (Trees of the nonterminals used, in order)"""
    __slots__ = ("name", "text", "kids")

    def __init__(self, name, text, kids):
        self.name, self.text, self.kids = name, text, kids

    def find(self, name):
        return [k for k in self.kids if k.name == name]


NO_SPACE_NEEDED = b'([{"'


class Deriver:
    def __init__(self, rules, seed, rep_max=3, spacing_name="Spacing"):
        self.rules = rules
        self.r = random.Random(seed)
        self.rep_max = rep_max
        self.spacing = spacing_name
        self.matcher = Matcher(rules)
        self.mind = {}
        self._min_depths()
        self.stats = {}

    # minimal nonterminal depth needed to finish a node
    def _min_depths(self):
        INF = 10 ** 6
        names = {n: INF for n in self.rules}

        def md(node):
            k = node[0]
            if k in ("t",):
                return 0
            if k == "sp":
                return 0
            if k == "ref":
                return names[node[1]]
            if k == "seq":
                return max(md(x) for x in node[1])
            if k == "alt":
                return min(md(x) for x in node[1])
            if k == "opt":
                return 0
            if k == "rep":
                return md(node[1]) if node[2] else 0
            if k == "exc":
                return md(node[1])
        changed = True
        while changed:
            changed = False
            for n, body in self.rules.items():
                v = min(INF, 1 + md(body))
                if v < names[n]:
                    names[n] = v
                    changed = True
        self.names_min = names
        self.md = md

    def derive(self, name, depth):
        """Tree for nonterminal `name`; depth = remaining nonterminal nesting budget (soft)"""
        parts, kids = [], []
        self.gen(self.rules[name], depth - 1, parts, kids)
        self.stats[name] = self.stats.get(name, 0) + 1
        return Tree(name, b"".join(parts), kids)

    def is_spacing(self, node):
        return node == ("ref", self.spacing)

    def gen(self, node, depth, parts, kids):
        k = node[0]
        r = self.r
        if k == "t":
            parts.append(node[1])
        elif k == "sp":
            pool = special_pool(node[1])
            if pool is not None:
                parts.append(r.choice(pool))
        elif k == "ref":
            t = self.derive(node[1], depth)
            parts.append(t.text)
            kids.append(t)
        elif k == "seq":
            for idx, x in enumerate(node[1]):
                if x == ("opt", ("ref", self.spacing)):
                    # optional spacing between two parts of one construct: drop it only where the next
                    # part starts with a self-delimiting character
                    rest_parts, rest_kids = [], []
                    self.gen(("seq", node[1][idx + 1:]), depth, rest_parts, rest_kids)
                    rest = b"".join(rest_parts)
                    if r.random() < 0.5 or not rest or rest[0] not in NO_SPACE_NEEDED:
                        t = self.derive(self.spacing, depth)
                        parts.append(t.text)
                        kids.append(t)
                    parts.append(rest)
                    kids.extend(rest_kids)
                    return
                self.gen(x, depth, parts, kids)
        elif k == "alt":
            ok = [x for x in node[1] if self.md(x) <= max(depth, 0)] or [min(node[1], key=self.md)]
            # do not derive "end of input" in the middle of a document
            ok2 = [x for x in ok if not (x[0] == "sp" and special_pool(x[1]) is None)] or ok
            self.gen(r.choice(ok2), depth, parts, kids)
        elif k == "opt":
            if r.random() < 0.5 and self.md(node[1]) <= max(depth, 0):
                self.gen(node[1], depth, parts, kids)
        elif k == "rep":
            n = r.randrange(1 if node[2] else 0, self.rep_max + 1)
            if self.md(node[1]) > max(depth, 0) and not node[2]:
                n = 0
            body = node[1]
            has_spacing_alt = body[0] == "alt" and any(self.is_spacing(x) for x in body[1])
            prev_elem = False
            for _ in range(n):
                if has_spacing_alt:
                    alts = [x for x in body[1] if self.md(x) <= max(depth, 0)
                            and not (x[0] == "sp" and special_pool(x[1]) is None)] or [("ref", self.spacing)]
                    x = r.choice(alts)
                    if not self.is_spacing(x) and prev_elem:
                        t = self.derive(self.spacing, depth)      # elements are separated by spacing
                        parts.append(t.text)
                        kids.append(t)
                    prev_elem = not self.is_spacing(x)
                    self.gen(x, depth, parts, kids)
                else:
                    self.gen(body, depth, parts, kids)
        elif k == "exc":
            x, y = node[1], node[2]
            # cheap case: exclude one alternative of a nonterminal by name
            if x[0] == "ref" and y[0] == "ref" and self.rules[x[1]][0] == "alt" and y in self.rules[x[1]][1]:
                body = ("alt", [a for a in self.rules[x[1]][1] if a != y])
                p2, k2 = [], []
                self.gen(body, depth - 1, p2, k2)
                parts.append(b"".join(p2))
                kids.append(Tree(x[1], b"".join(p2), k2))
                return
            for attempt in range(200):
                p2, k2 = [], []
                self.gen(x, depth + attempt // 10, p2, k2)
                s = b"".join(p2)
                if not self.matcher.full(y, s):
                    parts.append(s)
                    kids.extend(k2)
                    return
            raise RuntimeError("cannot satisfy exception")
        else:
            raise AssertionError(k)
