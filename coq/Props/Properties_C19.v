(* Properties_C19 -- namespaced maps and metadata desugar exactly (Clojure flag).  Statements only.
   PARTIAL: that reading `#:ns{...}` equals reading the explicit expansion relates two different
   inputs and is decided by the correspondence run + expansion oracle; proved here: the key
   rewriting rule, the prefix gate, and the complete marker protocol of metadata.c for ANY
   value reader (hence for the real reader at every fuel): operands, kind gates, merge with
   outer-over-inner precedence, transparency for value / equality / hash, missing operand =
   error. *)
From Coq Require Import ZArith NArith List Bool String.
From Coq.Strings Require Import Byte.
From Verif Require Import Lanes Common Values Scan Numbers Equality Tokens Reader MetaProofs.
Import ListNotations.
Local Open Scope N_scope.

Theorem C19_key_rewriting : forall ns nm a b mm h q,
  nval (qualify_key ns (Node (VKeyword None nm) a b mm h)) = VKeyword (Some ns) nm /\
  nval (qualify_key ns (Node (VSymbol None nm) a b mm h)) = VSymbol (Some ns) nm /\
  nval (qualify_key ns (Node (VKeyword (Some (lit "_")) nm) a b mm h)) = VKeyword None nm /\
  nval (qualify_key ns (Node (VSymbol (Some (lit "_")) nm) a b mm h)) = VSymbol None nm /\
  (bytes_eqb q (lit "_") = false ->
   qualify_key ns (Node (VKeyword (Some q) nm) a b mm h) = Node (VKeyword (Some q) nm) a b mm h /\
   qualify_key ns (Node (VSymbol (Some q) nm) a b mm h) = Node (VSymbol (Some q) nm) a b mm h).
Proof.
  exact (fun ns nm a b mm h q =>
    conj (qualify_unqualified_kw ns nm a b mm h) (conj (qualify_unqualified_sym ns nm a b mm h)
    (conj (qualify_underscore_kw ns nm a b mm h) (conj (qualify_underscore_sym ns nm a b mm h)
    (fun H => conj (qualify_qualified_kw ns q nm a b mm h H) (qualify_qualified_sym ns q nm a b mm h H)))))).
Qed.

Theorem C19_other_keys_untouched : forall ns k,
  match nval k with VKeyword _ _ | VSymbol _ _ => False | _ => True end -> qualify_key ns k = k.
Proof. exact qualify_other. Qed.

Theorem C19_prefix_gate : forall m e rv rmap s kw s1,
  rv (with_cur s (cur s + 1)) = Ret (Some kw) s1 -> (forall nm, nval kw <> VKeyword None nm) ->
  exists s', nsmap_body m e rv rmap s = Ret None s' /\ is_ok s' = false.
Proof. exact nsmap_prefix_gate. Qed.

Theorem C19_metadata_value : forall c xe rv s v s', meta_body c xe rv s = Ret (Some v) s' ->
  exists a s1 form,
    rv (with_ext (with_cur s (cur s + 1)) "metadata") = Ret (Some a) s1 /\ rv s1 = Ret (Some form) s' /\
    meta_ok_annotation (nval a) = true /\ meta_ok_target (nval form) = true /\
    nval v = nval form /\ nre v = nre form /\ nhash v = nhash form /\
    exists mm, v = set_rs (set_meta form (Some mm)) (cur s) /\
      match nmeta form with
      | None => mm = mk (VMap (fst (meta_entries a)) (snd (meta_entries a))) 0 0
      | Some (Node (VMap ok ov) a1 b1 c1 d1) =>
        mm = Node (VMap (fst (meta_merge c xe (fst (meta_entries a)) (snd (meta_entries a)) ok ov))
                        (snd (meta_merge c xe (fst (meta_entries a)) (snd (meta_entries a)) ok ov))) a1 b1 c1 d1
      | Some old => mm = old
      end.
Proof. exact meta_body_value. Qed.

Theorem C19_merge_outer_wins : forall c xe nk nv ok ov, List.length nk = List.length nv ->
  let '(mk_, mv_) := meta_merge c xe nk nv ok ov in
  let keep := filter (fun kv => negb (existsb (fun k => v_equal c xe (fst kv) k) nk)) (combine ok ov) in
  mk_ = nk ++ map fst keep /\ mv_ = nv ++ map snd keep /\ List.length mk_ = List.length mv_ /\
  (forall kv, In kv keep <-> In kv (combine ok ov) /\ forall k, In k nk -> v_equal c xe (fst kv) k = false).
Proof. exact meta_merge_spec. Qed.

Theorem C19_metadata_transparent : forall c xe xh form mm st x,
  nval (set_rs (set_meta form (Some mm)) st) = nval form /\
  equal c xe (set_rs (set_meta form (Some mm)) st) x = equal c xe form x /\
  equal c xe x (set_rs (set_meta form (Some mm)) st) = equal c xe x form /\
  hash_value c xh (set_rs (set_meta form (Some mm)) st) = hash_value c xh form.
Proof. exact meta_transparent. Qed.

Theorem C19_missing_operand_is_error : forall c xe rv s,
  (forall s1, rv (with_ext (with_cur s (cur s + 1)) "metadata") = Ret None s1 ->
     exists s', meta_body c xe rv s = Ret None s' /\ is_ok s' = false) /\
  (forall a s1 s2, rv (with_ext (with_cur s (cur s + 1)) "metadata") = Ret (Some a) s1 -> rv s1 = Ret None s2 ->
     exists s', meta_body c xe rv s = Ret None s' /\ is_ok s' = false).
Proof. exact (fun c xe rv s => conj (meta_body_missing_annotation c xe rv s) (meta_body_missing_target c xe rv s)). Qed.

Theorem C19_kind_gate : forall c xe rv s a s1 form s2,
  rv (with_ext (with_cur s (cur s + 1)) "metadata") = Ret (Some a) s1 -> rv s1 = Ret (Some form) s2 ->
  meta_ok_annotation (nval a) = false \/ meta_ok_target (nval form) = false ->
  exists s', meta_body c xe rv s = Ret None s' /\ is_ok s' = false.
Proof. exact meta_body_gate. Qed.

Print Assumptions C19_metadata_value.
Print Assumptions C19_merge_outer_wins.
Print Assumptions C19_metadata_transparent.
Print Assumptions C19_missing_operand_is_error.
