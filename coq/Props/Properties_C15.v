(* Properties_C15 -- one free releases everything; handed-out pointers stay valid.
   Statements only.  PARTIAL by nature: that memory is really returned to the system, that no
   byte is written after the free, and pointer stability of lazily materialised buffers are
   run-time facts observed by AddressSanitizer / LeakSanitizer in the correspondence run; the
   theorems cover the arena allocator's arithmetic. *)
From Coq Require Import ZArith NArith List Bool.
From Verif Require Import Lanes Common Values Numbers Api ArenaProofs.
Import ListNotations.
Local Open Scope Z_scope.

(* a single request (constants GENERATED from edn_internal.h): either refused with the arena
   unchanged, or a block that is 8-byte aligned, at least the requested size, inside its
   arena block; requests that cannot be represented (size > SIZE_MAX-7) are refused *)
Theorem C15_arena_alloc : forall malloc_ok a size r a',
  arena_ok a -> 0 <= size -> arena_alloc malloc_ok a size = (r, a') ->
  arena_ok a' /\
  match r with
  | None => a' = a
  | Some (blk, off) =>
    size <= size_max - 7 /\ off mod 8 = 0 /\
    exists b', nth_error (rev (blocks a')) blk = Some b' /\ 0 <= off /\ off + round8 size = b_used b' /\
               b_used b' <= b_cap b' /\ (forall b, nth_error (rev (blocks a)) blk = Some b -> b_used b = off)
  end.
Proof. exact arena_alloc_spec. Qed.

Theorem C15_round_up : forall size, 0 <= size <= size_max - 7 ->
  size <= round8 size /\ round8 size mod 8 = 0 /\ round8 size < size + 8.
Proof. exact round8_ge. Qed.

(* any sequence of requests: all blocks handed out are pairwise disjoint (nothing is reused
   before the arena is destroyed) *)
Theorem C15_arena_regions_disjoint : forall malloc_ok reqs a regs a',
  arena_ok a -> Forall (fun z => 0 <= z) reqs -> arena_run malloc_ok a reqs = (regs, a') ->
  ForallOrdPairs disjoint regs.
Proof. exact arena_regions_disjoint. Qed.

Example C15_example : arena_ok arena_new /\
  fst (arena_alloc (fun _ => true) arena_new (size_max - 3)) = None /\
  fst (arena_alloc (fun _ => true) arena_new 9) = Some (0%nat, 0).
Proof. split; [exact arena_new_ok|split; reflexivity]. Qed.

Print Assumptions C15_arena_alloc.
Print Assumptions C15_arena_regions_disjoint.
