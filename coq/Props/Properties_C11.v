(* Properties_C11 -- source ranges and error positions.  Statements only.
   Proved on the reader model, for every input, flag set, option set and fuel: every value of a
   successfully read tree has a non-empty range inside the input that encloses the ascending,
   pairwise disjoint ranges of its children (C11_value_ranges + the two lemmas that say what "wf"
   means in plain terms); every failed read reports 0 <= start <= end <= length
   (C11_error_offsets); line and column are computed as the property says (C11_position ...).
   For whole documents of the reader fragment (integers, keywords, lists, vectors, any trivia and discarded forms in the
   gaps, any size and nesting): every node of the tree carries EXACTLY the span of the text of the sub-term it denotes,
   and re-reading exactly that byte range yields a value equal to the node (C11_every_range_rereads_partial).
   PARTIAL: for the other kinds "re-reading exactly that byte range yields an equal value" is decided by the
   correspondence run + the re-read oracle. *)
From Coq Require Import ZArith NArith List Bool String.
From Coq.Strings Require Import Byte.
From Verif Require Import Lanes Common Values Scan Reader Configs ScanProofs PositionProofs FlagProofs RangeDefs RangeTok RangeInv.
From Verif Require Import Equality RoundTrip RoundTripEq RoundTripGap RoundTripRange.
Import ListNotations.
Local Open Scope N_scope.

(* the (vectorised) line-feed index is exactly the ascending list of LF offsets *)
Theorem C11_lf_index : forall m len, lf_index m len = lf_positions 0 (slice m 0 (N.to_nat len)).
Proof. exact lf_index_correct. Qed.
Theorem C11_lf_index_sorted : forall i l, sorted (lf_positions i l).
Proof. exact lf_positions_sorted. Qed.

(* binary search + position: line = 1 + #offsets below the offset; column = 1 + distance from
   the last line feed before it (or from the start of input) *)
Theorem C11_position : forall l off, sorted l ->
  get_position l off =
  let k := count_lt l off in
  (off, N.of_nat k + 1, if (k =? 0)%nat then off + 1 else off - nth (k - 1) l 0).
Proof. exact get_position_correct. Qed.

(* and the number of index entries below an offset is the number of line feeds in the
   first `off` bytes of the input *)
Theorem C11_count_is_lf_count : forall i l off, i <= off ->
  count_lt (lf_positions i l) off = List.length (filter is_lf (firstn (N.to_nat (off - i)) l)).
Proof. exact count_lt_lf_positions. Qed.

(* ---- ranges of values ---- *)
(* what well-formedness of ranges (RangeDefs.wf) gives for the children of a list, vector or set, in plain
   terms: inside the parent, and each later child starts at or after the end of every earlier one *)
Theorem C11_wf_children_inside : forall n xs, wf n -> (nval n = VList xs \/ nval n = VVector xs \/ nval n = VSet xs) ->
  forall x, In x xs -> nre x <> 0 -> wf x /\ nrs n <= nrs x /\ nre x <= nre n.
Proof. exact wf_children_inside. Qed.
Theorem C11_wf_children_ordered : forall n xs, wf n -> (nval n = VList xs \/ nval n = VVector xs \/ nval n = VSet xs) ->
  forall l1 x l2 y, xs = l1 ++ x :: l2 -> In y l2 -> nre x <> 0 -> nre y <> 0 -> nre x <= nrs y.
Proof. exact wf_children_ordered. Qed.
(* map entries: the same for the sequence k0 v0 k1 v1 ... *)
Theorem C11_wf_entries : forall n ks vs, wf n -> nval n = VMap ks vs ->
  (forall x, In x (interleave ks vs) -> nre x <> 0 -> nrs n <= nrs x /\ nre x <= nre n) /\
  (forall l1 x l2 y, interleave ks vs = l1 ++ x :: l2 -> In y l2 -> nre x <> 0 -> nre y <> 0 -> nre x <= nrs y).
Proof. exact wf_entries. Qed.

(* the reader model, any handler that satisfies handler_ok, any fuel: the value returned is well-formed,
   its own range is non-empty and ends inside the input *)
Theorem C11_value_ranges : forall c o handler xe xh sort m e,
  handler_ok handler ->
  (forall b, (dispatch_of c b =? ct_digit c)%Z = true -> Numbers.is_dig b = true) ->
  (forall b, (dispatch_of c b =? ct_sign c)%Z = true -> Numbers.is_c b "-"%string = true \/ Numbers.is_c b "+"%string = true) ->
  forall fuel r s n, read_doc c o handler xe xh sort m e fuel = Ret r s -> r_value r = Some n ->
  wf n /\ nrs n < nre n /\ nre n <= e.
Proof. exact read_doc_value_ranges. Qed.
(* as run by the correspondence check: the four generated flag sets, the harness's handlers *)
Theorem C11_value_ranges_run : forall c o m len r s n, In c all_cfgs ->
  run_doc c o m len = Ret r s -> r_value r = Some n -> wf n /\ nrs n < nre n /\ nre n <= len.
Proof. exact run_doc_value_ranges. Qed.
(* every failed read: start offset <= end offset <= input length *)
Theorem C11_error_offsets : forall c o m len r s, In c all_cfgs ->
  run_doc c o m len = Ret r s -> r_err r <> EOk ->
  fst (fst (r_start r)) <= fst (fst (r_end r)) /\ fst (fst (r_end r)) <= len.
Proof. exact run_doc_error_range. Qed.

(* the hypotheses are met and the conclusion is not vacuous: a concrete document *)
Example C11_ranges_example :
  let doc := list_byte_of_string "[1 {:a (2 3)} #{x}]"%string in
  match run_doc cfg00 (mk_opts None 0%Z false) (fun k => nth (N.to_nat k) doc "000"%byte) (N.of_nat (List.length doc)) with
  | Ret r _ => match r_value r with
               | Some n => (nrs n, nre n, match nval n with VVector xs => map (fun x => (nrs x, nre x)) xs | _ => [] end)
                           = (0, 19, [(1, 2); (3, 13); (14, 18)])
               | None => False
               end
  | _ => False
  end.
Proof. vm_compute. reflexivity. Qed.

Example C11_example :
  let l := ["a"; "010"; "b"; "c"; "010"; "d"]%byte in
  get_position (lf_positions 0 l) 5 = (5, 3, 1) /\ get_position (lf_positions 0 l) 3 = (3, 2, 2)
  /\ get_position (lf_positions 0 l) 1 = (1, 1, 2).
Proof. vm_compute. repeat split; reflexivity. Qed.

(* whole documents of the fragment: at EVERY node of the tree -- paired with the sub-term a' it was read from and the
   offset p of that sub-term's text -- the range is exactly [p, p + length of the text), and reading the bytes of that
   range on their own succeeds with a value denoting the same sub-term, equal to the node under the library's equality *)
Theorem C11_every_range_rereads_partial : forall c o m a, In c all_cfgs -> gwf a ->
  slice m 0 (List.length (gpr a)) = gpr a ->
  exists r s n, run_doc c o m (N.of_nat (List.length (gpr a))) = Ret r s /\ r_value r = Some n /\ r_err r = EOk /\
                tree_all (rereads c o m) a 0 n.
Proof. exact every_range_rereads. Qed.
(* what is claimed at each node *)
Example C11_rereads_unfolded : forall c o m a p n, rereads c o m a p n <->
  nrs n = p /\ nre n = p + N.of_nat (List.length (gpr a)) /\
  exists r s n', run_doc c o (shift m (nrs n)) (nre n - nrs n) = Ret r s /\ r_value r = Some n' /\ r_err r = EOk /\
                 denotes c (gerase a) n /\ denotes c (gerase a) n' /\
                 ((tdepth (gerase a) <= max_depth)%nat -> equal c no_ext_equal n n' = true).
Proof. intros. reflexivity. Qed.

Print Assumptions C11_every_range_rereads_partial.
Print Assumptions C11_value_ranges.
Print Assumptions C11_value_ranges_run.
Print Assumptions C11_error_offsets.
Print Assumptions C11_wf_children_ordered.
Print Assumptions C11_lf_index.
Print Assumptions C11_position.
Print Assumptions C11_count_is_lf_count.
