(* Properties_C11 -- source ranges and error positions.  Statements only.
   PARTIAL: line/column computation is proved; that every node range is inside the input,
   nested, ordered and re-readable, and that error offsets are within the input, is decided by
   the correspondence run + oracles (not yet proved on the reader model). *)
From Coq Require Import ZArith NArith List Bool.
From Coq.Strings Require Import Byte.
From Verif Require Import Lanes Common Values Scan Reader ScanProofs PositionProofs.
Import ListNotations.
Local Open Scope N_scope.

(* the (vectorised) line-feed index is exactly the ascending list of LF offsets *)
Theorem C11_lf_index : forall m len, lf_index m len = lf_positions 0 (slice m 0 (N.to_nat len)).
Proof. exact lf_index_correct. Qed.
Theorem C11_lf_index_sorted : forall i l, sorted (lf_positions i l).
Proof. exact lf_positions_sorted. Qed.

(* binary search + position: line = 1 + #offsets below the offset; column = 1 + distance from
   the last line feed before it (or from the start of input) *)
Theorem C11_position : forall l off, sorted l ->
  get_position l off =
  let k := count_lt l off in
  (off, N.of_nat k + 1, if (k =? 0)%nat then off + 1 else off - nth (k - 1) l 0).
Proof. exact get_position_correct. Qed.

(* and the number of index entries below an offset is the number of line feeds in the
   first `off` bytes of the input *)
Theorem C11_count_is_lf_count : forall i l off, i <= off ->
  count_lt (lf_positions i l) off = List.length (filter is_lf (firstn (N.to_nat (off - i)) l)).
Proof. exact count_lt_lf_positions. Qed.

Example C11_example :
  let l := ["a"; "010"; "b"; "c"; "010"; "d"]%byte in
  get_position (lf_positions 0 l) 5 = (5, 3, 1) /\ get_position (lf_positions 0 l) 3 = (3, 2, 2)
  /\ get_position (lf_positions 0 l) 1 = (1, 1, 2).
Proof. vm_compute. repeat split; reflexivity. Qed.

Print Assumptions C11_lf_index.
Print Assumptions C11_position.
Print Assumptions C11_count_is_lf_count.
