(* Properties_C04 -- integer, big-number and ratio literals denote their mathematical value.
   Statements only. *)
From Coq Require Import ZArith NArith List Bool String.
From Coq.Strings Require Import Byte.
From Verif Require Import Lanes Common Values Scan Numbers Tokens Swar Int64 NumLiteral.
Import ListNotations.
Local Open Scope Z_scope.

(* the GENERATED 8-digit SWAR test accepts exactly the blocks of eight ASCII digits *)
Theorem C04_swar_check : forall b0 b1 b2 b3 b4 b5 b6 b7 : byte,
  z2b (eight_digits_check (le_val [b0;b1;b2;b3;b4;b5;b6;b7])) = forallb is_dig [b0;b1;b2;b3;b4;b5;b6;b7].
Proof. exact eight_digits_check_correct. Qed.

(* and the GENERATED masked multiply-shift converter returns their decimal value, for all
   10^8 blocks (proved algebraically) *)
Theorem C04_swar_value : forall b0 b1 b2 b3 b4 b5 b6 b7 : byte,
  forallb is_dig [b0;b1;b2;b3;b4;b5;b6;b7] = true ->
  eight_digits_value (le_val [b0;b1;b2;b3;b4;b5;b6;b7]) = dec8 [b0;b1;b2;b3;b4;b5;b6;b7].
Proof. exact eight_digits_value_correct. Qed.

(* the three-tier converter: for every digit string valid in the radix (underscores allowed
   with the experimental flag), every radix 2..36 and both signs, the result is the
   mathematical value when it fits the signed 64-bit range for that sign, and "overflow"
   (-> big integer) otherwise.  int_value is the plain positional value. *)
Theorem C04_parse_int64 : forall (c : cfg) (ds : list byte) (radix : Z) (neg : bool),
  2 <= radix <= 36 -> digits_ok c radix ds = true ->
  parse_int64 c ds radix neg =
  let mag := int_value c radix ds in
  if neg then (if mag <=? two63 then IOk (- mag) else IOverflow)
  else (if mag <=? int64_max then IOk mag else IOverflow).
Proof. exact parse_int64_correct. Qed.

Theorem C04_parse_int64_no_ub : forall c ds radix neg,
  match parse_int64 c ds radix neg with IUB _ => False | _ => True end.
Proof. exact parse_int64_no_ub. Qed.

(* ---- the literal scanner, end to end (token level) ---- *)
(* an optional sign and a run of ASCII digits of ANY length (no superfluous leading zero), followed by the end
   of the input or a number delimiter, reads under EVERY flag set as the int64 equal to its mathematical value
   when that fits the signed range for its sign, as a big integer with exactly the literal's sign and digits
   otherwise, and the cursor ends right behind the last digit *)
Theorem C04_decimal_integer_literal : forall (c : cfg) (m : mem) (e start : N) (neg : bool) (sign ds : list byte),
  (sign = [] /\ neg = false \/ sign = ["-"%byte] /\ neg = true \/ sign = ["+"%byte] /\ neg = false) ->
  ds <> [] -> forallb is_dig ds = true -> (hd "0"%byte ds <> "0"%byte \/ ds = ["0"%byte]) ->
  let q := (start + N.of_nat (List.length (sign ++ ds)))%N in
  (q <= e)%N -> slice m start (List.length (sign ++ ds)) = sign ++ ds -> ends_at m e q ->
  read_number c m e start = NVal (int_literal_value c neg ds) q.
Proof. exact read_number_decimal_integer. Qed.
(* where the value is the positional one *)
Theorem C04_decimal_value : forall (c : cfg) ds, forallb is_dig ds = true -> decimal_value c ds = positional ds 0.
Proof. exact decimal_value_positional. Qed.
(* the same literal with an N or M suffix: big integer / big decimal with exactly the literal's sign and digit
   text, whatever its magnitude *)
Theorem C04_suffixed_integer_literal : forall (c : cfg) (m : mem) (e start : N) (neg : bool) (sign ds : list byte) (sfx : byte),
  (sign = [] /\ neg = false \/ sign = ["-"%byte] /\ neg = true \/ sign = ["+"%byte] /\ neg = false) ->
  ds <> [] -> forallb is_dig ds = true -> (hd "0"%byte ds <> "0"%byte \/ ds = ["0"%byte]) ->
  is_c sfx "N" = true \/ is_c sfx "M" = true ->
  let q := (start + N.of_nat (List.length (sign ++ ds)))%N in
  (q < e)%N -> slice m start (List.length (sign ++ ds)) = sign ++ ds -> m q = sfx -> ends_at m e (q + 1)%N ->
  read_number c m e start = NVal (suffix_value sfx neg ds) (q + 1)%N.
Proof. exact read_number_suffixed_integer. Qed.

(* non-vacuity of the literal theorems: "-9223372036854775808]" and "18446744073709551616" *)
Example C04_literal_example :
  let c := {| clj := true; exp := true; dispatch := []; ct_ident := 0; ct_string := 0; ct_char := 0;
              ct_list := 0; ct_vector := 0; ct_map := 0; ct_hash := 0; ct_sign := 0; ct_digit := 0;
              ct_delim := 0; ct_meta := 0; type_tag := []; single_char_ok := fun _ => true |} in
  let t1 := list_byte_of_string "-9223372036854775808]" in
  let t2 := list_byte_of_string "18446744073709551616" in
  read_number c (fun k => nth (N.to_nat k) t1 "000"%byte) 21 0 = NVal (VInt (-9223372036854775808)) 20%N /\
  read_number c (fun k => nth (N.to_nat k) t2 "000"%byte) 20 0 = NVal (VBigInt false 10 t2) 20%N /\
  ends_at (fun k => nth (N.to_nat k) t1 "000"%byte) 21 20.
Proof. vm_compute. split; [reflexivity|split; [reflexivity|right; split; reflexivity]]. Qed.

(* non-vacuity *)
Example C04_example :
  let c := {| clj := false; exp := true; dispatch := []; ct_ident := 0; ct_string := 0; ct_char := 0;
              ct_list := 0; ct_vector := 0; ct_map := 0; ct_hash := 0; ct_sign := 0; ct_digit := 0;
              ct_delim := 0; ct_meta := 0; type_tag := []; single_char_ok := fun _ => true |} in
  let ds := ["9";"2";"2";"3";"3";"7";"_";"2";"0";"3";"6";"8";"5";"4";"7";"7";"5";"8";"0";"8"]%byte in
  digits_ok c 10 ds = true /\ parse_int64 c ds 10 true = IOk (-9223372036854775808) /\
  parse_int64 c ds 10 false = IOverflow.
Proof. vm_compute. repeat split; reflexivity. Qed.

Print Assumptions C04_decimal_integer_literal.
Print Assumptions C04_suffixed_integer_literal.
Print Assumptions C04_swar_check.
Print Assumptions C04_swar_value.
Print Assumptions C04_parse_int64.
Print Assumptions C04_parse_int64_no_ub.
