(* Properties_C04 -- integer, big-number and ratio literals denote their mathematical value.
   Statements only. *)
From Coq Require Import ZArith NArith List Bool.
From Coq.Strings Require Import Byte.
From Verif Require Import Lanes Common Values Scan Numbers Swar Int64.
Import ListNotations.
Local Open Scope Z_scope.

(* the GENERATED 8-digit SWAR test accepts exactly the blocks of eight ASCII digits *)
Theorem C04_swar_check : forall b0 b1 b2 b3 b4 b5 b6 b7 : byte,
  z2b (eight_digits_check (le_val [b0;b1;b2;b3;b4;b5;b6;b7])) = forallb is_dig [b0;b1;b2;b3;b4;b5;b6;b7].
Proof. exact eight_digits_check_correct. Qed.

(* and the GENERATED masked multiply-shift converter returns their decimal value, for all
   10^8 blocks (proved algebraically) *)
Theorem C04_swar_value : forall b0 b1 b2 b3 b4 b5 b6 b7 : byte,
  forallb is_dig [b0;b1;b2;b3;b4;b5;b6;b7] = true ->
  eight_digits_value (le_val [b0;b1;b2;b3;b4;b5;b6;b7]) = dec8 [b0;b1;b2;b3;b4;b5;b6;b7].
Proof. exact eight_digits_value_correct. Qed.

(* the three-tier converter: for every digit string valid in the radix (underscores allowed
   with the experimental flag), every radix 2..36 and both signs, the result is the
   mathematical value when it fits the signed 64-bit range for that sign, and "overflow"
   (-> big integer) otherwise.  int_value is the plain positional value. *)
Theorem C04_parse_int64 : forall (c : cfg) (ds : list byte) (radix : Z) (neg : bool),
  2 <= radix <= 36 -> digits_ok c radix ds = true ->
  parse_int64 c ds radix neg =
  let mag := int_value c radix ds in
  if neg then (if mag <=? two63 then IOk (- mag) else IOverflow)
  else (if mag <=? int64_max then IOk mag else IOverflow).
Proof. exact parse_int64_correct. Qed.

Theorem C04_parse_int64_no_ub : forall c ds radix neg,
  match parse_int64 c ds radix neg with IUB _ => False | _ => True end.
Proof. exact parse_int64_no_ub. Qed.

(* non-vacuity *)
Example C04_example :
  let c := {| clj := false; exp := true; dispatch := []; ct_ident := 0; ct_string := 0; ct_char := 0;
              ct_list := 0; ct_vector := 0; ct_map := 0; ct_hash := 0; ct_sign := 0; ct_digit := 0;
              ct_delim := 0; ct_meta := 0; type_tag := []; single_char_ok := fun _ => true |} in
  let ds := ["9";"2";"2";"3";"3";"7";"_";"2";"0";"3";"6";"8";"5";"4";"7";"7";"5";"8";"0";"8"]%byte in
  digits_ok c 10 ds = true /\ parse_int64 c ds 10 true = IOk (-9223372036854775808) /\
  parse_int64 c ds 10 false = IOverflow.
Proof. vm_compute. repeat split; reflexivity. Qed.

Print Assumptions C04_swar_check.
Print Assumptions C04_swar_value.
Print Assumptions C04_parse_int64.
Print Assumptions C04_parse_int64_no_ub.
