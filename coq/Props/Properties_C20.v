(* Properties_C20 -- text blocks follow the documented indentation algorithm.  Statements only.
   PARTIAL: the text-block model (line splitter, indentation, rendering) is hand-written after
   src/string.c and tied to it by the correspondence run and by an independent Python
   reference of the documented algorithm; proved here is that the model's rendering has the
   documented properties.  Equality with an ordinary literal that needs escapes: finding K08. *)
From Coq Require Import ZArith NArith List Bool.
From Coq.Strings Require Import Byte.
From Verif Require Import Lanes Common Values Scan Numbers Equality Tokens Reader TextBlockProofs.
Import ListNotations.
Local Open Scope N_scope.

(* common indentation = minimum over non-blank lines and the closing-delimiter line *)
Theorem C20_indent_is_minimum : forall ls n, tb_indent ls = Some n ->
  (forall l, In l ls -> counts l = true -> n <= ws_prefix_len l) /\
  (exists l, In l ls /\ counts l = true /\ ws_prefix_len l = n).
Proof. exact tb_indent_is_min. Qed.

(* trailing blanks are stripped (and nothing else is) *)
Theorem C20_trailing_blanks : forall l,
  exists suf, l = rstrip_blank l ++ suf /\ forallb is_blank suf = true /\
              (rstrip_blank l = [] \/ is_blank (last (rstrip_blank l) "000"%byte) = false).
Proof. exact rstrip_blank_spec. Qed.

(* every line: relative indentation preserved, content stripped, blank lines preserved as
   bare line feeds *)
Theorem C20_line : forall lwp l,
  tb_render_line lwp l =
  (match tl_content l with
   | [] => []
   | _ => skipn (N.to_nat (N.min lwp (ws_prefix_len l))) (tl_ws l) ++
          (let body := rstrip_blank (tl_content l) in if tl_escaped l then tb_unescape (S (List.length body)) body else body)
   end) ++ (if tl_newline l then ["010"%byte] else []).
Proof. exact tb_render_line_spec. Qed.

(* closing delimiter on its own line: the result is exactly the earlier lines, each with its
   line feed; otherwise the last line follows without one *)
Theorem C20_trailing_newline : forall ls last,
  (tl_content last = [] -> tl_newline last = false ->
   tb_render (ls ++ [last]) =
   List.concat (map (tb_render_line (match tb_indent (ls ++ [last]) with Some n => n | None => 0 end)) ls)) /\
  tb_render (ls ++ [last]) =
  List.concat (map (tb_render_line (match tb_indent (ls ++ [last]) with Some n => n | None => 0 end)) ls)
  ++ tb_render_line (match tb_indent (ls ++ [last]) with Some n => n | None => 0 end) last.
Proof. exact (fun ls last => conj (tb_render_closing_own_line ls last) (tb_render_snoc ls last)). Qed.

(* an escaped triple quote becomes a triple quote; unescaping never lengthens *)
Theorem C20_escaped_triple_quote : forall f t,
  tb_unescape (S f) ("\"%byte :: """"%byte :: """"%byte :: """"%byte :: t) = """"%byte :: """"%byte :: """"%byte :: tb_unescape f t.
Proof. exact tb_unescape_head. Qed.

(* the value is an ordinary string: equal to and hashing like the literal with the same bytes,
   reported length = exact content length (blocks without escaped quotes) *)
Theorem C20_value_partial : forall c xe xh body p q p' q',
  equal c xe (mk (VString body false (Some body)) p q) (mk (VString body false None) p' q') = true /\
  hash_value c xh (mk (VString body false (Some body)) p q) = hash_value c xh (mk (VString body false None) p' q') /\
  string_get c (VString body false (Some body)) = Some (body, N.of_nat (List.length body)).
Proof. exact text_block_as_string. Qed.

Print Assumptions C20_indent_is_minimum.
Print Assumptions C20_trailing_newline.
Print Assumptions C20_value_partial.
