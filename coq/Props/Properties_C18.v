(* Properties_C18 -- feature flags only add syntax.  Statements only.
   PARTIAL: the whole-reader statement "a core document reads alike under the four flag sets"
   is decided by the correspondence run (the model is run under each flag set against the
   matching build and the four observations are compared); what is proved here is that the
   flag-dependent GENERATED items and the escape decoder cannot distinguish core input; and, for WHOLE DOCUMENTS of
   the reader fragment of Properties_C03 (integers, keywords, lists, vectors, any trivia, any size and nesting below the
   equality's depth cap), that any two of the four builds -- with any options -- read the document to values denoting
   the same term, equal under either build's equality (C18_builds_read_equal_partial). *)
From Coq Require Import ZArith NArith List Bool.
From Coq.Strings Require Import Byte.
From Verif Require Import Lanes Common Values Scan Numbers Tokens Reader Configs FlagProofs.
From Verif Require Import Equality RoundTrip RoundTripWs RoundTripEq.
Import ListNotations.

Theorem C18_dispatch_partial : forall c b, In c all_cfgs ->
  (clj c = true /\ b = "^"%byte) \/ class_of c b = class_of cfg00 b.
Proof. exact dispatch_agree. Qed.

(* the single-byte character whitelist differs only on raw form feed / backspace (finding K07:
   the unrestricted statement is refuted by the second theorem) *)
Theorem C18_single_char_partial : forall c b, In c all_cfgs ->
  single_char_ok c (bz b) = single_char_ok cfg00 (bz b) \/ (clj c = true /\ (bz b = 8 \/ bz b = 12)%Z).
Proof. exact single_char_agree. Qed.

Theorem C18_single_char_refuted : exists c b, In c all_cfgs /\ single_char_ok c (bz b) <> single_char_ok cfg00 (bz b).
Proof. exact single_char_agree_refuted. Qed.

Theorem C18_escapes_partial : forall c c' ch t,
  (core_escape ch = true -> decode_escape c (ch :: t) = decode_escape c' (ch :: t)) /\
  (clj c = false -> core_escape ch = false -> decode_escape c (ch :: t) = None).
Proof. exact (fun c c' ch t => conj (decode_escape_core c c' ch t) (decode_escape_noncore c ch t)). Qed.

Theorem C18_type_order_partial : forall c k1 k2, In c all_cfgs -> In k1 core_kinds -> In k2 core_kinds ->
  (tag_of c k1 <? tag_of c k2)%Z = (tag_of cfg00 k1 <? tag_of cfg00 k2)%Z.
Proof. exact type_order_agree. Qed.

Theorem C18_flag_free_items : common_items_agree = true.
Proof. exact common_items. Qed.


Theorem C18_builds_read_equal_partial : forall c1 c2 o1 o2 m a, In c1 all_cfgs -> In c2 all_cfgs -> awf a ->
  (tdepth (erase a) <= max_depth)%nat -> slice m 0 (List.length (prg a)) = prg a ->
  exists r1 s1 n1 r2 s2 n2,
    run_doc c1 o1 m (N.of_nat (List.length (prg a))) = Ret r1 s1 /\ r_value r1 = Some n1 /\ r_err r1 = EOk /\
    run_doc c2 o2 m (N.of_nat (List.length (prg a))) = Ret r2 s2 /\ r_value r2 = Some n2 /\ r_err r2 = EOk /\
    denotes c1 (erase a) n1 /\ denotes c1 (erase a) n2 /\
    equal c1 no_ext_equal n1 n2 = true /\ equal c2 no_ext_equal n1 n2 = true.
Proof. exact builds_read_equal. Qed.

Print Assumptions C18_builds_read_equal_partial.
Print Assumptions C18_dispatch_partial.
Print Assumptions C18_single_char_partial.
Print Assumptions C18_escapes_partial.
Print Assumptions C18_type_order_partial.
