(* Properties_C10 -- ill-formed documents are rejected; value xor error.  Statements only. *)
From Coq Require Import ZArith NArith List Bool String.
From Verif Require Import Lanes Common Values Scan Reader ReaderInv.
Import ListNotations.
Local Open Scope N_scope.

Section C10.
Variable c : cfg.
Variable o : opts.
Variable handler : Z -> node -> option node * option bytes.
Variable xe : Z -> option (Z -> Z -> bool).
Variable xh : Z -> option (Z -> Z).
Variable sort : list node -> list node.
Variable m : mem.
Variable e : N.

(* No result ever carries both a value and an error code, or neither: for every input,
   every configuration, every option set, every handler behaviour, every fuel. *)
Theorem C10_value_xor_error : forall fuel r s,
  read_doc c o handler xe xh sort m e fuel = Ret r s ->
  (has_value r <-> r_err r = EOk) /\ (r_eof r = true -> r_value r = None).
Proof. exact (read_doc_xor c o handler xe xh sort m e). Qed.

(* The protocol behind it, for all eight mutually recursive readers at every fuel: a value is
   returned only in an error-free state; NULL with an error-free state happens only for a
   closing delimiter met inside a collection (depth <> 0, cursor inside the input); the depth
   is restored on every return.  In particular an error, once set, makes every enclosing
   reader return NULL. *)
Theorem C10_reader_protocol : forall f,
  Gv e (read_value c o handler xe xh sort m e f) /\
  Gseq e (read_seq c o handler xe xh sort m e f) /\
  Gel e (read_elems c o handler xe xh sort m e f) /\
  Gmap e (read_map c o handler xe xh sort m e f) /\
  Gen e (read_entries c o handler xe xh sort m e f) /\
  Gv e (read_nsmap c o handler xe xh sort m e f) /\
  Gv e (read_tagged c o handler xe xh sort m e f) /\
  Gv e (read_meta c o handler xe xh sort m e f).
Proof. exact (readers_good c o handler xe xh sort m e). Qed.
End C10.

Print Assumptions C10_value_xor_error.
Print Assumptions C10_reader_protocol.
