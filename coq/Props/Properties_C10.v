(* Properties_C10 -- ill-formed documents are rejected; value xor error.  Statements only.
   Proved for every input: value xor error (from the reader protocol over the eight readers).
   Proved for whole documents over the reader fragment of Properties_C03/C13 (integers, keywords, lists, vectors, any
   trivia and discarded forms in the gaps; any size and nesting): (a) input that ends inside one or more open collections
   -- after any complete elements and trailing trivia, even an unfinished comment -- is rejected with the class
   "unterminated collection"; (b) a collection closed by the delimiter of the other kind, at any depth and whatever
   follows it, and (c) a closing delimiter at top level are rejected with the class "unmatched delimiter"; never a value.
   (d) a map literal over the fragment whose last key has no value is rejected with the class "invalid syntax".
   PARTIAL: the classes for the other defects ( dangling tag / discard / metadata marker, invalid tokens) and the
   non-NULL message are decided by the correspondence run + oracle. *)
From Coq Require Import ZArith NArith List Bool String.
From Coq.Strings Require Import Byte.
From Verif Require Import Lanes Common Values Scan Reader ReaderInv Configs FlagProofs TriviaProofs RoundTripGap RoundTripErr RoundTripSet RoundTripMap.
Import ListNotations.
Local Open Scope N_scope.

Section C10.
Variable c : cfg.
Variable o : opts.
Variable handler : Z -> node -> option node * option bytes.
Variable xe : Z -> option (Z -> Z -> bool).
Variable xh : Z -> option (Z -> Z).
Variable sort : list node -> list node.
Variable m : mem.
Variable e : N.

(* No result ever carries both a value and an error code, or neither: for every input,
   every configuration, every option set, every handler behaviour, every fuel. *)
Theorem C10_value_xor_error : forall fuel r s,
  read_doc c o handler xe xh sort m e fuel = Ret r s ->
  (has_value r <-> r_err r = EOk) /\ (r_eof r = true -> r_value r = None).
Proof. exact (read_doc_xor c o handler xe xh sort m e). Qed.

(* The protocol behind it, for all eight mutually recursive readers at every fuel: a value is
   returned only in an error-free state; NULL with an error-free state happens only for a
   closing delimiter met inside a collection (depth <> 0, cursor inside the input); the depth
   is restored on every return.  In particular an error, once set, makes every enclosing
   reader return NULL. *)
Theorem C10_reader_protocol : forall f,
  Gv e (read_value c o handler xe xh sort m e f) /\
  Gseq e (read_seq c o handler xe xh sort m e f) /\
  Gel e (read_elems c o handler xe xh sort m e f) /\
  Gmap e (read_map c o handler xe xh sort m e f) /\
  Gen e (read_entries c o handler xe xh sort m e f) /\
  Gv e (read_nsmap c o handler xe xh sort m e f) /\
  Gv e (read_tagged c o handler xe xh sort m e f) /\
  Gv e (read_meta c o handler xe xh sort m e f).
Proof. exact (readers_good c o handler xe xh sort m e). Qed.
End C10.

(* (a) + (b): nested open collections around an innermost defect -- end of input (after trivia), or a complete collection
   with the wrong closer followed by anything.  [cexact k] says which: the text of an end-of-input context ends the input *)
Theorem C10_ill_formed_rejected_partial : forall c o m e k, In c all_cfgs -> cwf k -> (match k with CEof _ => False | _ => True end) ->
  slice m 0 (List.length (ctext k)) = ctext k ->
  (if cexact k then N.of_nat (List.length (ctext k)) = e else N.of_nat (List.length (ctext k)) <= e) ->
  exists r s, run_doc c o m e = Ret r s /\ r_value r = None /\ r_eof r = false /\
              r_err r = if cexact k then EUnterminated else EUnmatched.
Proof. exact ill_formed_rejected. Qed.

(* (c) a closing delimiter at top level, after any gap, whatever follows *)
Theorem C10_stray_closer_rejected_partial : forall c o m e g cl, In c all_cfgs -> (cl = "]"%byte \/ cl = ")"%byte) -> gapwf g -> alt g ->
  slice m 0 (List.length (gappr g ++ [cl])) = gappr g ++ [cl] -> N.of_nat (List.length (gappr g ++ [cl])) <= e ->
  exists r s, run_doc c o m e = Ret r s /\ r_value r = None /\ r_eof r = false /\ r_err r = EUnmatched.
Proof. exact stray_closer_rejected. Qed.

(* (d) a map with an odd number of forms: entries, then a key, then the closing brace *)
Theorem C10_odd_map_rejected_partial : forall c o m l g k tl, In c all_cfgs -> mapwf l (Some (g, k)) tl ->
  slice m 0 (List.length (maptext l (Some (g, k)) tl)) = maptext l (Some (g, k)) tl ->
  exists r s, run_doc c o m (N.of_nat (List.length (maptext l (Some (g, k)) tl))) = Ret r s /\
              r_value r = None /\ r_err r = ESyntax /\ r_eof r = false.
Proof. exact odd_map_rejected. Qed.

(* the error found innermost travels outward unchanged through every enclosing collection *)
Theorem C10_error_propagates_partial : forall c, In c all_cfgs -> forall o handler xe xh sort m e k, cwf k -> forall p,
  slice m p (List.length (ctext k)) = ctext k ->
  (if cexact k then p + N.of_nat (List.length (ctext k)) = e else p + N.of_nat (List.length (ctext k)) <= e) ->
  stops c o handler xe xh sort m e p (fun _ => True) (fun s' => err s' = cerr k).
Proof. exact ctx_stops. Qed.

(* non-vacuity:  "[1 (:a ;x"  and  "[1 (:a 2]"  *)
Example C10_truncated_example :
  let k := COpen true [([], GInt false ["1"%byte])] [GWs [" "%byte]] (COpen false [([], GKw ["a"%byte])] [] (CEof [" "; ";"; "x"]%byte)) in
  cwf k /\ ctext k = list_byte_of_string "[1 (:a ;x" /\ cexact k = true.
Proof. exact truncated_example. Qed.
Example C10_mismatched_example :
  let k := COpen true [([], GInt false ["1"%byte])] [GWs [" "%byte]] (CBad false [([], GKw ["a"%byte]); ([GWs [" "%byte]], GInt false ["2"%byte])] []) in
  cwf k /\ ctext k = list_byte_of_string "[1 (:a 2]" /\ cexact k = false.
Proof. exact mismatched_example. Qed.

Print Assumptions C10_ill_formed_rejected_partial.
Print Assumptions C10_odd_map_rejected_partial.
Print Assumptions C10_stray_closer_rejected_partial.
Print Assumptions C10_value_xor_error.
Print Assumptions C10_reader_protocol.
