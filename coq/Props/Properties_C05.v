(* Properties_C05 -- floating-point literals read as the correctly rounded binary64 value.
   Statements only.  PARTIAL: proved for the fast path (the part of the conversion the library
   implements itself) -- abstractly (C05_fast_path) and end to end at the token level for plain decimal fractions
   of at most 15 digits (C05_decimal_fraction_literal); the strtod fallback is libc's, modelled by Floats.dec2fl / strtod_model and
   validated against glibc and Python's float() on every run (correspondence + oracle). *)
From Coq Require Import ZArith Reals SpecFloat List Bool String.
From Flocq Require Import Core BinarySingleNaN.
From Coq.Strings Require Import Byte.
From Verif Require Import Lanes Common Values Scan Floats Numbers FastPath NumLiteral NumFloatLit.
Import ListNotations.
Local Open Scope Z_scope.

(* Clinger fast path, with the operation and table the SOURCE uses (regenerated each run):
   for every mantissa below 2^53 and every |exponent| <= 22 the result is the binary64 number
   nearest to (-1)^neg * m * 10^e, ties to even *)
Theorem C05_fast_path : forall m e neg,
  0 <= m < 2 ^ 53 -> -22 <= e <= 22 ->
  SF2R radix2 (fast_path m e neg) = rnd (dec_real neg m e).
Proof. exact fast_path_correct. Qed.

(* which rests on: the table entries the fast path uses are exactly 10^0 .. 10^22, the
   negative-exponent branch DIVIDES by that table, and the guards are 22 and 2^53-1 *)
Theorem C05_tables_exact :
  forallb (fun k => entry_is (tbl fastpath_pos_table k) (10 ^ k)) pows = true /\
  fastpath_neg_table = fastpath_pos_table /\
  fastpath_pos_op = "*"%string /\ fastpath_neg_op = "/"%string /\
  fastpath_literals = [0; 1; 22; 9007199254740991].
Proof. exact (conj pos_table_exact (conj neg_table_is_pos_table (conj (proj1 fastpath_ops) (conj (proj2 fastpath_ops) fast_path_guards)))). Qed.

(* ---- the literal scanner, end to end (token level) ---- *)
(* [sign] d1..dk . f1..fn with at most 15 digits in all, followed by the end of the input or a number delimiter, reads
   under EVERY flag set as a float whose value is the binary64 number nearest (ties to even) to the decimal value of
   the literal; the cursor ends right behind the last digit *)
Theorem C05_decimal_fraction_literal : forall (c : cfg) (m : mem) (e start : N) (neg : bool) (sign ds1 ds2 : list byte),
  (sign = [] /\ neg = false \/ sign = ["-"%byte] /\ neg = true \/ sign = ["+"%byte] /\ neg = false) ->
  ds1 <> [] -> forallb is_dig ds1 = true -> (hd "0"%byte ds1 <> "0"%byte \/ ds1 = ["0"%byte]) ->
  ds2 <> [] -> forallb is_dig ds2 = true -> (List.length ds1 + List.length ds2 <= 15)%nat ->
  let text := sign ++ ds1 ++ "."%byte :: ds2 in
  let q := (start + N.of_nat (List.length text))%N in
  (q <= e)%N -> slice m start (List.length text) = text -> ends_at m e q ->
  read_number c m e start = NVal (VFloat (fraction_value neg ds1 ds2)) q /\
  SF2R radix2 (fraction_value neg ds1 ds2) = rnd (dec_real neg (positional (ds1 ++ ds2) 0) (- Z.of_nat (List.length ds2))).
Proof.
  intros c m e start neg sign ds1 ds2 H1 H2 H3 H4 H5 H6 H7 text q H8 H9 H10.
  split; [exact (read_number_decimal_fraction c m e start neg sign ds1 ds2 H1 H2 H3 H4 H5 H6 H7 H8 H9 H10)
         |exact (fraction_value_correctly_rounded neg ds1 ds2 H3 H6 H7)].
Qed.

(* non-vacuity: 0.3 = 3 * 10^-1 on the fast path is 0x3FD3333333333333 (not ...34) *)
Example C05_example : sf_to_bits (fast_path 3 (-1) false) = 4599075939470750515
                      /\ fast_path_ok 3 (-1) = true.
Proof. vm_compute. split; reflexivity. Qed.

Print Assumptions C05_decimal_fraction_literal.
Print Assumptions C05_fast_path.
Print Assumptions C05_tables_exact.
