(* Properties_C12 -- accelerated scanning equals byte-at-a-time scanning.
   Statements only; every proof is [exact <lemma>] into Proofs/.
   Whole documents (reader fragment of Properties_C03/C13): the result of reading n bytes is stated for EVERY memory that
   holds the document in its first n bytes (so it cannot depend on what follows), and a gap -- k blanks, comments,
   discarded forms -- in front of a document only shifts every position of the tree by its length
   (C12_leading_gap_shifts_partial, to be read next to C11_every_range_rereads_partial which gives the unshifted tree). *)
From Coq Require Import ZArith NArith List Bool.
Import ListNotations.
From Coq.Strings Require Import Byte String.
From Verif Require Import Lanes Common Scan ScanFacts ScanProofs.
From Verif Require Import Values Reader Configs FlagProofs RoundTrip RoundTripGap RoundTripRange.
Local Open Scope N_scope.

(* the bytes m[p..e) as a list *)
Notation bytes_of m p e := (slice m p (N.to_nat (e - p))).

(* whitespace and comment skipping: for every memory, start offset and end offset *)
Theorem C12_skip_ws : forall m p e, p <= e ->
  skip_ws m p e = p + N.of_nat (skip_ws_spec false (bytes_of m p e)).
Proof. exact skip_ws_correct. Qed.

(* closing quote and escape flag *)
Theorem C12_find_quote : forall m p e, p <= e ->
  find_quote m p e = lift_q p (find_quote_spec false false 0 (bytes_of m p e)).
Proof. exact find_quote_correct. Qed.

(* digit runs *)
Theorem C12_scan_digits : forall m p e, p <= e ->
  scan_digits m p e = p + N.of_nat (scan_digits_spec (bytes_of m p e)).
Proof. exact scan_digits_correct. Qed.

(* identifier end, first slash and "::" detection, both code paths (<=16 and >16 bytes left) *)
Theorem C12_scan_identifier : forall m p e, p <= e ->
  scan_identifier m p e = lift_slash p (ident_spec false None 0 (bytes_of m p e)).
Proof. exact scan_identifier_correct. Qed.

(* line-feed index *)
Theorem C12_lf_index : forall m len,
  lf_index m len = lf_positions 0 (slice m 0 (N.to_nat len)).
Proof. exact lf_index_correct. Qed.

(* the result of scanning n bytes never depends on the bytes that follow them in memory *)
Theorem C12_frame : forall m1 m2 p e, p <= e -> agree m1 m2 p e ->
  scan_digits m1 p e = scan_digits m2 p e /\
  skip_ws m1 p e = skip_ws m2 p e /\
  find_quote m1 p e = find_quote m2 p e /\
  scan_identifier m1 p e = scan_identifier m2 p e.
Proof. exact scanners_frame. Qed.
Theorem C12_frame_lf : forall m1 m2 len, agree m1 m2 0 len -> lf_index m1 len = lf_index m2 len.
Proof. exact lf_index_frame. Qed.

(* the byte classes written in different places of the code agree (256-value sweeps over
   the generated predicates): vector lanes vs scalar tests, dispatcher pre-filter, number
   terminator set, tag adjacency set, delimiter table *)
Theorem C12_classes : forall b : byte,
  (is_ws_vec b = true -> is_ws b = true) /\
  is_digit_vec b = is_digit b /\
  is_lf_vec_findnl b = is_lf b /\ is_lf_vec_index b = is_lf b /\
  is_quote_vec b = is_quote b /\ is_bslash_vec b = is_bslash b /\
  prefilter (bz b) = (is_ws b || is_semi b) /\
  numdelim_ws (bz b) = prefilter (bz b) /\
  (is_ws b || is_semi b = true -> is_delim b = true) /\
  (tag_adjacent_ws (bz b) = true -> is_ws b = true).
Proof. exact classes_all. Qed.

(* non-vacuity: a concrete memory on which the premises hold and the scanners do work *)
Example C12_example :
  let l := ([" "; " "; ";"; "c"; "010"; ","; ","; " "]%byte
            ++ list_byte_of_string "12345678901234567890x"%string)%list in
  let m := fun i => nth (N.to_nat i) l "000"%byte in
  skip_ws m 0 29 = 8 /\ scan_digits m 8 29 = 28.
Proof. vm_compute. split; reflexivity. Qed.

(* a gap g in front of the document a: the run succeeds and at every node of the tree the range is the span of the
   sub-term's text counted from the end of the gap -- [full c m a' p n] says: nrs n = p, nre n = p + length, the text of a'
   stands at p, and n denotes a' *)
Theorem C12_leading_gap_shifts_partial : forall c o m g a, In c all_cfgs -> gapwf g -> alt g -> ends_ws g -> gwf a ->
  slice m 0 (List.length (gappr g ++ gpr a)) = gappr g ++ gpr a ->
  exists r s n, run_doc c o m (N.of_nat (List.length (gappr g ++ gpr a))) = Ret r s /\ r_value r = Some n /\ r_err r = EOk /\
                tree_all (full c m) a (N.of_nat (List.length (gappr g))) n.
Proof. exact leading_gap_shifts. Qed.
Theorem C12_no_gap_partial : forall c o m a, In c all_cfgs -> gwf a ->
  slice m 0 (List.length (gpr a)) = gpr a ->
  exists r s n, run_doc c o m (N.of_nat (List.length (gpr a))) = Ret r s /\ r_value r = Some n /\ r_err r = EOk /\
                tree_all (full c m) a 0 n.
Proof. exact read_document_ranges. Qed.

Print Assumptions C12_leading_gap_shifts_partial.
Print Assumptions C12_skip_ws.
Print Assumptions C12_find_quote.
Print Assumptions C12_scan_digits.
Print Assumptions C12_scan_identifier.
Print Assumptions C12_lf_index.
Print Assumptions C12_frame.
Print Assumptions C12_frame_lf.
Print Assumptions C12_classes.
