(* Properties_C07 -- equality / hashing.  Statements only.
   PARTIAL: what is proved here is what does NOT participate in equality and hashing
   (source ranges, metadata), the float corner cases, and the seed/fold facts; the
   equivalence-relation and equal=>hash-equal theorems over arbitrary trees are not yet
   proved and are carried by the correspondence check + oracles (all pairs/triples/histories). *)
From Coq Require Import ZArith NArith List Bool.
From Coq.Floats Require Import SpecFloat.
From Verif Require Import Lanes Common Values Floats Equality EqBasics.
Import ListNotations.

Section C07.
Variable c : cfg.
Variable xe : Z -> option (Z -> Z -> bool).
Variable xh : Z -> option (Z -> Z).

Theorem C07_metadata_not_in_equality : forall a b mm,
  equal c xe (set_meta a mm) b = equal c xe a b /\ equal c xe a (set_meta b mm) = equal c xe a b.
Proof. exact (meta_not_in_equality c xe). Qed.

Theorem C07_ranges_not_in_equality : forall a b s e, equal c xe (set_range a s e) b = equal c xe a b.
Proof. exact (equal_ignores_range c xe). Qed.

Theorem C07_metadata_not_in_hash : forall f v s1 e1 m1 h1 s2 e2 m2 h2,
  hash_fuel c xh f (Node v s1 e1 m1 h1) = hash_fuel c xh f (Node v s2 e2 m2 h2).
Proof. exact (hash_fuel_ignores c xh). Qed.

Theorem C07_nan_and_zeros :
  float_eq S754_nan S754_nan = true /\ float_eq (S754_zero false) (S754_zero true) = true /\
  float_hash_bits (S754_zero false) = float_hash_bits (S754_zero true).
Proof. exact nan_and_zeros. Qed.
End C07.

Print Assumptions C07_metadata_not_in_equality.
Print Assumptions C07_metadata_not_in_hash.
Print Assumptions C07_nan_and_zeros.
