(* Properties_C07 -- equality / hashing.  Statements only.
   PARTIAL: proved: (1) source ranges and metadata do not participate in equality or hashing,
   the float corner cases; (2) on the fragment without sets, maps and external values (scalars,
   big numbers, strings, symbols, keywords, lists, vectors, tagged values, nested below the
   depth cap) equality is "same normal form": reflexive, symmetric, transitive, and equal values
   hash alike -- for nodes whose cached hashes are coherent (0 or the computed hash), which is
   the state the library maintains; (3) the unrestricted reflexivity statement is refuted at
   the depth cap (finding K10); (4) history independence on the same fragment: computing and caching the
   hash of either or both operands never changes the answer of an equality query; (5) for WHOLE DOCUMENTS of the
   reader fragment (integers, keywords, lists, vectors) read independently from any two buffers: the two values are
   equal exactly when the terms have the same normal form -- in particular independently read copies of one text are
   equal, and a list equals the vector of the same elements.  Sets, maps, external
   values, and histories of lookups / string fetches are carried by the correspondence check + oracles
   (all pairs/triples/histories). *)
From Coq Require Import ZArith NArith List Bool.
From Coq.Floats Require Import SpecFloat.
From Verif Require Import Lanes Common Values Floats Equality EqBasics EqEquiv Configs History.
From Coq Require Import NArith.
From Verif Require Import Scan Reader FlagProofs RoundTrip RoundTripWs RoundTripEq.
Import ListNotations.

Section C07.
Variable c : cfg.
Variable xe : Z -> option (Z -> Z -> bool).
Variable xh : Z -> option (Z -> Z).

Theorem C07_metadata_not_in_equality : forall a b mm,
  equal c xe (set_meta a mm) b = equal c xe a b /\ equal c xe a (set_meta b mm) = equal c xe a b.
Proof. exact (meta_not_in_equality c xe). Qed.

Theorem C07_ranges_not_in_equality : forall a b s e, equal c xe (set_range a s e) b = equal c xe a b.
Proof. exact (equal_ignores_range c xe). Qed.

Theorem C07_metadata_not_in_hash : forall f v s1 e1 m1 h1 s2 e2 m2 h2,
  hash_fuel c xh f (Node v s1 e1 m1 h1) = hash_fuel c xh f (Node v s2 e2 m2 h2).
Proof. exact (hash_fuel_ignores c xh). Qed.

Theorem C07_nan_and_zeros :
  float_eq S754_nan S754_nan = true /\ float_eq (S754_zero false) (S754_zero true) = true /\
  float_hash_bits (S754_zero false) = float_hash_bits (S754_zero true).
Proof. exact nan_and_zeros. Qed.
Theorem C07_equivalence_partial : forall a b d,
  simple c a -> coherent c xh a -> coherent c xh b -> coherent c xh d ->
  equal c xe a a = true /\
  (equal c xe a b = true -> equal c xe b a = true) /\
  (equal c xe a b = true -> equal c xe b d = true -> equal c xe a d = true).
Proof.
  exact (fun a b d Hs Ha Hb Hd => conj (equal_refl c xe xh a Hs Ha)
           (conj (equal_sym c xe xh a b Hs Ha Hb) (equal_trans c xe xh a b d Hs Ha Hb Hd))).
Qed.

Theorem C07_equal_values_hash_alike_partial : forall a b,
  simple c a -> coherent c xh a -> coherent c xh b ->
  equal c xe a b = true -> hash_value c xh a = hash_value c xh b.
Proof. exact (equal_same_hash c xe xh). Qed.

(* history independence: hashing (and thereby caching the hash of) either or both operands first does not
   change the answer *)
Theorem C07_equal_unchanged_by_hashing_partial : forall a b,
  simple c a -> coherent c xh a -> coherent c xh b ->
  equal c xe (hash_cache c xh a) (hash_cache c xh b) = equal c xe a b /\
  equal c xe (hash_cache c xh a) b = equal c xe a b /\ equal c xe a (hash_cache c xh b) = equal c xe a b.
Proof. exact (equal_after_hashing c xe xh). Qed.

(* equality is exactly "same normal form" on the fragment *)
Theorem C07_equal_iff_same_normal_form_partial : forall f a b va,
  nf c f a = Some va -> cache_ok c xh f a -> cache_ok c xh f b ->
  (equal_fuel c xe f a b = true <-> nf c f b = Some va).
Proof. exact (equal_iff_nf c xe xh). Qed.
End C07.


(* independently read documents of the reader fragment (Properties_C03): equality of the two values read is equality
   of the normal forms of the two terms -- copies of the same text are equal, (1 2) = [1 2], 1 <> 1N ... *)
Theorem C07_read_documents_equal_iff_partial : forall c o m1 m2 a1 a2, In c all_cfgs -> awf a1 -> awf a2 ->
  (tdepth (erase a1) <= max_depth)%nat -> (tdepth (erase a2) <= max_depth)%nat ->
  slice m1 0 (List.length (prg a1)) = prg a1 -> slice m2 0 (List.length (prg a2)) = prg a2 ->
  exists r1 s1 n1 r2 s2 n2,
    run_doc c o m1 (N.of_nat (List.length (prg a1))) = Ret r1 s1 /\ r_value r1 = Some n1 /\
    run_doc c o m2 (N.of_nat (List.length (prg a2))) = Ret r2 s2 /\ r_value r2 = Some n2 /\
    (equal c no_ext_equal n1 n2 = true <-> canon c (erase a1) = canon c (erase a2)).
Proof. exact documents_equal_iff. Qed.
Example C07_list_equals_vector : forall c l, canon c (TList l) = canon c (TVec l).
Proof. reflexivity. Qed.

(* the unrestricted statement "two structurally identical values are equal" is false of the
   code as it stands: two copies of a vector nested 100 deep (finding K10); one level less is fine *)
Theorem C07_reflexive_refuted :
  equal cfg00 (fun _ => None) (deep 100) (deep 100) = false /\ equal cfg00 (fun _ => None) (deep 99) (deep 99) = true.
Proof. split; vm_compute; reflexivity. Qed.

(* non-vacuity of the fragment: a nested value with a list, a vector, a tagged value and strings *)
Example C07_fragment_inhabited :
  simple cfg00 (mk (VList [mk (VVector [mk (VInt 1) 0 0; mk (VString [] false None) 0 0]) 0 0;
                           mk (VTagged [] (mk (VKeyword None []) 0 0)) 0 0]) 0 0).
Proof. eexists. vm_compute. reflexivity. Qed.

Print Assumptions C07_equal_unchanged_by_hashing_partial.
Print Assumptions C07_read_documents_equal_iff_partial.
Print Assumptions C07_metadata_not_in_equality.
Print Assumptions C07_metadata_not_in_hash.
Print Assumptions C07_nan_and_zeros.
Print Assumptions C07_equal_unchanged_by_hashing_partial.
Print Assumptions C07_equivalence_partial.
Print Assumptions C07_equal_values_hash_alike_partial.
Print Assumptions C07_reflexive_refuted.
