(* Properties_C13 -- trivia and discarded forms never change the value read.  Statements only.
   Proved: at the scanner level trivia insertion only advances the scanner; at the READER level, wherever a form
   is about to be read (top level, element of any collection, operand of a tag / discard / metadata marker) a run of
   trivia standing at the cursor is absorbed with no effect on any component of the outcome
   (C13_reader_absorbs_trivia); input consisting only of trivia reads as end of input -- the end-of-input error, or
   exactly the caller's end-of-input value with no error (C13_trivia_only_document); no handler is invoked while a
   form is being discarded and the flag is restored.
   On the fragment of Properties_C03 (integers, keywords, vectors, lists; any size and nesting) two whole documents that
   render one term with DIFFERENT trivia are read to values that edn_value_equal judges equal and that hash alike
   (C13_renderings_read_equal; nesting below the equality's own depth cap, finding K10).
   The same with DISCARDED FORMS in every gap (C13_gaps_never_change_the_value): any alternation of trivia runs and
   discards  #_ <trivia> <form>  whose form is again any term of the grammar (discards nest; discarded collections
   contain discards) may stand in front of each element and of the closer.
   With TAGS in the documents (and a registry): the invocation log of a whole document is the post-order list of its
   non-discarded registered tagged elements -- whatever tagged forms stand inside the discarded forms of any gap, none of
   them reaches a handler (C13_discards_never_reach_handlers_partial).
   PARTIAL: the document-level theorems cover the fragment only; the other kinds, handler call logs and shifted positions
   are decided by the correspondence run + metamorphic oracle. *)
From Coq Require Import ZArith NArith List Bool String.
From Coq.Strings Require Import Byte.
From Verif Require Import Lanes Common Values Scan Reader ScanProofs TriviaProofs TriviaReader DiscardInv.
From Verif Require Import Equality Configs FlagProofs RoundTrip RoundTripWs RoundTripEq RoundTripGap RoundTripTag.
Import ListNotations.

(* whitespace bytes, commas and LF-terminated comments in front of anything: the scanner
   result moves by exactly their length *)
Theorem C13_trivia_insertion : forall t l, trivia t ->
  skip_ws_spec false (t ++ l) = (List.length t + skip_ws_spec false l)%nat.
Proof. exact trivia_insertion. Qed.

Theorem C13_skip_ws_trivia : forall m p e t,
  (p <= e)%N -> trivia t -> (N.of_nat (List.length t) <= e - p)%N -> slice m p (List.length t) = t ->
  skip_ws m p e = skip_ws m (p + N.of_nat (List.length t)) e.
Proof. exact skip_ws_trivia_insertion. Qed.

(* input consisting only of trivia (incl. a final comment without LF) is consumed entirely *)
Theorem C13_trivia_only : forall t st, ws_state false t = Some st -> skip_ws_spec false t = List.length t.
Proof. exact trivia_only. Qed.

(* tag handlers are never invoked for anything inside a discarded form, and every reader
   restores the discard flag: all eight readers, every fuel, input, registry and handler *)
Theorem C13_no_handler_in_discarded_form : forall c o handler xe xh sort m e f s v s',
  discard s = true -> read_value c o handler xe xh sort m e f s = Ret v s' -> calls s' = calls s.
Proof. exact discarded_form_calls_no_handler. Qed.

Theorem C13_discard_flag_restored : forall c o handler xe xh sort m e f,
  Qv (read_value c o handler xe xh sort m e f).
Proof. exact (fun c o handler xe xh sort m e f => proj1 (readers_quiet c o handler xe xh sort m e f)). Qed.

(* the reader started in front of a run of trivia returns exactly what it returns when started behind it *)
Theorem C13_reader_absorbs_trivia : forall c o handler xe xh sort m e f s t,
  trivia t -> t <> [] -> slice m (cur s) (List.length t) = t -> (cur s + N.of_nat (List.length t) <= e)%N ->
  form_starts m e (cur s + N.of_nat (List.length t))%N ->
  read_value c o handler xe xh sort m e (S f) s =
  read_value c o handler xe xh sort m e (S f) (with_cur s (cur s + N.of_nat (List.length t))%N).
Proof. exact read_value_absorbs_trivia. Qed.

(* a document consisting only of trivia: end-of-input error, or the caller's end-of-input value with no error;
   no value, no handler call *)
Theorem C13_trivia_only_document : forall c o handler xe xh sort m e f t st,
  ws_state false t = Some st -> slice m 0 (N.to_nat e) = t -> List.length t = N.to_nat e ->
  exists r s', read_doc c o handler xe xh sort m e (S f) = Ret r s' /\ r_value r = None /\
    (if has_eof_value o then r_eof r = true /\ r_err r = EOk else r_eof r = false /\ r_err r = EEof) /\
    calls (r_state r) = [].
Proof. exact read_doc_trivia_only. Qed.


(* whole documents of the fragment: whatever trivia two renderings of one term contain, the two runs succeed and the
   two values are equal under the library's equality and have the same hash *)
Theorem C13_renderings_read_equal : forall c o m1 m2 a1 a2, In c all_cfgs -> awf a1 -> awf a2 -> erase a1 = erase a2 ->
  (tdepth (erase a1) <= max_depth)%nat ->
  slice m1 0 (List.length (prg a1)) = prg a1 -> slice m2 0 (List.length (prg a2)) = prg a2 ->
  exists r1 s1 n1 r2 s2 n2,
    run_doc c o m1 (N.of_nat (List.length (prg a1))) = Ret r1 s1 /\ r_value r1 = Some n1 /\ r_err r1 = EOk /\
    run_doc c o m2 (N.of_nat (List.length (prg a2))) = Ret r2 s2 /\ r_value r2 = Some n2 /\ r_err r2 = EOk /\
    equal c no_ext_equal n1 n2 = true /\ hash_value c no_ext_hash n1 = hash_value c no_ext_hash n2.
Proof. exact renderings_read_equal. Qed.
(* ... and whatever discarded forms: both renderings are accepted, denote the same term, are equal and hash alike *)
Theorem C13_gaps_never_change_the_value : forall c o m1 m2 a1 a2, In c all_cfgs -> gwf a1 -> gwf a2 -> gerase a1 = gerase a2 ->
  (tdepth (gerase a1) <= max_depth)%nat ->
  slice m1 0 (List.length (gpr a1)) = gpr a1 -> slice m2 0 (List.length (gpr a2)) = gpr a2 ->
  exists r1 s1 n1 r2 s2 n2,
    run_doc c o m1 (N.of_nat (List.length (gpr a1))) = Ret r1 s1 /\ r_value r1 = Some n1 /\ r_err r1 = EOk /\
    run_doc c o m2 (N.of_nat (List.length (gpr a2))) = Ret r2 s2 /\ r_value r2 = Some n2 /\ r_err r2 = EOk /\
    denotes c (gerase a1) n1 /\ denotes c (gerase a1) n2 /\
    equal c no_ext_equal n1 n2 = true /\ hash_value c no_ext_hash n1 = hash_value c no_ext_hash n2.
Proof. exact gaps_never_change_the_value. Qed.
(* tags: the log of the whole run is the list cs of the denotation, and the denotation of every form read while
   discarding carries the empty list -- so the discarded forms in the gaps (any tags inside them) contribute nothing *)
Theorem C13_discards_never_reach_handlers_partial : forall c o m a, In c all_cfgs -> hwf a -> hok o builtin_handler a ->
  slice m 0 (List.length (hpr a)) = hpr a ->
  (exists r s n cs, run_doc c o m (N.of_nat (List.length (hpr a))) = Ret r s /\
                    r_value r = Some n /\ r_err r = EOk /\ r_eof r = false /\
                    hden c o builtin_handler false a n cs /\ calls (r_state r) = cs) /\
  (forall a' n' cs', hden c o builtin_handler true a' n' cs' -> cs' = []).
Proof. exact (fun c o m a Hc Hw Hk Hs => conj (read_document_tags c o m a Hc Hw Hk Hs) (proj1 (hden_discarding c o builtin_handler))). Qed.

(* non-vacuity:  [#_:x 1 #_[2 #_ 3 4] , (:a #_(;c<LF>) -20) #_ 7]  renders  [1 (:a -20)]  *)
Example C13_gap_example :
  let d1 := GDisc [] (GKw ["x"%byte]) in
  let d2 := GDisc [] (GSeq true [([], GInt false ["2"%byte]); ([GWs [" "%byte]; GDisc [" "%byte] (GInt false ["3"%byte]); GWs [" "%byte]], GInt false ["4"%byte])] []) in
  let d3 := GDisc [] (GSeq false [] [GWs [";"; "c"; "010"]%byte]) in
  let a := GSeq true [([d1; GWs [" "%byte]], GInt false ["1"%byte]);
                      ([GWs [" "%byte]; d2; GWs [" "; ","; " "]%byte], GSeq false [([], GKw ["a"%byte]); ([GWs [" "%byte]; d3; GWs [" "%byte]], GInt true ["2"; "0"]%byte)] [])]
                     [GWs [" "%byte]; GDisc [" "%byte] (GInt false ["7"%byte])] in
  gwf a /\ gpr a = list_byte_of_string ("[#_:x 1 #_[2 #_ 3 4] , (:a #_(;c" ++ String (Ascii.ascii_of_nat 10) ") -20) #_ 7]") /\
  gerase a = TVec [TInt false ["1"%byte]; TList [TKw ["a"%byte]; TInt true ["2"; "0"]%byte]] /\
  (tdepth (gerase a) <= max_depth)%nat.
Proof. exact gap_example. Qed.

(* non-vacuity: "[1, ( :a;c<LF>-20<TAB>),[] ]" is such a rendering of [1 (:a -20) []] *)
Example C13_rendering_example :
  let a := ASeq true [([], AInt false ["1"%byte]); ([","; " "]%byte, ASeq false [([" "]%byte, AKw ["a"%byte]); ([";"; "c"; "010"]%byte, AInt true ["2"; "0"]%byte)] ["009"%byte]);
                      ([","]%byte, ASeq true [] [])] [" "]%byte in
  awf a /\ prg a = list_byte_of_string ("[1, ( :a;c" ++ String (Ascii.ascii_of_nat 10) ("-20" ++ String (Ascii.ascii_of_nat 9) "),[] ]")) /\
  erase a = TVec [TInt false ["1"%byte]; TList [TKw ["a"%byte]; TInt true ["2"; "0"]%byte]; TVec []] /\
  (tdepth (erase a) <= max_depth)%nat.
Proof. exact rendering_example. Qed.

Example C13_example : trivia [" "; ","; ";"; "x"; "010"; "009"]%byte.
Proof. reflexivity. Qed.

Print Assumptions C13_renderings_read_equal.
Print Assumptions C13_gaps_never_change_the_value.
Print Assumptions C13_discards_never_reach_handlers_partial.
Print Assumptions C13_reader_absorbs_trivia.
Print Assumptions C13_trivia_only_document.
Print Assumptions C13_trivia_insertion.
Print Assumptions C13_skip_ws_trivia.
Print Assumptions C13_no_handler_in_discarded_form.
