(* Properties_C13 -- trivia and discarded forms never change the value read.  Statements only.
   PARTIAL: proved at the scanner level (trivia insertion only advances the scanner) and for
   the handler-suppression part (no handler is invoked while a form is being discarded, the
   flag is restored); the reader-level statement "inserting trivia between two forms leaves the
   value unchanged" is decided by the correspondence run + metamorphic oracle. *)
From Coq Require Import ZArith NArith List Bool.
From Coq.Strings Require Import Byte.
From Verif Require Import Lanes Common Values Scan Reader ScanProofs TriviaProofs DiscardInv.
Import ListNotations.

(* whitespace bytes, commas and LF-terminated comments in front of anything: the scanner
   result moves by exactly their length *)
Theorem C13_trivia_insertion : forall t l, trivia t ->
  skip_ws_spec false (t ++ l) = (List.length t + skip_ws_spec false l)%nat.
Proof. exact trivia_insertion. Qed.

Theorem C13_skip_ws_trivia : forall m p e t,
  (p <= e)%N -> trivia t -> (N.of_nat (List.length t) <= e - p)%N -> slice m p (List.length t) = t ->
  skip_ws m p e = skip_ws m (p + N.of_nat (List.length t)) e.
Proof. exact skip_ws_trivia_insertion. Qed.

(* input consisting only of trivia (incl. a final comment without LF) is consumed entirely *)
Theorem C13_trivia_only : forall t st, ws_state false t = Some st -> skip_ws_spec false t = List.length t.
Proof. exact trivia_only. Qed.

(* tag handlers are never invoked for anything inside a discarded form, and every reader
   restores the discard flag: all eight readers, every fuel, input, registry and handler *)
Theorem C13_no_handler_in_discarded_form : forall c o handler xe xh sort m e f s v s',
  discard s = true -> read_value c o handler xe xh sort m e f s = Ret v s' -> calls s' = calls s.
Proof. exact discarded_form_calls_no_handler. Qed.

Theorem C13_discard_flag_restored : forall c o handler xe xh sort m e f,
  Qv (read_value c o handler xe xh sort m e f).
Proof. exact (fun c o handler xe xh sort m e f => proj1 (readers_quiet c o handler xe xh sort m e f)). Qed.

Example C13_example : trivia [" "; ","; ";"; "x"; "010"; "009"]%byte.
Proof. reflexivity. Qed.

Print Assumptions C13_trivia_insertion.
Print Assumptions C13_skip_ws_trivia.
Print Assumptions C13_no_handler_in_discarded_form.
