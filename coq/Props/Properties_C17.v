(* Properties_C17 -- reading is deterministic, reentrant and leaves the input untouched.
   Statements only.  PARTIAL: the model is a pure function of (configuration, options,
   handlers, input bytes, length) and has no store to write to, so determinism of the MODEL is
   by construction; what carries weight is
   (1) the audit obligation GENERATED from the source on every run: the only mutable
       file-scope object in the library is the external-type table, which reading never touches;
   (2) the frame theorems: every chunked scanner's result depends only on bytes inside
       [ptr, end) -- nothing outside the input (earlier reads, heap layout) can influence it;
   (3) the correspondence run: the one model function is compared with five builds, three
       positions in a read history, read-only input pages and up to 16 threads under TSan. *)
From Coq Require Import ZArith NArith List Bool String.
From Verif Require Import Lanes Common Values Scan Reader Configs ScanProofs Audit.
From Verif Require G00 G10 G01 G11.
Import ListNotations.
Local Open Scope N_scope.

Theorem C17_only_mutable_global :
  G00.mutable_globals = ["edn.c:g_external_type_registry"%string] /\ G10.mutable_globals = ["edn.c:g_external_type_registry"%string] /\
  G01.mutable_globals = ["edn.c:g_external_type_registry"%string] /\ G11.mutable_globals = ["edn.c:g_external_type_registry"%string].
Proof. exact only_mutable_global. Qed.

Theorem C17_scanners_depend_on_input_only : forall m1 m2 p e, p <= e -> agree m1 m2 p e ->
  scan_digits m1 p e = scan_digits m2 p e /\ skip_ws m1 p e = skip_ws m2 p e /\
  find_quote m1 p e = find_quote m2 p e /\ scan_identifier m1 p e = scan_identifier m2 p e.
Proof. exact scanners_frame. Qed.

Theorem C17_line_index_depends_on_input_only : forall m1 m2 len, agree m1 m2 0 len -> lf_index m1 len = lf_index m2 len.
Proof. exact lf_index_frame. Qed.

Print Assumptions C17_only_mutable_global.
Print Assumptions C17_scanners_depend_on_input_only.
