(* Properties_C08 -- duplicate detection.  Statements only.
   Proved: the pairwise strategy (<= LINEAR_THRESHOLD elements, and the fallback of the other two) finds exactly
   the equal pairs; the HASH-TABLE strategy (open addressing, linear probing, power-of-two table) gives, for every
   list of fewer than 2^64 elements and whatever their hashes are, exactly the pairwise verdict on the same elements
   with their hashes cached, and never takes its "table full" fallback (C08_hash_strategy).
   The SORT-BASED strategy gives exactly the pairwise verdict for ANY sorting function whose result is a
   comparator-ordered permutation of its input (qsort is libc's), on the values it is entered with: scalars fresh from
   the reader (no cached hash; names and strings shorter than 2^31 bytes, the comparator truncates length differences
   to int) -- the comparator is proved to be a total preorder whose zero set is equality on these values, floats
   included (C08_sort_strategy); the insertion sort of the executable model meets the assumption (C08_sort_strategy_model).
   Together with C07's history independence: on the sequence fragment (scalars, big numbers, strings, names, lists,
   vectors, tagged values below the depth cap, coherent hash caches) the verdict of the reader's duplicate check is the
   pairwise verdict of the elements at EVERY size (C08_verdict_is_pairwise_partial).
   PARTIAL: elements that are sets, maps or external values (history independence is proved on the sequence fragment
   only) and qsort itself (assumed to return a comparator-ordered permutation). *)
From Coq Require Import ZArith NArith List Bool Permutation Sorted.
From Coq.Strings Require Import Byte.
From Verif Require Import Lanes Common Values Equality EqBasics EqEquiv Configs FlagProofs HashDup SortDup History.
Import ListNotations.

Section C08.
Variable c : cfg.
Variable xe : Z -> option (Z -> Z -> bool).
Variable xh : Z -> option (Z -> Z).
Variable sort : list node -> list node.

Theorem C08_linear : forall l, dup_linear c xe l = true <-> has_equal_pair c xe l.
Proof. exact (dup_linear_iff c xe). Qed.

(* up to the GENERATED threshold the reader's check is the pairwise one *)
Theorem C08_small : forall l, (2 <= Z.of_nat (List.length l) <= LINEAR_THRESHOLD)%Z ->
  fst (has_duplicates c xe xh sort l) = dup_linear c xe l.
Proof. exact (has_duplicates_small c xe xh sort). Qed.

(* the sort-based strategy is only entered when every element is of a kind whose comparator
   is consistent with equality (the fix recorded in known_findings.json) *)
Theorem C08_sorted_gate : forall l,
  forallb sort_comparable l = false -> dup_sorted c xe sort l = dup_linear c xe l.
Proof. exact (dup_sorted_gate c xe sort). Qed.

(* the hash-table strategy: same verdict as comparing all pairs of the (hash-cached) elements *)
Theorem C08_hash_strategy : forall l, (Z.of_nat (List.length l) < 2 ^ 64)%Z ->
  fst (dup_hash c xe xh sort l) = dup_linear c xe (map (hash_cache c xh) l).
Proof. exact (dup_hash_correct c xe xh sort). Qed.
End C08.

(* the sort-based strategy, for any sorting function that returns a comparator-ordered permutation *)
Theorem C08_sort_strategy : forall (c : cfg) xe (sort : list node -> list node) l, In c all_cfgs ->
  Forall sdom l -> Permutation (sort l) l -> StronglySorted (fun a b => (compare_nodes c a b <= 0)%Z) (sort l) ->
  dup_sorted c xe sort l = dup_linear c xe l.
Proof. intros c xe sort l Hc. apply dup_sorted_correct. now apply tags_inj_all. Qed.
(* and for the sorting function of the executable model *)
Theorem C08_sort_strategy_model : forall (c : cfg) xe l, In c all_cfgs -> Forall sdom l ->
  dup_sorted c xe (isort c) l = dup_linear c xe l.
Proof. exact dup_sorted_model. Qed.
(* the comparator on these values: zero exactly on equal values *)
Theorem C08_comparator_zero_is_equality : forall (c : cfg) xe a b, In c all_cfgs -> sdom a -> sdom b ->
  (equal c xe a b = true <-> compare_nodes c a b = 0%Z).
Proof. intros c xe a b Hc. apply cmp_eq_model. now apply tags_inj_all. Qed.

(* every size: the verdict of edn_has_duplicates (model) is the pairwise verdict of the elements *)
Theorem C08_verdict_is_pairwise_partial : forall (c : cfg) xe xh (sort : list node -> list node) l, In c all_cfgs ->
  Forall (simple c) l -> Forall (coherent c xh) l -> (Z.of_nat (List.length l) < 2 ^ 64)%Z ->
  (forallb sort_comparable l = true -> Forall sdom l /\ Permutation (sort l) l /\
                                       StronglySorted (fun a b => (compare_nodes c a b <= 0)%Z) (sort l)) ->
  fst (has_duplicates c xe xh sort l) = dup_linear c xe l.
Proof. intros c xe xh sort l Hc. apply has_duplicates_pairwise. now apply tags_inj_all. Qed.

(* non-vacuity: a list the theorem applies to, with a duplicate the strategy must find: (2.5 "b" :k 7 -0.0 "b") *)
Example C08_sort_example :
  let l := [mk (VFloat (SpecFloat.S754_finite false 5 (-1))) 0 1; mk (VString ["b"%byte] false None) 2 3;
            mk (VKeyword None ["k"%byte]) 4 5; mk (VInt 7) 6 7; mk (VFloat (SpecFloat.S754_zero true)) 8 9;
            mk (VString ["b"%byte] false None) 10 11] in
  forallb sort_comparable l = true /\ dup_sorted cfg00 (fun _ => None) (isort cfg00) l = true.
Proof. vm_compute. split; reflexivity. Qed.

Print Assumptions C08_verdict_is_pairwise_partial.
Print Assumptions C08_sort_strategy.
Print Assumptions C08_sort_strategy_model.
Print Assumptions C08_hash_strategy.
Print Assumptions C08_linear.
Print Assumptions C08_small.
Print Assumptions C08_sorted_gate.
