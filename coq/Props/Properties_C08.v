(* Properties_C08 -- duplicate detection.  Statements only.
   PARTIAL: proved for the pairwise strategy (<= LINEAR_THRESHOLD elements, and the fallback of
   the other two); the sort-based and hash-based strategies are tied by correspondence and the
   oracle only (their theorems need the equivalence/hash-consistency results of C07). *)
From Coq Require Import ZArith NArith List Bool.
From Verif Require Import Lanes Common Values Equality EqBasics.
Import ListNotations.

Section C08.
Variable c : cfg.
Variable xe : Z -> option (Z -> Z -> bool).
Variable xh : Z -> option (Z -> Z).
Variable sort : list node -> list node.

Theorem C08_linear : forall l, dup_linear c xe l = true <-> has_equal_pair c xe l.
Proof. exact (dup_linear_iff c xe). Qed.

(* up to the GENERATED threshold the reader's check is the pairwise one *)
Theorem C08_small : forall l, (2 <= Z.of_nat (List.length l) <= LINEAR_THRESHOLD)%Z ->
  fst (has_duplicates c xe xh sort l) = dup_linear c xe l.
Proof. exact (has_duplicates_small c xe xh sort). Qed.

(* the sort-based strategy is only entered when every element is of a kind whose comparator
   is consistent with equality (the fix recorded in known_findings.json) *)
Theorem C08_sorted_gate : forall l,
  forallb sort_comparable l = false -> dup_sorted c xe sort l = dup_linear c xe l.
Proof. exact (dup_sorted_gate c xe sort). Qed.
End C08.

Print Assumptions C08_linear.
Print Assumptions C08_small.
Print Assumptions C08_sorted_gate.
