(* Properties_C08 -- duplicate detection.  Statements only.
   Proved: the pairwise strategy (<= LINEAR_THRESHOLD elements, and the fallback of the other two) finds exactly
   the equal pairs; the HASH-TABLE strategy (open addressing, linear probing, power-of-two table) gives, for every
   list of fewer than 2^64 elements and whatever their hashes are, exactly the pairwise verdict on the same elements
   with their hashes cached, and never takes its "table full" fallback (C08_hash_strategy).
   The SORT-BASED strategy gives exactly the pairwise verdict for ANY sorting function whose result is a
   comparator-ordered permutation of its input (qsort is libc's), on the values it is entered with: scalars fresh from
   the reader (no cached hash; names and strings shorter than 2^31 bytes, the comparator truncates length differences
   to int) -- the comparator is proved to be a total preorder whose zero set is equality on these values, floats
   included (C08_sort_strategy); the insertion sort of the executable model meets the assumption (C08_sort_strategy_model).
   Together with C07's history independence: on the sequence fragment (scalars, big numbers, strings, names, lists,
   vectors, tagged values below the depth cap, coherent hash caches) the verdict of the reader's duplicate check is the
   pairwise verdict of the elements at EVERY size (C08_verdict_is_pairwise_partial).
   WHOLE DOCUMENTS: a set literal  #{ ... }  whose elements are terms of the reader fragment (integers, keywords, nested
   lists and vectors; any trivia and discarded forms in the gaps; ANY number of elements below 2^64) is rejected with the
   class "duplicate element" exactly when two of its elements are equal (same normal form), wherever the pair stands, and
   is otherwise accepted as a set of all its elements; the condition is invariant under permutation (C08_set_literal_partial).
   Likewise a MAP literal  { k1 v1 ... kn vn }  is rejected with the class "duplicate key" exactly when two of its keys are
   equal and otherwise accepted with all n entries, the values in order (C08_map_literal_partial).
   PARTIAL: elements that are sets, maps or external values (history independence is proved on the sequence fragment
   only) and qsort itself (assumed to return a comparator-ordered permutation). *)
From Coq Require Import ZArith NArith List Bool Permutation Sorted.
From Coq.Strings Require Import Byte.
From Verif Require Import Lanes Common Values Equality EqBasics EqEquiv Configs FlagProofs HashDup SortDup History.
From Verif Require Import Scan Reader RoundTrip RoundTripEq RoundTripGap RoundTripErr RoundTripSet RoundTripMap.
From Coq Require Import String.
Import ListNotations.

Section C08.
Variable c : cfg.
Variable xe : Z -> option (Z -> Z -> bool).
Variable xh : Z -> option (Z -> Z).
Variable sort : list node -> list node.

Theorem C08_linear : forall l, dup_linear c xe l = true <-> has_equal_pair c xe l.
Proof. exact (dup_linear_iff c xe). Qed.

(* up to the GENERATED threshold the reader's check is the pairwise one *)
Theorem C08_small : forall l, (2 <= Z.of_nat (List.length l) <= LINEAR_THRESHOLD)%Z ->
  fst (has_duplicates c xe xh sort l) = dup_linear c xe l.
Proof. exact (has_duplicates_small c xe xh sort). Qed.

(* the sort-based strategy is only entered when every element is of a kind whose comparator
   is consistent with equality (the fix recorded in known_findings.json) *)
Theorem C08_sorted_gate : forall l,
  forallb sort_comparable l = false -> dup_sorted c xe sort l = dup_linear c xe l.
Proof. exact (dup_sorted_gate c xe sort). Qed.

(* the hash-table strategy: same verdict as comparing all pairs of the (hash-cached) elements *)
Theorem C08_hash_strategy : forall l, (Z.of_nat (List.length l) < 2 ^ 64)%Z ->
  fst (dup_hash c xe xh sort l) = dup_linear c xe (map (hash_cache c xh) l).
Proof. exact (dup_hash_correct c xe xh sort). Qed.
End C08.

(* the sort-based strategy, for any sorting function that returns a comparator-ordered permutation *)
Theorem C08_sort_strategy : forall (c : cfg) xe (sort : list node -> list node) l, In c all_cfgs ->
  Forall sdom l -> Permutation (sort l) l -> StronglySorted (fun a b => (compare_nodes c a b <= 0)%Z) (sort l) ->
  dup_sorted c xe sort l = dup_linear c xe l.
Proof. intros c xe sort l Hc. apply dup_sorted_correct. now apply tags_inj_all. Qed.
(* and for the sorting function of the executable model *)
Theorem C08_sort_strategy_model : forall (c : cfg) xe l, In c all_cfgs -> Forall sdom l ->
  dup_sorted c xe (isort c) l = dup_linear c xe l.
Proof. exact dup_sorted_model. Qed.
(* the comparator on these values: zero exactly on equal values *)
Theorem C08_comparator_zero_is_equality : forall (c : cfg) xe a b, In c all_cfgs -> sdom a -> sdom b ->
  (equal c xe a b = true <-> compare_nodes c a b = 0%Z).
Proof. intros c xe a b Hc. apply cmp_eq_model. now apply tags_inj_all. Qed.

(* every size: the verdict of edn_has_duplicates (model) is the pairwise verdict of the elements *)
Theorem C08_verdict_is_pairwise_partial : forall (c : cfg) xe xh (sort : list node -> list node) l, In c all_cfgs ->
  Forall (simple c) l -> Forall (coherent c xh) l -> (Z.of_nat (List.length l) < 2 ^ 64)%Z ->
  (forallb sort_comparable l = true -> Forall sdom l /\ Permutation (sort l) l /\
                                       StronglySorted (fun a b => (compare_nodes c a b <= 0)%Z) (sort l)) ->
  fst (has_duplicates c xe xh sort l) = dup_linear c xe l.
Proof. intros c xe xh sort l Hc. apply has_duplicates_pairwise. now apply tags_inj_all. Qed.

(* non-vacuity: a list the theorem applies to, with a duplicate the strategy must find: (2.5 "b" :k 7 -0.0 "b") *)
Example C08_sort_example :
  let l := [mk (VFloat (SpecFloat.S754_finite false 5 (-1))) 0 1; mk (VString ["b"%byte] false None) 2 3;
            mk (VKeyword None ["k"%byte]) 4 5; mk (VInt 7) 6 7; mk (VFloat (SpecFloat.S754_zero true)) 8 9;
            mk (VString ["b"%byte] false None) 10 11] in
  forallb sort_comparable l = true /\ dup_sorted cfg00 (fun _ => None) (isort cfg00) l = true.
Proof. vm_compute. split; reflexivity. Qed.

(* whole documents: the set literal  #{ g1 x1 ... gk xk tl }  *)
Theorem C08_set_literal_partial : forall c o m els tl, In c all_cfgs -> setwf els tl ->
  let ts := map (fun p => gerase (snd p)) els in
  Forall (fun t => (tdepth t <= max_depth)%nat) ts -> Forall tsmall ts -> (Z.of_nat (List.length els) < 2 ^ 64)%Z ->
  slice m 0 (List.length (settext els tl)) = settext els tl ->
  exists r s, run_doc c o m (N.of_nat (List.length (settext els tl))) = Ret r s /\ r_eof r = false /\
    ((has_equal_terms c ts /\ r_value r = None /\ r_err r = EDupElem) \/
     (~ has_equal_terms c ts /\ r_err r = EOk /\ exists n xs', r_value r = Some n /\ nval n = VSet xs' /\ List.length xs' = List.length els)).
Proof. exact set_document. Qed.
Theorem C08_condition_permutation_invariant : forall c ts ts', Permutation ts ts' -> has_equal_terms c ts -> has_equal_terms c ts'.
Proof. exact has_equal_terms_perm. Qed.
(* non-vacuity:  #{1 :a, [1 2] #_:x (1 2) }  -- a list equals the vector of the same elements *)
Example C08_set_example :
  let els := [([], GInt false ["1"%byte]); ([GWs [" "%byte]], GKw ["a"%byte]); ([GWs [","; " "]%byte], GSeq true [([], GInt false ["1"%byte]); ([GWs [" "%byte]], GInt false ["2"%byte])] []);
              ([GWs [" "%byte]; GDisc [] (GKw ["x"%byte]); GWs [" "%byte]], GSeq false [([], GInt false ["1"%byte]); ([GWs [" "%byte]], GInt false ["2"%byte])] [])] in
  setwf els [GWs [" "%byte]] /\ settext els [GWs [" "%byte]] = list_byte_of_string "#{1 :a, [1 2] #_:x (1 2) }" /\
  has_equal_terms cfg00 (map (fun p => gerase (snd p)) els).
Proof. exact set_example. Qed.

(* whole documents: the map literal  { g1 k1 h1 v1 ... gn kn hn vn tl }  *)
Theorem C08_map_literal_partial : forall c o m l tl, In c all_cfgs -> mapwf l None tl ->
  let ts := map (fun en => gerase (ekey en)) l in
  Forall (fun t => (tdepth t <= max_depth)%nat) ts -> Forall tsmall ts -> (Z.of_nat (List.length l) < 2 ^ 64)%Z ->
  slice m 0 (List.length (maptext l None tl)) = maptext l None tl ->
  exists r s, run_doc c o m (N.of_nat (List.length (maptext l None tl))) = Ret r s /\ r_eof r = false /\
    ((has_equal_terms c ts /\ r_value r = None /\ r_err r = EDupKey) \/
     (~ has_equal_terms c ts /\ r_err r = EOk /\
      exists n ks' vx, r_value r = Some n /\ nval n = VMap ks' vx /\ List.length ks' = List.length l /\
                       Forall2 (denotes c) (map (fun en => gerase (eval_ en)) l) vx)).
Proof. exact map_document. Qed.

Print Assumptions C08_map_literal_partial.
Print Assumptions C08_set_literal_partial.
Print Assumptions C08_verdict_is_pairwise_partial.
Print Assumptions C08_sort_strategy.
Print Assumptions C08_sort_strategy_model.
Print Assumptions C08_hash_strategy.
Print Assumptions C08_linear.
Print Assumptions C08_small.
Print Assumptions C08_sorted_gate.
