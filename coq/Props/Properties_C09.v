(* Properties_C09 -- lookup and membership agree with iteration and the helpers.
   Statements only.
   WHOLE DOCUMENTS: for the map the reader returns for a map literal over the reader fragment (keys and values integers,
   keywords, nested lists / vectors; trivia and discarded forms in the gaps; any number of entries), looking up ANY value
   that denotes the term of key i -- an independently read copy of that key -- yields entry i, contains-key is true and
   the i-th stored value denotes the i-th value term, whatever the duplicate check did to the keys' hash caches
   (C09_lookup_in_read_map_partial); membership in the set the reader returns for a set literal holds exactly for the
   values equal to one of its elements (C09_membership_in_read_set_partial). *)
From Coq Require Import ZArith NArith List Bool.
From Verif Require Import Lanes Common Values Equality Api EqBasics EqEquiv LookupIndex.
From Coq Require Import NArith.
From Verif Require Import Scan Reader Configs FlagProofs RoundTrip RoundTripEq RoundTripGap RoundTripSet RoundTripMap RoundTripLookup.
Import ListNotations.

Section C09.
Variable c : cfg.
Variable xe : Z -> option (Z -> Z -> bool).
Variable xh : Z -> option (Z -> Z).

(* lookup returns entry r exactly when key r is the FIRST key equal to the probe *)
Theorem C09_lookup_first : forall ks vs k s e mm h r,
  map_lookup c xe (Node (VMap ks vs) s e mm h) k = Some r <->
  exists pre x post, ks = pre ++ x :: post /\ r = List.length pre /\
                     equal c xe x k = true /\ forallb (fun y => negb (equal c xe y k)) pre = true.
Proof. exact (map_lookup_first c xe). Qed.

(* the first clause of the property, on the sequence fragment of the equality proofs (no sets / maps / external values
   inside the keys; any cached hashes that are coherent): in a map whose keys are pairwise unequal -- what the reader's
   duplicate check guarantees -- looking up ANY value equal to key i (an independently read copy, say) returns exactly
   entry i and contains-key reports true *)
Theorem C09_copy_of_key_finds_its_entry_partial : forall pre x post vs k s e mm h,
  Forall (simple c) (pre ++ x :: post) -> Forall (coherent c xh) (pre ++ x :: post) -> coherent c xh k ->
  dup_linear c xe (pre ++ x :: post) = false -> equal c xe x k = true ->
  map_lookup c xe (Node (VMap (pre ++ x :: post) vs) s e mm h) k = Some (List.length pre) /\
  map_contains c xe (Node (VMap (pre ++ x :: post) vs) s e mm h) k = true.
Proof. exact (lookup_copy_finds_its_entry c xe xh). Qed.

(* a probe equal to no key is not found, and contains-key agrees *)
Theorem C09_absent : forall ks vs k s e mm h,
  forallb (fun y => negb (equal c xe y k)) ks = true ->
  map_lookup c xe (Node (VMap ks vs) s e mm h) k = None /\
  map_contains c xe (Node (VMap ks vs) s e mm h) k = false.
Proof. exact (map_lookup_absent c xe). Qed.

Theorem C09_contains_is_lookup : forall m k,
  map_contains c xe m k = match map_lookup c xe m k with Some _ => true | None => false end.
Proof. exact (contains_agrees_with_lookup c xe). Qed.

Theorem C09_set_contains : forall xs k s e mm h,
  set_contains c xe (Node (VSet xs) s e mm h) k = existsb (fun x => equal c xe x k) xs.
Proof. reflexivity. Qed.

(* the helpers are the general lookup applied to a temporary key without cached hash *)
Theorem C09_helpers : forall m name ns key,
  map_get_keyword c xe m name = map_lookup c xe m (temp_keyword None name) /\
  map_get_ns_keyword c xe m ns name = map_lookup c xe m (temp_keyword (Some ns) name) /\
  map_get_string_key c xe m key = map_lookup c xe m (temp_string key) /\
  nhash (temp_keyword None name) = 0%Z /\ nhash (temp_string key) = 0%Z.
Proof. exact (helpers_are_lookup c xe). Qed.
End C09.

(* whole documents *)
Theorem C09_lookup_in_read_map_partial : forall c o m l tl, In c all_cfgs -> mapwf l None tl ->
  let ts := map (fun en => gerase (ekey en)) l in
  Forall (fun t => (tdepth t <= max_depth)%nat) ts -> Forall tsmall ts -> (Z.of_nat (List.length l) < 2 ^ 64)%Z ->
  ~ has_equal_terms c ts ->
  slice m 0 (List.length (maptext l None tl)) = maptext l None tl ->
  exists r s n, run_doc c o m (N.of_nat (List.length (maptext l None tl))) = Ret r s /\ r_value r = Some n /\ r_err r = EOk /\
    exists ks' vx, nval n = VMap ks' vx /\ Forall2 (denotes c) (map (fun en => gerase (eval_ en)) l) vx /\
      forall i p, (i < List.length l)%nat -> denotes c (nth i ts (TKw [])) p ->
        map_lookup c no_ext_equal n p = Some i /\ map_contains c no_ext_equal n p = true.
Proof. exact map_lookup_document. Qed.

Theorem C09_membership_in_read_set_partial : forall c o m els tl, In c all_cfgs -> setwf els tl ->
  let ts := map (fun p => gerase (snd p)) els in
  Forall (fun t => (tdepth t <= max_depth)%nat) ts -> Forall tsmall ts -> (Z.of_nat (List.length els) < 2 ^ 64)%Z ->
  ~ has_equal_terms c ts ->
  slice m 0 (List.length (settext els tl)) = settext els tl ->
  exists r s n, run_doc c o m (N.of_nat (List.length (settext els tl))) = Ret r s /\ r_value r = Some n /\ r_err r = EOk /\
    forall t p, (tdepth t <= max_depth)%nat -> denotes c t p ->
      (set_contains c no_ext_equal n p = true <-> exists t', In t' ts /\ canon c t' = canon c t).
Proof. exact set_membership_document. Qed.

Print Assumptions C09_membership_in_read_set_partial.
Print Assumptions C09_lookup_in_read_map_partial.
Print Assumptions C09_copy_of_key_finds_its_entry_partial.
Print Assumptions C09_lookup_first.
Print Assumptions C09_absent.
Print Assumptions C09_set_contains.
Print Assumptions C09_helpers.
