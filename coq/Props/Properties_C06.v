(* Properties_C06 -- string contents, length and termination.  Statements only. *)
From Coq Require Import ZArith NArith List Bool.
From Coq.Strings Require Import Byte.
From Verif Require Import Lanes Common Values Scan Tokens ScanProofs Configs StringRefuted StringProofs.
Import ListNotations.
Local Open Scope N_scope.

(* the closing quote found is the first unescaped quote, and the escape flag says exactly
   whether a backslash precedes it: for every memory, offset and length *)
Theorem C06_find_quote : forall m p e, p <= e ->
  find_quote m p e = lift_q p (find_quote_spec false false 0 (slice m p (N.to_nat (e - p)))).
Proof. exact find_quote_correct. Qed.

(* the decoder never writes more bytes than the literal has (its buffer is length + 1) *)
Theorem C06_decode_fits : forall c l d, decode c l = Some d -> (List.length d <= List.length l)%nat.
Proof. exact decode_fits. Qed.

(* no escapes: exactly the raw bytes with their exact count, NUL bytes included *)
Theorem C06_get_plain : forall c raw pre,
  string_get c (VString raw false pre) = Some (raw, N.of_nat (List.length raw)).
Proof. exact string_get_plain. Qed.

(* escapes, decoded content without NUL: exactly the decoded bytes and their count *)
Theorem C06_get_escaped_partial : forall c raw d,
  decode c raw = Some d -> forallb (fun b => negb (Byte.eqb b "000"%byte)) d = true ->
  string_get c (VString raw true None) = Some (d, N.of_nat (List.length d)).
Proof. exact string_get_escaped. Qed.

(* undefined escape: reported (NULL) when accessed *)
Theorem C06_get_undefined : forall c raw, decode c raw = None -> string_get c (VString raw true None) = None.
Proof. exact string_get_undefined. Qed.

(* The full statement ("the reported length is the number of bytes even when they include NUL")
   is FALSE of the code for literals that contain an escape: the length is taken by strlen.
   Witness (Clojure flag): the literal "\u0000a" decodes to 2 bytes but length 0 is reported.
   Recorded in known_findings.json (K02). *)
Theorem C06_get_refuted : exists raw d,
  decode cfg10 raw = Some d /\ List.length d = 2%nat /\
  string_get cfg10 (VString raw true None) = Some ([], 0).
Proof. exact string_get_nul_refuted. Qed.

Print Assumptions C06_find_quote.
Print Assumptions C06_decode_fits.
Print Assumptions C06_get_escaped_partial.
Print Assumptions C06_get_refuted.
