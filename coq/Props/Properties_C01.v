(* Properties_C01 -- no out-of-bounds access or undefined behaviour.  Statements only.
   PARTIAL by nature: accesses to the library's own heap/stack objects are not expressible in
   a value-level model (covered by the sanitizer/guard-page correspondence run only). *)
From Coq Require Import ZArith NArith List Bool String.
From Coq.Strings Require Import Byte.
From Verif Require Import Lanes Common Values Scan Numbers Tokens Reader ScanProofs Int64 StringProofs ReaderInv Audit.
From Verif Require G00 G10 G01 G11.
Import ListNotations.
Local Open Scope N_scope.

(* the reader never reads an input byte outside [0,len): the only unguarded dereference (the
   closing-delimiter byte in the collection readers) is always inside the input, for every
   input, configuration, option set and handler behaviour *)
Theorem C01_reader_no_oob : forall c o handler xe xh sort m e fuel site,
  read_doc c o handler xe xh sort m e fuel <> OOBx site.
Proof. exact read_doc_no_oob. Qed.

(* the accelerated scanners' results depend only on the bytes in [ptr,end) *)
Theorem C01_scanners_frame : forall m1 m2 p e, p <= e -> agree m1 m2 p e ->
  scan_digits m1 p e = scan_digits m2 p e /\ skip_ws m1 p e = skip_ws m2 p e /\
  find_quote m1 p e = find_quote m2 p e /\ scan_identifier m1 p e = scan_identifier m2 p e.
Proof. exact scanners_frame. Qed.

(* every vector load in the source is dominated by `p + k <= end`, k >= 16, on the loaded
   pointer; every table subscript is indexed by an unsigned char (audit lists regenerated from
   the AST on every run, 4 flag sets) *)
Theorem C01_loads_guarded :
  forallb load_ok G00.vector_load_sites = true /\ forallb load_ok G10.vector_load_sites = true /\
  forallb load_ok G01.vector_load_sites = true /\ forallb load_ok G11.vector_load_sites = true.
Proof. exact loads_guarded. Qed.
Theorem C01_subscripts_byte :
  forallb byte_indexed G00.table_subscripts = true /\ forallb byte_indexed G10.table_subscripts = true /\
  forallb byte_indexed G01.table_subscripts = true /\ forallb byte_indexed G11.table_subscripts = true.
Proof. exact subscripts_byte_indexed. Qed.

(* integer conversion executes no signed overflow / invalid negation *)
Theorem C01_parse_int64_no_ub : forall c ds radix neg,
  match parse_int64 c ds radix neg with IUB _ => False | _ => True end.
Proof. exact parse_int64_no_ub. Qed.

(* the escape decoder never writes past its buffer (literal length + 1) *)
Theorem C01_decode_fits : forall c l d, decode c l = Some d -> (List.length d <= List.length l)%nat.
Proof. exact decode_fits. Qed.

Print Assumptions C01_reader_no_oob.
Print Assumptions C01_scanners_frame.
Print Assumptions C01_loads_guarded.
Print Assumptions C01_parse_int64_no_ub.
Print Assumptions C01_decode_fits.
