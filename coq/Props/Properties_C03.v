(* Properties_C03 -- well-formed EDN is read with full structural fidelity.  Statements only.
   PARTIAL: proved for unqualified symbols and keywords of ANY length at ANY offset (through
   the proved 16-byte identifier scanner): the value carries exactly the name bytes, the
   source range is the token, the cursor stops behind it.  Integers: Properties_C04; floats:
   C05; strings: C06; ranges: C11.  Collections, tags, characters and the grammar-level
   statement are decided by the correspondence run with two independent oracles (value-first
   renderings; derivations of the published grammar). *)
From Coq Require Import ZArith NArith List Bool String.
From Coq.Strings Require Import Byte.
From Verif Require Import Lanes Common Values Scan Numbers Tokens ScanProofs FidelityProofs.
Import ListNotations.
Local Open Scope N_scope.

Theorem C03_symbol_partial : forall m e s l, l <> [] -> forallb identb l = true -> stands m e (cur s) l ->
  bytes_eqb l (lit "nil") = false -> bytes_eqb l (lit "true") = false -> bytes_eqb l (lit "false") = false ->
  read_identifier m e s =
  Ret (Some (mk (VSymbol None l) (cur s) (cur s + N.of_nat (List.length l)))) (with_cur s (cur s + N.of_nat (List.length l))).
Proof. exact read_symbol_plain. Qed.

Theorem C03_keyword_partial : forall m e s l, l <> [] -> forallb identb l = true -> stands m e (cur s) (":"%byte :: l) ->
  read_identifier m e s =
  Ret (Some (mk (VKeyword None l) (cur s) (cur s + 1 + N.of_nat (List.length l)))) (with_cur s (cur s + 1 + N.of_nat (List.length l))).
Proof. exact read_keyword_plain. Qed.

Print Assumptions C03_symbol_partial.
Print Assumptions C03_keyword_partial.
