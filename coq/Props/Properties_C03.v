(* Properties_C03 -- well-formed EDN is read with full structural fidelity.  Statements only.
   PARTIAL: proved for unqualified symbols and keywords of ANY length at ANY offset (through
   the proved 16-byte identifier scanner): the value carries exactly the name bytes, the
   source range is the token, the cursor stops behind it; and for WHOLE DOCUMENTS of a fragment, of unbounded size
   and nesting (C03_document_fragment): terms built from integer literals of any length, unqualified keywords,
   vectors and lists, rendered with single spaces, are read by the model as it is run (every flag set, any options)
   to a tree denoting exactly that term -- kinds, order and count of elements, integer values / big-integer digits,
   keyword name bytes -- with no error.  Integers: Properties_C04; floats: C05; strings: C06; ranges: C11.
   The other kinds (sets, maps, tags, characters, strings in collections), other surface renderings and the
   grammar-level statement are decided by the correspondence run with two independent oracles (value-first
   renderings; derivations of the published grammar). *)
From Coq Require Import ZArith NArith List Bool String.
From Coq.Strings Require Import Byte.
From Verif Require Import Lanes Common Values Scan Numbers Tokens Reader Configs ScanProofs FidelityProofs NumLiteral FlagProofs RoundTrip RoundTripWs RoundTripGap.
Import ListNotations.
Local Open Scope N_scope.

Theorem C03_symbol_partial : forall m e s l, l <> [] -> forallb identb l = true -> stands m e (cur s) l ->
  bytes_eqb l (lit "nil") = false -> bytes_eqb l (lit "true") = false -> bytes_eqb l (lit "false") = false ->
  read_identifier m e s =
  Ret (Some (mk (VSymbol None l) (cur s) (cur s + N.of_nat (List.length l)))) (with_cur s (cur s + N.of_nat (List.length l))).
Proof. exact read_symbol_plain. Qed.

Theorem C03_keyword_partial : forall m e s l, l <> [] -> forallb identb l = true -> stands m e (cur s) (":"%byte :: l) ->
  read_identifier m e s =
  Ret (Some (mk (VKeyword None l) (cur s) (cur s + 1 + N.of_nat (List.length l)))) (with_cur s (cur s + 1 + N.of_nat (List.length l))).
Proof. exact read_keyword_plain. Qed.

(* whole documents of the fragment: the run of the model returns a tree that denotes the term *)
Theorem C03_document_fragment : forall c o m t, In c all_cfgs -> wft t ->
  slice m 0 (List.length (pr t)) = pr t ->
  exists r s n, run_doc c o m (N.of_nat (List.length (pr t))) = Ret r s /\
                r_value r = Some n /\ denotes c t n /\ r_err r = EOk /\ r_eof r = false.
Proof. exact read_document. Qed.
(* and at any position inside any buffer (the induction the document theorem rests on) *)
Theorem C03_term_anywhere : forall c, In c all_cfgs -> forall o handler xe xh sort m e n t, (tsize t <= n)%nat -> wft t ->
  forall s, Reader.is_ok s = true -> cur s + N.of_nat (List.length (pr t)) <= e -> slice m (cur s) (List.length (pr t)) = pr t ->
  ends_at m e (cur s + N.of_nat (List.length (pr t))) ->
  Reads c o handler xe xh sort m e s t (cur s + N.of_nat (List.length (pr t))).
Proof. exact (fun c Hc o handler xe xh sort m e n => read_term c Hc o handler xe xh sort m e n). Qed.


(* EVERY rendering with respect to trivia: any run of white space, commas and complete line comments in front of each
   element (none needed in front of the first, at least one byte between two elements) and in front of the closer *)
Theorem C03_document_every_trivia_rendering : forall c o m a, In c all_cfgs -> awf a ->
  slice m 0 (List.length (prg a)) = prg a ->
  exists r s n, run_doc c o m (N.of_nat (List.length (prg a))) = Ret r s /\
                r_value r = Some n /\ denotes c (erase a) n /\ r_err r = EOk /\ r_eof r = false.
Proof. exact read_document_ws. Qed.

(* ... and with discarded forms (of the same grammar, nested at will) in every gap *)
Theorem C03_document_with_discards : forall c o m a, In c all_cfgs -> gwf a ->
  slice m 0 (List.length (gpr a)) = gpr a ->
  exists r s n, run_doc c o m (N.of_nat (List.length (gpr a))) = Ret r s /\
                r_value r = Some n /\ denotes c (gerase a) n /\ r_err r = EOk /\ r_eof r = false.
Proof. exact read_document_gap. Qed.

(* non-vacuity: [1 (:a -20) [] :kw 18446744073709551616] is a well-formed term of the fragment, and this is its text *)
Example C03_fragment_example :
  let t := TVec [TInt false ["1"%byte]; TList [TKw ["a"%byte]; TInt true ["2"; "0"]%byte]; TVec []; TKw ["k"; "w"]%byte;
                 TInt false (list_byte_of_string "18446744073709551616")] in
  wft t /\ pr t = list_byte_of_string "[1 (:a -20) [] :kw 18446744073709551616]".
Proof. split; [cbn; repeat split; try discriminate; try reflexivity; left; discriminate|reflexivity]. Qed.

Print Assumptions C03_document_fragment.
Print Assumptions C03_document_every_trivia_rendering.
Print Assumptions C03_document_with_discards.
Print Assumptions C03_symbol_partial.
Print Assumptions C03_keyword_partial.
