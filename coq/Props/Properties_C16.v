(* Properties_C16 -- allocation failure yields a clean error or a complete value.
   Statements only.  PARTIAL: proved for the collection builder protocol (the place where a
   pointer into dead stack could escape); the whole-reader statement under an arbitrary
   failure schedule is decided by the failure-injection run (every request index, fail-one and
   fail-from, sanitizers incl. stack-use-after-return and leak detection). *)
From Coq Require Import ZArith List Bool.
From Verif Require Import Builder BuilderProofs.
Import ListNotations.

(* for every allocation-failure schedule and every element sequence: failure is reported, or
   exactly the elements come back, in arena storage (never the inline stack array) *)
Theorem C16_builder_clean : forall (A : Type) (oks : list bool) (vs : list A),
  match b_run oks b_init vs with
  | None => True
  | Some (els, p) => els = vs /\ (p = PArena \/ els = [])
  end.
Proof. exact @builder_clean. Qed.

Example C16_example :
  b_run [true; true; false] b_init [1; 2]%nat = None /\      (* finish copy fails -> error *)
  b_run [] b_init [1; 2]%nat = Some ([1; 2]%nat, PArena).
Proof. split; reflexivity. Qed.

Print Assumptions C16_builder_clean.
