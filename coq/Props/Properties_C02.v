(* Properties_C02 -- reading always returns.  Statements only.
   PARTIAL.  Proved: (1) the binary GCD of number.c terminates for EVERY pair of int64
   operands (incl. the most negative one) within the model's iteration bound and returns the
   greatest common divisor -- the loop variant is log2 of the product of the odd parts;
   (2) TERMINATION OF THE READER MODEL: for every input, every one of the four flag sets,
   every option set and every handler behaviour, the recursive-descent reader run with fuel
   8 + 4 * length never runs out of fuel -- every token reader and every successful value read
   strictly advances the cursor (incl. the whole number scanner), so each loop iteration and
   each nesting level consumes input; (3) it then returns a value xor an error (C10).
   NOT covered by any theorem: the C stack (the model has no stack; recursion depth is linear in
   the input, which is exactly finding K09) and wall-clock time; both are decided by running
   the implementation on a 1 MiB stack / under CPU accounting. *)
From Coq Require Import ZArith NArith List Bool.
From Verif Require Import Lanes Common Values Numbers Scan Reader Configs ReaderInv GcdProofs FlagProofs NumProgress ReaderTerm FuelMono.
Local Open Scope Z_scope.

Theorem C02_gcd_terminates_and_is_gcd : forall sa sb,
  - 2 ^ 63 <= sa < 2 ^ 63 -> - 2 ^ 63 <= sb < 2 ^ 63 -> ratio_gcd sa sb = Some (wrapS 64 (Z.gcd sa sb)).
Proof. exact ratio_gcd_correct. Qed.

Theorem C02_gcd_as_used : forall sa sb,
  - 2 ^ 63 <= sa < 2 ^ 63 -> 0 < sb < 2 ^ 63 -> ratio_gcd sa sb = Some (Z.gcd sa sb).
Proof. exact ratio_gcd_denominator. Qed.

(* the loop variant, stated on its own: from any odd a and any b the main loop needs at most
   log2 (a * odd-part b) + 1 iterations *)
Theorem C02_gcd_loop_bound : forall fuel a b,
  Z.odd a = true -> 0 < a < 2 ^ 64 -> 0 < b < 2 ^ 64 ->
  Z.log2 (a * gcd_strip 64 b) < Z.of_nat fuel -> gcd_main fuel a b = Some (Z.gcd a b).
Proof. exact gcd_main_correct. Qed.

(* non-vacuity: the operands the property names *)
Example C02_gcd_most_negative : ratio_gcd (- 2 ^ 63) 6 = Some 2 /\ ratio_gcd (- 2 ^ 63) (- 2 ^ 63) = Some (- 2 ^ 63).
Proof. split; vm_compute; reflexivity. Qed.

(* the reader always returns (no infinite loop, no unbounded recursion without consuming input) *)
Theorem C02_reader_always_returns : forall c o handler xe xh sort m e fuel, In c all_cfgs ->
  (8 + 4 * N.to_nat e <= fuel)%nat -> read_doc c o handler xe xh sort m e fuel <> OutOfFuel.
Proof. exact read_doc_always_returns. Qed.

Theorem C02_model_run_always_returns : forall c o m len, In c all_cfgs -> run_doc c o m len <> OutOfFuel.
Proof. exact run_doc_always_returns. Qed.

(* the progress fact behind it, for the number scanner: a number token entered at a digit, or at
   a sign followed by a digit, ends strictly behind its start *)
Theorem C02_number_token_advances : forall c m e start v q,
  number_start m e start -> read_number c m e start = NVal v q -> (start < q)%N.
Proof. exact read_number_progress. Qed.

Theorem C02_returns_value_xor_error_partial : forall c o handler xe xh sort m e fuel r s,
  read_doc c o handler xe xh sort m e fuel = Ret r s ->
  (has_value r <-> r_err r = EOk) /\ (r_eof r = true -> r_value r = None).
Proof. exact read_doc_xor. Qed.

(* the fuel of the model is only a termination device: a reader that returns with some fuel returns the same with
   any larger fuel, and whatever was established for SOME fuel holds of the run of the model *)
Theorem C02_more_fuel_changes_nothing : forall c o handler xe xh sort m e f k r,
  read_doc c o handler xe xh sort m e f = r -> r <> OutOfFuel -> read_doc c o handler xe xh sort m e (f + k) = r.
Proof. exact read_doc_fuel_irrelevant. Qed.
Theorem C02_any_fuel_is_the_run : forall c o m len f r, In c all_cfgs ->
  read_doc c o builtin_handler no_ext_equal no_ext_hash (isort c) m len f = r -> r <> OutOfFuel -> run_doc c o m len = r.
Proof. exact any_fuel_is_the_run. Qed.

Print Assumptions C02_any_fuel_is_the_run.
Print Assumptions C02_gcd_terminates_and_is_gcd.
Print Assumptions C02_gcd_loop_bound.
Print Assumptions C02_returns_value_xor_error_partial.
Print Assumptions C02_reader_always_returns.
Print Assumptions C02_model_run_always_returns.
