(* Properties_C02 -- reading always returns.  Statements only.
   PARTIAL.  Proved: (1) the binary GCD of number.c terminates for EVERY pair of int64
   operands (incl. the most negative one) within the model's iteration bound and returns the
   greatest common divisor -- the loop variant is log2 of the product of the odd parts;
   (2) whenever the reader model returns at all it returns a value xor an error (C10).
   NOT proved: that the reader model never runs out of fuel 8 + 4*len (every run of the
   correspondence check asserts it on its inputs), and nothing about the C stack: the model
   has no stack.  Stack exhaustion by deep nesting is finding K09, decided by running the
   implementation on a 1 MiB stack. *)
From Coq Require Import ZArith NArith List Bool.
From Verif Require Import Lanes Common Values Numbers Scan Reader ReaderInv GcdProofs.
Local Open Scope Z_scope.

Theorem C02_gcd_terminates_and_is_gcd : forall sa sb,
  - 2 ^ 63 <= sa < 2 ^ 63 -> - 2 ^ 63 <= sb < 2 ^ 63 -> ratio_gcd sa sb = Some (wrapS 64 (Z.gcd sa sb)).
Proof. exact ratio_gcd_correct. Qed.

Theorem C02_gcd_as_used : forall sa sb,
  - 2 ^ 63 <= sa < 2 ^ 63 -> 0 < sb < 2 ^ 63 -> ratio_gcd sa sb = Some (Z.gcd sa sb).
Proof. exact ratio_gcd_denominator. Qed.

(* the loop variant, stated on its own: from any odd a and any b the main loop needs at most
   log2 (a * odd-part b) + 1 iterations *)
Theorem C02_gcd_loop_bound : forall fuel a b,
  Z.odd a = true -> 0 < a < 2 ^ 64 -> 0 < b < 2 ^ 64 ->
  Z.log2 (a * gcd_strip 64 b) < Z.of_nat fuel -> gcd_main fuel a b = Some (Z.gcd a b).
Proof. exact gcd_main_correct. Qed.

(* non-vacuity: the operands the property names *)
Example C02_gcd_most_negative : ratio_gcd (- 2 ^ 63) 6 = Some 2 /\ ratio_gcd (- 2 ^ 63) (- 2 ^ 63) = Some (- 2 ^ 63).
Proof. split; vm_compute; reflexivity. Qed.

Theorem C02_returns_value_xor_error_partial : forall c o handler xe xh sort m e fuel r s,
  read_doc c o handler xe xh sort m e fuel = Ret r s ->
  (has_value r <-> r_err r = EOk) /\ (r_eof r = true -> r_value r = None).
Proof. exact read_doc_xor. Qed.

Print Assumptions C02_gcd_terminates_and_is_gcd.
Print Assumptions C02_gcd_loop_bound.
Print Assumptions C02_returns_value_xor_error_partial.
