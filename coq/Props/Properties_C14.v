(* Properties_C14 -- tag dispatch and registries.  Statements only.
   Registries and the external-type table refine finite maps over any operation sequence.  DISPATCH is proved for whole
   documents of the tagged fragment (integers, keywords, lists, vectors, tagged forms #tag <trivia> <form>, with trivia
   and discarded forms of the same grammar in every gap; any size and nesting): the tree read is related to the term by
   [hden] -- a registered tag is replaced by the handler's result for the already read inner value (inner tags first),
   exactly one invocation per non-discarded registered tagged element (the log is their post-order list), an
   unregistered tag yields the generic tagged value or, under UNWRAP, the inner value; without a registry every tag is
   generic and the log is empty; nothing inside a discarded form reaches a handler.
   A top-level tagged element whose handler refuses its value fails the whole read with the class "invalid syntax" and
   the HANDLER'S message; an unregistered tag under the ERROR default fails it with the class "unknown tag"
   (C14_failing_tag_partial).
   PARTIAL: failures of NESTED tagged elements, namespaced tag names, and the other element kinds are decided by the
   correspondence run + the dispatch oracle. *)
From Coq Require Import ZArith NArith List Bool.
From Coq.Strings Require Import Byte.
From Verif Require Import Lanes Common Values Scan Reader Api RegistryProofs DiscardInv Configs FlagProofs TriviaProofs RoundTripTag.
From Coq Require Import String.
Import ListNotations.

(* the 16-bucket chained registry (bucket count and FNV constants GENERATED) refines a map:
   after any sequence of register / re-register / unregister / lookup operations, lookup
   returns the most recently registered handler for the name, or none *)
Theorem C14_registry_refines_map : forall ops t,
  reg_lookup (fold_left (fun r o => fst (reg_step r o)) ops reg_empty) t =
  fold_left spec_step ops (fun _ => None) t.
Proof. exact registry_from_empty. Qed.

Theorem C14_registry_step : forall r t h t', reg_inv r ->
  reg_lookup (reg_register r t h) t' = (if bytes_eqb t t' then Some h else reg_lookup r t') /\
  reg_lookup (reg_unregister r t) t' = (if bytes_eqb t t' then None else reg_lookup r t').
Proof. exact (fun r t h t' H => conj (proj2 (reg_register_spec r t h t' H)) (proj2 (reg_unregister_spec r t t' H))). Qed.

(* the external-type table likewise *)
Theorem C14_ext_table : forall l id k id', NoDup (ekeys l) ->
  ext_lookup (ext_register l id k) id' = (if (id =? id')%Z then Some k else ext_lookup l id') /\
  ext_lookup (ext_unregister l id) id' = (if (id =? id')%Z then None else ext_lookup l id') /\
  NoDup (ekeys (ext_register l id k)) /\ NoDup (ekeys (ext_unregister l id)).
Proof.
  exact (fun l id k id' H => conj (proj2 (ext_register_spec l id k id' H))
                              (conj (proj2 (ext_unregister_spec l id id' H))
                                    (conj (proj1 (ext_register_spec l id k id' H)) (proj1 (ext_unregister_spec l id id' H))))).
Qed.

(* handlers are not invoked inside discarded forms *)
Theorem C14_no_handler_in_discard : forall c o handler xe xh sort m e f s v s',
  discard s = true -> read_value c o handler xe xh sort m e f s = Ret v s' -> calls s' = calls s.
Proof. exact discarded_form_calls_no_handler. Qed.

(* whole documents of the tagged fragment *)
Theorem C14_tagged_documents_partial : forall c o m a, In c all_cfgs -> hwf a -> hok o builtin_handler a ->
  slice m 0 (List.length (hpr a)) = hpr a ->
  exists r s n cs, run_doc c o m (N.of_nat (List.length (hpr a))) = Ret r s /\
                   r_value r = Some n /\ r_err r = EOk /\ r_eof r = false /\
                   hden c o builtin_handler false a n cs /\ calls (r_state r) = cs.
Proof. exact read_document_tags. Qed.
(* ... for every handler behaviour, at any position of any buffer (the induction behind it) *)
Theorem C14_tagged_terms_anywhere : forall c, In c all_cfgs -> forall o handler xe xh sort m e n,
  HIH c o handler xe xh sort m e n.
Proof. exact read_hterm. Qed.
(* without a registry no handler is invoked (and hden leaves only the generic tagged value for a tag) *)
Theorem C14_no_registry_no_calls : forall c o handler d, has_registry o = false ->
  (forall a n cs, hden c o handler d a n cs -> cs = []) /\ (forall l xs cs, hden_l c o handler d l xs cs -> cs = []).
Proof. exact hden_no_registry. Qed.
(* while a form is being discarded its denotation carries no invocation *)
Theorem C14_discarded_forms_no_calls : forall c o handler,
  (forall a n cs, hden c o handler true a n cs -> cs = []) /\ (forall l xs cs, hden_l c o handler true l xs cs -> cs = []).
Proof. exact hden_discarding. Qed.
(* non-vacuity:  [#inst 1 #_#inst [2] (#x #y :k) #_ #z 3]  with "inst" registered: side condition met, the run logs ONE call *)
Example C14_tag_example :
  let t1 := HTag (list_byte_of_string "inst") [" "%byte] (HInt false ["1"%byte]) in
  let d1 := HDisc [] (HTag (list_byte_of_string "inst") [" "%byte] (HSeq true [([], HInt false ["2"%byte])] [])) in
  let t2 := HSeq false [([], HTag ["x"%byte] [" "%byte] (HTag ["y"%byte] [" "%byte] (HKw ["k"%byte])))] [] in
  let a := HSeq true [([], t1); ([HWs [" "%byte]; d1; HWs [" "%byte]], t2)] [HWs [" "%byte]; HDisc [" "%byte] (HTag ["z"%byte] [" "%byte] (HInt false ["3"%byte]))] in
  hok example_opts builtin_handler a /\
  match run_doc cfg00 example_opts (mem_of (hpr a)) (N.of_nat (List.length (hpr a))) with
  | Ret r _ => map call_tag (calls (r_state r)) = [list_byte_of_string "inst"] /\ r_err r = EOk
  | _ => False
  end.
Proof. exact tag_example_ok. Qed.

Theorem C14_failing_tag_partial : forall c o m tag ws x, In c all_cfgs -> tagok tag -> trivia ws -> ws <> [] -> hwf x -> hok o builtin_handler x ->
  has_registry o = true -> tag_fails o builtin_handler tag ->
  let txt := "#"%byte :: tag ++ ws ++ hpr x in
  slice m 0 (List.length txt) = txt ->
  exists r s, run_doc c o m (N.of_nat (List.length txt)) = Ret r s /\ r_value r = None /\ r_eof r = false /\
    match lookup_tag o tag with
    | Some h => r_err r = ESyntax /\ exists ms, r_msg r = MHandler ms /\ forall v, builtin_handler h v = (None, ms)
    | None => r_err r = EUnknownTag
    end.
Proof. exact tag_failure_document. Qed.

Print Assumptions C14_failing_tag_partial.
Print Assumptions C14_tagged_documents_partial.
Print Assumptions C14_registry_refines_map.
Print Assumptions C14_ext_table.
Print Assumptions C14_no_handler_in_discard.
