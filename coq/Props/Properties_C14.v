(* Properties_C14 -- tag dispatch and registries.  Statements only. *)
From Coq Require Import ZArith NArith List Bool.
From Coq.Strings Require Import Byte.
From Verif Require Import Lanes Common Values Scan Reader Api RegistryProofs DiscardInv.
Import ListNotations.

(* the 16-bucket chained registry (bucket count and FNV constants GENERATED) refines a map:
   after any sequence of register / re-register / unregister / lookup operations, lookup
   returns the most recently registered handler for the name, or none *)
Theorem C14_registry_refines_map : forall ops t,
  reg_lookup (fold_left (fun r o => fst (reg_step r o)) ops reg_empty) t =
  fold_left spec_step ops (fun _ => None) t.
Proof. exact registry_from_empty. Qed.

Theorem C14_registry_step : forall r t h t', reg_inv r ->
  reg_lookup (reg_register r t h) t' = (if bytes_eqb t t' then Some h else reg_lookup r t') /\
  reg_lookup (reg_unregister r t) t' = (if bytes_eqb t t' then None else reg_lookup r t').
Proof. exact (fun r t h t' H => conj (proj2 (reg_register_spec r t h t' H)) (proj2 (reg_unregister_spec r t t' H))). Qed.

(* the external-type table likewise *)
Theorem C14_ext_table : forall l id k id', NoDup (ekeys l) ->
  ext_lookup (ext_register l id k) id' = (if (id =? id')%Z then Some k else ext_lookup l id') /\
  ext_lookup (ext_unregister l id) id' = (if (id =? id')%Z then None else ext_lookup l id') /\
  NoDup (ekeys (ext_register l id k)) /\ NoDup (ekeys (ext_unregister l id)).
Proof.
  exact (fun l id k id' H => conj (proj2 (ext_register_spec l id k id' H))
                              (conj (proj2 (ext_unregister_spec l id id' H))
                                    (conj (proj1 (ext_register_spec l id k id' H)) (proj1 (ext_unregister_spec l id id' H))))).
Qed.

(* handlers are not invoked inside discarded forms *)
Theorem C14_no_handler_in_discard : forall c o handler xe xh sort m e f s v s',
  discard s = true -> read_value c o handler xe xh sort m e f s = Ret v s' -> calls s' = calls s.
Proof. exact discarded_form_calls_no_handler. Qed.

Print Assumptions C14_registry_refines_map.
Print Assumptions C14_ext_table.
Print Assumptions C14_no_handler_in_discard.
