(* Base/Lanes.v -- hand-written, TRUSTED: per-lane semantics of the SSE2 intrinsics used by
   edn.c, C integer conversions, and byte helpers.  The generated files (Gen/*.v) are
   expressed with these operators.  A lane is an unsigned byte value in [0,256) held in Z. *)
From Coq Require Import ZArith List Bool.
From Coq.Strings Require Import Byte.
Import ListNotations.
Local Open Scope Z_scope.

Definition wrapU (bits : Z) (x : Z) : Z := x mod 2 ^ bits.
Definition wrapS (bits : Z) (x : Z) : Z :=
  let m := x mod 2 ^ bits in if m <? 2 ^ (bits - 1) then m else m - 2 ^ bits.

Definition wrap8 (x : Z) : Z := x mod 256.
Definition sgn8 (x : Z) : Z := if x <? 128 then x else x - 256.

(* _mm_set1_epi8(v): every lane holds the low 8 bits of v *)
Definition set1_8 (v : Z) : Z := wrap8 v.
(* _mm_add_epi8 *)
Definition add8 (a b : Z) : Z := wrap8 (a + b).
(* _mm_cmpeq_epi8 / _mm_cmpgt_epi8 / _mm_cmplt_epi8 : 0xFF when true, 0 otherwise;
   gt/lt compare the lanes as SIGNED bytes *)
Definition cmpeq8 (a b : Z) : Z := if a =? b then 255 else 0.
Definition cmpgt8 (a b : Z) : Z := if sgn8 b <? sgn8 a then 255 else 0.
Definition cmplt8 (a b : Z) : Z := cmpgt8 b a.
Definition and8 (a b : Z) : Z := Z.land a b.
Definition or8 (a b : Z) : Z := Z.lor a b.
(* _mm_movemask_epi8: bit i of the mask is the top bit of lane i *)
Definition msb8 (a : Z) : bool := 128 <=? a.

Definition b2z (b : bool) : Z := if b then 1 else 0.
Definition z2b (z : Z) : bool := negb (z =? 0).

(* table lookup with an out-of-range marker that no generated table contains *)
Definition nthz (l : list Z) (i : Z) : Z :=
  if i <? 0 then -99999 else nth (Z.to_nat i) l (-99999).

(* bytes *)
Definition bz (b : byte) : Z := Z.of_N (Byte.to_N b).
Definition all_bytes : list byte :=
  map (fun n => match Byte.of_N (N.of_nat n) with Some b => b | None => x00 end) (seq 0 256).
