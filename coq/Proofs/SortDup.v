(* Proofs/SortDup.v -- the sort-based duplicate strategy (uniqueness.c edn_has_duplicates_sorted):
   sort a copy with the comparator, then compare neighbours.

   Part 1 (abstract): for ANY sorting function (qsort is libc's: all that is assumed is that its
   result is a permutation of its input that is ordered by the comparator) and any comparator that,
   on the elements of the list, is a total preorder whose zero set is the equality relation, the
   neighbour check on the sorted copy gives exactly the pairwise verdict.

   Part 2: the comparator of the model (compare_nodes) has these properties on the kinds the strategy
   is allowed to see, for values that carry no cached hash (as elements fresh from the reader do). *)
From Coq Require Import ZArith NArith List Bool Lia Permutation Sorted.
From Coq.Floats Require Import SpecFloat.
From Coq.Strings Require Import Byte.
From Verif Require Import Lanes Common Values Floats Numbers Equality EqBasics.
Import ListNotations.
Local Open Scope Z_scope.

Section Abstract.
Variable eqb : node -> node -> bool.
Variable cmp : node -> node -> Z.
Variable dom : node -> Prop.           (* the elements the properties are needed for *)

Hypothesis cmp_eq : forall a b, dom a -> dom b -> (eqb a b = true <-> cmp a b = 0).
Hypothesis cmp_trans : forall a b d, dom a -> dom b -> dom d -> cmp a b <= 0 -> cmp b d <= 0 -> cmp a d <= 0.
Hypothesis cmp_antisym : forall a b, dom a -> dom b -> cmp a b <= 0 -> cmp b a <= 0 -> cmp a b = 0.
Hypothesis cmp_zero_sym : forall a b, dom a -> dom b -> cmp a b = 0 -> cmp b a = 0.

Fixpoint adj (l : list node) : bool :=
  match l with x :: ((y :: _) as t) => eqb x y || adj t | _ => false end.
Fixpoint lin (l : list node) : bool :=
  match l with [] => false | x :: t => existsb (fun y => eqb x y) t || lin t end.

Definition pair_in (l : list node) : Prop := exists l1 x l2 y l3, l = l1 ++ x :: l2 ++ y :: l3 /\ eqb x y = true.

Lemma lin_iff l : lin l = true <-> pair_in l.
Proof.
  induction l as [|x t IH]; cbn [lin].
  - split; [discriminate|]. intros (l1 & a & l2 & b & l3 & E & _). destruct l1; discriminate.
  - rewrite orb_true_iff, existsb_exists, IH. split.
    + intros [[y [Hy He]]|(l1 & a & l2 & b & l3 & E & He)].
      * apply in_split in Hy as (l2 & l3 & ->). exists [], x, l2, y, l3. split; [reflexivity|assumption].
      * exists (x :: l1), a, l2, b, l3. split; [now rewrite E|assumption].
    + intros (l1 & a & l2 & b & l3 & E & He). destruct l1 as [|z l1]; cbn in E; inversion E; subst.
      * left. exists b. split; [apply in_or_app; right; left; reflexivity|assumption].
      * right. exists l1, a, l2, b, l3. split; [reflexivity|assumption].
Qed.

(* equality is symmetric on the domain (from the comparator) *)
Lemma eqb_sym a b : dom a -> dom b -> eqb a b = true -> eqb b a = true.
Proof. intros Ha Hb H. apply cmp_eq; try assumption. apply cmp_zero_sym; try assumption. now apply cmp_eq. Qed.

(* a pair of equal elements at two different positions, in either order: invariant under permutation *)
Definition dup_in (l : list node) : Prop := exists l1 x l2 y l3, l = l1 ++ x :: l2 ++ y :: l3 /\ (eqb x y = true \/ eqb y x = true).

Lemma dup_in_pair l : Forall dom l -> (dup_in l <-> pair_in l).
Proof.
  intros HF. split.
  - intros (l1 & x & l2 & y & l3 & -> & [H|H]); exists l1, x, l2, y, l3; (split; [reflexivity|]); [exact H|].
    rewrite Forall_forall in HF.
    assert (Hx : In x (l1 ++ x :: l2 ++ y :: l3)) by (apply in_or_app; right; left; reflexivity).
    assert (Hy : In y (l1 ++ x :: l2 ++ y :: l3)) by (apply in_or_app; right; right; apply in_or_app; right; left; reflexivity).
    apply eqb_sym; [now apply HF|now apply HF|exact H].
  - intros (l1 & x & l2 & y & l3 & -> & H). exists l1, x, l2, y, l3. split; [reflexivity|now left].
Qed.

(* dup_in as: some element occurs with an equal one in the rest *)
Lemma dup_in_cons x t : dup_in (x :: t) <-> (exists y, In y t /\ (eqb x y = true \/ eqb y x = true)) \/ dup_in t.
Proof.
  split.
  - intros (l1 & a & l2 & b & l3 & E & H). destruct l1 as [|z l1]; cbn in E; inversion E; subst.
    + left. exists b. split; [apply in_or_app; right; left; reflexivity|exact H].
    + right. exists l1, a, l2, b, l3. split; [reflexivity|exact H].
  - intros [(y & Hy & H)|(l1 & a & l2 & b & l3 & -> & H)].
    + apply in_split in Hy as (l2 & l3 & ->). exists [], x, l2, y, l3. split; [reflexivity|exact H].
    + exists (x :: l1), a, l2, b, l3. split; [reflexivity|exact H].
Qed.

Lemma dup_in_perm l l' : Permutation l l' -> dup_in l -> dup_in l'.
Proof.
  induction 1 as [|x l l' HP IH|x y l|l l' l'' HP1 IH1 HP2 IH2]; intros H.
  - exact H.
  - apply dup_in_cons in H. apply dup_in_cons. destruct H as [(y & Hy & H)|H].
    + left. exists y. split; [eapply Permutation_in; eassumption|exact H].
    + right. now apply IH.
  - apply dup_in_cons in H. apply dup_in_cons. destruct H as [(z & Hz & H)|H].
    + destruct Hz as [<-|Hz].
      * left. exists y. split; [now left|tauto].
      * right. apply dup_in_cons. left. exists z. split; assumption.
    + apply dup_in_cons in H. destruct H as [(z & Hz & H)|H].
      * left. exists z. split; [now right|exact H].
      * right. apply dup_in_cons. now right.
  - now apply IH2, IH1.
Qed.

(* in a sorted list, an equal pair forces an equal NEIGHBOUR pair *)
Lemma adj_of_sorted : forall l, Forall dom l -> StronglySorted (fun a b => cmp a b <= 0) l -> dup_in l -> adj l = true.
Proof.
  induction l as [|x t IH]; intros HF HS HD.
  - destruct HD as (l1 & a & l2 & b & l3 & E & _). destruct l1; discriminate.
  - inversion HF as [|? ? Hx HFt]; subst. inversion HS as [|? ? HSt Hle]; subst.
    apply dup_in_cons in HD. destruct t as [|y t']; [destruct HD as [(z & [] & _)|(l1 & a & l2 & b & l3 & E & _)]; destruct l1; discriminate|].
    cbn [adj]. apply orb_true_iff. destruct HD as [(z & Hz & Hxz)|HD]; [|right; now apply IH].
    left. inversion HFt as [|? ? Hy HFt']; subst. rewrite Forall_forall in Hle, HFt.
    assert (Hdz : dom z) by now apply HFt.
    assert (Hxz0 : cmp x z = 0) by (destruct Hxz as [H|H]; [now apply cmp_eq|apply cmp_zero_sym; try assumption; now apply cmp_eq]).
    apply cmp_eq; try assumption.
    (* x <= y <= z (or y = z) and z ~ x: so x ~ y *)
    assert (Hxy : cmp x y <= 0) by (apply Hle; now left).
    assert (Hyz : cmp y z <= 0).
    { destruct Hz as [<-|Hz]; [|inversion HSt as [|? ? _ Hle']; subst; rewrite Forall_forall in Hle'; now apply Hle'].
      (* y = z *) assert (H0 : cmp y y = 0) by (apply cmp_antisym; try assumption; apply (cmp_trans y x y); try assumption; lia || (rewrite (cmp_zero_sym x y); try assumption; lia)).
      lia. }
    apply cmp_antisym; try assumption.
    apply (cmp_trans y z x); try assumption. rewrite (cmp_zero_sym x z Hx Hdz Hxz0). lia.
Qed.

Lemma adj_sound : forall l, adj l = true -> pair_in l.
Proof.
  induction l as [|x t IH]; [discriminate|]. destruct t as [|y t']; [discriminate|]. cbn [adj]. intros H.
  apply orb_true_iff in H as [H|H].
  - exists [], x, [], y, t'. split; [reflexivity|exact H].
  - destruct (IH H) as (l1 & a & l2 & b & l3 & E & He). exists (x :: l1), a, l2, b, l3. split; [now rewrite E|exact He].
Qed.

Variable sort : list node -> list node.
Theorem sorted_strategy_correct l : Forall dom l -> Permutation (sort l) l ->
  StronglySorted (fun a b => cmp a b <= 0) (sort l) -> adj (sort l) = lin l.
Proof.
  intros HF HP HS.
  assert (HF' : Forall dom (sort l)) by (rewrite Forall_forall in *; intros x Hx; apply HF; eapply Permutation_in; eassumption).
  destruct (lin l) eqn:El.
  - apply adj_of_sorted; try assumption. apply (dup_in_perm l); [now apply Permutation_sym|].
    apply dup_in_pair; [assumption|]. now apply lin_iff.
  - destruct (adj (sort l)) eqn:Ea; [|reflexivity]. exfalso.
    apply adj_sound in Ea. apply (dup_in_pair _ HF') in Ea. apply (dup_in_perm _ l HP) in Ea.
    apply (dup_in_pair _ HF) in Ea. apply lin_iff in Ea. congruence.
Qed.
End Abstract.

(* ================================================================== Part 2: the model's comparator *)
(* lexicographic order on lists of integers (a proper prefix is smaller) *)
Fixpoint lex (a b : list Z) : comparison :=
  match a, b with
  | [], [] => Eq
  | [], _ :: _ => Lt
  | _ :: _, [] => Gt
  | x :: a', y :: b' => match Z.compare x y with Eq => lex a' b' | r => r end
  end.
Lemma lex_eq : forall a b, lex a b = Eq <-> a = b.
Proof.
  induction a as [|x a IH]; intros [|y b]; cbn [lex]; try (split; [discriminate|discriminate]); [tauto|].
  destruct (Z.compare_spec x y) as [->|H|H].
  - rewrite IH. split; [now intros ->|now intros [= ->]].
  - split; [discriminate|intros [= -> _]; lia].
  - split; [discriminate|intros [= -> _]; lia].
Qed.
Lemma lex_antisym : forall a b, lex b a = CompOpp (lex a b).
Proof.
  induction a as [|x a IH]; intros [|y b]; cbn [lex]; try reflexivity.
  rewrite (Z.compare_antisym x y). destruct (x ?= y); cbn [CompOpp]; [apply IH|reflexivity|reflexivity].
Qed.
Lemma lex_trans : forall a b d, lex a b <> Gt -> lex b d <> Gt -> lex a d <> Gt.
Proof.
  induction a as [|x a IH]; intros [|y b] [|z d]; cbn [lex]; try congruence.
  destruct (Z.compare_spec x y) as [H1|H1|H1]; destruct (Z.compare_spec y z) as [H2|H2|H2]; try congruence; intros Ha Hb.
  all: try (assert (Hxz : (x ?= z) = Eq) by (apply Z.compare_eq_iff; lia); rewrite Hxz; now apply (IH b d)).
  all: assert (Hxz : (x ?= z) = Lt) by (apply Z.compare_lt_iff; lia); rewrite Hxz; discriminate.
Qed.
Lemma lex_app : forall p1 p2 r1 r2, length p1 = length p2 ->
  lex (p1 ++ r1) (p2 ++ r2) = match lex p1 p2 with Eq => lex r1 r2 | r => r end.
Proof.
  induction p1 as [|x p1 IH]; intros [|y p2] r1 r2 Hl; cbn in Hl; try discriminate; cbn [app lex]; [reflexivity|].
  destruct (x ?= y); try reflexivity. apply IH. lia.
Qed.

Definition sgn (z : Z) : comparison := Z.compare z 0.
Lemma sgn_le z : z <= 0 <-> sgn z <> Gt.
Proof. unfold sgn. destruct (Z.compare_spec z 0); split; intros; try lia; try congruence; discriminate. Qed.
Lemma sgn_eq z : z = 0 <-> sgn z = Eq.
Proof. unfold sgn. destruct (Z.compare_spec z 0); split; intros; try lia; try congruence; discriminate. Qed.

(* any comparator whose sign is the lexicographic comparison of integer keys is a total preorder *)
Section Keyed.
Variable cmp : node -> node -> Z.
Variable key : node -> list Z.
Variable dom : node -> Prop.
Hypothesis cmp_key : forall a b, dom a -> dom b -> sgn (cmp a b) = lex (key a) (key b).
Lemma keyed_trans a b d : dom a -> dom b -> dom d -> cmp a b <= 0 -> cmp b d <= 0 -> cmp a d <= 0.
Proof. intros Ha Hb Hd. rewrite !sgn_le, !cmp_key by assumption. apply lex_trans. Qed.
Lemma keyed_antisym a b : dom a -> dom b -> cmp a b <= 0 -> cmp b a <= 0 -> cmp a b = 0.
Proof.
  intros Ha Hb. rewrite !sgn_le, sgn_eq, !cmp_key by assumption. rewrite (lex_antisym (key a) (key b)).
  destruct (lex (key a) (key b)); cbn; congruence.
Qed.
Lemma keyed_zero_sym a b : dom a -> dom b -> cmp a b = 0 -> cmp b a = 0.
Proof.
  intros Ha Hb. rewrite !sgn_eq, !cmp_key by assumption. rewrite (lex_antisym (key a) (key b)). now intros ->.
Qed.
End Keyed.

(* ---- keys of scalar values ---- *)
Definition bl (bs : bytes) : list Z := map bz bs.
Lemma bz_inj x y : bz x = bz y -> x = y.
Proof.
  unfold bz. intros H. apply N2Z.inj in H. pose proof (Byte.of_to_N x) as Hx. pose proof (Byte.of_to_N y) as Hy.
  rewrite H in Hx. congruence.
Qed.
Lemma bytes_cmp_lex : forall a b, length a = length b -> sgn (bytes_cmp a b) = lex (bl a) (bl b).
Proof.
  induction a as [|x a IH]; intros [|y b] Hl; cbn in Hl; try discriminate; cbn [bytes_cmp bl map lex]; [reflexivity|].
  destruct (Byte.eqb x y) eqn:E.
  - apply Byte.byte_dec_bl in E. subst y. rewrite Z.compare_refl. apply IH. lia.
  - assert (Hne : bz x <> bz y) by (intros H; apply bz_inj in H; subst; rewrite (Byte.byte_dec_lb eq_refl) in E; discriminate).
    unfold sgn. destruct (Z.compare_spec (bz x) (bz y)); [congruence|apply Z.compare_lt_iff; lia|apply Z.compare_gt_iff; lia].
Qed.
Lemma bytes_eqb_cmp : forall a b, length a = length b -> (bytes_eqb a b = true <-> bytes_cmp a b = 0).
Proof.
  induction a as [|x a IH]; intros [|y b] Hl; cbn in Hl; try discriminate; cbn [bytes_eqb bytes_cmp]; [tauto|].
  destruct (Byte.eqb x y) eqn:E; cbn [andb]; [apply IH; lia|].
  split; [discriminate|]. intros H. assert (bz x = bz y) by lia. apply bz_inj in H0. subst. rewrite (Byte.byte_dec_lb eq_refl) in E. discriminate.
Qed.
Lemma bytes_eqb_length : forall a b, bytes_eqb a b = true -> length a = length b.
Proof. induction a as [|x a IH]; intros [|y b]; cbn; try discriminate; [reflexivity|]. intros H. apply andb_prop in H as [_ H]. f_equal. now apply IH. Qed.

Definition fkey (f : spec_float) : list Z :=
  match f with
  | S754_nan => [3]
  | S754_infinity false => [2]
  | S754_infinity true => [-2]
  | S754_zero _ => [0]
  | S754_finite false m e => [1; e; Z.pos m]
  | S754_finite true m e => [-1; - e; - Z.pos m]
  end.
Lemma SFcompare_fkey x y : x <> S754_nan -> y <> S754_nan -> SFcompare x y = Some (lex (fkey x) (fkey y)).
Proof.
  intros Hx Hy. destruct x as [sx|sx| |sx mx ex]; destruct y as [sy|sy| |sy my ey]; try congruence;
    try (destruct sx; destruct sy; reflexivity); try (destruct sx; reflexivity); try (destruct sy; reflexivity).
  destruct sx, sy; cbn [SFcompare fkey lex]; try reflexivity.
  - change (-1 ?= -1) with Eq. cbv iota. rewrite (Z.compare_opp ex ey), (Z.compare_antisym ex ey).
    destruct (ex ?= ey) eqn:E; cbn [CompOpp]; try reflexivity.
    rewrite (Z.compare_opp (Z.pos mx) (Z.pos my)). cbn [Z.compare]. rewrite (Pos.compare_antisym mx my).
    unfold Pos.compare. destruct (Pos.compare_cont Eq mx my); reflexivity.
  - change (1 ?= 1) with Eq. cbv iota. destruct (ex ?= ey); try reflexivity. cbn [Z.compare]. unfold Pos.compare. destruct (Pos.compare_cont Eq mx my); reflexivity.
Qed.

Section Model.
Variable c : cfg.
Variable xe : Z -> option (Z -> Z -> bool).

Definition scalar (v : value) : bool :=
  match v with VNil | VBool _ | VInt _ | VFloat _ | VChar _ | VString _ _ _ | VSymbol _ _ | VKeyword _ _ => true | _ => false end.
(* the elements the sort strategy is entered with: scalars fresh from the reader (no cached hash), with names
   and strings shorter than 2^31 bytes (the comparator returns length differences truncated to int) *)
Definition small (v : value) : Prop :=
  match v with
  | VString r _ _ => Z.of_nat (length r) < 2 ^ 31
  | VSymbol ns nm | VKeyword ns nm => opt_len ns < 2 ^ 31 /\ Z.of_nat (length nm) < 2 ^ 31
  | _ => True
  end.
Definition sdom (n : node) : Prop := sort_comparable n = true /\ nhash n = 0 /\ small (nval n).
(* the type tags of the scalar kinds are pairwise different (checked for the generated flag sets below) *)
Hypothesis tags_inj : forall v1 v2, scalar v1 = true -> scalar v2 = true -> type_of c v1 = type_of c v2 -> kind_of v1 = kind_of v2.

Definition key (n : node) : list Z :=
  type_of c (nval n) ::
  match nval n with
  | VBool b => [b2z b] | VInt x => [x] | VChar x => [x] | VFloat f => fkey f
  | VString r e _ => b2z e :: Z.of_nat (length r) :: bl r
  | VSymbol ns nm | VKeyword ns nm => opt_len ns :: bl (opt_bytes ns) ++ Z.of_nat (length nm) :: bl nm
  | _ => []
  end.

Lemma trunc_small z : - 2 ^ 31 <= z < 2 ^ 31 -> trunc_int z = z.
Proof.
  intros H. unfold trunc_int, wrapS. cbv zeta. change (2 ^ 32) with 4294967296. change (2 ^ (32 - 1)) with 2147483648.
  change (2 ^ 31) with 2147483648 in H.
  pose proof (Z.mod_pos_bound z 4294967296 ltac:(lia)) as Hb. pose proof (Z.div_mod z 4294967296 ltac:(lia)) as Hd.
  destruct (z mod 4294967296 <? 2147483648) eqn:E; [apply Z.ltb_lt in E|apply Z.ltb_ge in E]; nia.
Qed.
Lemma opt_len_len o : opt_len o = Z.of_nat (length (opt_bytes o)).
Proof. destruct o; reflexivity. Qed.

Lemma int_cmp_sgn x y : sgn (if x <? y then -1 else if x >? y then 1 else 0) = (x ?= y).
Proof.
  unfold sgn. destruct (Z.compare_spec x y) as [->|H|H].
  - rewrite Z.ltb_irrefl, Z.gtb_ltb, Z.ltb_irrefl. reflexivity.
  - replace (x <? y) with true by (symmetry; now apply Z.ltb_lt). reflexivity.
  - replace (x <? y) with false by (symmetry; apply Z.ltb_ge; lia). rewrite Z.gtb_ltb.
    replace (y <? x) with true by (symmetry; now apply Z.ltb_lt). reflexivity.
Qed.
Lemma lex1 x y : lex [x] [y] = (x ?= y).
Proof. cbn [lex]. destruct (x ?= y); reflexivity. Qed.

Lemma float_cmp_sgn x y :
  sgn (match x, y with
       | S754_nan, S754_nan => 0 | S754_nan, _ => 1 | _, S754_nan => -1
       | _, _ => if SFltb x y then -1 else if SFltb y x then 1 else 0 end) = lex (fkey x) (fkey y).
Proof.
  assert (Hdec : forall f : spec_float, f = S754_nan \/ f <> S754_nan) by (intros [| | |]; [right|right|left|right]; congruence).
  destruct (Hdec x) as [->|Hx]; destruct (Hdec y) as [->|Hy].
  - reflexivity.
  - destruct y as [s|[]| |[] m e]; try congruence; reflexivity.
  - destruct x as [s|[]| |[] m e]; try congruence; reflexivity.
  - assert (E : (match x, y with
       | S754_nan, S754_nan => 0 | S754_nan, _ => 1 | _, S754_nan => -1
       | _, _ => if SFltb x y then -1 else if SFltb y x then 1 else 0 end) = if SFltb x y then -1 else if SFltb y x then 1 else 0)
      by (destruct x; destruct y; congruence).
    rewrite E. unfold SFltb. rewrite (SFcompare_fkey x y Hx Hy), (SFcompare_fkey y x Hy Hx), (lex_antisym (fkey x) (fkey y)).
    destruct (lex (fkey x) (fkey y)); reflexivity.
Qed.

Lemma sgn_sub x y : sgn (x - y) = (x ?= y).
Proof. unfold sgn. destruct (Z.compare_spec x y); [apply Z.compare_eq_iff|apply Z.compare_lt_iff|apply Z.compare_gt_iff]; lia. Qed.
Lemma lex_cons_ne x y a b : x <> y -> lex (x :: a) (y :: b) = (x ?= y).
Proof. intros H. cbn [lex]. destruct (Z.compare_spec x y); [congruence|reflexivity|reflexivity]. Qed.
Lemma lex_cons_eq x a b : lex (x :: a) (x :: b) = lex a b.
Proof. cbn [lex]. now rewrite Z.compare_refl. Qed.
Lemma len_inj (a b : bytes) : Z.of_nat (length a) = Z.of_nat (length b) -> length a = length b.
Proof. lia. Qed.

(* names / strings part shared by the string, symbol and keyword cases *)
Lemma seg_cmp (r1 r2 : bytes) (rest1 rest2 : list Z) (tail : Z) :
  Z.of_nat (length r1) < 2 ^ 31 -> Z.of_nat (length r2) < 2 ^ 31 ->
  (length r1 = length r2 -> bytes_cmp r1 r2 = 0 -> sgn tail = lex rest1 rest2) ->
  sgn (if negb (Z.of_nat (length r1) =? Z.of_nat (length r2)) then trunc_int (Z.of_nat (length r1) - Z.of_nat (length r2))
       else let cn := bytes_cmp r1 r2 in if negb (cn =? 0) then cn else tail)
  = lex (Z.of_nat (length r1) :: bl r1 ++ rest1) (Z.of_nat (length r2) :: bl r2 ++ rest2).
Proof.
  intros H1 H2 Ht. destruct (Z.eqb_spec (Z.of_nat (length r1)) (Z.of_nat (length r2))) as [E|E]; cbn [negb].
  - rewrite E, lex_cons_eq. apply len_inj in E. rewrite lex_app by (unfold bl; now rewrite !map_length).
    cbv zeta. rewrite <- (bytes_cmp_lex r1 r2 E). destruct (Z.eqb_spec (bytes_cmp r1 r2) 0) as [E0|E0]; cbn [negb].
    + rewrite E0. cbn. now apply Ht.
    + destruct (sgn (bytes_cmp r1 r2)) eqn:Es; try reflexivity. apply sgn_eq in Es. congruence.
  - rewrite trunc_small by lia. rewrite sgn_sub. now rewrite lex_cons_ne.
Qed.

Lemma cmp_key a b : sdom a -> sdom b -> sgn (compare_nodes c a b) = lex (key a) (key b).
Proof.
  intros (Sa & Ha & Ma) (Sb & Hb & Mb). unfold compare_nodes, key. cbv zeta.
  destruct (Z.eqb_spec (type_of c (nval a)) (type_of c (nval b))) as [E|E]; cbn [negb].
  2:{ rewrite sgn_sub. now rewrite lex_cons_ne. }
  rewrite E, lex_cons_eq. unfold sort_comparable in Sa, Sb.
  assert (Hk : kind_of (nval a) = kind_of (nval b)).
  { apply tags_inj; [destruct (nval a); try discriminate; reflexivity|destruct (nval b); try discriminate; reflexivity|exact E]. }
  destruct (nval a) as [ |x|x| |x| | | |x|r1 e1 p1|ns1 nm1|ns1 nm1| | | | | | ]; try discriminate;
    destruct (nval b) as [ |y|y| |y| | | |y|r2 e2 p2|ns2 nm2|ns2 nm2| | | | | | ]; try discriminate; cbn [small] in Ma, Mb.
  - reflexivity.
  - destruct x, y; reflexivity.
  - rewrite int_cmp_sgn. now rewrite lex1.
  - apply float_cmp_sgn.
  - rewrite int_cmp_sgn. now rewrite lex1.
  - (* strings *)
    destruct e1, e2; cbn [Bool.eqb negb b2z]; try reflexivity.
    + rewrite lex_cons_eq.
      pose proof (seg_cmp r1 r2 [] [] 0 Ma Mb ltac:(reflexivity)) as H. rewrite !app_nil_r in H. cbv zeta in H.
      rewrite <- H. destruct (negb (_ =? _)); [reflexivity|]. destruct (Z.eqb_spec (bytes_cmp r1 r2) 0) as [E0|E0]; cbn [negb]; [now rewrite E0|reflexivity].
    + rewrite lex_cons_eq.
      pose proof (seg_cmp r1 r2 [] [] 0 Ma Mb ltac:(reflexivity)) as H. rewrite !app_nil_r in H. cbv zeta in H.
      rewrite <- H. destruct (negb (_ =? _)); [reflexivity|]. destruct (Z.eqb_spec (bytes_cmp r1 r2) 0) as [E0|E0]; cbn [negb]; [now rewrite E0|reflexivity].
  - (* symbols *)
    destruct Ma as [Ma1 Ma2], Mb as [Mb1 Mb2]. rewrite !opt_len_len in *.
    apply (seg_cmp (opt_bytes ns1) (opt_bytes ns2)); try assumption.
    intros _ _. pose proof (seg_cmp nm1 nm2 [] [] 0 Ma2 Mb2 ltac:(reflexivity)) as H. rewrite !app_nil_r in H. cbv zeta in H.
    rewrite <- H. destruct (negb (_ =? _)); [reflexivity|]. destruct (Z.eqb_spec (bytes_cmp nm1 nm2) 0) as [E0|E0]; cbn [negb]; [now rewrite E0|reflexivity].
  - (* keywords *)
    destruct Ma as [Ma1 Ma2], Mb as [Mb1 Mb2]. rewrite !opt_len_len in *.
    apply (seg_cmp (opt_bytes ns1) (opt_bytes ns2)); try assumption.
    intros _ _. pose proof (seg_cmp nm1 nm2 [] [] 0 Ma2 Mb2 ltac:(reflexivity)) as H. rewrite !app_nil_r in H. cbv zeta in H.
    rewrite <- H. destruct (negb (_ =? _)); [reflexivity|]. destruct (Z.eqb_spec (bytes_cmp nm1 nm2) 0) as [E0|E0]; cbn [negb]; [now rewrite E0|reflexivity].
Qed.

(* equality on these values is exactly "the comparator returns 0" *)
Lemma float_eq_cmp x y :
  float_eq x y = true <->
  (match x, y with
   | S754_nan, S754_nan => 0 | S754_nan, _ => 1 | _, S754_nan => -1
   | _, _ => if SFltb x y then -1 else if SFltb y x then 1 else 0 end) = 0.
Proof.
  rewrite sgn_eq, float_cmp_sgn.
  assert (Hdec : forall f : spec_float, f = S754_nan \/ f <> S754_nan) by (intros [| | |]; [right|right|left|right]; congruence).
  destruct (Hdec x) as [->|Hx]; destruct (Hdec y) as [->|Hy].
  - cbn. tauto.
  - destruct y as [s|[]| |[] m e]; try congruence; cbn; split; discriminate.
  - destruct x as [s|[]| |[] m e]; try congruence; cbn; split; discriminate.
  - assert (E : float_eq x y = SFeqb x y) by (destruct x; destruct y; try congruence; reflexivity).
    rewrite E. unfold SFeqb. rewrite (SFcompare_fkey x y Hx Hy). destruct (lex (fkey x) (fkey y)); split; congruence.
Qed.

Lemma seg_eq (r1 r2 : bytes) (tail : Z) (tl : bool) :
  Z.of_nat (length r1) < 2 ^ 31 -> Z.of_nat (length r2) < 2 ^ 31 -> (tl = true <-> tail = 0) ->
  (bytes_eqb r1 r2 && tl = true <->
   (if negb (Z.of_nat (length r1) =? Z.of_nat (length r2)) then trunc_int (Z.of_nat (length r1) - Z.of_nat (length r2))
    else let cn := bytes_cmp r1 r2 in if negb (cn =? 0) then cn else tail) = 0).
Proof.
  intros H1 H2 Ht. destruct (Z.eqb_spec (Z.of_nat (length r1)) (Z.of_nat (length r2))) as [E|E]; cbn [negb].
  - apply len_inj in E. cbv zeta. pose proof (bytes_eqb_cmp r1 r2 E) as Hb.
    destruct (Z.eqb_spec (bytes_cmp r1 r2) 0) as [E0|E0]; cbn [negb].
    + rewrite (proj2 Hb E0). cbn [andb]. exact Ht.
    + destruct (bytes_eqb r1 r2); [tauto|]. cbn [andb]. split; [discriminate|congruence].
  - rewrite trunc_small by lia. split; [|lia]. intros H. apply andb_prop in H as [H _]. apply bytes_eqb_length in H. lia.
Qed.

Lemma cmp_eq_model a b : sdom a -> sdom b -> (equal c xe a b = true <-> compare_nodes c a b = 0).
Proof.
  intros (Sa & Ha & Ma) (Sb & Hb & Mb). unfold equal. destruct max_depth as [|f] eqn:Ef; [unfold max_depth in Ef; vm_compute in Ef; discriminate|].
  cbn [equal_fuel]. unfold compare_nodes. cbv zeta. rewrite Ha, Hb. cbn [Z.eqb negb andb].
  unfold sort_comparable in Sa, Sb.
  assert (Hsa : is_seq (nval a) = false) by (destruct (nval a); try discriminate; reflexivity).
  rewrite Hsa. cbn [andb negb]. rewrite andb_true_r.
  destruct (Z.eqb_spec (type_of c (nval a)) (type_of c (nval b))) as [E|E]; cbn [negb].
  2:{ split; [discriminate|lia]. }
  assert (Hk : kind_of (nval a) = kind_of (nval b)).
  { apply tags_inj; [destruct (nval a); try discriminate; reflexivity|destruct (nval b); try discriminate; reflexivity|exact E]. }
  destruct (nval a) as [ |x|x| |x| | | |x|r1 e1 p1|ns1 nm1|ns1 nm1| | | | | | ]; try discriminate;
    destruct (nval b) as [ |y|y| |y| | | |y|r2 e2 p2|ns2 nm2|ns2 nm2| | | | | | ]; try discriminate; cbn [small] in Ma, Mb.
  - tauto.
  - destruct x, y; cbn; split; congruence || discriminate.
  - rewrite sgn_eq, int_cmp_sgn, Z.eqb_eq, Z.compare_eq_iff. tauto.
  - apply float_eq_cmp.
  - rewrite sgn_eq, int_cmp_sgn, Z.eqb_eq, Z.compare_eq_iff. tauto.
  - destruct e1, e2; cbn [Bool.eqb negb andb]; try (split; [discriminate|lia]).
    + pose proof (seg_eq r1 r2 0 true Ma Mb ltac:(tauto)) as H. rewrite andb_true_r in H. cbv zeta in H. rewrite H.
      destruct (negb (_ =? _)); [tauto|]. destruct (Z.eqb_spec (bytes_cmp r1 r2) 0) as [E0|E0]; cbn [negb]; [rewrite E0; tauto|tauto].
    + pose proof (seg_eq r1 r2 0 true Ma Mb ltac:(tauto)) as H. rewrite andb_true_r in H. cbv zeta in H. rewrite H.
      destruct (negb (_ =? _)); [tauto|]. destruct (Z.eqb_spec (bytes_cmp r1 r2) 0) as [E0|E0]; cbn [negb]; [rewrite E0; tauto|tauto].
  - (* symbols *)
    destruct Ma as [Ma1 Ma2], Mb as [Mb1 Mb2]. rewrite !opt_len_len in *.
    assert (Hnm : bytes_eqb nm1 nm2 = true <->
                  (if negb (Z.of_nat (length nm1) =? Z.of_nat (length nm2)) then trunc_int (Z.of_nat (length nm1) - Z.of_nat (length nm2))
                   else bytes_cmp nm1 nm2) = 0).
    { pose proof (seg_eq nm1 nm2 0 true Ma2 Mb2 ltac:(tauto)) as H. rewrite andb_true_r in H. cbv zeta in H. rewrite H.
      destruct (negb (_ =? _)); [tauto|]. destruct (Z.eqb_spec (bytes_cmp nm1 nm2) 0) as [E0|E0]; cbn [negb]; [rewrite E0; tauto|tauto]. }
    pose proof (seg_eq (opt_bytes ns1) (opt_bytes ns2) _ _ Ma1 Mb1 Hnm) as H. cbv zeta in H.
    destruct (Z.eqb_spec (Z.of_nat (length (opt_bytes ns1))) (Z.of_nat (length (opt_bytes ns2)))) as [E1|E1]; cbn [negb andb] in H |- *.
    + exact H.
    + rewrite trunc_small by lia. split; [discriminate|lia].
  - (* keywords *)
    destruct Ma as [Ma1 Ma2], Mb as [Mb1 Mb2]. rewrite !opt_len_len in *.
    assert (Hnm : bytes_eqb nm1 nm2 = true <->
                  (if negb (Z.of_nat (length nm1) =? Z.of_nat (length nm2)) then trunc_int (Z.of_nat (length nm1) - Z.of_nat (length nm2))
                   else bytes_cmp nm1 nm2) = 0).
    { pose proof (seg_eq nm1 nm2 0 true Ma2 Mb2 ltac:(tauto)) as H. rewrite andb_true_r in H. cbv zeta in H. rewrite H.
      destruct (negb (_ =? _)); [tauto|]. destruct (Z.eqb_spec (bytes_cmp nm1 nm2) 0) as [E0|E0]; cbn [negb]; [rewrite E0; tauto|tauto]. }
    pose proof (seg_eq (opt_bytes ns1) (opt_bytes ns2) _ _ Ma1 Mb1 Hnm) as H. cbv zeta in H.
    destruct (Z.eqb_spec (Z.of_nat (length (opt_bytes ns1))) (Z.of_nat (length (opt_bytes ns2)))) as [E1|E1]; cbn [negb andb] in H |- *.
    + exact H.
    + rewrite trunc_small by lia. split; [discriminate|lia].
Qed.

(* ---- the strategy of the model ---- *)
Lemma adj_is_adjacent_dup l : adj (equal c xe) l = adjacent_dup c xe l.
Proof.
  induction l as [|x t IH]; [reflexivity|]. destruct t as [|y t']; [reflexivity|].
  change (adj (equal c xe) (x :: y :: t')) with (equal c xe x y || adj (equal c xe) (y :: t')).
  change (adjacent_dup c xe (x :: y :: t')) with (equal c xe x y || adjacent_dup c xe (y :: t')). now rewrite IH.
Qed.
Lemma existsb_ext' {A} (f g : A -> bool) l : (forall a, f a = g a) -> existsb f l = existsb g l.
Proof. intros H. induction l as [|a t IH]; [reflexivity|]. cbn [existsb]. now rewrite H, IH. Qed.
Lemma existsb_map' {A B} (f : B -> bool) (g : A -> B) l : existsb f (map g l) = existsb (fun a => f (g a)) l.
Proof. induction l as [|a t IH]; [reflexivity|]. cbn [map existsb]. now rewrite IH. Qed.

(* the scan with the loop parameters GENERATED from uniqueness.c (first index, bound, the two subscripts) is the scan of
   all adjacent pairs: a change of any of the four numbers in the source breaks this obligation *)
Lemma window_is_adjacent l : sorted_scan c xe l = adjacent_dup c xe l.
Proof.
  unfold sorted_scan, window_dup. change SORTED_SCAN_FIRST with 0. change SORTED_SCAN_BOUND_SUB with 1.
  change SORTED_SCAN_LEFT with 0. change SORTED_SCAN_RIGHT with 1.
  replace (Z.to_nat (Z.of_nat (length l) - 1 - 0)) with (Nat.pred (length l)) by lia.
  assert (Hf : forall k, (let i := 0 + Z.of_nat k in
                          match nth_error l (Z.to_nat (i + 0)), nth_error l (Z.to_nat (i + 1)) with
                          | Some x, Some y => equal c xe x y | _, _ => false end) =
                         match nth_error l k, nth_error l (S k) with Some x, Some y => equal c xe x y | _, _ => false end).
  { intros k. cbv zeta. replace (Z.to_nat (0 + Z.of_nat k + 0)) with k by lia. replace (Z.to_nat (0 + Z.of_nat k + 1)) with (S k) by lia. reflexivity. }
  rewrite (existsb_ext' _ _ _ Hf). clear Hf.
  induction l as [|x t IH]; [reflexivity|]. destruct t as [|y t']; [reflexivity|].
  change (adjacent_dup c xe (x :: y :: t')) with (equal c xe x y || adjacent_dup c xe (y :: t')). rewrite <- IH.
  cbn [length Nat.pred]. change (seq 0 (S (length t'))) with (0%nat :: seq 1 (length t')). cbn [existsb nth_error]. f_equal.
  rewrite <- seq_shift, existsb_map'. reflexivity.
Qed.
Lemma lin_is_dup_linear l : lin (equal c xe) l = dup_linear c xe l.
Proof. induction l as [|x t IH]; [reflexivity|]. cbn [lin dup_linear]. now rewrite IH. Qed.

(* for any sorting function: the sort-based check on scalars fresh from the reader gives the pairwise verdict *)
Theorem dup_sorted_correct (sort : list node -> list node) l :
  Forall sdom l -> Permutation (sort l) l -> StronglySorted (fun a b => compare_nodes c a b <= 0) (sort l) ->
  dup_sorted c xe sort l = dup_linear c xe l.
Proof.
  intros HF HP HS. unfold dup_sorted. destruct (forallb sort_comparable l); [|reflexivity].
  rewrite window_is_adjacent. rewrite <- adj_is_adjacent_dup, <- lin_is_dup_linear.
  apply (sorted_strategy_correct (equal c xe) (compare_nodes c) sdom); try assumption.
  - apply cmp_eq_model.
  - apply (keyed_trans (compare_nodes c) key sdom cmp_key).
  - apply (keyed_antisym (compare_nodes c) key sdom cmp_key).
  - apply (keyed_zero_sym (compare_nodes c) key sdom cmp_key).
Qed.
End Model.

(* ---- the sorting function the executable model uses (insertion sort with the comparator) meets the two
   assumptions made about qsort, on the same domain ---- *)
From Verif Require Import Configs FlagProofs.

Section Isort.
Variable c : cfg.
Variable xe : Z -> option (Z -> Z -> bool).
Hypothesis tags_inj : forall v1 v2, scalar v1 = true -> scalar v2 = true -> type_of c v1 = type_of c v2 -> kind_of v1 = kind_of v2.
Notation sd := sdom.

Lemma insert_perm x l : Permutation (insert_node c x l) (x :: l).
Proof.
  induction l as [|y t IH]; cbn [insert_node]; [apply Permutation_refl|].
  destruct (compare_nodes c x y <=? 0); [apply Permutation_refl|].
  apply perm_trans with (y :: x :: t); [now apply perm_skip|apply perm_swap].
Qed.
Lemma isort_perm l : Permutation (isort c l) l.
Proof.
  induction l as [|x t IH]; cbn [isort fold_right]; [apply perm_nil|].
  apply perm_trans with (x :: isort c t); [apply insert_perm|now apply perm_skip].
Qed.
Lemma cmp_total a b : sd a -> sd b -> compare_nodes c a b <= 0 \/ compare_nodes c b a <= 0.
Proof.
  intros Ha Hb. rewrite !sgn_le, !(cmp_key c tags_inj) by assumption. rewrite (lex_antisym (key c a) (key c b)).
  destruct (lex (key c a) (key c b)); cbn; [left|left|right]; congruence.
Qed.
Lemma insert_sorted x l : sd x -> Forall sd l -> StronglySorted (fun a b => compare_nodes c a b <= 0) l ->
  StronglySorted (fun a b => compare_nodes c a b <= 0) (insert_node c x l).
Proof.
  intros Hx. induction l as [|y t IH]; intros HF HS; cbn [insert_node].
  - constructor; [constructor|constructor].
  - inversion HF as [|? ? Hy HFt]; subst. inversion HS as [|? ? HSt Hle]; subst.
    destruct (Z.leb_spec (compare_nodes c x y) 0) as [Hxy|Hxy].
    + constructor; [exact HS|]. constructor; [exact Hxy|].
      rewrite Forall_forall in *. intros z Hz. apply (keyed_trans (compare_nodes c) (key c) sd (cmp_key c tags_inj) x y z); auto.
    + constructor; [now apply IH|].
      assert (Hyx : compare_nodes c y x <= 0) by (destruct (cmp_total x y Hx Hy); lia).
      rewrite Forall_forall in *. intros z Hz. apply (Permutation_in _ (insert_perm x t)) in Hz. destruct Hz as [<-|Hz]; [exact Hyx|now apply Hle].
Qed.
Lemma isort_sorted l : Forall sd l -> StronglySorted (fun a b => compare_nodes c a b <= 0) (isort c l).
Proof.
  induction l as [|x t IH]; intros HF; cbn [isort fold_right]; [constructor|].
  inversion HF as [|? ? Hx HFt]; subst. apply insert_sorted; [exact Hx| |now apply IH].
  rewrite Forall_forall in *. intros z Hz. apply HFt. eapply Permutation_in; [apply isort_perm|exact Hz].
Qed.

Corollary dup_sorted_isort l : Forall sd l -> dup_sorted c xe (isort c) l = dup_linear c xe l.
Proof. intros HF. apply dup_sorted_correct; [exact tags_inj|exact HF|apply isort_perm|now apply isort_sorted]. Qed.
End Isort.

(* the generated type numbering gives the eight scalar kinds pairwise different tags, in all four builds *)
Lemma tags_inj_all c : In c all_cfgs ->
  forall v1 v2, scalar v1 = true -> scalar v2 = true -> type_of c v1 = type_of c v2 -> kind_of v1 = kind_of v2.
Proof.
  intros Hc v1 v2 H1 H2 H.
  assert (Hk : forall k1 k2, In k1 [KNil; KBool; KInt; KFloat; KChar; KString; KSymbol; KKeyword] ->
                             In k2 [KNil; KBool; KInt; KFloat; KChar; KString; KSymbol; KKeyword] ->
                             nth (kind_index k1) (type_tag c) (-1) = nth (kind_index k2) (type_tag c) (-1) -> k1 = k2).
  { destruct Hc as [<-|[<-|[<-|[<-|[]]]]]; intros k1 k2 I1 I2 E;
      repeat (destruct I1 as [<-|I1]; [repeat (destruct I2 as [<-|I2]; [vm_compute in E; try reflexivity; discriminate|]); destruct I2|]); destruct I1. }
  apply Hk; [destruct v1; try discriminate; cbn; tauto|destruct v2; try discriminate; cbn; tauto|exact H].
Qed.

Theorem dup_sorted_model c xe l : In c all_cfgs -> Forall sdom l -> dup_sorted c xe (isort c) l = dup_linear c xe l.
Proof. intros Hc. apply dup_sorted_isort. now apply tags_inj_all. Qed.
