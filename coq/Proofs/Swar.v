(* Proofs/Swar.v -- the 8-ASCII-digit SWAR check and conversion GENERATED from number.c
   (Gen/Common.v eight_digits_check / eight_digits_value) are correct for every 8-byte block:
   proved algebraically (byte-wise [land] lemma, then linear arithmetic), not by sampling. *)
From Coq Require Import ZArith NArith List Bool Lia.
From Coq.Strings Require Import Byte.
From Verif Require Import Lanes Common ByteSweep Values Scan Numbers.
Import ListNotations.
Local Open Scope Z_scope.

(* ------------------------------------------------------------------ bits of a + 2^k * x *)
Lemma testbit_split k a x n :
  0 <= k -> 0 <= a < 2 ^ k -> 0 <= n ->
  Z.testbit (a + 2 ^ k * x) n = if n <? k then Z.testbit a n else Z.testbit x (n - k).
Proof.
  intros Hk Ha Hn. destruct (Z.ltb_spec n k) as [Hlt|Hge].
  - rewrite <- (Z.mod_pow2_bits_low (a + 2 ^ k * x) k n) by lia.
    replace (a + 2 ^ k * x) with (a + x * 2 ^ k) by lia.
    rewrite Z.mod_add by lia. rewrite Z.mod_small by lia. reflexivity.
  - replace n with ((n - k) + k) at 1 by lia.
    rewrite <- Z.div_pow2_bits by lia.
    replace (a + 2 ^ k * x) with (a + x * 2 ^ k) by lia.
    rewrite Z.div_add by lia. rewrite Z.div_small by lia. reflexivity.
Qed.

Lemma land_split k a c x y :
  0 <= k -> 0 <= a < 2 ^ k -> 0 <= c < 2 ^ k ->
  Z.land (a + 2 ^ k * x) (c + 2 ^ k * y) = Z.land a c + 2 ^ k * Z.land x y.
Proof.
  intros Hk Ha Hc. apply Z.bits_inj'. intros n Hn.
  assert (Hl : 0 <= Z.land a c < 2 ^ k).
  { split; [apply Z.land_nonneg; lia|].
    destruct (Z.eq_dec (Z.land a c) 0) as [E|E]; [rewrite E; lia|].
    apply Z.log2_lt_pow2; [assert (0 <= Z.land a c) by (apply Z.land_nonneg; lia); lia|].
    assert (Z.log2 (Z.land a c) <= Z.min (Z.log2 a) (Z.log2 c)) by (apply Z.log2_land; lia).
    destruct (Z.eq_dec a 0) as [Ea|Ea]; [subst; rewrite Z.land_0_l in E; lia|].
    assert (Z.log2 a < k) by (apply Z.log2_lt_pow2; lia). lia. }
  rewrite Z.land_spec, !testbit_split by lia.
  destruct (n <? k); now rewrite Z.land_spec.
Qed.

Lemma land_byte a c x y :
  0 <= a < 256 -> 0 <= c < 256 -> Z.land (a + 256 * x) (c + 256 * y) = Z.land a c + 256 * Z.land x y.
Proof. intros. apply (land_split 8); lia. Qed.

Lemma land_byte_last a c : Z.land a c = Z.land a c + 256 * Z.land 0 0.
Proof. rewrite Z.land_0_l. lia. Qed.

(* ------------------------------------------------------------------ per-byte facts (sweeps) *)
Definition hi_nibble_3 (b : byte) : bool := (Z.land (bz b) 240 =? 48).
Definition in_30_3f (b : byte) : bool := (48 <=? bz b) && (bz b <=? 63).

Lemma nibble_30 : forall b, Bool.eqb (hi_nibble_3 b) (in_30_3f b) = true.
Proof. apply byte_sweep. vm_compute. reflexivity. Qed.

Lemma plus6_nibble : forall b,
  implb (in_30_3f b) (Bool.eqb (Z.land (bz b + 6) 240 =? 48) (bz b <=? 57)) = true.
Proof. apply byte_sweep. vm_compute. reflexivity. Qed.

Lemma low_nibble_digit : forall b, implb (is_dig b) (Z.land (bz b) 15 =? bz b - 48) = true.
Proof. apply byte_sweep. vm_compute. reflexivity. Qed.

Lemma is_dig_range b : is_dig b = true <-> 48 <= bz b <= 57.
Proof. unfold is_dig, Scan.is_digit. rewrite andb_true_iff, !Z.leb_le. tauto. Qed.

(* ------------------------------------------------------------------ the 8-byte value *)
Definition val8 (b0 b1 b2 b3 b4 b5 b6 b7 : Z) : Z :=
  b0 + 256 * (b1 + 256 * (b2 + 256 * (b3 + 256 * (b4 + 256 * (b5 + 256 * (b6 + 256 * b7)))))).

Lemma le_val_8 b0 b1 b2 b3 b4 b5 b6 b7 :
  le_val [b0;b1;b2;b3;b4;b5;b6;b7] = val8 (bz b0) (bz b1) (bz b2) (bz b3) (bz b4) (bz b5) (bz b6) (bz b7).
Proof. unfold le_val, val8. lia. Qed.

(* masks in the same shape *)
Lemma mask_0f : 1085102592571150095 = val8 15 15 15 15 15 15 15 15. Proof. reflexivity. Qed.
Lemma mask_f0 : 17361641481138401520 = val8 240 240 240 240 240 240 240 240. Proof. reflexivity. Qed.
Lemma mask_30 : 3472328296227680304 = val8 48 48 48 48 48 48 48 48. Proof. reflexivity. Qed.
Lemma mask_06 : 434041037028460038 = val8 6 6 6 6 6 6 6 6. Proof. reflexivity. Qed.
Lemma mask_00ff : 71777214294589695 = val8 255 0 255 0 255 0 255 0. Proof. reflexivity. Qed.
Lemma mask_ffff : 281470681808895 = val8 255 255 0 0 255 255 0 0. Proof. reflexivity. Qed.

Lemma land_val8 a0 a1 a2 a3 a4 a5 a6 a7 c0 c1 c2 c3 c4 c5 c6 c7 :
  0 <= a0 < 256 -> 0 <= a1 < 256 -> 0 <= a2 < 256 -> 0 <= a3 < 256 ->
  0 <= a4 < 256 -> 0 <= a5 < 256 -> 0 <= a6 < 256 ->
  0 <= c0 < 256 -> 0 <= c1 < 256 -> 0 <= c2 < 256 -> 0 <= c3 < 256 ->
  0 <= c4 < 256 -> 0 <= c5 < 256 -> 0 <= c6 < 256 ->
  Z.land (val8 a0 a1 a2 a3 a4 a5 a6 a7) (val8 c0 c1 c2 c3 c4 c5 c6 c7) =
  val8 (Z.land a0 c0) (Z.land a1 c1) (Z.land a2 c2) (Z.land a3 c3) (Z.land a4 c4) (Z.land a5 c5)
       (Z.land a6 c6) (Z.land a7 c7).
Proof.
  intros. unfold val8. rewrite !land_byte by assumption. reflexivity.
Qed.

Lemma land_255 a : 0 <= a < 256 -> Z.land a 255 = a.
Proof. intros H. change 255 with (Z.ones 8). rewrite Z.land_ones by lia. apply Z.mod_small. lia. Qed.

Lemma base_inj a x c y : 0 <= a < 256 -> 0 <= c < 256 -> a + 256 * x = c + 256 * y -> a = c /\ x = y.
Proof. intros. lia. Qed.

Lemma val8_inj a0 a1 a2 a3 a4 a5 a6 a7 c0 c1 c2 c3 c4 c5 c6 c7 :
  0 <= a0 < 256 -> 0 <= a1 < 256 -> 0 <= a2 < 256 -> 0 <= a3 < 256 ->
  0 <= a4 < 256 -> 0 <= a5 < 256 -> 0 <= a6 < 256 -> 0 <= a7 < 256 ->
  0 <= c0 < 256 -> 0 <= c1 < 256 -> 0 <= c2 < 256 -> 0 <= c3 < 256 ->
  0 <= c4 < 256 -> 0 <= c5 < 256 -> 0 <= c6 < 256 -> 0 <= c7 < 256 ->
  val8 a0 a1 a2 a3 a4 a5 a6 a7 = val8 c0 c1 c2 c3 c4 c5 c6 c7 <->
  a0 = c0 /\ a1 = c1 /\ a2 = c2 /\ a3 = c3 /\ a4 = c4 /\ a5 = c5 /\ a6 = c6 /\ a7 = c7.
Proof.
  intros. unfold val8. split.
  - intros E.
    apply base_inj in E as [-> E]; try assumption.
    apply base_inj in E as [-> E]; try assumption.
    apply base_inj in E as [-> E]; try assumption.
    apply base_inj in E as [-> E]; try assumption.
    apply base_inj in E as [-> E]; try assumption.
    apply base_inj in E as [-> E]; try assumption.
    apply base_inj in E as [-> E]; try assumption.
    subst. repeat split; reflexivity.
  - intros (-> & -> & -> & -> & -> & -> & -> & ->); reflexivity.
Qed.

Lemma land_range a c : 0 <= a < 256 -> 0 <= c < 256 -> 0 <= Z.land a c < 256.
Proof.
  intros Ha Hc. split; [apply Z.land_nonneg; lia|].
  destruct (Z.eq_dec (Z.land a c) 0) as [E|E]; [rewrite E; lia|].
  assert (0 <= Z.land a c) by (apply Z.land_nonneg; lia).
  change 256 with (2 ^ 8). apply Z.log2_lt_pow2; [lia|].
  assert (Z.log2 (Z.land a c) <= Z.min (Z.log2 a) (Z.log2 c)) by (apply Z.log2_land; lia).
  destruct (Z.eq_dec a 0) as [Ea|Ea]; [subst; rewrite Z.land_0_l in E; lia|].
  assert (Z.log2 a < 8) by (apply Z.log2_lt_pow2; lia). lia.
Qed.

(* ------------------------------------------------------------------ the digit check *)
Lemma bz_surj x : 0 <= x < 256 -> exists b, bz b = x.
Proof.
  intros H. destruct (Byte.of_N (Z.to_N x)) as [b|] eqn:E.
  - exists b. unfold bz. apply Byte.to_of_N in E. rewrite E. lia.
  - apply Byte.of_N_None_iff in E. lia.
Qed.

Lemma hi3 x : 0 <= x < 256 -> (Z.land x 240 = 48 <-> 48 <= x <= 63).
Proof.
  intros Hx. destruct (bz_surj x Hx) as [b <-].
  pose proof (nibble_30 b) as H. apply Bool.eqb_prop in H. unfold hi_nibble_3, in_30_3f in H.
  rewrite <- Z.eqb_eq, H, andb_true_iff, !Z.leb_le. tauto.
Qed.

Lemma plus6 x : 48 <= x <= 63 -> (Z.land (x + 6) 240 = 48 <-> x <= 57).
Proof.
  intros Hr. assert (Hx : 0 <= x < 256) by lia. destruct (bz_surj x Hx) as [b <-].
  pose proof (plus6_nibble b) as H. unfold in_30_3f in H.
  replace ((48 <=? bz b) && (bz b <=? 63)) with true in H
    by (symmetry; rewrite andb_true_iff, !Z.leb_le; lia).
  cbn [implb] in H. apply Bool.eqb_prop in H. rewrite <- Z.eqb_eq, H, Z.leb_le. tauto.
Qed.

Definition digz (x : Z) : bool := (48 <=? x) && (x <=? 57).

Lemma check_core x0 x1 x2 x3 x4 x5 x6 x7 :
  0 <= x0 < 256 -> 0 <= x1 < 256 -> 0 <= x2 < 256 -> 0 <= x3 < 256 ->
  0 <= x4 < 256 -> 0 <= x5 < 256 -> 0 <= x6 < 256 -> 0 <= x7 < 256 ->
  z2b (eight_digits_check (val8 x0 x1 x2 x3 x4 x5 x6 x7)) = forallb digz [x0;x1;x2;x3;x4;x5;x6;x7].
Proof.
  intros H0 H1 H2 H3 H4 H5 H6 H7. unfold eight_digits_check.
  change (wrapU 64 3472328296227680304) with 3472328296227680304.
  change (wrapU 64 434041037028460038) with 434041037028460038.
  rewrite mask_f0, mask_30. rewrite land_val8 by lia.
  assert (R : forall x, 0 <= x < 256 -> 0 <= Z.land x 240 < 256) by (intros; apply land_range; lia).
  destruct (val8 (Z.land x0 240) (Z.land x1 240) (Z.land x2 240) (Z.land x3 240) (Z.land x4 240)
                 (Z.land x5 240) (Z.land x6 240) (Z.land x7 240) =? val8 48 48 48 48 48 48 48 48) eqn:E1.
  - apply Z.eqb_eq in E1. apply val8_inj in E1; try (apply R; assumption); try lia.
    destruct E1 as (e0 & e1 & e2 & e3 & e4 & e5 & e6 & e7).
    apply hi3 in e0, e1, e2, e3, e4, e5, e6, e7; try assumption.
    cbn [andb]. rewrite mask_06.
    replace (val8 x0 x1 x2 x3 x4 x5 x6 x7 + val8 6 6 6 6 6 6 6 6)
      with (val8 (x0 + 6) (x1 + 6) (x2 + 6) (x3 + 6) (x4 + 6) (x5 + 6) (x6 + 6) (x7 + 6))
      by (unfold val8; lia).
    unfold wrapU. rewrite Z.mod_small by (unfold val8; lia).
    rewrite land_val8 by lia.
    assert (R6 : forall x, 48 <= x <= 63 -> 0 <= Z.land (x + 6) 240 < 256) by (intros; apply land_range; lia).
    cbn [forallb]. unfold digz.
    destruct (val8 (Z.land (x0 + 6) 240) (Z.land (x1 + 6) 240) (Z.land (x2 + 6) 240) (Z.land (x3 + 6) 240)
                   (Z.land (x4 + 6) 240) (Z.land (x5 + 6) 240) (Z.land (x6 + 6) 240) (Z.land (x7 + 6) 240)
              =? val8 48 48 48 48 48 48 48 48) eqn:E2.
    + apply Z.eqb_eq in E2. apply val8_inj in E2; try (apply R6; assumption); try lia.
      destruct E2 as (f0 & f1 & f2 & f3 & f4 & f5 & f6 & f7).
      apply plus6 in f0, f1, f2, f3, f4, f5, f6, f7; try assumption.
      cbn. symmetry. rewrite !andb_true_iff, !Z.leb_le. lia.
    + apply Z.eqb_neq in E2. cbn. symmetry. apply not_true_is_false. intros Hall.
      rewrite !andb_true_iff, !Z.leb_le in Hall. apply E2.
      apply val8_inj; try (apply R6; assumption); try lia.
      repeat split; apply plus6; try assumption; lia.
  - apply Z.eqb_neq in E1. cbn [andb]. cbn. symmetry. apply not_true_is_false. intros Hall.
    cbn [forallb] in Hall. unfold digz in Hall.
    rewrite !andb_true_iff, !Z.leb_le in Hall. apply E1.
    apply val8_inj; try (apply R; assumption); try lia.
    repeat split; apply hi3; lia.
Qed.

Theorem eight_digits_check_correct b0 b1 b2 b3 b4 b5 b6 b7 :
  z2b (eight_digits_check (le_val [b0;b1;b2;b3;b4;b5;b6;b7])) =
  forallb is_dig [b0;b1;b2;b3;b4;b5;b6;b7].
Proof.
  rewrite le_val_8, check_core by apply bz_range. reflexivity.
Qed.

(* ------------------------------------------------------------------ the conversion *)
Lemma extract_mid s lo mid hi :
  0 <= s <= 64 -> 0 <= lo < 2 ^ s -> 0 <= mid -> lo + 2 ^ s * mid < 2 ^ 64 ->
  Z.shiftr (wrapU 64 (lo + 2 ^ s * mid + 2 ^ 64 * hi)) s = mid.
Proof.
  intros Hs Hlo Hmid Hb. unfold wrapU.
  replace (lo + 2 ^ s * mid + 2 ^ 64 * hi) with (lo + 2 ^ s * mid + hi * 2 ^ 64) by lia.
  rewrite Z.mod_add by lia.
  assert (0 <= 2 ^ s * mid) by (apply Z.mul_nonneg_nonneg; lia).
  rewrite Z.mod_small by lia.
  rewrite Z.shiftr_div_pow2 by lia.
  replace (lo + 2 ^ s * mid) with (lo + mid * 2 ^ s) by lia.
  rewrite Z.div_add by lia. rewrite Z.div_small by lia. lia.
Qed.

Lemma land15 x : 48 <= x <= 57 -> Z.land x 15 = x - 48.
Proof.
  intros Hr. assert (Hx : 0 <= x < 256) by lia. destruct (bz_surj x Hx) as [b <-].
  pose proof (low_nibble_digit b) as H.
  replace (is_dig b) with true in H by (symmetry; apply is_dig_range; lia).
  cbn [implb] in H. now apply Z.eqb_eq in H.
Qed.

Lemma land_65535 a : 0 <= a < 65536 -> Z.land a 65535 = a.
Proof. intros H. change 65535 with (Z.ones 16). rewrite Z.land_ones by lia. apply Z.mod_small. lia. Qed.

Lemma land_w16 a c x y :
  0 <= a < 65536 -> 0 <= c < 65536 ->
  Z.land (a + 65536 * x) (c + 65536 * y) = Z.land a c + 65536 * Z.land x y.
Proof. intros. apply (land_split 16); lia. Qed.

Lemma value_core d0 d1 d2 d3 d4 d5 d6 d7 :
  0 <= d0 <= 9 -> 0 <= d1 <= 9 -> 0 <= d2 <= 9 -> 0 <= d3 <= 9 ->
  0 <= d4 <= 9 -> 0 <= d5 <= 9 -> 0 <= d6 <= 9 -> 0 <= d7 <= 9 ->
  eight_digits_value (val8 (48 + d0) (48 + d1) (48 + d2) (48 + d3) (48 + d4) (48 + d5) (48 + d6) (48 + d7))
  = d0 * 10000000 + d1 * 1000000 + d2 * 100000 + d3 * 10000 + d4 * 1000 + d5 * 100 + d6 * 10 + d7.
Proof.
  intros H0 H1 H2 H3 H4 H5 H6 H7. unfold eight_digits_value.
  change (wrapU 64 1085102592571150095) with 1085102592571150095.
  change (wrapU 64 71777214294589695) with 71777214294589695.
  change (wrapU 64 281470681808895) with 281470681808895.
  change (wrapU 64 2561) with 2561. change (wrapU 64 6553601) with 6553601.
  change (wrapU 64 42949672960001) with 42949672960001.
  (* step 1 *)
  rewrite mask_0f, land_val8 by lia.
  rewrite !land15 by lia.
  replace (48 + d0 - 48) with d0 by lia. replace (48 + d1 - 48) with d1 by lia.
  replace (48 + d2 - 48) with d2 by lia. replace (48 + d3 - 48) with d3 by lia.
  replace (48 + d4 - 48) with d4 by lia. replace (48 + d5 - 48) with d5 by lia.
  replace (48 + d6 - 48) with d6 by lia. replace (48 + d7 - 48) with d7 by lia.
  set (q0 := d1 + 10 * d0). set (q1 := d2 + 10 * d1). set (q2 := d3 + 10 * d2).
  set (q3 := d4 + 10 * d3). set (q4 := d5 + 10 * d4). set (q5 := d6 + 10 * d5). set (q6 := d7 + 10 * d6).
  replace (val8 d0 d1 d2 d3 d4 d5 d6 d7 * 2561)
    with (d0 + 2 ^ 8 * val8 q0 q1 q2 q3 q4 q5 q6 0 + 2 ^ 64 * (10 * d7))
    by (unfold val8, q0, q1, q2, q3, q4, q5, q6; ring).
  rewrite extract_mid by (unfold val8, q0, q1, q2, q3, q4, q5, q6; lia).
  (* step 2 *)
  rewrite mask_00ff, land_val8 by (unfold q0, q1, q2, q3, q4, q5, q6; lia).
  rewrite !land_255 by (unfold q0, q1, q2, q3, q4, q5, q6; lia).
  rewrite !Z.land_0_r.
  set (r0 := q2 + 100 * q0). set (r1 := q4 + 100 * q2). set (r2 := q6 + 100 * q4).
  replace (val8 q0 0 q2 0 q4 0 q6 0 * 6553601)
    with (q0 + 2 ^ 16 * (r0 + 65536 * (r1 + 65536 * (r2 + 65536 * 0))) + 2 ^ 64 * (100 * q6))
    by (unfold val8, r0, r1, r2; ring).
  rewrite extract_mid by (unfold r0, r1, r2, q0, q1, q2, q3, q4, q5, q6; lia).
  (* step 3 *)
  replace 281470681808895 with (65535 + 65536 * (0 + 65536 * (65535 + 65536 * 0))) by reflexivity.
  rewrite !land_w16 by (unfold r0, r1, r2, q0, q1, q2, q3, q4, q5, q6; lia).
  rewrite !land_65535 by (unfold r0, r1, r2, q0, q1, q2, q3, q4, q5, q6; lia).
  rewrite !Z.land_0_r.
  replace ((r0 + 65536 * (0 + 65536 * (r2 + 65536 * 0))) * 42949672960001)
    with (r0 + 2 ^ 32 * (r2 + 10000 * r0) + 2 ^ 64 * (10000 * r2)) by ring.
  rewrite extract_mid by (unfold r0, r1, r2, q0, q1, q2, q3, q4, q5, q6; lia).
  unfold wrapU. rewrite Z.mod_small by (unfold r0, r1, r2, q0, q1, q2, q3, q4, q5, q6; lia).
  unfold r0, r2, q0, q2, q4, q6. ring.
Qed.

Definition dec8 (l : list byte) : Z :=
  fold_left (fun acc b => acc * 10 + dval b) l 0.

Theorem eight_digits_value_correct b0 b1 b2 b3 b4 b5 b6 b7 :
  forallb is_dig [b0;b1;b2;b3;b4;b5;b6;b7] = true ->
  eight_digits_value (le_val [b0;b1;b2;b3;b4;b5;b6;b7]) = dec8 [b0;b1;b2;b3;b4;b5;b6;b7].
Proof.
  intros Hd. cbn [forallb] in Hd. rewrite !andb_true_iff in Hd.
  destruct Hd as (h0 & h1 & h2 & h3 & h4 & h5 & h6 & h7 & _).
  apply is_dig_range in h0, h1, h2, h3, h4, h5, h6, h7.
  rewrite le_val_8.
  replace (bz b0) with (48 + (bz b0 - 48)) by lia. replace (bz b1) with (48 + (bz b1 - 48)) by lia.
  replace (bz b2) with (48 + (bz b2 - 48)) by lia. replace (bz b3) with (48 + (bz b3 - 48)) by lia.
  replace (bz b4) with (48 + (bz b4 - 48)) by lia. replace (bz b5) with (48 + (bz b5 - 48)) by lia.
  replace (bz b6) with (48 + (bz b6 - 48)) by lia. replace (bz b7) with (48 + (bz b7 - 48)) by lia.
  rewrite value_core by lia. unfold dec8, dval. cbn [fold_left]. lia.
Qed.
