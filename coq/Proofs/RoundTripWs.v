(* Proofs/RoundTripWs.v -- the fragment of RoundTrip.v under EVERY rendering with respect to trivia (C03 "every
   surface rendering", C13 at the level of documents): between the opener and the first element, between
   consecutive elements (at least one byte there), and in front of the closer, ANY run of white-space bytes,
   commas and complete line comments may stand.  The run of the model reads every such rendering to a tree that
   denotes the term with the trivia erased; hence two renderings of the same term are read to trees denoting the
   same term, whatever trivia they contain. *)
From Coq Require Import ZArith NArith List Bool Lia String.
From Coq.Strings Require Import Byte.
From Verif Require Import Lanes Common Values Floats Scan ScanFacts Numbers Equality Tokens Reader Configs ByteSweep ScanProofs
     FidelityProofs NumProgress NumLiteral FlagProofs FuelMono TriviaProofs TriviaReader ReaderInv RoundTrip.
Import ListNotations.
Local Open Scope N_scope.

(* terms annotated with the trivia written in front of each element and in front of the closer *)
Inductive aterm :=
| AKw (name : bytes)
| AInt (neg : bool) (digits : bytes)
| ASeq (vec : bool) (els : list (bytes * aterm)) (tl : bytes).

Fixpoint erase (a : aterm) : term :=
  match a with
  | AKw nm => TKw nm
  | AInt neg ds => TInt neg ds
  | ASeq vec els _ => let l := map (fun p => erase (snd p)) els in if vec then TVec l else TList l
  end.
Fixpoint asize (a : aterm) : nat :=
  match a with
  | ASeq _ els _ => S (fold_right (fun p acc => asize (snd p) + acc)%nat O els)
  | _ => 1%nat
  end.
Fixpoint prg (a : aterm) : bytes :=
  match a with
  | AKw nm => ":"%byte :: nm
  | AInt neg ds => (if neg then ["-"%byte] else []) ++ ds
  | ASeq vec els tl => (if vec then "["%byte else "("%byte) :: List.concat (map (fun p => fst p ++ prg (snd p)) els) ++ tl ++
                       [if vec then "]"%byte else ")"%byte]
  end.
(* well-formed: tokens as in RoundTrip; every trivia run is complete trivia; elements after the first are separated *)
Fixpoint awf (a : aterm) : Prop :=
  match a with
  | AKw nm => nm <> [] /\ forallb identb nm = true
  | AInt _ ds => ds <> [] /\ forallb is_dig ds = true /\ (List.hd "0"%byte ds <> "0"%byte \/ ds = ["0"%byte])
  | ASeq _ els tl => trivia tl /\ fold_right (fun p acc => trivia (fst p) /\ awf (snd p) /\ acc) True els /\
                     match els with [] => True | _ :: t => fold_right (fun p acc => fst p <> [] /\ acc) True t end
  end.

Lemma trivia_numdelim t : trivia t -> t <> [] -> exists b r, t = b :: r /\ numdelim (bz b) = true.
Proof.
  intros Ht Hne. destruct (trivia_first t Ht Hne) as (b & r & -> & Hb). exists b, r. split; [reflexivity|].
  assert (Hs : forallb (fun b => implb (is_ws b || is_semi b) (numdelim (bz b))) all_bytes = true) by (vm_compute; reflexivity).
  pose proof (byte_sweep _ Hs b) as H. cbv beta in H. now rewrite Hb in H.
Qed.

Lemma prg_first a : awf a -> exists b r, prg a = b :: r /\ is_ws b = false /\ is_semi b = false /\ prefilter (bz b) = false.
Proof.
  intros Hw. destruct a as [nm|neg ds|vec els tl].
  - exact (pr_first (TKw nm) Hw).
  - exact (pr_first (TInt neg ds) Hw).
  - destruct byte_facts as (_ & _ & Hbf & _). cbn [prg]. eexists. eexists. split; [reflexivity|].
    pose proof (byte_sweep _ Hbf (if vec then "["%byte else "("%byte)) as Hs. cbv beta in Hs.
    assert (Hk : (is_dig (if vec then "[" else "(") || Byte.eqb (if vec then "[" else "(") ":" || Byte.eqb (if vec then "[" else "(") "-" ||
                  Byte.eqb (if vec then "[" else "(") "[" || Byte.eqb (if vec then "[" else "(") "(" || Byte.eqb (if vec then "[" else "(") "]" ||
                  Byte.eqb (if vec then "[" else "(") ")")%byte = true) by (destruct vec; reflexivity).
    rewrite Hk in Hs. cbn [implb] in Hs. apply andb_prop in Hs as [Hs H3]. apply andb_prop in Hs as [H1 H2].
    repeat split; now apply negb_true_iff.
Qed.

Section WS.
Variable c : cfg.
Hypothesis Hc : In c all_cfgs.
Variable o : opts.
Variable handler : Z -> node -> option node * option bytes.
Variable xe : Z -> option (Z -> Z -> bool).
Variable xh : Z -> option (Z -> Z).
Variable sort : list node -> list node.
Variable m : mem.
Variable e : N.

Notation RV := (read_value c o handler xe xh sort m e).
Notation RS := (read_seq c o handler xe xh sort m e).
Notation RE := (read_elems c o handler xe xh sort m e).
Notation follow := (ends_at m e).
Notation Reads := (Reads c o handler xe xh sort m e).

Definition AIH (n : nat) : Prop := forall a, (asize a <= n)%nat -> awf a -> forall s, is_ok s = true ->
  cur s + N.of_nat (List.length (prg a)) <= e -> slice m (cur s) (List.length (prg a)) = prg a ->
  follow (cur s + N.of_nat (List.length (prg a))) -> Reads s (erase a) (cur s + N.of_nat (List.length (prg a))).

(* trivia (possibly empty) standing at the cursor in front of a form start: skipped *)
Definition skipped (s : pst) (ws : bytes) : pst :=
  match ws with [] => s | _ => with_cur s (cur s + N.of_nat (List.length ws)) end.
Lemma skipped_facts s ws : cur (skipped s ws) = cur s + N.of_nat (List.length ws) /\ is_ok (skipped s ws) = is_ok s /\
  depth (skipped s ws) = depth s.
Proof. destruct ws; cbn [skipped List.length N.of_nat]; repeat split; try reflexivity. lia. Qed.
Lemma absorb f s ws : trivia ws -> slice m (cur s) (List.length ws) = ws -> cur s + N.of_nat (List.length ws) <= e ->
  form_starts m e (cur s + N.of_nat (List.length ws)) -> RV (S f) s = RV (S f) (skipped s ws).
Proof.
  intros Ht Hsl Hle Hfs. destruct ws as [|b r]; [reflexivity|]. unfold skipped.
  apply (read_value_absorbs_trivia c o handler xe xh sort m e f s (b :: r)); try assumption. discriminate.
Qed.

Definition gtail (cl : byte) (l : list (bytes * aterm)) (tl : bytes) : bytes :=
  List.concat (map (fun p => fst p ++ prg (snd p)) l) ++ tl ++ [cl].

Lemma gtail_first cl l tl : (cl = "]"%byte \/ cl = ")"%byte) -> trivia tl ->
  fold_right (fun p acc => trivia (fst p) /\ awf (snd p) /\ acc) True l -> fold_right (fun p acc => fst p <> [] /\ acc) True l ->
  exists b r, gtail cl l tl = b :: r /\ numdelim (bz b) = true.
Proof.
  intros Hcl Htl Hw Hne. destruct byte_facts as (_ & _ & _ & _ & N2 & N3 & _). unfold gtail. destruct l as [|[ws x] t].
  - cbn [map List.concat app]. destruct tl as [|b r].
    + cbn [app]. eexists. eexists. split; [reflexivity|]. destruct Hcl as [-> | ->]; assumption.
    + destruct (trivia_numdelim (b :: r) Htl ltac:(discriminate)) as (b' & r' & E & Hn). injection E as <- <-.
      eexists. eexists. split; [reflexivity|exact Hn].
  - cbn [map List.concat fold_right fst snd] in *. destruct Hw as (Hws & _). destruct Hne as [Hne _].
    destruct (trivia_numdelim ws Hws Hne) as (b & r & -> & Hn). cbn [app]. eexists. eexists. split; [reflexivity|exact Hn].
Qed.

Lemma first_byte_at p l b r : l = b :: r -> slice m p (List.length l) = l -> m p = b.
Proof. intros -> H. cbn [List.length] in H. rewrite slice_S in H. now injection H. Qed.

(* the element loop on  ws1 x1 ws2 x2 ... wsk xk tl <closer>  (every ws_i non-empty) *)
Lemma elems_loop_ws n cl : AIH n -> (cl = "]"%byte \/ cl = ")"%byte) -> forall tl, trivia tl -> forall l,
  Forall (fun p => (asize (snd p) <= n)%nat) l -> fold_right (fun p acc => trivia (fst p) /\ awf (snd p) /\ acc) True l ->
  fold_right (fun p acc => fst p <> [] /\ acc) True l ->
  forall s acc, is_ok s = true -> depth s <> 0 ->
  cur s + N.of_nat (List.length (gtail cl l tl)) <= e -> slice m (cur s) (List.length (gtail cl l tl)) = gtail cl l tl ->
  exists f0, forall f, (f0 <= f)%nat -> exists xs s',
    RE f s acc = Ret (Some (rev acc ++ xs)) s' /\ Forall2 (denotes c) (map (fun p => erase (snd p)) l) xs /\
    cur s' + 1 = cur s + N.of_nat (List.length (gtail cl l tl)) /\ is_ok s' = true /\ depth s' = depth s /\ m (cur s') = cl.
Proof.
  intros IH Hcl tl Htl. induction l as [|[ws x] t IHl]; intros Hsz Hw Hne s acc Hok Hd Hle Hsl.
  - (* trailing trivia, then the closer *)
    unfold gtail in *. cbn [map List.concat app] in *. rewrite app_length in Hle, Hsl. cbn [List.length] in Hle, Hsl.
    rewrite slice_app in Hsl. apply app_eq_len in Hsl; [|now rewrite slice_length]. destruct Hsl as [Htls Hcls].
    rewrite slice_S in Hcls. injection Hcls as Hb.
    assert (Hfs : form_starts m e (cur s + N.of_nat (List.length tl))).
    { right. split; [lia|]. rewrite Hb. destruct Hcl as [-> | ->]; split; reflexivity. }
    exists 2%nat. intros f Hf. destruct f as [|[|f]]; try lia.
    pose proof (absorb f s tl Htl Htls ltac:(lia) Hfs) as Heq. destruct (skipped_facts s tl) as (Hc1 & Hok1 & Hd1).
    set (s1 := skipped s tl) in *.
    destruct (rv_closer c Hc o handler xe xh sort m e f s1 cl ltac:(now rewrite Hok1) ltac:(now rewrite Hd1) ltac:(rewrite Hc1; lia)
                        ltac:(now rewrite Hc1) Hcl) as (s' & Hr & Hc' & Hok' & Hd').
    rewrite RE_S. unfold elems_body. rewrite Heq, Hr. exists [], s'. rewrite app_nil_r.
    split; [reflexivity|]. split; [constructor|]. split; [rewrite Hc', Hc1, app_length; cbn [List.length]; lia|].
    split; [exact Hok'|]. split; [congruence|]. rewrite Hc', Hc1. exact Hb.
  - cbn [fold_right fst snd] in Hw, Hne. destruct Hw as (Hws & Hwx & Hwt). destruct Hne as [Hwsne Hnet].
    inversion Hsz as [|? ? Hszx Hszt]; subst. cbn [snd] in Hszx.
    destruct (prg_first x Hwx) as (b & r & Epr & Hnws & Hnsemi & Hpf).
    assert (Egt : gtail cl ((ws, x) :: t) tl = ws ++ prg x ++ gtail cl t tl).
    { unfold gtail. cbn [map List.concat fst snd]. rewrite <- !app_assoc. reflexivity. }
    rewrite Egt in Hle, Hsl. rewrite !app_length in Hle, Hsl.
    rewrite slice_app in Hsl. apply app_eq_len in Hsl; [|now rewrite slice_length]. destruct Hsl as [Hwsl Hsl].
    rewrite slice_app in Hsl. apply app_eq_len in Hsl; [|now rewrite slice_length]. destruct Hsl as [Hx Ht].
    set (p1 := cur s + N.of_nat (List.length ws)) in *. set (q := p1 + N.of_nat (List.length (prg x))) in *.
    destruct (gtail_first cl t tl Hcl Htl Hwt Hnet) as (b2 & r2 & Eg2 & Hnd2).
    assert (Hlen2 : (0 < List.length (gtail cl t tl))%nat) by (rewrite Eg2; cbn; lia).
    assert (Hmq : m q = b2) by (apply (first_byte_at q (gtail cl t tl) b2 r2 Eg2 Ht)).
    assert (Hfs : form_starts m e p1).
    { right. assert (Hlx : (0 < List.length (prg x))%nat) by (rewrite Epr; cbn; lia). split; [lia|].
      rewrite (first_byte_at p1 (prg x) b r Epr Hx). split; assumption. }
    (* the state behind the trivia *)
    destruct (skipped_facts s ws) as (Hc1 & Hok1 & Hd1). set (s1 := skipped s ws) in *.
    assert (Habs : forall f, RV (S f) s = RV (S f) s1) by (intros f; apply absorb; try assumption; lia).
    destruct (IH x Hszx Hwx s1 ltac:(now rewrite Hok1) ltac:(rewrite Hc1; fold p1; lia) ltac:(rewrite Hc1; exact Hx)
                 ltac:(rewrite Hc1; fold p1; fold q; apply (follow_byte m e q b2); [lia|exact Hmq|exact Hnd2])) as (fx & Hfx).
    destruct (Hfx fx (le_n _)) as (nx & sx & Hrx & Hdx & Hcx & Hokx & Hdpx). rewrite Hc1 in Hcx. fold p1 in Hcx. fold q in Hcx.
    destruct (IHl Hszt Hwt Hnet sx (nx :: acc) Hokx ltac:(rewrite Hdpx, Hd1; exact Hd) ltac:(rewrite Hcx; unfold q, p1; lia)
                  ltac:(rewrite Hcx; exact Ht)) as (ft & Hft).
    exists (S (Nat.max (S fx) ft)). intros f Hf. destruct f as [|f]; [lia|]. rewrite RE_S. unfold elems_body.
    destruct f as [|f]; [lia|]. rewrite Habs.
    assert (Hrx' : RV (S f) s1 = Ret (Some nx) sx).
    { replace (S f) with (fx + (S f - fx))%nat by lia. apply read_value_fuel_irrelevant; [exact Hrx|discriminate]. }
    rewrite Hrx'.
    destruct (Hft (S f) ltac:(lia)) as (xs & s' & Hre & Hden & Hc' & Hok' & Hd' & Hm').
    exists (nx :: xs), s'. split.
    { rewrite Hre. cbn [rev]. rewrite <- app_assoc. reflexivity. }
    cbn [map snd]. split; [constructor; assumption|].
    split; [rewrite Hc', Hcx, Egt, !app_length; unfold q, p1; lia|]. split; [exact Hok'|]. split; [rewrite Hd', Hdpx, Hd1; reflexivity|exact Hm'].
Qed.

(* the sequence reader behind the opener:  [ws0] x0 ws1 x1 ... tl <closer>  (ws0 may be empty) *)
Lemma seq_reads_ws n (vec : bool) : AIH n -> forall els tl, (asize (ASeq vec els tl) <= S n)%nat -> awf (ASeq vec els tl) -> forall s, is_ok s = true ->
  let K := if vec then KVector else KList in let cl := closer_of K in
  let body := gtail cl els tl in
  cur s + 1 + N.of_nat (List.length body) <= e -> slice m (cur s + 1) (List.length body) = body ->
  exists f0, forall f, (f0 <= f)%nat -> exists xs s',
    RS f K 1 s = Ret (Some (mk (match K with KVector => VVector xs | _ => VList xs end) (cur s) (cur s'))) s' /\
    Forall2 (denotes c) (map (fun p => erase (snd p)) els) xs /\ cur s' = cur s + 1 + N.of_nat (List.length body) /\
    is_ok s' = true /\ depth s' = depth s.
Proof.
  intros IH els tl Hsz Hw s Hok K cl body Hle Hsl. cbn [awf] in Hw. destruct Hw as (Htl & Hwels & Hnes).
  assert (Hcl : cl = "]"%byte \/ cl = ")"%byte) by (unfold cl, K; destruct vec; [left|right]; reflexivity).
  assert (Hszs : Forall (fun p => (asize (snd p) <= n)%nat) els).
  { cbn [asize] in Hsz. clear -Hsz. induction els as [|p t IHt]; [constructor|]. cbn [fold_right] in Hsz. constructor; [lia|apply IHt; lia]. }
  set (s1 := with_depth (with_cur s (cur s + 1)) (depth s + 1)).
  assert (Hok1 : is_ok s1 = true) by exact Hok.
  assert (Hd1 : depth s1 <> 0) by (unfold s1; cbn; lia).
  assert (Hc1 : cur s1 = cur s + 1) by reflexivity.
  assert (Hel : exists f0, forall f, (f0 <= f)%nat -> exists xs s2,
            RE f s1 [] = Ret (Some xs) s2 /\ Forall2 (denotes c) (map (fun p => erase (snd p)) els) xs /\
            cur s2 + 1 = cur s + 1 + N.of_nat (List.length body) /\ is_ok s2 = true /\ depth s2 = depth s1 /\ m (cur s2) = cl).
  { destruct els as [|[ws x] t].
    - destruct (elems_loop_ws n cl IH Hcl tl Htl [] (Forall_nil _) I I s1 [] Hok1 Hd1 ltac:(rewrite Hc1; exact Hle) ltac:(rewrite Hc1; exact Hsl)) as (f0 & Hf0).
      exists f0. intros f Hf. destruct (Hf0 f Hf) as (xs & s2 & H1 & H2 & H3 & H4 & H5 & H6). exists xs, s2.
      cbn [rev app] in H1. rewrite Hc1 in H3. repeat split; assumption.
    - (* first element: its leading trivia may be empty *)
      cbn [fold_right fst snd] in Hwels. destruct Hwels as (Hws & Hwx & Hwt).
      inversion Hszs as [|? ? Hszx Hszt]; subst. cbn [snd] in Hszx.
      destruct (prg_first x Hwx) as (b & r & Epr & Hnws & Hnsemi & Hpf).
      assert (Egt : gtail cl ((ws, x) :: t) tl = ws ++ prg x ++ gtail cl t tl).
      { unfold gtail. cbn [map List.concat fst snd]. rewrite <- !app_assoc. reflexivity. }
      unfold body in *. rewrite Egt in Hle, Hsl |- *. rewrite !app_length in Hle, Hsl |- *.
      rewrite slice_app in Hsl. apply app_eq_len in Hsl; [|now rewrite slice_length]. destruct Hsl as [Hwsl Hsl].
      rewrite slice_app in Hsl. apply app_eq_len in Hsl; [|now rewrite slice_length]. destruct Hsl as [Hx Ht].
      set (p1 := cur s + 1 + N.of_nat (List.length ws)) in *. set (q := p1 + N.of_nat (List.length (prg x))) in *.
      destruct (gtail_first cl t tl Hcl Htl Hwt Hnes) as (b2 & r2 & Eg2 & Hnd2).
      assert (Hlen2 : (0 < List.length (gtail cl t tl))%nat) by (rewrite Eg2; cbn; lia).
      assert (Hmq : m q = b2) by (apply (first_byte_at q (gtail cl t tl) b2 r2 Eg2 Ht)).
      assert (Hfs : form_starts m e p1).
      { right. assert (Hlx : (0 < List.length (prg x))%nat) by (rewrite Epr; cbn; lia). split; [lia|].
        rewrite (first_byte_at p1 (prg x) b r Epr Hx). split; assumption. }
      destruct (skipped_facts s1 ws) as (Hc2 & Hok2 & Hd2). set (s2 := skipped s1 ws) in *. rewrite Hc1 in Hc2. fold p1 in Hc2.
      assert (Habs : forall f, RV (S f) s1 = RV (S f) s2) by (intros f; apply absorb; try assumption; rewrite Hc1; try assumption; fold p1; lia).
      destruct (IH x Hszx Hwx s2 ltac:(now rewrite Hok2) ltac:(rewrite Hc2; fold q; lia) ltac:(rewrite Hc2; exact Hx)
                   ltac:(rewrite Hc2; fold q; apply (follow_byte m e q b2); [lia|exact Hmq|exact Hnd2])) as (fx & Hfx).
      destruct (Hfx fx (le_n _)) as (nx & sx & Hrx & Hdx & Hcx & Hokx & Hdpx). rewrite Hc2 in Hcx. fold q in Hcx.
      destruct (elems_loop_ws n cl IH Hcl tl Htl t Hszt Hwt Hnes sx [nx] Hokx ltac:(rewrite Hdpx, Hd2; exact Hd1)
                  ltac:(rewrite Hcx; unfold q, p1; lia) ltac:(rewrite Hcx; exact Ht)) as (ft & Hft).
      exists (S (S (Nat.max fx ft))). intros f Hf. destruct f as [|f]; [lia|]. rewrite RE_S. unfold elems_body.
      destruct f as [|f]; [lia|]. rewrite Habs.
      assert (Hrx' : RV (S f) s2 = Ret (Some nx) sx).
      { replace (S f) with (fx + (S f - fx))%nat by lia. apply read_value_fuel_irrelevant; [exact Hrx|discriminate]. }
      rewrite Hrx'. destruct (Hft (S f) ltac:(lia)) as (xs & s3 & H1 & H2 & H3 & H4 & H5 & H6).
      exists (nx :: xs), s3. cbn [rev app] in H1. split; [exact H1|]. cbn [map snd]. split; [constructor; assumption|].
      split; [rewrite H3, Hcx; unfold q, p1; lia|]. split; [exact H4|]. split; [rewrite H5, Hdpx, Hd2; reflexivity|exact H6]. }
  destruct Hel as (f0 & Hf0). exists (S f0). intros f Hf. destruct f as [|f]; [lia|].
  destruct (Hf0 f ltac:(lia)) as (xs & s2 & H1 & H2 & H3 & H4 & H5 & H6).
  rewrite RS_S. unfold seq_body. fold s1. rewrite H1, H4. cbn [negb].
  replace (e <=? cur s2) with false by (symmetry; apply N.leb_gt; lia).
  rewrite H6. fold cl. rewrite (Byte.byte_dec_lb eq_refl). cbn [negb].
  set (s3 := with_depth (with_cur s2 (cur s2 + 1)) (depth s2 - 1)).
  exists xs, s3.
  assert (Hc3 : cur s3 = cur s + 1 + N.of_nat (List.length body)) by (unfold s3; cbn; lia).
  assert (Hd3 : depth s3 = depth s) by (unfold s3; cbn; rewrite H5; unfold s1; cbn; lia).
  unfold K. destruct vec; (split; [reflexivity|]); repeat split; assumption.
Qed.

Theorem read_aterm : forall n, AIH n.
Proof.
  induction n as [|n IH]; intros a Hsz Hw s Hok Hle Hsl Hf.
  - destruct a; cbn in Hsz; lia.
  - destruct a as [nm|neg ds|vec els tl].
    + destruct Hw as [Hne Hid]. exists 1%nat. intros f Hf1. destruct f as [|f]; [lia|].
      now apply (rv_keyword c Hc o handler xe xh sort m e f s nm).
    + destruct Hw as (Hne & Hd & Hl). exists 1%nat. intros f Hf1. destruct f as [|f]; [lia|].
      now apply (rv_int c Hc o handler xe xh sort m e f s neg ds).
    + (* through the dispatcher *)
      set (K := if vec then KVector else KList). set (op := if vec then "["%byte else "("%byte).
      assert (Hpr : prg (ASeq vec els tl) = op :: gtail (closer_of K) els tl) by (unfold op, K, gtail; destruct vec; reflexivity).
      rewrite Hpr in Hle, Hsl |- *. cbn [List.length] in Hle, Hsl |- *. rewrite slice_S in Hsl. injection Hsl as Hb Hbody.
      assert (Hlt : cur s < e) by lia.
      set (s0 := with_start (enter s) (cur s)).
      destruct (seq_reads_ws n vec IH els tl Hsz Hw s0 Hok ltac:(cbn [cur s0 with_start enter]; fold K; lia) Hbody) as (f0 & Hf0).
      exists (S f0). intros f Hf'. destruct f as [|f]; [lia|].
      destruct (Hf0 f ltac:(lia)) as (xs & s' & Hr & Hden & Hc' & Hok' & Hd'). fold K in Hr, Hc'.
      assert (Hdisp : RV (S f) s = match RS f K 1 s0 with Ret v s1 => Ret v (leave s1) | x => x end).
      { destruct (classes c Hc) as (_ & _ & _ & (Hv1 & Hv2) & (Hl1 & Hl2) & _).
        rewrite RV_S. unfold value_body. cbv zeta. cbn [cur with_start enter].
        replace (cur s <? e) with true by (symmetry; now apply N.ltb_lt). rewrite Hb.
        assert (Hpf : prefilter (bz op) = false) by (unfold op; destruct vec; reflexivity). rewrite Hpf.
        cbn [cur with_start enter]. rewrite Hb. fold s0. unfold op, K. destruct vec.
        - pose proof (not_earlier_spec c _ 3 ltac:(lia) Hv2) as Hn. usecls Hn 0%nat; usecls Hn 1%nat; usecls Hn 2%nat. rewrite Hv1.
          destruct (RS f KVector 1 s0); reflexivity.
        - pose proof (not_earlier_spec c _ 2 ltac:(lia) Hl2) as Hn. usecls Hn 0%nat; usecls Hn 1%nat. rewrite Hl1.
          destruct (RS f KList 1 s0); reflexivity. }
      rewrite Hdisp, Hr. eexists. eexists. split; [reflexivity|]. split.
      * cbn [erase]. unfold K. destruct vec; econstructor; try reflexivity; exact Hden.
      * cbn [cur leave]. rewrite Hc'. cbn [cur s0 with_start enter depth leave is_ok err] in *.
        split; [lia|]. split; [exact Hok'|exact Hd'].
Qed.
End WS.

(* ---- documents: every rendering (with respect to trivia) of a term of the fragment is read to a tree denoting the term ---- *)
Theorem read_document_ws c o m a : In c all_cfgs -> awf a ->
  slice m 0 (List.length (prg a)) = prg a ->
  exists r s n, run_doc c o m (N.of_nat (List.length (prg a))) = Ret r s /\
                r_value r = Some n /\ denotes c (erase a) n /\ r_err r = EOk /\ r_eof r = false.
Proof.
  intros Hc Hw Hsl. set (e := N.of_nat (List.length (prg a))).
  destruct (read_aterm c Hc o builtin_handler no_ext_equal no_ext_hash (isort c) m e (asize a) a (le_n _) Hw init_pst eq_refl
              ltac:(cbn [cur init_pst]; unfold e; lia) Hsl ltac:(left; cbn [cur init_pst]; unfold e; lia)) as (f0 & Hf0).
  destruct (Hf0 f0 (le_n _)) as (n & s' & Hr & Hden & Hcur & Hok & Hdep).
  assert (Herr : err s' = EOk) by (now apply is_ok_iff).
  assert (Hdoc : exists r, read_doc c o builtin_handler no_ext_equal no_ext_hash (isort c) m e f0 = Ret r s' /\
                           r_value r = Some n /\ r_err r = EOk /\ r_eof r = false).
  { unfold read_doc. rewrite Hr. cbv zeta. rewrite Hok.
    assert (Heof : is_eof s' = false) by (unfold is_eof; now rewrite Herr). rewrite Heof. cbn [andb].
    eexists. split; [reflexivity|]. cbn. repeat split; assumption. }
  destruct Hdoc as (r & Hrd & Hv & He & Hf).
  exists r, s', n. split; [|repeat split; assumption].
  apply (any_fuel_is_the_run c o m e f0 _ Hc Hrd). discriminate.
Qed.

(* C13 for documents of the fragment: two renderings that differ only in their trivia denote the same term *)
Corollary trivia_never_changes_the_value c o m1 m2 a1 a2 : In c all_cfgs -> awf a1 -> awf a2 -> erase a1 = erase a2 ->
  slice m1 0 (List.length (prg a1)) = prg a1 -> slice m2 0 (List.length (prg a2)) = prg a2 ->
  exists r1 s1 n1 r2 s2 n2,
    run_doc c o m1 (N.of_nat (List.length (prg a1))) = Ret r1 s1 /\ r_value r1 = Some n1 /\ r_err r1 = EOk /\
    run_doc c o m2 (N.of_nat (List.length (prg a2))) = Ret r2 s2 /\ r_value r2 = Some n2 /\ r_err r2 = EOk /\
    denotes c (erase a1) n1 /\ denotes c (erase a1) n2.
Proof.
  intros Hc H1 H2 He Hs1 Hs2.
  destruct (read_document_ws c o m1 a1 Hc H1 Hs1) as (r1 & s1 & n1 & A1 & B1 & C1 & D1 & _).
  destruct (read_document_ws c o m2 a2 Hc H2 Hs2) as (r2 & s2 & n2 & A2 & B2 & C2 & D2 & _).
  exists r1, s1, n1, r2, s2, n2. rewrite <- He in C2. repeat split; assumption.
Qed.
