(* Proofs/DiscardInv.v -- while the discard flag is set no tag handler is invoked (the ghost
   call log does not grow), and every reader restores the flag on return: by induction over
   the eight readers, for every input, configuration, registry and handler. *)
From Coq Require Import ZArith NArith List Bool Lia String.
From Coq.Strings Require Import Byte.
From Verif Require Import Lanes Common Values Floats Scan Numbers Equality Tokens Reader.
Import ListNotations.
Local Open Scope N_scope.

Ltac sd := cbn [depth err cur discard calls msg es ee with_cur with_depth with_discard with_err with_error
                with_call enter leave with_start with_ext err_at fail fst snd] in *.

Section Q.
Variable c : cfg.
Variable o : opts.
Variable handler : Z -> node -> option node * option bytes.
Variable xe : Z -> option (Z -> Z -> bool).
Variable xh : Z -> option (Z -> Z).
Variable sort : list node -> list node.
Variable m : mem.
Variable e : N.

Definition quiet {A} (s : pst) (r : res A) : Prop :=
  match r with
  | Ret _ s' => discard s' = discard s /\ (discard s = true -> calls s' = calls s)
  | _ => True
  end.

Lemma quiet_trans {A} (s1 s2 : pst) (r : res A) :
  discard s2 = discard s1 -> (discard s1 = true -> calls s2 = calls s1) -> quiet s2 r -> quiet s1 r.
Proof.
  intros Hd Hc. destruct r as [a s'| | |]; cbn; try tauto. intros [H1 H2]. split; [congruence|].
  intros Ht. rewrite H2 by congruence. now apply Hc.
Qed.

Ltac tokq := repeat (match goal with
                     | |- quiet _ (if ?b then _ else _) => destruct b
                     | |- quiet _ (match ?X with _ => _ end) => destruct X
                     end); cbn; sd; tauto.

Lemma q_string s : quiet s (read_string c m e s).
Proof. cbv beta iota zeta delta [read_string read_plain_string fail]. tokq. Qed.
Lemma q_identifier s : quiet s (read_identifier m e s).
Proof. cbv beta iota zeta delta [read_identifier fail]. tokq. Qed.
Lemma q_symbolic s : quiet s (read_symbolic m e s).
Proof. cbv beta iota zeta delta [read_symbolic fail]. tokq. Qed.
Lemma q_number s : quiet s (read_number_tok c m e s).
Proof. cbv beta iota zeta delta [read_number_tok]. tokq. Qed.
Lemma q_character s : quiet s (read_character c m e s).
Proof. cbv beta iota zeta delta [read_character fail]. tokq. Qed.

Definition Qv (rv : rdr) := forall s, quiet s (rv s).
Definition Qseq (rs : kind -> N -> rdr) := forall k sk s, quiet s (rs k sk s).
Definition Qel (re : pst -> list node -> res (option (list node))) := forall s acc, quiet s (re s acc).
Definition Qmap (rm : pst -> N -> option bytes -> res (option node)) := forall s st ns, quiet s (rm s st ns).
Definition Qen (ren : pst -> N -> option bytes -> list node -> list node -> res (option (list node * list node))) :=
  forall s st ns ks vs, quiet s (ren s st ns ks vs).

Lemma q_elems rv re : Qv rv -> Qel re -> Qel (elems_body rv re).
Proof.
  intros Hv He s acc. unfold elems_body. pose proof (Hv s) as H.
  destruct (rv s) as [[v|] s1| | |]; cbn in H |- *; try tauto.
  destruct H as [H1 H2]. eapply quiet_trans; [exact H1|exact H2|apply He].
Qed.

Lemma q_seq re : Qel re -> Qseq (seq_body c xe xh sort m e re).
Proof.
  intros He k sk s. unfold seq_body.
  match goal with |- quiet _ (match re ?s1 [] with _ => _ end) => pose proof (He s1 []) as H; destruct (re s1 []) as [[els|] s2| | |] end;
    cbn in H |- *; sd; try tauto.
  destruct H as [H1 H2].
  repeat match goal with
         | |- quiet _ (if ?b then _ else _) => destruct b
         | |- quiet _ (match ?X with _ => _ end) => destruct X
         end; cbn; sd; repeat match goal with |- context [if ?b then _ else _] => destruct b end; sd; tauto.
Qed.

Lemma q_entries rv ren : Qv rv -> Qen ren -> Qen (entries_body rv ren).
Proof.
  intros Hv Hen s st ns ks vs. unfold entries_body. pose proof (Hv s) as H.
  destruct (rv s) as [[k|] s1| | |]; cbn in H |- *; try tauto; destruct H as [H1 H2].
  - pose proof (Hv s1) as H'. destruct (rv s1) as [[v|] s2| | |]; cbn in H' |- *; try tauto; destruct H' as [H3 H4].
    + eapply quiet_trans; [| |apply Hen]; [congruence|]. intros Ht. rewrite H4 by congruence. now apply H2.
    + repeat match goal with |- context [if ?b then _ else _] => destruct b end; sd; split; try congruence;
        intros Ht; rewrite H4 by congruence; now apply H2.
  - repeat match goal with |- quiet _ (if ?b then _ else _) => destruct b end; cbn; sd;
      repeat match goal with |- context [if ?b then _ else _] => destruct b end; sd; tauto.
Qed.

Lemma q_map ren : Qen ren -> Qmap (map_body c xe xh sort m e ren).
Proof.
  intros Hen s st ns. unfold map_body.
  match goal with |- quiet _ (match ren ?s1 _ _ [] [] with _ => _ end) =>
    pose proof (Hen s1 st ns [] []) as H; destruct (ren s1 st ns [] []) as [[[ks vs]|] s2| | |] end;
    cbn in H |- *; sd; try tauto.
  destruct H as [H1 H2].
  repeat match goal with
         | |- quiet _ (if ?b then _ else _) => destruct b
         | |- quiet _ (match ?X with _ => _ end) => destruct X
         end; cbn; sd; repeat match goal with |- context [if ?b then _ else _] => destruct b end; sd; tauto.
Qed.

Lemma q_nsmap rv rm : Qv rv -> Qmap rm -> Qv (nsmap_body m e rv rm).
Proof.
  intros Hv Hm s. unfold nsmap_body. cbv zeta.
  pose proof (Hv (with_cur s (cur s + 1))) as H. sd.
  destruct (rv (with_cur s (cur s + 1))) as [[kw|] s1| | |]; cbn in H |- *; try tauto.
  destruct H as [H1 H2].
  destruct (nval kw); try (cbn; sd; tauto).
  destruct ns; [cbn; sd; tauto|].
  match goal with |- quiet _ (if ?b then _ else _) => destruct b end; [cbn; sd; tauto|].
  eapply quiet_trans; [| |apply Hm]; sd; assumption.
Qed.

Lemma q_tagged rv : Qv rv -> Qv (tagged_body o handler m e rv).
Proof.
  intros Hv s. unfold tagged_body. cbv zeta. sd.
  destruct (e <=? cur s + 1); [cbn; sd; tauto|].
  destruct (tag_adjacent_ws _); [cbn; sd; tauto|].
  pose proof (q_identifier (with_cur s (cur s + 1))) as HT. sd.
  destruct (read_identifier m e (with_cur s (cur s + 1))) as [[tv|] s2| | |]; cbn in HT |- *; try tauto.
  destruct HT as [T1 T2].
  destruct (nval tv); try (cbn; sd; tauto).
  pose proof (Hv (with_depth s2 (depth s + 1))) as H. sd.
  destruct (rv (with_depth s2 (depth s + 1))) as [[v|] s3| | |]; cbn in H |- *; try tauto; destruct H as [H1 H2].
  - destruct (discard s3) eqn:Hd3.
    + (* discard mode: the registry is not consulted *)
      rewrite andb_false_r. cbn. sd. split; [congruence|]. intros Ht. rewrite H2 by congruence. now apply T2.
    + assert (Hs : discard s = false) by congruence.
      repeat match goal with
             | |- quiet _ (if ?b then _ else _) => destruct b
             | |- quiet _ (match ?X with _ => _ end) => destruct X
             end; cbn; sd; (split; [congruence|intros Ht; congruence]).
  - destruct (is_ok _); cbn; sd; (split; [congruence|]); intros Ht; rewrite H2 by congruence; now apply T2.
Qed.

Lemma q_meta rv : Qv rv -> Qv (meta_body c xe rv).
Proof.
  intros Hv s. unfold meta_body. cbv zeta.
  pose proof (Hv (with_ext (with_cur s (cur s + 1)) "metadata")) as H. sd.
  destruct (rv (with_ext (with_cur s (cur s + 1)) "metadata")) as [[a|] s1| | |]; cbn in H |- *; try tauto;
    destruct H as [H1 H2].
  - destruct (negb (meta_ok_annotation (nval a))); [cbn; sd; tauto|].
    pose proof (Hv s1) as H'. destruct (rv s1) as [[form|] s2| | |]; cbn in H' |- *; try tauto; destruct H' as [H3 H4].
    + destruct (negb (meta_ok_target (nval form))); [cbn; sd; split; [congruence|intros Ht; rewrite H4 by congruence; now apply H2]|].
      destruct (meta_entries a) as [nk nv]. cbn. split; [congruence|]. intros Ht. rewrite H4 by congruence. now apply H2.
    + destruct (is_ok s2); cbn; sd; (split; [congruence|intros Ht; rewrite H4 by congruence; now apply H2]).
  - destruct (is_ok s1); cbn; sd; tauto.
Qed.

Lemma quiet_leave {A} s (r : res (option A)) :
  quiet s r -> quiet s (match r with Ret v s' => Ret v (leave s') | x => x end).
Proof. destruct r as [v s'| | |]; cbn; sd; tauto. Qed.

Lemma q_value rv rs rm rn rt rmt :
  Qv rv -> Qseq rs -> Qmap rm -> Qv rn -> Qv rt -> Qv rmt -> Qv (value_body c m e rv rs rm rn rt rmt).
Proof.
  intros Hv Hs Hm Hn Ht Hmt s0. unfold value_body. cbv zeta. apply quiet_leave.
  eapply (quiet_trans s0 (enter s0)); [reflexivity|reflexivity|].
  generalize (enter s0). clear s0. intros s0.
  assert (Hpre : forall s, discard s = discard s0 -> calls s = calls s0 ->
            quiet s0
              (let s := with_start s (cur s) in
               let p := cur s in let ch := m p in let d := dispatch_of c ch in
               if (d =? ct_string c)%Z then read_string c m e s
               else if (d =? ct_char c)%Z then read_character c m e s
               else if (d =? ct_list c)%Z then rs KList 1 s
               else if (d =? ct_vector c)%Z then rs KVector 1 s
               else if (d =? ct_map c)%Z then rm s p None
               else if (d =? ct_hash c)%Z then
                 if (p + 1 <? e) && is_byte (m (p + 1)) "{" then rs KSet 2 s
                 else if (p + 1 <? e) && is_byte (m (p + 1)) "#" then read_symbolic m e s
                 else if (p + 1 <? e) && is_byte (m (p + 1)) "_" then
                   let old := discard s in
                   match rv (with_discard (with_cur s (p + 2)) true) with
                   | Ret dv s1 =>
                     let s2 := with_discard s1 old in
                     match dv with
                     | None => if is_ok s2 then Ret None (err_at s2 EDiscard p (p + 2)) else Ret None s2
                     | Some _ => if is_ok s2 then rv s2 else Ret None s2
                     end
                   | x => x
                   end
                 else if clj c && (p + 1 <? e) && is_byte (m (p + 1)) ":" then rn s
                 else rt s
               else if (d =? ct_sign c)%Z then
                 if (p + 1 <? e) && Scan.is_digit (m (p + 1)) then read_number_tok c m e s
                 else read_identifier m e s
               else if (d =? ct_digit c)%Z then read_number_tok c m e s
               else if (d =? ct_delim c)%Z then
                 if depth s =? 0 then Ret None (with_err s EUnmatched MStatic) else Ret None s
               else if clj c && (d =? ct_meta c)%Z then rmt s
               else read_identifier m e s)).
  { intros s D C. cbv zeta.
    assert (K : forall r : res (option node), quiet (with_start s (cur s)) r -> quiet s0 r).
    { intros r Hr. eapply quiet_trans; [| |exact Hr]; sd; congruence. }
    set (s' := with_start s (cur s)) in *.
    repeat match goal with
           | |- quiet _ (if ?b then _ else _) => destruct b
           end;
      try (apply K; first [apply q_string | apply q_character | apply q_symbolic | apply q_number | apply q_identifier
                          | apply Hs | apply Hm | apply Hn | apply Ht | apply Hmt]).
    - (* discard *)
      apply K.
      pose proof (Hv (with_discard (with_cur s' (cur s' + 2)) true)) as H.
      destruct (rv (with_discard (with_cur s' (cur s' + 2)) true)) as [[dv|] s1| | |]; cbn in H |- *; sd; try tauto;
        destruct H as [H1 H2]; specialize (H2 eq_refl).
      + match goal with |- context [if ?b then _ else _] => destruct b end.
        * eapply quiet_trans; [| |apply Hv]; sd; [reflexivity|intros _; exact H2].
        * cbn. sd. split; [reflexivity|intros _; exact H2].
      + match goal with |- context [if ?b then _ else _] => destruct b end;
          cbn; sd; (split; [reflexivity|intros _; exact H2]).
    - apply K. cbn. sd. tauto.
    - apply K. cbn. sd. tauto. }
  destruct (cur s0 <? e); [|cbn; sd; tauto].
  destruct (prefilter (bz (m (cur s0)))).
  - destruct (skip_ws m (cur s0) e <? e).
    + apply (Hpre (with_cur s0 (skip_ws m (cur s0) e))); reflexivity.
    + cbn. sd. tauto.
  - apply (Hpre s0); reflexivity.
Qed.

Theorem readers_quiet : forall f,
  Qv (read_value c o handler xe xh sort m e f) /\ Qseq (read_seq c o handler xe xh sort m e f) /\
  Qel (read_elems c o handler xe xh sort m e f) /\ Qmap (read_map c o handler xe xh sort m e f) /\
  Qen (read_entries c o handler xe xh sort m e f) /\ Qv (read_nsmap c o handler xe xh sort m e f) /\
  Qv (read_tagged c o handler xe xh sort m e f) /\ Qv (read_meta c o handler xe xh sort m e f).
Proof.
  induction f as [|f (IHv & IHs & IHe & IHm & IHen & IHn & IHt & IHmt)].
  - repeat split; intro; intros; exact I.
  - repeat split.
    + apply q_value; assumption.
    + apply q_seq; assumption.
    + apply q_elems; assumption.
    + apply q_map; assumption.
    + apply q_entries; assumption.
    + apply q_nsmap; assumption.
    + apply q_tagged; assumption.
    + apply q_meta; assumption.
Qed.

(* a form read in discard mode invokes no handler *)
Corollary discarded_form_calls_no_handler f s v s' :
  discard s = true -> read_value c o handler xe xh sort m e f s = Ret v s' -> calls s' = calls s.
Proof. intros Hd H. pose proof (proj1 (readers_quiet f) s) as Q. rewrite H in Q. now apply Q. Qed.
End Q.
