(* Proofs/FlagProofs.v -- what the feature flags may and may not change, on the items
   GENERATED per flag set from the C source (dispatch table, character whitelist, type
   numbering) and on the escape decoder. *)
From Coq Require Import ZArith NArith List Bool Lia String.
From Coq.Strings Require Import Byte.
From Verif Require Import Lanes Common Values Scan Numbers Tokens Reader Configs ByteSweep.
Import ListNotations.
Local Open Scope string_scope.
Local Open Scope list_scope.
Local Open Scope Z_scope.

(* dispatch class of a first byte, by name rather than by number (numbering may shift) *)
Inductive dclass := DIdent | DString | DChar | DList | DVector | DMap | DHash | DSign | DDigit | DDelim | DMeta | DOther.
Definition dclass_eqb (a b : dclass) : bool :=
  match a, b with
  | DIdent, DIdent | DString, DString | DChar, DChar | DList, DList | DVector, DVector | DMap, DMap
  | DHash, DHash | DSign, DSign | DDigit, DDigit | DDelim, DDelim | DMeta, DMeta | DOther, DOther => true
  | _, _ => false
  end.
Lemma dclass_eqb_eq a b : dclass_eqb a b = true -> a = b.
Proof. destruct a, b; cbn; congruence. Qed.

Definition class_of (c : cfg) (b : byte) : dclass :=
  let d := nthz (dispatch c) (bz b) in
  if d =? ct_string c then DString else if d =? ct_char c then DChar else if d =? ct_list c then DList
  else if d =? ct_vector c then DVector else if d =? ct_map c then DMap else if d =? ct_hash c then DHash
  else if d =? ct_sign c then DSign else if d =? ct_digit c then DDigit else if d =? ct_delim c then DDelim
  else if clj c && (d =? ct_meta c) then DMeta
  else if d =? ct_ident c then DIdent else DOther.

Definition all_cfgs : list cfg := [cfg00; cfg10; cfg01; cfg11].

(* every first byte other than the metadata marker is routed alike in all four builds, and
   without the Clojure flag the marker is an ordinary identifier byte *)
Definition dispatch_agree_b (c : cfg) (b : byte) : bool :=
  (clj c && is_byte b "^") || dclass_eqb (class_of c b) (class_of cfg00 b).

Lemma dispatch_agree_sweep : forallb (fun c => forallb (dispatch_agree_b c) all_bytes) all_cfgs = true.
Proof. vm_compute. reflexivity. Qed.

Lemma dispatch_agree c b : In c all_cfgs -> (clj c = true /\ b = "^"%byte) \/ class_of c b = class_of cfg00 b.
Proof.
  intros Hc. pose proof dispatch_agree_sweep as H. rewrite forallb_forall in H. specialize (H c Hc).
  pose proof (byte_sweep _ H b) as Hb. unfold dispatch_agree_b in Hb.
  apply orb_true_iff in Hb. destruct Hb as [Hb|Hb].
  - left. apply andb_true_iff in Hb. destruct Hb as [H1 H2]. split; [assumption|].
    unfold is_byte in H2. now apply Byte.byte_dec_bl in H2.
  - right. now apply dclass_eqb_eq.
Qed.

(* the single-byte character whitelist: the same function in the four builds EXCEPT for the
   raw form-feed and backspace bytes, which the Clojure flag removes (finding K07) *)
Definition single_char_agree_b (c : cfg) (b : byte) : bool :=
  Bool.eqb (single_char_ok c (bz b)) (single_char_ok cfg00 (bz b)) || (clj c && ((bz b =? 8) || (bz b =? 12))).
Lemma single_char_agree_sweep : forallb (fun c => forallb (single_char_agree_b c) all_bytes) all_cfgs = true.
Proof. vm_compute. reflexivity. Qed.

Lemma single_char_agree c b : In c all_cfgs ->
  single_char_ok c (bz b) = single_char_ok cfg00 (bz b) \/ (clj c = true /\ (bz b = 8 \/ bz b = 12)).
Proof.
  intros Hc. pose proof single_char_agree_sweep as H. rewrite forallb_forall in H. specialize (H c Hc).
  pose proof (byte_sweep _ H b) as Hb. unfold single_char_agree_b in Hb.
  apply orb_true_iff in Hb. destruct Hb as [Hb|Hb]; [left; now apply Bool.eqb_prop|right].
  apply andb_true_iff in Hb. destruct Hb as [H1 H2]. split; [assumption|].
  apply orb_true_iff in H2. destruct H2 as [H2|H2]; apply Z.eqb_eq in H2; auto.
Qed.

(* the unrestricted statement is false of the code as it stands *)
Lemma single_char_agree_refuted : exists c b, In c all_cfgs /\ single_char_ok c (bz b) <> single_char_ok cfg00 (bz b).
Proof. exists cfg10, "012"%byte. split; [cbn; auto|vm_compute; discriminate]. Qed.

(* the five core escapes decode alike whatever the flags; every other escape is an error
   without the Clojure flag *)
Definition core_escape (ch : byte) : bool :=
  is_byte ch """" || is_byte ch "\" || is_byte ch "n" || is_byte ch "t" || is_byte ch "r".

Lemma decode_escape_core c c' ch t : core_escape ch = true -> decode_escape c (ch :: t) = decode_escape c' (ch :: t).
Proof.
  unfold core_escape, decode_escape. intros H.
  destruct (is_byte ch """"); [reflexivity|]. destruct (is_byte ch "\"); [reflexivity|].
  destruct (is_byte ch "n"); [reflexivity|]. destruct (is_byte ch "t"); [reflexivity|].
  destruct (is_byte ch "r"); [reflexivity|]. discriminate H.
Qed.

Lemma decode_escape_noncore c ch t : clj c = false -> core_escape ch = false -> decode_escape c (ch :: t) = None.
Proof.
  unfold core_escape, decode_escape. intros Hc H.
  destruct (is_byte ch """"); [discriminate H|]. destruct (is_byte ch "\"); [discriminate H|].
  destruct (is_byte ch "n"); [discriminate H|]. destruct (is_byte ch "t"); [discriminate H|].
  destruct (is_byte ch "r"); [discriminate H|]. rewrite Hc. reflexivity.
Qed.

(* the numbering of the value kinds may shift, but the order of the core kinds -- which the
   comparator used for duplicate detection relies on -- is the same in the four builds *)
Definition core_kinds : list nat := [0; 1; 2; 3; 4; 5; 8; 9; 10; 11; 12; 13; 14; 15; 16; 17]%nat.
Definition tag_of (c : cfg) (k : nat) : Z := nth k (type_tag c) (-1).
Lemma type_order_sweep :
  forallb (fun c => forallb (fun k1 => forallb (fun k2 =>
     Bool.eqb (tag_of c k1 <? tag_of c k2) (tag_of cfg00 k1 <? tag_of cfg00 k2)) core_kinds) core_kinds) all_cfgs = true.
Proof. vm_compute. reflexivity. Qed.

Lemma type_order_agree c k1 k2 : In c all_cfgs -> In k1 core_kinds -> In k2 core_kinds ->
  (tag_of c k1 <? tag_of c k2) = (tag_of cfg00 k1 <? tag_of cfg00 k2).
Proof.
  intros Hc H1 H2. pose proof type_order_sweep as H. rewrite forallb_forall in H. specialize (H c Hc).
  rewrite forallb_forall in H. specialize (H k1 H1). rewrite forallb_forall in H. specialize (H k2 H2).
  now apply Bool.eqb_prop.
Qed.

(* tables and leaf functions that the translator found outside every flag region are the
   same text in the four builds (checked by the translator, recorded as a boolean) *)
Lemma common_items : common_items_agree = true.
Proof. reflexivity. Qed.
