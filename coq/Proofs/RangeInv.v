(* Proofs/RangeInv.v -- source ranges of the reader model (C11), by induction on fuel over the eight
   mutually recursive readers:
     * every value returned is well-formed (RangeDefs.wf): its range is ordered and non-empty, lies
       inside the input, and encloses the ascending, pairwise disjoint ranges of its children;
     * the cursor stays inside the input and never moves backwards while no error (other than
       end-of-input) has been raised;
     * every error range the reader sets satisfies start <= end <= input length.
   Tag handlers are arbitrary functions; the theorem asks of them only what [handler_ok] says. *)
From Coq Require Import ZArith NArith List Bool Lia String.
From Coq.Strings Require Import Byte.
From Coq.Floats Require Import SpecFloat.
From Verif Require Import Lanes Common Values Floats Scan Numbers Equality Tokens Reader Configs ByteSweep ScanProofs ReaderInv
     NumProgress FlagProofs ReaderTerm NumBounds RangeDefs RangeTok.
Import ListNotations.
Local Open Scope N_scope.
Local Arguments skip_ws : simpl never.
Local Arguments read_identifier : simpl never.
Local Arguments read_string : simpl never.
Local Arguments read_character : simpl never.
Local Arguments read_symbolic : simpl never.
Local Arguments read_number_tok : simpl never.

(* ------------------------------------------------------------------ duplicate screening keeps
   the elements (it only fills in hash caches) *)
Section Dups.
Variable c : cfg.
Variable xe : Z -> option (Z -> Z -> bool).
Variable xh : Z -> option (Z -> Z).
Variable sort : list node -> list node.

Lemma Forall2_sbh_refl l : Forall2 same_but_hash l l.
Proof. induction l; constructor; [apply same_but_hash_refl|assumption]. Qed.

Lemma hash_cache_sbh x : same_but_hash x (hash_cache c xh x).
Proof. unfold hash_cache. eexists; reflexivity. Qed.

Lemma dup_hash_loop_shape : forall l tbl size done pre,
  Forall2 same_but_hash pre (rev done) ->
  Forall2 same_but_hash (pre ++ l) (snd (dup_hash_loop c xe xh sort l tbl size done)).
Proof.
  induction l as [|x t IH]; intros tbl size done pre Hpre; cbn [dup_hash_loop].
  - cbn [snd]. rewrite app_nil_r. exact Hpre.
  - assert (Hcons : Forall2 same_but_hash (pre ++ x :: t) (rev done ++ hash_cache c xh x :: t)).
    { apply Forall2_app; [exact Hpre|]. constructor; [apply hash_cache_sbh|apply Forall2_sbh_refl]. }
    destruct (probe c xe _ tbl size _ _ _) as [[[|] slot]|]; cbn [snd]; try exact Hcons.
    replace (pre ++ x :: t) with ((pre ++ [x]) ++ t) by (rewrite <- app_assoc; reflexivity).
    apply IH. cbn [rev]. apply Forall2_app; [exact Hpre|]. constructor; [apply hash_cache_sbh|constructor].
Qed.

Lemma has_duplicates_shape l : Forall2 same_but_hash l (snd (has_duplicates c xe xh sort l)).
Proof.
  unfold has_duplicates.
  destruct (_ <=? 1)%Z; [apply Forall2_sbh_refl|].
  destruct (_ <=? LINEAR_THRESHOLD)%Z; [apply Forall2_sbh_refl|].
  destruct (_ && _)%bool; [apply Forall2_sbh_refl|].
  unfold dup_hash. apply (dup_hash_loop_shape l _ _ [] []). constructor.
Qed.
End Dups.

Section Rng.
Variable c : cfg.
Variable o : opts.
Variable handler : Z -> node -> option node * option bytes.
Variable xe : Z -> option (Z -> Z -> bool).
Variable xh : Z -> option (Z -> Z).
Variable sort : list node -> list node.
Variable m : mem.
Variable e : N.

(* what is asked of a tag handler: the node it returns, once given the range of the tagged
   element, is well-formed whenever its operand was (true of handlers that return a leaf, the
   operand itself, or a collection built around the operand) *)
Definition handler_ok : Prop :=
  forall h v r ms lo hi, handler h v = (Some r, ms) -> wf v -> lo <= nrs v -> nrs v < nre v -> nre v <= hi ->
    wf (set_range r lo hi).

Hypothesis Hh : handler_ok.
(* what the GENERATED dispatch table guarantees about the bytes routed to the number reader *)
Hypothesis digit_class : forall b, (dispatch_of c b =? ct_digit c)%Z = true -> is_dig b = true.
Hypothesis sign_class : forall b, (dispatch_of c b =? ct_sign c)%Z = true -> is_c b "-" = true \/ is_c b "+" = true.

Notation st_ok := (st_ok e).
Notation Gv := (Gv e). Notation Gel := (Gel e). Notation Gen := (Gen e). Notation Gseq := (Gseq e). Notation Gmap := (Gmap e).

Notation vbody := (value_body c m e).
Notation sbody := (seq_body c xe xh sort m e).
Notation ebody := elems_body.
Notation mbody := (map_body c xe xh sort m e).
Notation enbody := entries_body.
Notation nsbody := (nsmap_body m e).
Notation tbody := (tagged_body o handler m e).
Notation mtbody := (meta_body c xe).

(* outcome of a reader entered at cursor position p0 *)
Definition val_post (p0 : N) (n : node) (s' : pst) : Prop :=
  st_ok s' /\ wf n /\ p0 <= nrs n /\ nrs n < nre n /\ nre n <= cur s'.
Definition none_post (p0 : N) (s' : pst) : Prop :=
  st_ok s' /\ ((is_ok s' = true \/ is_eof s' = true) -> p0 <= cur s').
Definition rng_from (p0 : N) (r : res (option node)) : Prop :=
  match r with
  | Ret (Some n) s' => val_post p0 n s'
  | Ret None s' => none_post p0 s'
  | _ => True
  end.

Definition Rv (rv : rdr) := forall s, is_ok s = true -> st_ok s -> rng_from (cur s) (rv s).
Definition Rseq (rseq : kind -> N -> rdr) :=
  forall k sk s, is_ok s = true -> st_ok s -> 1 <= sk -> cur s + sk <= e -> rng_from (cur s) (rseq k sk s).
Definition Rel (relems : pst -> list node -> res (option (list node))) :=
  forall s acc lo, is_ok s = true -> st_ok s -> allP wf acc -> ord lo (cur s) (rev acc) ->
    match relems s acc with
    | Ret (Some els) s' => st_ok s' /\ ((is_ok s' = true \/ is_eof s' = true) -> cur s <= cur s') /\
                           (is_ok s' = true -> allP wf els /\ ord lo (cur s') els)
    | _ => True
    end.
Definition Rmap (rmap : pst -> N -> option bytes -> res (option node)) :=
  forall s st ns, is_ok s = true -> st_ok s -> cur s < e -> st <= cur s ->
    match rmap s st ns with
    | Ret (Some n) s' => st_ok s' /\ wf n /\ nrs n = st /\ nrs n < nre n /\ nre n <= cur s'
    | Ret None s' => none_post st s'
    | _ => True
    end.
Definition Ren (ren : pst -> N -> option bytes -> list node -> list node -> res (option (list node * list node))) :=
  forall s st ns ks vs lo, is_ok s = true -> st_ok s -> depth s <> 0 -> st <= cur s ->
    List.length ks = List.length vs -> allP wf ks -> allP wf vs -> ord lo (cur s) (interleave (rev ks) (rev vs)) ->
    match ren s st ns ks vs with
    | Ret (Some (ks', vs')) s' => st_ok s' /\ cur s <= cur s' /\
                                  allP wf ks' /\ allP wf vs' /\ ord lo (cur s') (interleave ks' vs')
    | Ret None s' => none_post st s'
    | _ => True
    end.

Lemma rng_from_mono p0 p r : p0 <= p -> rng_from p r -> rng_from p0 r.
Proof.
  intros H. destruct r as [[n|] s'| | |]; cbn; unfold val_post, none_post; try tauto.
  - intros (A & B & C & D & E). split; [exact A|]. split; [exact B|]. lia.
  - intros [A B]. split; [exact A|]. intros Hk. specialize (B Hk). lia.
Qed.

Lemma rng_from_leave p0 r : rng_from p0 r -> rng_from p0 (match r with Ret v s => Ret v (leave s) | x => x end).
Proof. destruct r as [[n|] s'| | |]; cbn; unfold val_post, none_post, RangeTok.st_ok; cbn; tauto. Qed.

Lemma st_ok_err_at s code a b : a <= b -> b <= e -> cur s <= e -> st_ok (err_at s code a b).
Proof. intros. unfold err_at. now apply st_ok_with_error. Qed.
Lemma st_ok_with_depth s d : st_ok (with_depth s d) <-> st_ok s.
Proof. unfold RangeTok.st_ok. cbn. tauto. Qed.
Lemma st_ok_with_discard s d : st_ok (with_discard s d) <-> st_ok s.
Proof. unfold RangeTok.st_ok. cbn. tauto. Qed.
Lemma st_ok_with_start s p : st_ok (with_start s p) <-> st_ok s.
Proof. unfold RangeTok.st_ok. cbn. tauto. Qed.
Lemma st_ok_with_ext s x : st_ok (with_ext s x) <-> st_ok s.
Proof. unfold RangeTok.st_ok. cbn. tauto. Qed.
Lemma st_ok_with_call s x : st_ok (with_call s x) <-> st_ok s.
Proof. unfold RangeTok.st_ok. cbn. tauto. Qed.
Lemma st_ok_enter s : st_ok (enter s) <-> st_ok s.
Proof. unfold RangeTok.st_ok. cbn. tauto. Qed.
Lemma st_ok_with_err s code ms : st_ok (with_err s code ms) <-> st_ok s.
Proof. unfold RangeTok.st_ok. cbn. tauto. Qed.
Lemma st_ok_cur s q : st_ok s -> q <= e -> st_ok (with_cur s q).
Proof. apply st_ok_with_cur. Qed.

Lemma not_ok_not_eof_vacuous (s : pst) (P : Prop) : is_ok s = false -> is_eof s = false -> ((is_ok s = true \/ is_eof s = true) -> P).
Proof. intros A B [H|H]; congruence. Qed.

(* a token reader's outcome, as a range outcome *)
Lemma tok_rng s r : st_ok s -> cur s <= e -> tok_post e s r -> tok_good (depth s) r ->
  (forall v s', r = Ret (Some v) s' -> cur s < cur s') -> rng_from (cur s) r.
Proof.
  intros Hs Hc HT HG Hp. destruct r as [[n|] s'| | |]; cbn in *; try exact I.
  - destruct HT as (A & B & C & D). specialize (Hp n s' eq_refl). unfold val_post. split; [exact A|]. split; [|lia].
    apply wf_unfold. split; [lia|]. destruct (nval n); try discriminate; exact I.
  - destruct HT as [A B]. unfold none_post. split; [exact A|]. intros _. exact B.
Qed.

Lemma nre_pos_ne0 n : nrs n < nre n -> nre n <> 0.
Proof. lia. Qed.

(* ---- sequences ---- *)
Lemma elems_body_rng rv relems : Gv rv -> Rv rv -> Rel relems -> Rel (ebody rv relems).
Proof.
  intros GV IHv IHe s acc lo Hok Hs Hacc Hord. unfold elems_body.
  pose proof (IHv s Hok Hs) as H1. pose proof (GV s Hok) as G1.
  destruct (rv s) as [[v|] s1| | |]; cbn in H1, G1 |- *; try exact I.
  - destruct H1 as (A & B & C & D & E). destruct G1 as [Hok1 _].
    assert (Hacc' : allP wf (v :: acc)) by (cbn; tauto).
    assert (Hord' : ord lo (cur s1) (rev (v :: acc))).
    { cbn [rev]. unfold ord. apply (chain_snoc _ _ lo (cur s)); try assumption; try exact I; try lia. }
    specialize (IHe s1 (v :: acc) lo Hok1 A Hacc' Hord').
    destruct (relems s1 (v :: acc)) as [[els|] s2| | |]; try exact I.
    destruct IHe as (P1 & P2 & P3). split; [exact P1|]. split; [|exact P3]. intros Hk. specialize (P2 Hk). lia.
  - destruct H1 as [A B]. split; [exact A|]. split; [exact B|]. intros Hk.
    split; [now apply allP_rev|]. specialize (B (or_introl Hk)). unfold ord in *. eapply chain_widen; [exact Hord|lia|exact B].
Qed.

Lemma is_ok_err_at s code a b : code <> EOk -> is_ok (err_at s code a b) = false.
Proof. intros H. unfold is_ok, err_at. cbn. destruct code; congruence. Qed.

Lemma none_post_err p0 s code a b : code <> EOk -> code <> EEof -> a <= b -> b <= e -> cur s <= e ->
  none_post p0 (err_at s code a b).
Proof.
  intros H1 H2 Ha Hb Hc. split; [now apply st_ok_err_at|].
  intros [H|H]; unfold is_ok, is_eof, err_at in H; cbn in H; destruct code; congruence.
Qed.
Lemma none_post_depth p0 s d : none_post p0 s -> none_post p0 (with_depth s d).
Proof. unfold none_post, RangeTok.st_ok. cbn. tauto. Qed.

Lemma seq_body_rng relems : Gel relems -> Rel relems -> Rseq (sbody relems).
Proof.
  intros GE IHe k sk s Hok Hs Hsk Hse. unfold seq_body.
  set (s1 := with_depth (with_cur s (cur s + sk)) (depth s + 1)).
  assert (Hok1 : is_ok s1 = true) by (unfold s1; st; assumption).
  assert (Hs1 : st_ok s1) by (unfold s1; apply st_ok_with_depth; apply st_ok_cur; [assumption|lia]).
  assert (Hc1 : cur s1 = cur s + sk) by reflexivity.
  pose proof (IHe s1 [] (cur s + sk) Hok1 Hs1 I) as H1. cbn [rev] in H1. specialize (H1 ltac:(unfold ord; cbn; lia)).
  pose proof (GE s1 [] Hok1) as G1.
  destruct (relems s1 []) as [[els|] s2| | |]; unfold good_elems in G1; cbv beta iota in G1 |- *; try exact I; [|destruct G1].
  destruct H1 as (A & B & C). destruct G1 as [Hd2 Hc2].
  destruct (is_ok s2) eqn:Hok2; cbn [negb].
  - destruct (Hc2 eq_refl) as [_ Hcur]. specialize (B (or_introl eq_refl)). destruct (C eq_refl) as [Hall Hord].
    destruct (N.leb_spec e (cur s2)) as [Hle|Hlt]; [lia|].
    destruct (Byte.eqb (m (cur s2)) (closer_of k)); cbn [negb].
    + set (s3 := with_depth (with_cur s2 (cur s2 + 1)) (depth s2 - 1)).
      assert (Hs3 : st_ok s3) by (unfold s3; apply st_ok_with_depth; apply st_ok_cur; [assumption|lia]).
      assert (Hc3 : cur s3 = cur s2 + 1) by reflexivity.
      assert (Hmk : forall v (els' : list node), (kids_ok (cur s) (cur s3) v) -> nval (mk v (cur s) (cur s3)) = v ->
                 val_post (cur s) (mk v (cur s) (cur s3)) s3).
      { intros v els' Hk Hv. split; [exact Hs3|]. split.
        - apply wf_unfold. cbn [mk nrs nre nval]. split; [lia|exact Hk].
        - cbn [mk nrs nre]. lia. }
      assert (Hordw : ord (cur s) (cur s3) els) by (unfold ord in *; eapply chain_widen; [exact Hord|lia|lia]).
      destruct k; try (apply (Hmk _ els); [cbn [kids_ok]; tauto|reflexivity]).
      pose proof (has_duplicates_shape c xe xh sort els) as Hsh. unfold v_has_dups.
      destruct (2 <=? List.length els)%nat.
      * destruct (has_duplicates c xe xh sort els) as [dup els']. cbn [snd] in Hsh.
        destruct dup; [cbn [rng_from]; apply none_post_err; try discriminate; lia|].
        apply (Hmk _ els'); [|reflexivity]. cbn [kids_ok]. split; [eapply allP_same_but_hash; eassumption|eapply ord_same_but_hash; eassumption].
      * cbv beta iota. apply (Hmk _ els); [cbn [kids_ok]; tauto|reflexivity].
    + cbn [rng_from]; apply none_post_depth; apply none_post_err; try discriminate; lia.
  - destruct (is_eof s2) eqn:Heof.
    + specialize (B (or_intror eq_refl)). destruct A as [Ac Ar].
      cbn [rng_from]; apply none_post_depth; apply none_post_err; try discriminate; lia.
    + cbn [rng_from]. apply none_post_depth. split; [exact A|]. now apply not_ok_not_eof_vacuous.
Qed.

(* ---- maps ---- *)
Lemma none_post_err' p0 s code a b : code <> EOk -> a <= b -> b <= e -> cur s <= e -> p0 <= cur s ->
  none_post p0 (err_at s code a b).
Proof. intros H1 Ha Hb Hc Hp. split; [now apply st_ok_err_at|]. intros _. exact Hp. Qed.

Lemma qualify_key_cases q k : qualify_key q k = k \/ (wf (qualify_key q k) /\ nre (qualify_key q k) = 0).
Proof.
  unfold qualify_key. destruct (nval k); try (left; reflexivity); destruct ns as [q0|];
    try (destruct (bytes_eqb q0 (lit "_")); [|left; reflexivity]); right; cbn; (split; [split; [lia|exact I]|reflexivity]).
Qed.

Lemma rev_length_eq (ks vs : list node) : List.length ks = List.length vs -> List.length (rev ks) = List.length (rev vs).
Proof. intros H. now rewrite !rev_length. Qed.

Lemma entries_body_rng rv ren : Gv rv -> Rv rv -> Ren ren -> Ren (enbody rv ren).
Proof.
  intros GV IHv IHen s st ns ks vs lo Hok Hs Hd Hst Hlen Hks Hvs Hord. unfold entries_body.
  pose proof (IHv s Hok Hs) as H1. pose proof (GV s Hok) as G1.
  destruct (rv s) as [[k|] s1| | |]; unfold good in G1; cbv beta iota in H1, G1 |- *; try exact I.
  - destruct H1 as (A1 & W1 & L1 & N1 & U1). destruct G1 as [Hok1 Hd1].
    pose proof (IHv s1 Hok1 A1) as H2. pose proof (GV s1 Hok1) as G2.
    destruct (rv s1) as [[v|] s2| | |]; unfold good in G2; cbv beta iota in H2, G2 |- *; try exact I.
    + destruct H2 as (A2 & W2 & L2 & N2 & U2). destruct G2 as [Hok2 Hd2].
      set (k' := match ns with Some q => qualify_key q k | None => k end).
      assert (Hk' : k' = k \/ (wf k' /\ nre k' = 0)) by (unfold k'; destruct ns; [apply qualify_key_cases|now left]).
      assert (Hord' : ord lo (cur s2) (interleave (rev (k' :: ks)) (rev (v :: vs)))).
      { cbn [rev]. rewrite interleave_snoc by now apply rev_length_eq.
        change [k'; v] with ([k'] ++ [v]). rewrite app_assoc. unfold ord in *.
        apply (chain_snoc _ _ lo (cur s1)); try exact I; try lia.
        destruct Hk' as [->|[_ Hz]].
        - apply (chain_snoc _ _ lo (cur s)); try exact I; try lia. exact Hord.
        - apply chain_snoc_synth; [|exact I|exact Hz]. eapply chain_widen; [exact Hord|lia|lia]. }
      assert (Hwk : wf k') by (destruct Hk' as [->|[Hw _]]; assumption).
      specialize (IHen s2 st ns (k' :: ks) (v :: vs) lo Hok2 A2 ltac:(congruence) ltac:(lia)
                       ltac:(cbn [List.length]; congruence) ltac:(cbn [allP]; tauto) ltac:(cbn [allP]; tauto) Hord').
      destruct (ren s2 st ns (k' :: ks) (v :: vs)) as [[[ks' vs']|] s3| | |]; try exact I.
      * destruct IHen as (P1 & P2 & P3). split; [exact P1|]. split; [lia|exact P3].
      * exact IHen.
    + destruct H2 as [A2 B2]. destruct G2 as [Hd2 _]. apply none_post_depth.
      destruct (is_ok s2) eqn:Hok2.
      * specialize (B2 (or_introl eq_refl)). destruct A2 as [Ac Ar]. apply none_post_err; try discriminate; lia.
      * destruct (is_eof s2) eqn:Heof.
        -- specialize (B2 (or_intror eq_refl)). destruct A2 as [Ac Ar]. apply none_post_err; try discriminate; lia.
        -- split; [exact A2|]. now apply not_ok_not_eof_vacuous.
  - destruct H1 as [A1 B1]. destruct (is_ok s1) eqn:Hok1; cbn [negb].
    + specialize (B1 (or_introl eq_refl)). split; [exact A1|]. split; [exact B1|].
      split; [now apply allP_rev|]. split; [now apply allP_rev|]. unfold ord in *. eapply chain_widen; [exact Hord|lia|exact B1].
    + apply none_post_depth. destruct (is_eof s1) eqn:Heof.
      * specialize (B1 (or_intror eq_refl)). destruct A1 as [Ac Ar]. apply none_post_err; try discriminate; lia.
      * split; [exact A1|]. now apply not_ok_not_eof_vacuous.
Qed.

Lemma map_body_rng ren : Gen ren -> Ren ren -> Rmap (mbody ren).
Proof.
  intros GEN IHen s st ns Hok Hs Hlt Hst. unfold map_body.
  set (s1 := with_depth (with_cur s (cur s + 1)) (depth s + 1)).
  assert (Hok1 : is_ok s1 = true) by (unfold s1; st; assumption).
  assert (Hs1 : st_ok s1) by (unfold s1; apply st_ok_with_depth; apply st_ok_cur; [assumption|lia]).
  assert (Hd1 : depth s1 <> 0) by (unfold s1; cbn; lia).
  assert (Hc1 : cur s1 = cur s + 1) by reflexivity.
  pose proof (IHen s1 st ns [] [] (cur s + 1) Hok1 Hs1 Hd1 ltac:(lia) eq_refl I I ltac:(unfold ord; cbn; lia)) as H1.
  pose proof (GEN s1 st ns [] [] Hok1 Hd1) as G1.
  destruct (ren s1 st ns [] []) as [[[ks vs]|] s2| | |]; unfold good_entries in G1; cbv beta iota in H1, G1 |- *; try exact I.
  - destruct H1 as (A & B & Hks & Hvs & Hord). destruct G1 as (Hok2 & Hd2 & Hcur).
    destruct (N.leb_spec e (cur s2)) as [Hle|Hlt2]; [lia|].
    destruct (Byte.eqb (m (cur s2)) "}"%byte); cbn [negb].
    + set (s3 := with_depth (with_cur s2 (cur s2 + 1)) (depth s2 - 1)).
      assert (Hs3 : st_ok s3) by (unfold s3; apply st_ok_with_depth; apply st_ok_cur; [assumption|lia]).
      assert (Hc3 : cur s3 = cur s2 + 1) by reflexivity.
      assert (Hordw : ord st (cur s3) (interleave ks vs)) by (unfold ord in *; eapply chain_widen; [exact Hord|lia|lia]).
      assert (Hmk : forall ks', Forall2 same_but_hash ks ks' ->
                 let n := mk (VMap ks' vs) st (cur s3) in st_ok s3 /\ wf n /\ nrs n = st /\ nrs n < nre n /\ nre n <= cur s3).
      { intros ks' Hsh. cbv zeta. split; [exact Hs3|]. split.
        - apply wf_unfold. cbn [mk nrs nre nval kids_ok]. split; [lia|]. split; [eapply allP_same_but_hash; eassumption|].
          split; [exact Hvs|]. eapply ord_same_but_hash; [|exact Hordw]. now apply interleave_same_but_hash.
        - cbn [mk nrs nre]. lia. }
      pose proof (has_duplicates_shape c xe xh sort ks) as Hsh. unfold v_has_dups.
      destruct (2 <=? List.length ks)%nat.
      * destruct (has_duplicates c xe xh sort ks) as [dup ks']. cbn [snd] in Hsh.
        destruct dup; [apply none_post_err; try discriminate; lia|]. now apply Hmk.
      * cbv beta iota. apply Hmk. apply Forall2_sbh_refl.
    + apply none_post_depth. apply none_post_err; try discriminate; lia.
  - exact H1.
Qed.

(* readers entered on a marker byte that is inside the input *)
Definition Rin (rd : rdr) := forall s, is_ok s = true -> st_ok s -> cur s < e -> rng_from (cur s) (rd s).

Lemma nsmap_body_rng rv rmap : Gv rv -> Rv rv -> Rmap rmap -> Rin (nsbody rv rmap).
Proof.
  intros GV IHv IHm s Hok Hs Hlt. unfold nsmap_body.
  set (s0 := with_cur s (cur s + 1)).
  assert (Hok0 : is_ok s0 = true) by (unfold s0; st; assumption).
  assert (Hs0 : st_ok s0) by (unfold s0; apply st_ok_cur; [assumption|lia]).
  pose proof (IHv s0 Hok0 Hs0) as H1. pose proof (GV s0 Hok0) as G1.
  destruct (rv s0) as [[kw|] s1| | |]; unfold good in G1; cbv beta iota in H1, G1 |- *; try exact I.
  - destruct H1 as (A1 & W1 & L1 & N1 & U1). destruct G1 as [Hok1 Hd1]. cbn [cur s0 with_cur] in L1.
    assert (Hbad : rng_from (cur s) (Ret None (err_at s1 ESyntax (cur s) (cur s1)))).
    { cbn [rng_from]. destruct A1 as [Ac Ar]. apply none_post_err; try discriminate; lia. }
    destruct (nval kw); try exact Hbad. destruct ns as [q|]; [exact Hbad|]. cbv zeta.
    destruct A1 as [Ac Ar]. pose proof (skip_ws_in m e (cur s1) Ac) as Hq.
    set (q := skip_ws m (cur s1) e) in *.
    destruct (N.leb_spec e q) as [Hle|Hlt2]; cbn [orb].
    + cbn [rng_from]. apply none_post_err; try discriminate; cbn; lia.
    + destruct (is_byte (m q) "{"); cbn [negb].
      * set (s2 := with_ext (with_cur s1 q) "nsmap").
        assert (Hok2 : is_ok s2 = true) by (unfold s2; st; assumption).
        assert (Hs2 : st_ok s2) by (unfold s2; apply st_ok_with_ext; apply st_ok_cur; [split; assumption|lia]).
        specialize (IHm s2 (cur s) (Some name) Hok2 Hs2 ltac:(cbn; lia) ltac:(cbn; lia)).
        destruct (rmap s2 (cur s) (Some name)) as [[n|] s3| | |]; try exact I; cbn [rng_from].
        -- destruct IHm as (P1 & P2 & P3 & P4 & P5). unfold val_post. split; [exact P1|]. split; [exact P2|]. lia.
        -- exact IHm.
      * cbn [rng_from]. apply none_post_err; try discriminate; cbn; lia.
  - destruct H1 as [A B]. split; [exact A|]. intros Hk. specialize (B Hk). cbn in B. lia.
Qed.

Lemma nrs_set_range r a b : nrs (set_range r a b) = a. Proof. destruct r; reflexivity. Qed.
Lemma nre_set_range r a b : nre (set_range r a b) = b. Proof. destruct r; reflexivity. Qed.

Lemma tagged_body_rng rv : Gv rv -> Rv rv -> Rin (tbody rv).
Proof.
  intros GV IHv s Hok Hs Hlt. unfold tagged_body.
  set (s1 := with_cur s (cur s + 1)).
  assert (Hs1 : st_ok s1) by (unfold s1; apply st_ok_cur; [assumption|lia]).
  assert (Hok1 : is_ok s1 = true) by (unfold s1; st; assumption).
  assert (Hc1 : cur s1 = cur s + 1) by reflexivity.
  destruct (N.leb_spec e (cur s1)) as [Hle|Hlt1].
  { cbn [rng_from]. apply none_post_err'; try discriminate; lia. }
  destruct (tag_adjacent_ws (bz (m (cur s1)))).
  { cbn [rng_from]. apply none_post_err; try discriminate; lia. }
  pose proof (tr_identifier m e s1 Hs1 ltac:(lia)) as HT. pose proof (tok_identifier m e s1 Hok1) as HG.
  pose proof (tp_identifier m e s1) as HP.
  destruct (read_identifier m e s1) as [[tv|] s2| | |]; unfold tok_post, tok_good in HT, HG; cbv beta iota in HT, HG |- *; try exact I.
  - destruct HT as (A2 & B2 & C2 & D2). destruct HG as [Hok2 Hd2]. specialize (HP tv s2 ltac:(lia) eq_refl).
    assert (Hbad2 : rng_from (cur s) (Ret None (err_at s2 ESyntax (cur s) (cur s2)))).
    { cbn [rng_from]. destruct A2 as [Ac Ar]. apply none_post_err; try discriminate; lia. }
    destruct (nval tv); try exact Hbad2.
    set (s2' := with_depth s2 (depth s + 1)).
    assert (Hok2' : is_ok s2' = true) by (unfold s2'; st; assumption).
    assert (Hs2' : st_ok s2') by (unfold s2'; now apply st_ok_with_depth).
    pose proof (IHv s2' Hok2' Hs2') as H3. pose proof (GV s2' Hok2') as G3.
    destruct (rv s2') as [[v|] s3| | |]; unfold good in G3; cbv beta iota in H3, G3 |- *; try exact I.
    + destruct H3 as (A3 & W3 & L3 & N3 & U3). destruct G3 as [Hok3 _]. cbn [cur s2' with_depth] in L3.
      set (s4 := with_depth s3 (depth s)).
      assert (Hs4 : st_ok s4) by (unfold s4; now apply st_ok_with_depth).
      assert (Hc4 : cur s4 = cur s3) by reflexivity. destruct A3 as [Ac3 Ar3].
      assert (Hplain : forall tg, rng_from (cur s) (Ret (Some (mk (VTagged tg v) (cur s) (cur s4))) s4)).
      { intros tg. cbn [rng_from]. split; [exact Hs4|]. split.
        - apply wf_unfold. cbn [mk nrs nre nval kids_ok]. split; [lia|]. split; [exact W3|].
          unfold ord. cbn [chain]. split; [exact I|]. replace (nre v =? 0) with false by (symmetry; apply N.eqb_neq; lia). lia.
        - cbn [mk nrs nre]. lia. }
      destruct (has_registry o && negb (discard s4))%bool; [|apply Hplain].
      destruct (lookup_tag o _) as [h|].
      * destruct (handler h v) as [[r|] ms] eqn:Hhv; cbn [rng_from].
        -- split; [now apply st_ok_with_call|]. split.
           ++ apply (Hh h v r ms); try assumption; cbn; lia.
           ++ rewrite nrs_set_range, nre_set_range. cbn. lia.
        -- split; [apply st_ok_with_error; cbn; lia|]. intros [H|H]; discriminate.
      * destruct (reader_mode o =? READER_UNWRAP)%Z.
        -- cbn [rng_from]. split; [exact Hs4|]. split; [exact W3|]. lia.
        -- destruct (reader_mode o =? READER_ERROR)%Z; [|apply Hplain].
           cbn [rng_from]. apply none_post_err; try discriminate; lia.
    + destruct H3 as [A3 B3]. cbn [cur s2' with_depth] in B3.
      set (s4 := with_depth s3 (depth s)).
      assert (Hs4 : st_ok s4) by (unfold s4; now apply st_ok_with_depth).
      replace (is_ok s4) with (is_ok s3) by reflexivity.
      destruct (is_ok s3) eqn:Hok3; cbn [rng_from].
      * specialize (B3 (or_introl eq_refl)). destruct A3 as [Ac3 Ar3]. apply none_post_err'; try discriminate; cbn; lia.
      * split; [exact Hs4|]. intros [Hk|Hk]; [change (is_ok s3 = true) in Hk; congruence|]. change (is_eof s3 = true) in Hk. cbn. specialize (B3 (or_intror Hk)). lia.
  - destruct HT as [A2 B2]. split; [exact A2|]. intros _. lia.
Qed.

(* ---- metadata ---- *)
Lemma meta_body_rng rv : Gv rv -> Rv rv -> Rin (mtbody rv).
Proof.
  intros GV IHv s Hok Hs Hlt. unfold meta_body.
  set (s0 := with_ext (with_cur s (cur s + 1)) "metadata").
  assert (Hok0 : is_ok s0 = true) by (unfold s0; st; assumption).
  assert (Hs0 : st_ok s0) by (unfold s0; apply st_ok_with_ext; apply st_ok_cur; [assumption|lia]).
  pose proof (IHv s0 Hok0 Hs0) as H1. pose proof (GV s0 Hok0) as G1.
  destruct (rv s0) as [[a|] s1| | |]; unfold good in G1; cbv beta iota in H1, G1 |- *; try exact I.
  - destruct H1 as (A1 & W1 & L1 & N1 & U1). destruct G1 as [Hok1 Hd1]. cbn [cur s0 with_cur with_ext] in L1.
    destruct A1 as [Ac1 Ar1].
    destruct (meta_ok_annotation (nval a)); cbn [negb].
    2:{ cbn [rng_from]. apply none_post_err; try discriminate; lia. }
    pose proof (IHv s1 Hok1 (conj Ac1 Ar1)) as H2. pose proof (GV s1 Hok1) as G2.
    destruct (rv s1) as [[form|] s2| | |]; unfold good in G2; cbv beta iota in H2, G2 |- *; try exact I.
    + destruct H2 as (A2 & W2 & L2 & N2 & U2). destruct A2 as [Ac2 Ar2].
      destruct (meta_ok_target (nval form)); cbn [negb].
      2:{ cbn [rng_from]. apply none_post_err; try discriminate; lia. }
      destruct (meta_entries a) as [nk nv]. cbv zeta. cbn [rng_from].
      split; [split; assumption|]. split; [apply wf_set_rs; [exact W2|lia]|].
      destruct form as [fv fs fe fm fh]. cbn [set_rs set_meta nrs nre] in *. lia.
    + destruct H2 as [A2 B2]. destruct (is_ok s2) eqn:Hok2; cbn [rng_from].
      * specialize (B2 (or_introl eq_refl)). destruct A2 as [Ac2 Ar2]. apply none_post_err; try discriminate; lia.
      * split; [exact A2|]. intros [Hk|Hk]; [congruence|]. specialize (B2 (or_intror Hk)). lia.
  - destruct H1 as [A1 B1]. cbn [cur s0 with_cur with_ext] in B1. destruct (is_ok s1) eqn:Hok1; cbn [rng_from].
    + specialize (B1 (or_introl eq_refl)). destruct A1 as [Ac1 Ar1]. apply none_post_err; try discriminate; lia.
    + split; [exact A1|]. intros [Hk|Hk]; [congruence|]. specialize (B1 (or_intror Hk)). lia.
Qed.

(* ---- the dispatcher ---- *)
Lemma value_body_rng rv rseq rmap rns rtag rmeta :
  Gv rv -> Rv rv -> Rseq rseq -> Rmap rmap -> Rin rns -> Rin rtag -> Rin rmeta ->
  Rv (vbody rv rseq rmap rns rtag rmeta).
Proof.
  intros GV IHv IHs IHm IHn IHt IHmt s0 Hok0 Hs0. unfold value_body. cbv zeta. apply rng_from_leave.
  replace (cur s0) with (cur (enter s0)) by reflexivity.
  assert (Hok : is_ok (enter s0) = true) by (st; assumption).
  assert (Hsx : st_ok (enter s0)) by now apply st_ok_enter.
  generalize dependent (enter s0). clear s0 Hok0 Hs0. intros s0 Hok0 Hs0.
  destruct (cur s0 <? e) eqn:Hlt.
  2:{ cbn [rng_from]. split; [apply st_ok_with_err; apply st_ok_cur; [assumption|destruct Hs0; assumption]|]. intros _. cbn. lia. }
  apply N.ltb_lt in Hlt.
  assert (Hpre : forall s, is_ok s = true -> st_ok s -> cur s0 <= cur s -> cur s < e ->
            rng_from (cur s0)
              (let s := with_start s (cur s) in
               let p := cur s in let ch := m p in let d := dispatch_of c ch in
               if (d =? ct_string c)%Z then read_string c m e s
               else if (d =? ct_char c)%Z then read_character c m e s
               else if (d =? ct_list c)%Z then rseq KList 1 s
               else if (d =? ct_vector c)%Z then rseq KVector 1 s
               else if (d =? ct_map c)%Z then rmap s p None
               else if (d =? ct_hash c)%Z then
                 if (p + 1 <? e) && is_byte (m (p + 1)) "{" then rseq KSet 2 s
                 else if (p + 1 <? e) && is_byte (m (p + 1)) "#" then read_symbolic m e s
                 else if (p + 1 <? e) && is_byte (m (p + 1)) "_" then
                   let old := discard s in
                   match rv (with_discard (with_cur s (p + 2)) true) with
                   | Ret dv s1 =>
                     let s2 := with_discard s1 old in
                     match dv with
                     | None => if is_ok s2 then Ret None (err_at s2 EDiscard p (p + 2)) else Ret None s2
                     | Some _ => if is_ok s2 then rv s2 else Ret None s2
                     end
                   | x => x
                   end
                 else if clj c && (p + 1 <? e) && is_byte (m (p + 1)) ":" then rns s
                 else rtag s
               else if (d =? ct_sign c)%Z then
                 if (p + 1 <? e) && Scan.is_digit (m (p + 1)) then read_number_tok c m e s
                 else read_identifier m e s
               else if (d =? ct_digit c)%Z then read_number_tok c m e s
               else if (d =? ct_delim c)%Z then
                 if depth s =? 0 then Ret None (with_err s EUnmatched MStatic) else Ret None s
               else if clj c && (d =? ct_meta c)%Z then rmeta s
               else read_identifier m e s)).
  { intros s Hs Hst Hge Hc. cbv zeta.
    set (s' := with_start s (cur s)).
    assert (Hs' : is_ok s' = true) by (unfold s'; st; assumption).
    assert (Hst' : st_ok s') by (unfold s'; now apply st_ok_with_start).
    assert (Hc' : cur s' = cur s) by reflexivity. rewrite Hc'.
    assert (Hlt' : cur s' < e) by (rewrite Hc'; assumption).
    assert (MN : forall r, rng_from (cur s') r -> rng_from (cur s0) r).
    { intros r Hr. apply (rng_from_mono (cur s0) (cur s')); [rewrite Hc'; assumption|exact Hr]. }
    assert (TK : forall r, tok_post e s' r -> tok_good (depth s') r ->
                 (forall v s1, r = Ret (Some v) s1 -> cur s' < cur s1) -> rng_from (cur s0) r).
    { intros r H1 H2 H3. apply MN. apply tok_rng; try assumption. lia. }
    repeat match goal with
           | |- rng_from _ (if ?b then _ else _) => destruct b eqn:?
           end.
    - apply TK; [now apply tr_string|now apply tok_string|]. intros v s1 H. apply (tp_string c m e s' v s1); assumption.
    - apply TK; [now apply tr_character|now apply tok_character|]. intros v s1 H. now apply (tp_character c m e s' v s1).
    - apply MN, IHs; [assumption|assumption|lia|lia].
    - apply MN, IHs; [assumption|assumption|lia|lia].
    - apply MN. rewrite <- Hc'. specialize (IHm s' (cur s') None Hs' Hst' Hlt' ltac:(lia)).
      destruct (rmap s' (cur s') None) as [[n|] s1| | |]; try exact I; cbn [rng_from].
      + destruct IHm as (P1 & P2 & P3 & P4 & P5). split; [exact P1|]. split; [exact P2|]. lia.
      + exact IHm.
    - match goal with H : (_ <? e) && _ = true |- _ => apply andb_true_iff in H; destruct H as [Hp1 _]; apply N.ltb_lt in Hp1 end.
      apply MN, IHs; [assumption|assumption|lia|lia].
    - apply TK; [now apply tr_symbolic|now apply tok_symbolic|]. intros v s1 H. now apply (tp_symbolic m e s' v s1).
    - (* discard *)
      match goal with H : (_ <? e) && _ = true |- _ => apply andb_true_iff in H; destruct H as [Hp1 _]; apply N.ltb_lt in Hp1 end.
      set (sd := with_discard (with_cur s' (cur s + 2)) true).
      assert (Hsd : is_ok sd = true) by (unfold sd; st; assumption).
      assert (Hstd : st_ok sd) by (unfold sd; apply st_ok_with_discard; apply st_ok_cur; [assumption|lia]).
      pose proof (GV _ Hsd) as G1. pose proof (IHv _ Hsd Hstd) as R1.
      destruct (rv sd) as [[dv|] s1| | |]; unfold good in G1; cbv beta iota zeta in G1, R1 |- *; try exact I.
      + destruct G1 as [Hok1 _]. destruct R1 as (A1 & W1 & L1 & N1 & U1). cbn [cur sd with_discard with_cur] in L1.
        replace (is_ok (with_discard s1 (discard s'))) with (is_ok s1) by reflexivity. rewrite Hok1.
        set (s2 := with_discard s1 (discard s')).
        assert (Hs2 : is_ok s2 = true) by (unfold s2; st; assumption).
        assert (Hst2 : st_ok s2) by (unfold s2; now apply st_ok_with_discard).
        pose proof (IHv _ Hs2 Hst2) as R2. apply (rng_from_mono (cur s0) (cur s2)); [cbn; lia|exact R2].
      + destruct R1 as [A1 B1]. cbn [cur sd with_discard with_cur] in B1.
        replace (is_ok (with_discard s1 (discard s'))) with (is_ok s1) by reflexivity.
        destruct (is_ok s1) eqn:Hk; cbn [rng_from].
        * destruct A1 as [Ac Ar]. apply none_post_err; try discriminate; cbn; lia.
        * split; [now apply st_ok_with_discard|]. intros [H|H]; [change (is_ok s1 = true) in H; congruence|].
          change (is_eof s1 = true) in H. specialize (B1 (or_intror H)). cbn. lia.
    - apply MN, IHn; assumption.
    - apply MN, IHt; assumption.
    - (* sign followed by a digit *)
      apply TK; [apply tr_number; [assumption|lia]|now apply tok_number|]. intros v s1 H. apply (tp_number c m e s' v s1); [|exact H].
      match goal with H : (_ <? e) && Scan.is_digit _ = true |- _ => apply andb_true_iff in H; destruct H as [Hp1 Hd1]; apply N.ltb_lt in Hp1 end.
      split; [assumption|]. right. rewrite Hc'. split; [|split; assumption].
      apply sign_class. assumption.
    - apply TK; [apply tr_identifier; [assumption|lia]|now apply tok_identifier|]. intros v s1 H. apply (tp_identifier m e s' v s1); [lia|exact H].
    - (* digit *)
      apply TK; [apply tr_number; [assumption|lia]|now apply tok_number|]. intros v s1 H. apply (tp_number c m e s' v s1); [|exact H].
      split; [assumption|]. left. rewrite Hc'. apply digit_class. assumption.
    - cbn [rng_from]. split; [now apply st_ok_with_err|]. intros [H|H]; discriminate.
    - cbn [rng_from]. split; [exact Hst'|]. intros _. rewrite Hc'. exact Hge.
    - apply MN, IHmt; assumption.
    - apply TK; [apply tr_identifier; [assumption|lia]|now apply tok_identifier|]. intros v s1 H. apply (tp_identifier m e s' v s1); [lia|exact H]. }
  destruct Hs0 as [Hc0 Hr0].
  destruct (prefilter (bz (m (cur s0)))).
  - pose proof (skip_ws_in m e (cur s0) Hc0) as Hq.
    destruct (skip_ws m (cur s0) e <? e) eqn:Hq2.
    + apply N.ltb_lt in Hq2. apply (Hpre (with_cur s0 (skip_ws m (cur s0) e))); st; try assumption; try lia.
      apply st_ok_cur; [split; assumption|lia].
    + cbn [rng_from]. replace (cur s0 <? e) with true by (symmetry; now apply N.ltb_lt).
      split; [apply st_ok_with_err; apply st_ok_cur; [split; assumption|lia]|]. intros _. cbn. lia.
  - apply (Hpre s0); [assumption|split; assumption|lia|assumption].
Qed.

(* ---- all eight readers, every fuel ---- *)
Notation RG := (readers_good c o handler xe xh sort m e).
Theorem readers_rng : forall f,
  Rv (read_value c o handler xe xh sort m e f) /\ Rseq (read_seq c o handler xe xh sort m e f) /\
  Rel (read_elems c o handler xe xh sort m e f) /\ Rmap (read_map c o handler xe xh sort m e f) /\
  Ren (read_entries c o handler xe xh sort m e f) /\ Rin (read_nsmap c o handler xe xh sort m e f) /\
  Rin (read_tagged c o handler xe xh sort m e f) /\ Rin (read_meta c o handler xe xh sort m e f).
Proof.
  induction f as [|f (IHv & IHs & IHe & IHm & IHen & IHn & IHt & IHmt)].
  - repeat split; intro; intros; exact I.
  - destruct (RG f) as (Gv0 & Gs0 & Ge0 & Gm0 & Gen0 & Gn0 & Gt0 & Gmt0).
    repeat split.
    + apply value_body_rng; assumption.
    + apply seq_body_rng; assumption.
    + apply elems_body_rng; assumption.
    + apply map_body_rng; assumption.
    + apply entries_body_rng; assumption.
    + apply nsmap_body_rng; assumption.
    + apply tagged_body_rng; assumption.
    + apply meta_body_rng; assumption.
Qed.

(* ---- top level ---- *)
Lemma st_ok_init : st_ok init_pst.
Proof. unfold RangeTok.st_ok. cbn. split; [lia|exact I]. Qed.

(* every value a read returns: well-formed ranges, non-empty, inside the input *)
Theorem read_doc_value_ranges fuel r s n :
  read_doc c o handler xe xh sort m e fuel = Ret r s -> r_value r = Some n ->
  wf n /\ nrs n < nre n /\ nre n <= e.
Proof.
  unfold read_doc. intros H Hv.
  pose proof (proj1 (readers_rng fuel) init_pst eq_refl st_ok_init) as R.
  destruct (read_value c o handler xe xh sort m e fuel init_pst) as [[v|] s1| | |]; try discriminate.
  - cbn [rng_from] in R. destruct R as (A & W & L & N1 & U). destruct A as [Ac Ar]. cbv zeta in H.
    match type of H with context [let '(_, _) := ?X in _] => destruct X as [ps pe] end.
    destruct (is_eof s1 && has_eof_value o)%bool; inversion H; subst; clear H; cbn in Hv; [discriminate|].
    injection Hv as <-. split; [exact W|]. lia.
  - cbv zeta in H.
    match type of H with context [let '(_, _) := ?X in _] => destruct X as [ps pe] end.
    destruct (is_eof s1 && has_eof_value o)%bool; inversion H; subst; clear H; cbn in Hv; discriminate.
Qed.

(* every failed read: 0 <= start offset <= end offset <= input length *)
Lemma get_position_off l off : fst (fst (get_position l off)) = off.
Proof. unfold get_position. destruct (search_line l off); reflexivity. Qed.

Theorem read_doc_error_range fuel r s :
  read_doc c o handler xe xh sort m e fuel = Ret r s -> r_err r <> EOk ->
  fst (fst (r_start r)) <= fst (fst (r_end r)) /\ fst (fst (r_end r)) <= e.
Proof.
  unfold read_doc. intros H He.
  pose proof (proj1 (readers_rng fuel) init_pst eq_refl st_ok_init) as R.
  assert (Hst : forall v s1, read_value c o handler xe xh sort m e fuel init_pst = Ret v s1 -> st_ok s1).
  { intros v s1 E. rewrite E in R. destruct v; cbn [rng_from] in R; [destruct R as [A _]|destruct R as [A _]]; exact A. }
  destruct (read_value c o handler xe xh sort m e fuel init_pst) as [v s1| | |]; try discriminate.
  specialize (Hst v s1 eq_refl). destruct Hst as [Ac Ar]. cbv zeta in H.
  destruct (is_ok s1) eqn:Hok.
  - (* no error in the state: the result carries EOk (or the caller's end-of-input value) *)
    assert (Heof : is_eof s1 = false) by (apply is_ok_iff in Hok; unfold is_eof; now rewrite Hok).
    rewrite Heof in H. cbn [andb] in H. inversion H; subst; clear H. cbn in He. apply is_ok_iff in Hok. congruence.
  - unfold rng_pair_ok in Ar.
    destruct (es s1) as [a|]; destruct (ee s1) as [b|]; try contradiction;
      (destruct (is_eof s1 && has_eof_value o)%bool; inversion H; subst; clear H; cbn [r_start r_end r_err] in *; [congruence|];
       rewrite !get_position_off; lia).
Qed.
End Rng.

(* ------------------------------------------------------------------ the handlers the harness registers satisfy handler_ok *)
Lemma builtin_handler_ok : handler_ok builtin_handler.
Proof.
  intros h v r ms lo hi H Hw H1 H2 H3. unfold builtin_handler in H.
  destruct (h =? 0)%Z; [injection H as <- _; apply wf_set_range_same; [assumption|lia|lia]|].
  destruct (h =? 1)%Z.
  { injection H as <- _. cbn [mk set_range]. cbn [wf allP]. split; [lia|]. split; [tauto|].
    unfold ord. cbn [chain]. split; [exact I|]. replace (nre v =? 0) with false by (symmetry; apply N.eqb_neq; lia). lia. }
  destruct (h =? 2)%Z; [discriminate|]. destruct (h =? 3)%Z; [discriminate|].
  destruct (h =? 4)%Z; injection H as <- _; cbn; (split; [lia|exact I]).
Qed.

(* the four builds, any options: the model as it is run by the correspondence check *)
Theorem run_doc_value_ranges c o m len r s n : In c all_cfgs ->
  run_doc c o m len = Ret r s -> r_value r = Some n -> wf n /\ nrs n < nre n /\ nre n <= len.
Proof.
  intros Hc. destruct (class_facts c Hc) as [H1 H2]. unfold run_doc.
  apply read_doc_value_ranges; [apply builtin_handler_ok|assumption|assumption].
Qed.
Theorem run_doc_error_range c o m len r s : In c all_cfgs ->
  run_doc c o m len = Ret r s -> r_err r <> EOk ->
  fst (fst (r_start r)) <= fst (fst (r_end r)) /\ fst (fst (r_end r)) <= len.
Proof.
  intros Hc. destruct (class_facts c Hc) as [H1 H2]. unfold run_doc.
  apply read_doc_error_range; [apply builtin_handler_ok|assumption|assumption].
Qed.
