(* Proofs/ReaderInv.v -- the reader's protocol invariant, by induction on fuel over the eight
   mutually recursive readers:
     * a value is returned only in an error-free state, NULL with an error-free state only by
       the "closing delimiter inside a collection" protocol (depth <> 0, cursor inside input);
     * depth is restored on every return;
     * the unguarded read of the closing-delimiter byte in the collection readers never falls
       outside the input (no OOB outcome).
   From it: value-xor-error at top level (C10) and no out-of-bounds read (C01). *)
From Coq Require Import ZArith NArith List Bool Lia String.
From Coq.Strings Require Import Byte.
From Coq.Floats Require Import SpecFloat.
From Verif Require Import Lanes Common Values Floats Scan Numbers Equality Tokens Reader.
Import ListNotations.
Local Open Scope N_scope.

Ltac st := cbn [depth err cur discard msg es ee with_cur with_depth with_discard with_err with_error
                with_call enter leave with_start with_ext is_ok is_eof err_at fail fst snd] in *;
  autorewrite with stdb in *.

Definition not_ok_code (c : ecode) : bool := match c with EOk => false | _ => true end.

Lemma is_ok_with_cur s x : is_ok (with_cur s x) = is_ok s. Proof. reflexivity. Qed.
Lemma is_ok_with_depth s x : is_ok (with_depth s x) = is_ok s. Proof. reflexivity. Qed.
Lemma is_ok_with_discard s x : is_ok (with_discard s x) = is_ok s. Proof. reflexivity. Qed.
Lemma is_ok_with_call s x : is_ok (with_call s x) = is_ok s. Proof. reflexivity. Qed.
Lemma is_ok_enter s : is_ok (enter s) = is_ok s. Proof. reflexivity. Qed.
Lemma is_ok_leave s : is_ok (leave s) = is_ok s. Proof. reflexivity. Qed.
Lemma is_ok_with_start s x : is_ok (with_start s x) = is_ok s. Proof. reflexivity. Qed.
Lemma is_ok_with_ext s x : is_ok (with_ext s x) = is_ok s. Proof. reflexivity. Qed.
#[export] Hint Rewrite is_ok_with_cur is_ok_with_depth is_ok_with_discard is_ok_with_call is_ok_enter
  is_ok_leave is_ok_with_start is_ok_with_ext : stdb.

Section Inv.
Variable c : cfg.
Variable o : opts.
Variable handler : Z -> node -> option node * option bytes.
Variable xe : Z -> option (Z -> Z -> bool).
Variable xh : Z -> option (Z -> Z).
Variable sort : list node -> list node.
Variable m : mem.
Variable e : N.

(* outcome of a reader started in an error-free state at depth d *)
Definition good (d : N) (r : res (option node)) : Prop :=
  match r with
  | Ret (Some _) s' => is_ok s' = true /\ depth s' = d
  | Ret None s' => depth s' = d /\ (is_ok s' = true -> d <> 0 /\ cur s' < e)
  | OOBx _ => False
  | UBx _ => True
  | OutOfFuel => True
  end.

(* a token reader: value in an error-free state, or NULL with an error *)
Definition tok_good (d : N) (r : res (option node)) : Prop :=
  match r with
  | Ret (Some _) s' => is_ok s' = true /\ depth s' = d
  | Ret None s' => depth s' = d /\ is_ok s' = false
  | OOBx _ => False
  | UBx _ => True
  | OutOfFuel => True
  end.

Lemma tok_good_good d r : tok_good d r -> good d r.
Proof.
  destruct r as [[v|] s'| | |]; cbn; try tauto. intros [H1 H2]. split; [assumption|]. rewrite H2. discriminate.
Qed.

Lemma tok_string s : is_ok s = true -> tok_good (depth s) (read_string c m e s).
Proof.
  intros Hok. unfold read_string.
  destruct (exp c && (cur s + 3 <? e) && is_quote (m (cur s)) && is_quote (m (cur s + 1)) &&
            is_quote (m (cur s + 2)) && is_lf (m (cur s + 3)))%bool.
  - destruct (tb_lines m e _ _ _) as [[ls nc]|lp]; [|cbn; st; tauto].
    destruct (match rev ls with l :: _ => tl_terminal l | [] => false end); cbn; st; tauto.
  - unfold read_plain_string. destruct (find_quote m (cur s + 1) e) as [[q flag]|]; cbn; st; tauto.
Qed.

Lemma tok_identifier s : is_ok s = true -> tok_good (depth s) (read_identifier m e s).
Proof.
  intros Hok. unfold read_identifier.
  destruct (split_identifier m e (cur s)) as [[[len ns] [nm_off nm_len]]|]; [|cbn; st; tauto].
  destruct ns as [[ns_off ns_len]|].
  - destruct (is_colon (m ns_off)).
    + destruct (ns_len - 1 =? 0); [cbn; st; tauto|].
      destruct (is_colon (m (ns_off + 1))); cbn; st; tauto.
    + cbn; st; tauto.
  - destruct (is_colon (m nm_off)).
    + destruct (nm_len - 1 =? 0); [cbn; st; tauto|].
      destruct (is_colon (m (nm_off + 1))); cbn; st; tauto.
    + destruct (bytes_eqb _ (lit "nil")); [cbn; st; tauto|].
      destruct (bytes_eqb _ (lit "true")); [cbn; st; tauto|].
      destruct (bytes_eqb _ (lit "false")); cbn; st; tauto.
Qed.

Lemma tok_symbolic s : is_ok s = true -> tok_good (depth s) (read_symbolic m e s).
Proof.
  intros Hok. unfold read_symbolic.
  destruct (match_at m e (cur s + 2) (lit "Inf")); [cbn; st; tauto|].
  destruct (match_at m e (cur s + 2) (lit "-Inf")); [cbn; st; tauto|].
  destruct (match_at m e (cur s + 2) (lit "NaN")); cbn; st; tauto.
Qed.

Lemma tok_number s : is_ok s = true -> tok_good (depth s) (read_number_tok c m e s).
Proof.
  intros Hok. unfold read_number_tok. destruct (read_number c m e (cur s)); cbn; st; tauto.
Qed.

Ltac tok_cases :=
  repeat (match goal with
          | |- tok_good _ (if ?b then _ else _) => destruct b
          | |- tok_good _ (match ?X with _ => _ end) => destruct X
          end); cbn; st; tauto.

Lemma tok_character s : is_ok s = true -> tok_good (depth s) (read_character c m e s).
Proof. intros Hok. cbv beta iota zeta delta [read_character fail]. tok_cases. Qed.

(* ------------------------------------------------------------------ the reader bodies *)
Notation vbody := (value_body c m e).
Notation sbody := (seq_body c xe xh sort m e).
Notation ebody := elems_body.
Notation mbody := (map_body c xe xh sort m e).
Notation enbody := entries_body.
Notation nsbody := (nsmap_body m e).
Notation tbody := (tagged_body o handler m e).
Notation mtbody := (meta_body c xe).

Definition good_elems (d : N) (r : res (option (list node))) : Prop :=
  match r with
  | Ret (Some _) s' => depth s' = d /\ (is_ok s' = true -> d <> 0 /\ cur s' < e)
  | Ret None _ => False
  | OOBx _ => False
  | _ => True
  end.
Definition good_entries (d : N) (r : res (option (list node * list node))) : Prop :=
  match r with
  | Ret (Some _) s' => is_ok s' = true /\ depth s' = d /\ cur s' < e
  | Ret None s' => depth s' + 1 = d /\ is_ok s' = false
  | OOBx _ => False
  | _ => True
  end.

Definition Gv (rv : rdr) := forall s, is_ok s = true -> good (depth s) (rv s).
Definition Gseq (rseq : kind -> N -> rdr) := forall k sk s, is_ok s = true -> good (depth s) (rseq k sk s).
Definition Gel (relems : pst -> list node -> res (option (list node))) :=
  forall s acc, is_ok s = true -> good_elems (depth s) (relems s acc).
Definition Gmap (rmap : pst -> N -> option bytes -> res (option node)) :=
  forall s st ns, is_ok s = true -> good (depth s) (rmap s st ns).
Definition Gen (ren : pst -> N -> option bytes -> list node -> list node -> res (option (list node * list node))) :=
  forall s st ns ks vs, is_ok s = true -> depth s <> 0 -> good_entries (depth s) (ren s st ns ks vs).

Lemma good_depth_eq d d' r : d = d' -> good d r -> good d' r.
Proof. intros ->. tauto. Qed.

(* ---- sequences ---- *)
Lemma elems_body_good rv relems : Gv rv -> Gel relems -> Gel (ebody rv relems).
Proof.
  intros IHv IHe s acc Hok. unfold elems_body.
  specialize (IHv s Hok). destruct (rv s) as [[v|] s1| | |]; cbn in IHv |- *; try tauto.
  destruct IHv as [Hok1 Hd1]. specialize (IHe s1 (v :: acc) Hok1). rewrite Hd1 in IHe. exact IHe.
Qed.

Lemma seq_body_good relems : Gel relems -> Gseq (sbody relems).
Proof.
  intros IHe k sk s Hok. unfold seq_body.
  set (s1 := with_depth (with_cur s (cur s + sk)) (depth s + 1)).
  assert (Hok1 : is_ok s1 = true) by (unfold s1; st; assumption).
  specialize (IHe s1 [] Hok1). assert (Hd1 : depth s1 = depth s + 1) by reflexivity. rewrite Hd1 in IHe.
  destruct (relems s1 []) as [[els|] s2| | |]; cbn in IHe |- *; try tauto.
  destruct IHe as [Hd2 Hc2].
  destruct (is_ok s2) eqn:Hok2; cbn [negb].
  - destruct (Hc2 eq_refl) as [_ Hcur].
    destruct (N.leb_spec e (cur s2)) as [Hle|Hlt]; [lia|].
    destruct (Byte.eqb (m (cur s2)) (closer_of k)); cbn [negb].
    + set (s3 := with_depth (with_cur s2 (cur s2 + 1)) (depth s2 - 1)).
      assert (Hok3 : is_ok s3 = true) by (unfold s3; st; assumption).
      assert (Hd3 : depth s3 = depth s) by (unfold s3; st; lia).
      destruct k; try (cbn; st; split; assumption).
      match goal with |- context [match ?X with (_, _) => _ end] => destruct X as [dup els'] end.
      destruct dup; cbn; st; [split; [lia|intros H; discriminate]|split; assumption].
    + cbn. st. split; [lia|]. intros H; discriminate.
  - destruct (is_eof s2); cbn; st; (split; [lia|intros H; congruence]).
Qed.

(* ---- maps ---- *)
Lemma entries_body_good rv ren : Gv rv -> Gen ren -> Gen (enbody rv ren).
Proof.
  intros IHv IHen s st ns ks vs Hok Hd. unfold entries_body.
  pose proof (IHv s Hok) as H1. destruct (rv s) as [[k|] s1| | |]; cbn in H1 |- *; try tauto.
  - destruct H1 as [Hok1 Hd1].
    pose proof (IHv s1 Hok1) as H2. rewrite Hd1 in H2.
    destruct (rv s1) as [[v|] s2| | |]; cbn in H2 |- *; try tauto.
    + destruct H2 as [Hok2 Hd2].
      specialize (IHen s2 st ns ((match ns with Some q => qualify_key q k | None => k end) :: ks) (v :: vs) Hok2).
      rewrite Hd2 in IHen. apply IHen. assumption.
    + destruct H2 as [Hd2 _]. st.
      destruct (is_ok s2) eqn:Hok2; st.
      * split; [lia|reflexivity].
      * destruct (is_eof s2); st; (split; [lia|try reflexivity; assumption]).
  - destruct H1 as [Hd1 Hc1].
    destruct (is_ok s1) eqn:Hok1; cbn [negb].
    + destruct (Hc1 eq_refl) as [_ Hcur]. cbn. repeat split; assumption.
    + cbn. st. destruct (is_eof s1); st; (split; [lia|try reflexivity; assumption]).
Qed.

Lemma map_body_good ren : Gen ren -> Gmap (mbody ren).
Proof.
  intros IHen s st ns Hok. unfold map_body.
  set (s1 := with_depth (with_cur s (cur s + 1)) (depth s + 1)).
  assert (Hok1 : is_ok s1 = true) by (unfold s1; st; assumption).
  assert (Hd1 : depth s1 = depth s + 1) by reflexivity.
  specialize (IHen s1 st ns [] [] Hok1 ltac:(lia)). rewrite Hd1 in IHen.
  destruct (ren s1 st ns [] []) as [[[ks vs]|] s2| | |]; cbn in IHen |- *; try tauto.
  - destruct IHen as (Hok2 & Hd2 & Hcur).
    destruct (N.leb_spec e (cur s2)) as [Hle|Hlt]; [lia|].
    destruct (Byte.eqb (m (cur s2)) "}"%byte); cbn [negb].
    + match goal with |- context [match ?X with (_, _) => _ end] => destruct X as [dup ks'] end.
      destruct dup; cbn; st; [split; [lia|intros H; discriminate]|split; [assumption|lia]].
    + cbn. st. split; [lia|]. intros H; discriminate.
  - destruct IHen as [Hd2 Hn]. split; [lia|]. rewrite Hn. discriminate.
Qed.

Lemma nsmap_body_good rv rmap : Gv rv -> Gmap rmap -> Gv (nsbody rv rmap).
Proof.
  intros IHv IHm s Hok. unfold nsmap_body.
  assert (Hok0 : is_ok (with_cur s (cur s + 1)) = true) by (st; assumption).
  pose proof (IHv _ Hok0) as H1. st.
  destruct (rv (with_cur s (cur s + 1))) as [[kw|] s1| | |]; cbn in H1 |- *; try tauto.
  destruct H1 as [Hok1 Hd1].
  destruct (nval kw); try (cbn; st; split; [assumption|intros H; discriminate]).
  destruct ns as [q|]; [cbn; st; split; [assumption|intros H; discriminate]|].
  cbv zeta.
  match goal with |- good _ (if ?b then _ else _) => destruct b end.
  - cbn. st. split; [assumption|intros H; discriminate].
  - match goal with |- good _ (rmap ?s2 _ _) =>
      assert (Hok2 : is_ok s2 = true) by (st; assumption);
      specialize (IHm s2 (cur s) (Some name) Hok2); eapply good_depth_eq; [|exact IHm]; st; assumption
    end.
Qed.

(* ---- tagged elements ---- *)
Lemma tagged_body_good rv : Gv rv -> Gv (tbody rv).
Proof.
  intros IHv s Hok. unfold tagged_body. st.
  destruct (e <=? cur s + 1); [cbn; st; split; [reflexivity|intros H; discriminate]|].
  destruct (tag_adjacent_ws (bz (m (cur s + 1)))); [cbn; st; split; [reflexivity|intros H; discriminate]|].
  assert (Hok1 : is_ok (with_cur s (cur s + 1)) = true) by (st; assumption).
  pose proof (tok_identifier (with_cur s (cur s + 1)) Hok1) as HT. st.
  destruct (read_identifier m e (with_cur s (cur s + 1))) as [[tv|] s2| | |]; cbn in HT |- *; try tauto.
  - destruct HT as [Hok2 Hd2].
    destruct (nval tv); try (cbn; st; split; [assumption|intros H; discriminate]).
    assert (Hok2' : is_ok (with_depth s2 (depth s + 1)) = true) by (st; assumption).
    pose proof (IHv _ Hok2') as H3. st.
    destruct (rv (with_depth s2 (depth s + 1))) as [[v|] s3| | |]; cbn in H3 |- *; try tauto.
    + destruct H3 as [Hok3 _].
      destruct (has_registry o && negb (discard s3))%bool.
      * destruct (lookup_tag o _) as [h|].
        -- destruct (handler h v) as [[r|] ms]; cbn; st; [split; [assumption|reflexivity]|].
           split; [reflexivity|intros H; discriminate].
        -- destruct (reader_mode o =? READER_UNWRAP)%Z; [cbn; st; split; [assumption|reflexivity]|].
           destruct (reader_mode o =? READER_ERROR)%Z; cbn; st;
             [split; [reflexivity|intros H; discriminate]|split; [assumption|reflexivity]].
      * cbn. st. split; [assumption|reflexivity].
    + st. destruct (is_ok s3) eqn:Hok3; cbn; st.
      * split; [reflexivity|intros H; discriminate].
      * split; [reflexivity|]. rewrite Hok3. discriminate.
  - destruct HT as [Hd2 Hn]. split; [assumption|]. rewrite Hn. discriminate.
Qed.

(* ---- metadata ---- *)
Lemma meta_body_good rv : Gv rv -> Gv (mtbody rv).
Proof.
  intros IHv s Hok. unfold meta_body.
  assert (Hok0 : is_ok (with_ext (with_cur s (cur s + 1)) "metadata") = true) by (st; assumption).
  pose proof (IHv _ Hok0) as H1. st.
  destruct (rv (with_ext (with_cur s (cur s + 1)) "metadata")) as [[a|] s1| | |]; cbn in H1 |- *; try tauto.
  - destruct H1 as [Hok1 Hd1].
    destruct (meta_ok_annotation (nval a)); cbn [negb]; [|cbn; st; split; [assumption|intros H; discriminate]].
    pose proof (IHv s1 Hok1) as H2. rewrite Hd1 in H2.
    destruct (rv s1) as [[form|] s2| | |]; cbn in H2 |- *; try tauto.
    + destruct H2 as [Hok2 Hd2].
      destruct (meta_ok_target (nval form)); cbn [negb]; [|cbn; st; split; [assumption|intros H; discriminate]].
      destruct (meta_entries a) as [nk nv]. cbn. split; assumption.
    + destruct H2 as [Hd2 _]. destruct (is_ok s2) eqn:Hok2; cbn; st.
      * split; [assumption|intros H; discriminate].
      * split; [assumption|]. rewrite Hok2. discriminate.
  - destruct H1 as [Hd1 _]. destruct (is_ok s1) eqn:Hok1; cbn; st.
    + split; [assumption|intros H; discriminate].
    + split; [assumption|]. rewrite Hok1. discriminate.
Qed.

(* ---- the dispatcher ---- *)
Lemma good_leave d r :
  good d r -> good d (match r with Ret v s => Ret v (leave s) | x => x end).
Proof. destruct r as [[v|] s'| | |]; cbn; st; tauto. Qed.

Lemma value_body_good rv rseq rmap rns rtag rmeta :
  Gv rv -> Gseq rseq -> Gmap rmap -> Gv rns -> Gv rtag -> Gv rmeta ->
  Gv (vbody rv rseq rmap rns rtag rmeta).
Proof.
  intros IHv IHs IHm IHn IHt IHmt s0 Hok0. unfold value_body. cbv zeta. apply good_leave.
  replace (depth s0) with (depth (enter s0)) by reflexivity.
  assert (Hok : is_ok (enter s0) = true) by (st; assumption).
  generalize dependent (enter s0). clear s0 Hok0. intros s0 Hok0.
  (* trivia *)
  destruct (cur s0 <? e) eqn:Hlt.
  2:{ cbn. st. split; [reflexivity|intros H; discriminate]. }
  apply N.ltb_lt in Hlt.
  assert (Hpre : forall s, is_ok s = true -> depth s = depth s0 -> cur s < e ->
            good (depth s0)
              (let s := with_start s (cur s) in
               let p := cur s in let ch := m p in let d := dispatch_of c ch in
               if (d =? ct_string c)%Z then read_string c m e s
               else if (d =? ct_char c)%Z then read_character c m e s
               else if (d =? ct_list c)%Z then rseq KList 1 s
               else if (d =? ct_vector c)%Z then rseq KVector 1 s
               else if (d =? ct_map c)%Z then rmap s p None
               else if (d =? ct_hash c)%Z then
                 if (p + 1 <? e) && is_byte (m (p + 1)) "{" then rseq KSet 2 s
                 else if (p + 1 <? e) && is_byte (m (p + 1)) "#" then read_symbolic m e s
                 else if (p + 1 <? e) && is_byte (m (p + 1)) "_" then
                   let old := discard s in
                   match rv (with_discard (with_cur s (p + 2)) true) with
                   | Ret dv s1 =>
                     let s2 := with_discard s1 old in
                     match dv with
                     | None => if is_ok s2 then Ret None (err_at s2 EDiscard p (p + 2)) else Ret None s2
                     | Some _ => if is_ok s2 then rv s2 else Ret None s2
                     end
                   | x => x
                   end
                 else if clj c && (p + 1 <? e) && is_byte (m (p + 1)) ":" then rns s
                 else rtag s
               else if (d =? ct_sign c)%Z then
                 if (p + 1 <? e) && Scan.is_digit (m (p + 1)) then read_number_tok c m e s
                 else read_identifier m e s
               else if (d =? ct_digit c)%Z then read_number_tok c m e s
               else if (d =? ct_delim c)%Z then
                 if depth s =? 0 then Ret None (with_err s EUnmatched MStatic) else Ret None s
               else if clj c && (d =? ct_meta c)%Z then rmeta s
               else read_identifier m e s)).
  { intros s Hs Hd Hc. cbv zeta.
    set (s' := with_start s (cur s)).
    assert (Hs' : is_ok s' = true) by (unfold s'; st; assumption).
    assert (Hd' : depth s' = depth s0) by (unfold s'; st; assumption).
    assert (Hc' : cur s' = cur s) by reflexivity. rewrite Hc'.
    assert (TG : forall r, tok_good (depth s') r -> good (depth s0) r)
      by (intros r Hr; rewrite <- Hd'; apply tok_good_good; exact Hr).
    assert (GG : forall r, good (depth s') r -> good (depth s0) r)
      by (intros r Hr; rewrite <- Hd'; exact Hr).
    repeat match goal with
           | |- good _ (if ?b then _ else _) => destruct b eqn:?
           end;
      try (apply TG; first [apply tok_string | apply tok_character | apply tok_symbolic
                           | apply tok_number | apply tok_identifier]; assumption);
      try (apply GG; first [apply IHs | apply IHm | apply IHn | apply IHt | apply IHmt]; assumption).
    - (* discard *)
      assert (Hsd : is_ok (with_discard (with_cur s' (cur s + 2)) true) = true) by (st; assumption).
      pose proof (IHv _ Hsd) as H1. st.
      destruct (rv (with_discard (with_cur s' (cur s + 2)) true)) as [[dv|] s1| | |]; cbn in H1 |- *; try tauto.
      + destruct H1 as [Hok1 Hd1]. st. rewrite Hok1.
        assert (Hs2 : is_ok (with_discard s1 (discard s')) = true) by (st; assumption).
        pose proof (IHv _ Hs2) as H2. eapply good_depth_eq; [|exact H2]. unfold s' in *. st. congruence.
      + destruct H1 as [Hd1 _]. st. destruct (is_ok s1) eqn:Hok1; cbn; st.
        * split; [congruence|intros H; discriminate].
        * split; [congruence|]. rewrite Hok1. discriminate.
    - (* closing delimiter at depth 0 *)
      cbn. st. split; [assumption|intros H; discriminate].
    - (* closing delimiter inside a collection *)
      cbn. st. split; [assumption|]. intros _. split; [|assumption].
      match goal with H : (depth s' =? 0) = false |- _ => apply N.eqb_neq in H; unfold s' in H; st; congruence end. }
  destruct (prefilter (bz (m (cur s0)))).
  - destruct (skip_ws m (cur s0) e <? e) eqn:Hq.
    + apply N.ltb_lt in Hq. apply (Hpre (with_cur s0 (skip_ws m (cur s0) e))); st; try reflexivity; assumption.
    + cbn. st. replace (cur s0 <? e) with true by (symmetry; apply N.ltb_lt; assumption).
      cbn. st. split; [reflexivity|intros H; discriminate].
  - apply (Hpre s0); [assumption|reflexivity|assumption].
Qed.

(* ---- all eight readers, every fuel ---- *)
Theorem readers_good : forall f,
  Gv (read_value c o handler xe xh sort m e f) /\ Gseq (read_seq c o handler xe xh sort m e f) /\
  Gel (read_elems c o handler xe xh sort m e f) /\ Gmap (read_map c o handler xe xh sort m e f) /\
  Gen (read_entries c o handler xe xh sort m e f) /\ Gv (read_nsmap c o handler xe xh sort m e f) /\
  Gv (read_tagged c o handler xe xh sort m e f) /\ Gv (read_meta c o handler xe xh sort m e f).
Proof.
  induction f as [|f (IHv & IHs & IHe & IHm & IHen & IHn & IHt & IHmt)].
  - repeat split; intro; intros; exact I.
  - repeat split.
    + apply value_body_good; assumption.
    + apply seq_body_good; assumption.
    + apply elems_body_good; assumption.
    + apply map_body_good; assumption.
    + apply entries_body_good; assumption.
    + apply nsmap_body_good; assumption.
    + apply tagged_body_good; assumption.
    + apply meta_body_good; assumption.
Qed.

(* ---- top level: edn_read_with_options ---- *)
Definition has_value (r : result) : Prop := r_eof r = true \/ r_value r <> None.

Lemma is_ok_iff s : is_ok s = true <-> err s = EOk.
Proof. unfold is_ok. destruct (err s); split; congruence. Qed.

Theorem read_doc_xor fuel r s :
  read_doc c o handler xe xh sort m e fuel = Ret r s ->
  (* a value (possibly the caller's end-of-input value) exactly when there is no error code *)
  (has_value r <-> r_err r = EOk) /\ (r_eof r = true -> r_value r = None).
Proof.
  unfold read_doc. intros H.
  pose proof (proj1 (readers_good fuel) init_pst eq_refl) as G.
  destruct (read_value c o handler xe xh sort m e fuel init_pst) as [[v|] s1| | |]; try discriminate.
  - destruct G as [Hok _]. cbv zeta in H.
    match type of H with context [let '(_, _) := ?X in _] => destruct X as [ps pe] end.
    assert (Heof : is_eof s1 = false) by (apply is_ok_iff in Hok; unfold is_eof; now rewrite Hok).
    rewrite Heof in H. cbn [andb] in H. inversion H; subst; clear H. cbn.
    apply is_ok_iff in Hok. unfold has_value. cbn. split; [|discriminate].
    split; [intros _; assumption|intros _; right; discriminate].
  - destruct G as [Hd Hc]. cbv zeta in H.
    assert (Hnok : is_ok s1 = false).
    { destruct (is_ok s1) eqn:E; [|reflexivity]. destruct (Hc eq_refl) as [Hne _]. exfalso. apply Hne. reflexivity. }
    match type of H with context [let '(_, _) := ?X in _] => destruct X as [ps pe] end.
    destruct (is_eof s1 && has_eof_value o)%bool; inversion H; subst; clear H; cbn; unfold has_value; cbn.
    + split; [|reflexivity]. split; [reflexivity|intros _; left; reflexivity].
    + split; [|discriminate]. split.
      * intros [Hf|Hf]; [discriminate|congruence].
      * intros He. apply is_ok_iff in He. congruence.
Qed.

(* no run of the reader reads a byte outside the input *)
Theorem read_doc_no_oob fuel : forall site, read_doc c o handler xe xh sort m e fuel <> OOBx site.
Proof.
  intros site H. unfold read_doc in H.
  pose proof (proj1 (readers_good fuel) init_pst eq_refl) as G.
  destruct (read_value c o handler xe xh sort m e fuel init_pst) as [[v|] s1| | |]; try discriminate; try exact G.
  all: cbv zeta in H;
       match type of H with context [let '(_, _) := ?X in _] => destruct X as [ps pe] end;
       destruct (is_eof s1 && has_eof_value o)%bool; discriminate.
Qed.
End Inv.
