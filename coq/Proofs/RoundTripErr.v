(* Proofs/RoundTripErr.v -- ill-formed documents over the fragment of RoundTripGap.v (C10 at the level of whole documents):
   (a) input that ends inside one or more open collections -- after any number of complete elements, gaps with discards,
       and trailing trivia (even an unfinished comment) -- is rejected: no value, error "unterminated collection";
   (b) a collection closed by the delimiter of the other kind, at any nesting depth, whatever follows it, is rejected:
       no value, error "unmatched delimiter"; so is a closing delimiter at top level.
   The error found at the innermost position travels outward unchanged through every enclosing collection (only end
   of input is renamed, once, into "unterminated"). *)
From Coq Require Import ZArith NArith List Bool Lia String.
From Coq.Strings Require Import Byte.
From Verif Require Import Lanes Common Values Floats Scan ScanFacts Numbers Equality Tokens Reader Configs ByteSweep ScanProofs
     FidelityProofs NumProgress NumLiteral FlagProofs FuelMono TriviaProofs TriviaReader ReaderInv RoundTrip RoundTripWs RoundTripGap.
Import ListNotations.
Local Open Scope N_scope.

Definition gapsize (g : list gitem) : nat := fold_right (fun it a2 => isize it + a2)%nat O g.

Section ERR.
Variable c : cfg.
Hypothesis Hc : In c all_cfgs.
Variable o : opts.
Variable handler : Z -> node -> option node * option bytes.
Variable xe : Z -> option (Z -> Z -> bool).
Variable xh : Z -> option (Z -> Z).
Variable sort : list node -> list node.
Variable m : mem.
Variable e : N.

Notation RV := (read_value c o handler xe xh sort m e).
Notation RS := (read_seq c o handler xe xh sort m e).
Notation RE := (read_elems c o handler xe xh sort m e).
Notation follow := (ends_at m e).
Notation GIHn := (GIH c o handler xe xh sort m e).
Notation rg := (read_gterm c Hc o handler xe xh sort m e).

(* size-free versions of the gap lemmas *)
Lemma gap_value g x : gapwf g -> alt g -> ends_ws g -> gwf x -> forall s, is_ok s = true ->
  let txt := gappr g ++ gpr x in
  cur s + N.of_nat (List.length txt) <= e -> slice m (cur s) (List.length txt) = txt -> follow (cur s + N.of_nat (List.length txt)) ->
  exists f0, forall f, (f0 <= f)%nat -> exists nx sx, RV f s = Ret (Some nx) sx /\ denotes c (gerase x) nx /\
    cur sx = cur s + N.of_nat (List.length txt) /\ is_ok sx = true /\ depth sx = depth s.
Proof.
  intros Hg Ha He Hx. apply (gap_then_value c Hc o handler xe xh sort m e (gapsize g + gsize x) (rg _) g x); try assumption; try lia.
  apply gapwf_app_size. unfold gapsize. lia.
Qed.

Lemma gap_skip g : gapwf g -> alt g -> forall s, is_ok s = true ->
  cur s + N.of_nat (List.length (gappr g)) < e -> slice m (cur s) (List.length (gappr g)) = gappr g ->
  is_ws (m (cur s + N.of_nat (List.length (gappr g)))) = false -> is_semi (m (cur s + N.of_nat (List.length (gappr g)))) = false ->
  (ends_ws g \/ numdelim (bz (m (cur s + N.of_nat (List.length (gappr g))))) = true) ->
  exists k f0 s2, cur s2 = cur s + N.of_nat (List.length (gappr g)) /\ is_ok s2 = true /\ depth s2 = depth s /\
     forall f, (f0 <= f)%nat -> RV (S f + k) s = lvn k (RV (S f) s2).
Proof.
  intros Hg Ha. apply (gap_absorb c Hc o handler xe xh sort m e (gapsize g) (rg _) g); try assumption.
  apply gapwf_app_size. unfold gapsize. lia.
Qed.

(* what it means for the reader to stop at a position: for enough fuel, from every error-free state standing there at
   depth d, it returns no value and a state satisfying Q *)
Definition stops (p : N) (d : N -> Prop) (Q : pst -> Prop) : Prop :=
  forall s, cur s = p -> is_ok s = true -> d (depth s) -> exists f0, forall f, (f0 <= f)%nat -> exists s', RV f s = Ret None s' /\ Q s'.

(* the element loop in front of a stopping position *)
Lemma loop_all (d : N -> Prop) (Q : pst -> Prop) : forall l, Forall (elwf) l -> Forall (fun p => starts_ws (fst p)) l ->
  forall pend, (l <> [] -> follow pend) -> stops pend d Q ->
  forall s acc, is_ok s = true -> d (depth s) ->
  let txt := List.concat (map (fun p => gappr (fst p) ++ gpr (snd p)) l) in
  cur s + N.of_nat (List.length txt) = pend -> pend <= e -> slice m (cur s) (List.length txt) = txt ->
  exists f0, forall f, (f0 <= f)%nat -> exists xs s',
    RE f s acc = Ret (Some (rev acc ++ xs)) s' /\ Forall2 (denotes c) (map (fun p => gerase (snd p)) l) xs /\ Q s'.
Proof.
  induction l as [|[g x] t IHl]; intros Hw Hst pend Hfol Hstop s acc Hok Hd txt Hend Hle Hsl; unfold txt in *; clear txt.
  - cbn [map List.concat List.length N.of_nat] in *. destruct (Hstop s ltac:(lia) Hok Hd) as (f0 & Hf0). exists (S f0). intros f Hf. destruct f as [|f]; [lia|].
    destruct (Hf0 f ltac:(lia)) as (s' & Hr & HQ). rewrite RE_S. unfold elems_body. rewrite Hr.
    exists [], s'. rewrite app_nil_r. repeat split; [constructor|exact HQ].
  - destruct (Forall_inv Hw) as [[Hwg [Haltg Hendg]] Hwx]. pose proof (Forall_inv_tail Hw) as Hwt. pose proof (Forall_inv Hst) as Hsg. pose proof (Forall_inv_tail Hst) as Hstt. cbn [fst snd] in *.
    cbn [map List.concat fst snd] in Hend, Hsl. rewrite app_length in Hend, Hsl.
    rewrite slice_app in Hsl. apply app_eq_len in Hsl; [|now rewrite slice_length]. destruct Hsl as [Hgx Ht].
    set (q := cur s + N.of_nat (List.length (gappr g ++ gpr x))) in *.
    set (rest := List.concat (map (fun p => gappr (fst p) ++ gpr (snd p)) t)) in *.
    assert (Hfq : follow q).
    { destruct t as [|[g2 x2] t2].
      - unfold rest in Hend. cbn [map List.concat List.length] in Hend. replace q with pend by (unfold q; lia). apply Hfol. discriminate.
      - destruct (Forall_inv Hwt) as [[Hwg2 _] _]. pose proof (Forall_inv Hstt) as Hsg2. cbn [fst snd] in *.
        destruct (gap_ws_first g2 Hwg2 Hsg2) as (b & rr & E & Hn).
        assert (Er : rest = b :: rr ++ gpr x2 ++ List.concat (map (fun p => gappr (fst p) ++ gpr (snd p)) t2)).
        { unfold rest. cbn [map List.concat fst snd]. rewrite E. cbn [app]. now rewrite <- app_assoc. }
        right. split; [rewrite Er in Hend; cbn [List.length] in Hend; unfold q; lia|].
        rewrite (byte_at m q rest b _ Er Ht). exact Hn. }
    destruct (gap_value g x Hwg Haltg Hendg Hwx s Hok ltac:(fold q; lia) Hgx Hfq) as (fv & Hfv).
    destruct (Hfv fv (le_n _)) as (nx & sx & Hrx & Hdx & Hcx & Hokx & Hdpx). fold q in Hcx.
    destruct (IHl Hwt Hstt pend ltac:(intros _; apply Hfol; discriminate) Hstop sx (nx :: acc) Hokx ltac:(now rewrite Hdpx)
                  ltac:(rewrite Hcx; fold rest; unfold q; lia) Hle ltac:(rewrite Hcx; exact Ht)) as (ft & Hft).
    exists (S (Nat.max fv ft)). intros f Hf. destruct f as [|f]; [lia|]. rewrite RE_S. unfold elems_body.
    assert (Hrx' : RV f s = Ret (Some nx) sx).
    { replace f with (fv + (f - fv))%nat by lia. apply read_value_fuel_irrelevant; [exact Hrx|discriminate]. }
    rewrite Hrx'. destruct (Hft f ltac:(lia)) as (xs & s' & Hre & Hden & HQ).
    exists (nx :: xs), s'. split.
    { rewrite Hre. cbn [rev]. rewrite <- app_assoc. reflexivity. }
    cbn [map snd]. split; [constructor; assumption|exact HQ].
Qed.

(* ... where the first element needs no separator *)
Definition seps_ok (l : list (list gitem * gterm)) : Prop := match l with [] => True | _ :: t => Forall (fun p => starts_ws (fst p)) t end.
Definition ltext (l : list (list gitem * gterm)) : bytes := List.concat (map (fun p => gappr (fst p) ++ gpr (snd p)) l).

Lemma loop_first (d : N -> Prop) (Q : pst -> Prop) : forall l, Forall elwf l -> seps_ok l ->
  forall pend, (l <> [] -> follow pend) -> stops pend d Q ->
  forall s, is_ok s = true -> d (depth s) ->
  cur s + N.of_nat (List.length (ltext l)) = pend -> pend <= e -> slice m (cur s) (List.length (ltext l)) = ltext l ->
  exists f0, forall f, (f0 <= f)%nat -> exists xs s',
    RE f s [] = Ret (Some xs) s' /\ Forall2 (denotes c) (map (fun p => gerase (snd p)) l) xs /\ Q s'.
Proof.
  intros l Hw Hseps pend Hfol Hstop s Hok Hd Hend Hle Hsl. destruct l as [|[g x] t].
  - destruct (loop_all d Q [] (Forall_nil _) (Forall_nil _) pend Hfol Hstop s [] Hok Hd Hend Hle Hsl) as (f0 & Hf0).
    exists f0. intros f Hf. destruct (Hf0 f Hf) as (xs & s' & H1 & H2 & H3). exists xs, s'. cbn [rev app] in H1. repeat split; assumption.
  - destruct (Forall_inv Hw) as [[Hwg [Haltg Hendg]] Hwx]. pose proof (Forall_inv_tail Hw) as Hwt. cbn [seps_ok] in Hseps. cbn [fst snd] in *.
    unfold ltext in *. cbn [map List.concat fst snd] in Hend, Hsl. rewrite app_length in Hend, Hsl.
    rewrite slice_app in Hsl. apply app_eq_len in Hsl; [|now rewrite slice_length]. destruct Hsl as [Hgx Ht].
    set (q := cur s + N.of_nat (List.length (gappr g ++ gpr x))) in *.
    set (rest := List.concat (map (fun p => gappr (fst p) ++ gpr (snd p)) t)) in *.
    assert (Hfq : follow q).
    { destruct t as [|[g2 x2] t2].
      - unfold rest in Hend. cbn [map List.concat List.length] in Hend. replace q with pend by (unfold q; lia). apply Hfol. discriminate.
      - destruct (Forall_inv Hwt) as [[Hwg2 _] _]. pose proof (Forall_inv Hseps) as Hsg2. cbn [fst snd] in *.
        destruct (gap_ws_first g2 Hwg2 Hsg2) as (b & rr & E & Hn).
        assert (Er : rest = b :: rr ++ gpr x2 ++ List.concat (map (fun p => gappr (fst p) ++ gpr (snd p)) t2)).
        { unfold rest. cbn [map List.concat fst snd]. rewrite E. cbn [app]. now rewrite <- app_assoc. }
        right. split; [rewrite Er in Hend; cbn [List.length] in Hend; unfold q; lia|].
        rewrite (byte_at m q rest b _ Er Ht). exact Hn. }
    destruct (gap_value g x Hwg Haltg Hendg Hwx s Hok ltac:(fold q; lia) Hgx Hfq) as (fv & Hfv).
    destruct (Hfv fv (le_n _)) as (nx & sx & Hrx & Hdx & Hcx & Hokx & Hdpx). fold q in Hcx.
    destruct (loop_all d Q t Hwt Hseps pend ltac:(intros _; apply Hfol; discriminate) Hstop sx [nx] Hokx ltac:(now rewrite Hdpx)
                  ltac:(rewrite Hcx; fold rest; unfold q; lia) Hle ltac:(rewrite Hcx; exact Ht)) as (ft & Hft).
    exists (S (Nat.max fv ft)). intros f Hf. destruct f as [|f]; [lia|]. rewrite RE_S. unfold elems_body.
    assert (Hrx' : RV f s = Ret (Some nx) sx).
    { replace f with (fv + (f - fv))%nat by lia. apply read_value_fuel_irrelevant; [exact Hrx|discriminate]. }
    rewrite Hrx'. destruct (Hft f ltac:(lia)) as (xs & s' & Hre & Hden & HQ).
    exists (nx :: xs), s'. cbn [rev app] in Hre. split; [exact Hre|]. cbn [map snd]. split; [constructor; assumption|exact HQ].
Qed.

Lemma lvn_err k v s : exists s', lvn k (Ret v s) = Ret v s' /\ err s' = err s.
Proof.
  induction k as [|k (s' & E & H1)]; [exists s; split; reflexivity|].
  cbn [lvn]. rewrite E. cbn [lv]. exists (leave s'). split; [reflexivity|exact H1].
Qed.

(* ---- stopping positions ---- *)
(* only trivia (possibly an unfinished comment) up to the end of the input *)
Lemma stop_eof p t st : ws_state false t = Some st -> slice m p (List.length t) = t -> p + N.of_nat (List.length t) = e ->
  stops p (fun _ => True) (fun s' => err s' = EEof).
Proof.
  intros Hst Hsl Hend s Hcs Hok _. exists 1%nat. intros f Hf. destruct f as [|f]; [lia|].
  rewrite RV_S. unfold value_body. cbv zeta. cbn [cur enter]. rewrite Hcs.
  destruct (N.ltb_spec p e) as [Hlt|Hge].
  - assert (Hskip : skip_ws m p e = e).
    { rewrite skip_ws_correct by lia. replace (N.to_nat (e - p)) with (List.length t) by lia. rewrite Hsl, (trivia_only t st Hst). lia. }
    assert (Hpre : prefilter (bz (m p)) = true).
    { destruct t as [|b r]; [cbn in Hend; lia|]. cbn [List.length] in Hsl. rewrite slice_S in Hsl. injection Hsl as Hb _. rewrite Hb.
      pose proof (prefilter_eq b) as H. apply eqb_true_eq in H. rewrite H.
      cbn [ws_state] in Hst. destruct (is_semi b); [now rewrite orb_true_r|]. destruct (is_ws b); [reflexivity|discriminate]. }
    rewrite Hpre, Hskip, N.ltb_irrefl. eexists. split; [reflexivity|]. reflexivity.
  - eexists. split; [reflexivity|]. reflexivity.
Qed.

(* a gap, then a closing delimiter, inside a collection *)
Lemma stop_closer cl g p : (cl = "]"%byte \/ cl = ")"%byte) -> gapwf g -> alt g ->
  p + N.of_nat (List.length (gappr g ++ [cl])) <= e -> slice m p (List.length (gappr g ++ [cl])) = gappr g ++ [cl] ->
  stops p (fun d => d <> 0) (fun s' => is_ok s' = true /\ cur s' + 1 = p + N.of_nat (List.length (gappr g ++ [cl])) /\ m (cur s') = cl).
Proof.
  intros Hcl Hg Ha Hle Hsl s Hcs Hok Hd.
  assert (Hsz : Forall (fun it => (isize it <= gapsize g)%nat) g) by (apply gapwf_app_size; unfold gapsize; lia).
  destruct (gap_then_closer c Hc o handler xe xh sort m e (gapsize g) cl (rg _) Hcl g Hsz Hg Ha s Hok Hd ltac:(rewrite Hcs; exact Hle) ltac:(rewrite Hcs; exact Hsl))
    as (f1 & Hf1).
  exists f1. intros f Hf. destruct (Hf1 f Hf) as (s' & Hr & Hc' & Hok' & _ & Hm'). exists s'. rewrite Hcs in Hc'. repeat split; assumption.
Qed.

(* a gap in front of a position where the reader stops with an error *)
Lemma stop_after_gap g p E : gapwf g -> alt g ->
  p + N.of_nat (List.length (gappr g)) < e -> slice m p (List.length (gappr g)) = gappr g ->
  is_ws (m (p + N.of_nat (List.length (gappr g)))) = false -> is_semi (m (p + N.of_nat (List.length (gappr g)))) = false ->
  numdelim (bz (m (p + N.of_nat (List.length (gappr g))))) = true ->
  stops (p + N.of_nat (List.length (gappr g))) (fun _ => True) (fun s' => err s' = E) ->
  stops p (fun _ => True) (fun s' => err s' = E).
Proof.
  intros Hg Ha Hlt Hsl Hb1 Hb2 Hb3 Hin s Hcs Hok _.
  destruct (gap_skip g Hg Ha s Hok ltac:(rewrite Hcs; exact Hlt) ltac:(rewrite Hcs; exact Hsl) ltac:(rewrite Hcs; exact Hb1) ltac:(rewrite Hcs; exact Hb2)
              ltac:(right; rewrite Hcs; exact Hb3)) as (k & f0 & s2 & Hc2 & Hok2 & Hd2 & Hrun).
  destruct (Hin s2 ltac:(rewrite Hc2, Hcs; reflexivity) Hok2 I) as (f1 & Hf1).
  exists (S (Nat.max f0 f1) + k)%nat. intros f Hf. replace f with (S (f - k - 1) + k)%nat by lia. rewrite (Hrun (f - k - 1)%nat) by lia.
  destruct (Hf1 (S (f - k - 1)) ltac:(lia)) as (s' & Hr & He). rewrite Hr.
  destruct (lvn_err k None s') as (s3 & E3 & He3). rewrite E3. exists s3. split; [reflexivity|]. now rewrite He3.
Qed.

(* ---- the dispatcher at an opener ---- *)
Definition opener (vec : bool) : byte := if vec then "["%byte else "("%byte.
Definition kind_of_vec (vec : bool) : kind := if vec then KVector else KList.

Lemma rv_opener f s vec : cur s < e -> m (cur s) = opener vec ->
  RV (S f) s = lv (RS f (kind_of_vec vec) 1 (with_start (enter s) (cur s))).
Proof.
  intros Hlt Hb. destruct (classes c Hc) as (_ & _ & _ & (Hv1 & Hv2) & (Hl1 & Hl2) & _).
  rewrite RV_S. unfold value_body. cbv zeta. cbn [cur with_start enter].
  replace (cur s <? e) with true by (symmetry; now apply N.ltb_lt). rewrite Hb.
  assert (Hpf : prefilter (bz (opener vec)) = false) by (destruct vec; reflexivity). rewrite Hpf.
  cbn [cur with_start enter]. rewrite Hb. unfold opener, kind_of_vec, lv. destruct vec.
  - pose proof (not_earlier_spec c _ 3 ltac:(lia) Hv2) as Hn. usecls Hn 0%nat; usecls Hn 1%nat; usecls Hn 2%nat. rewrite Hv1. reflexivity.
  - pose proof (not_earlier_spec c _ 2 ltac:(lia) Hl2) as Hn. usecls Hn 0%nat; usecls Hn 1%nat. rewrite Hl1. reflexivity.
Qed.

Definition lift (E : ecode) : ecode := match E with EEof => EUnterminated | x => x end.

(* an open collection: complete elements, then a position where the reader stops with an error *)
Lemma open_seq_fails vec l p pend E : E <> EOk -> Forall elwf l -> seps_ok l ->
  p + 1 + N.of_nat (List.length (ltext l)) = pend -> pend <= e -> p < e ->
  slice m p (S (List.length (ltext l))) = opener vec :: ltext l ->
  (l <> [] -> follow pend) -> stops pend (fun d => d <> 0) (fun s' => err s' = E) ->
  stops p (fun _ => True) (fun s' => err s' = lift E).
Proof.
  intros HE Hw Hseps Hend Hle Hlt Hsl Hfol Hstop s Hcs Hok _.
  apply byte_hd in Hsl. destruct Hsl as [Hb Hbody].
  set (s0 := with_start (enter s) (cur s)).
  set (s1 := with_depth (with_cur s0 (cur s0 + 1)) (depth s0 + 1)).
  assert (Hc1 : cur s1 = p + 1) by (unfold s1, s0; cbn; lia).
  destruct (loop_first (fun d => d <> 0) (fun s' => err s' = E) l Hw Hseps pend Hfol Hstop s1 Hok ltac:(unfold s1; cbn; lia)
              ltac:(rewrite Hc1; exact Hend) Hle ltac:(rewrite Hc1; exact Hbody)) as (f0 & Hf0).
  exists (S (S f0)). intros f Hf. destruct f as [|[|f]]; try lia.
  rewrite (rv_opener (S f) s vec ltac:(rewrite Hcs; exact Hlt) ltac:(rewrite Hcs; exact Hb)).
  destruct (Hf0 f ltac:(lia)) as (xs & s2 & Hr & _ & He2).
  rewrite RS_S. unfold seq_body. fold s0. fold s1. rewrite Hr.
  assert (Hnok : is_ok s2 = false) by (unfold is_ok; rewrite He2; destruct E; try reflexivity; exfalso; apply HE; reflexivity).
  rewrite Hnok. cbn [negb lv]. eexists. split; [reflexivity|].
  unfold is_eof. rewrite He2. destruct E; cbn [lift]; try (exfalso; apply HE; reflexivity); cbn [err with_depth err_at with_error]; try exact He2; reflexivity.
Qed.

(* a complete collection closed by the delimiter of the other kind *)
Lemma bad_seq_fails vec els tl p : Forall elwf els -> seps_ok els -> gapwf tl -> alt tl -> (els <> [] -> tail_ok tl) ->
  let cl := closer_of (kind_of_vec (negb vec)) in
  let txt := opener vec :: ltext els ++ gappr tl ++ [cl] in
  p + N.of_nat (List.length txt) <= e -> slice m p (List.length txt) = txt ->
  stops p (fun _ => True) (fun s' => err s' = EUnmatched).
Proof.
  intros Hw Hseps Hwtl Halt Htok cl txt Hle Hsl s Hcs Hok _. unfold txt in *. clear txt.
  cbn [List.length] in Hle, Hsl. apply byte_hd in Hsl. destruct Hsl as [Hb Hbody].
  rewrite app_length in Hle, Hbody. rewrite slice_app in Hbody. apply app_eq_len in Hbody; [|now rewrite slice_length]. destruct Hbody as [Hels Htail].
  assert (Hcl : cl = "]"%byte \/ cl = ")"%byte) by (unfold cl; destruct vec; [right|left]; reflexivity).
  set (pend := p + 1 + N.of_nat (List.length (ltext els))) in *.
  assert (Hstop := stop_closer cl tl pend Hcl Hwtl Halt ltac:(unfold pend; lia) Htail).
  assert (Hfol : els <> [] -> follow pend).
  { intros Hne. right. destruct byte_facts as (_ & _ & _ & _ & N2 & N3 & _).
    destruct tl as [|[t0|ws d] r].
    - cbn [gappr map List.concat app List.length] in *. split; [unfold pend; lia|]. apply byte_hd in Htail. destruct Htail as [-> _].
      destruct Hcl as [-> | ->]; assumption.
    - destruct (gap_ws_first (GWs t0 :: r) Hwtl I) as (b & rr & E & Hn).
      assert (E2 : gappr (GWs t0 :: r) ++ [cl] = b :: rr ++ [cl]) by now rewrite E.
      split; [rewrite E2 in Hle; cbn [List.length] in Hle; unfold pend; lia|]. now rewrite (byte_at m pend _ b _ E2 Htail).
    - specialize (Htok Hne). contradiction. }
  set (s0 := with_start (enter s) (cur s)).
  set (s1 := with_depth (with_cur s0 (cur s0 + 1)) (depth s0 + 1)).
  assert (Hc1 : cur s1 = p + 1) by (unfold s1, s0; cbn; lia).
  destruct (loop_first (fun d => d <> 0) _ els Hw Hseps pend Hfol Hstop s1 Hok ltac:(unfold s1; cbn; lia)
              ltac:(rewrite Hc1; reflexivity) ltac:(unfold pend; lia) ltac:(rewrite Hc1; exact Hels)) as (f0 & Hf0).
  exists (S (S f0)). intros f Hf. destruct f as [|[|f]]; try lia.
  rewrite (rv_opener (S f) s vec ltac:(rewrite Hcs; lia) ltac:(rewrite Hcs; exact Hb)).
  destruct (Hf0 f ltac:(lia)) as (xs & s2 & Hr & _ & Hok2 & Hc2 & Hm2).
  rewrite RS_S. unfold seq_body. fold s0. fold s1. rewrite Hr, Hok2. cbn [negb].
  replace (e <=? cur s2) with false by (symmetry; apply N.leb_gt; lia).
  rewrite Hm2.
  assert (Hne : Byte.eqb cl (closer_of (kind_of_vec vec)) = false) by (unfold cl; destruct vec; reflexivity).
  rewrite Hne. cbn [negb lv]. eexists. split; [reflexivity|]. reflexivity.
Qed.

(* a closing delimiter at top level *)
Lemma rv_closer0 f s b : is_ok s = true -> depth s = 0 -> cur s < e -> m (cur s) = b -> (b = "]"%byte \/ b = ")"%byte) ->
  exists s', RV (S f) s = Ret None s' /\ err s' = EUnmatched.
Proof.
  intros Hok Hd Hlt Hb Hbb.
  destruct (classes c Hc) as (_ & _ & _ & _ & _ & (Hc1 & Hn1) & (Hc2 & Hn2)).
  rewrite RV_S. unfold value_body. cbv zeta. cbn [cur with_start enter].
  replace (cur s <? e) with true by (symmetry; now apply N.ltb_lt). rewrite Hb.
  assert (Hpf : prefilter (bz b) = false) by (destruct Hbb as [-> | ->]; reflexivity).
  rewrite Hpf. cbn [cur with_start enter]. rewrite Hb.
  assert (Hcls : (dispatch_of c b =? ct_delim c)%Z = true /\ not_earlier c (dispatch_of c b) 8 = true) by (destruct Hbb as [-> | ->]; split; assumption).
  destruct Hcls as [Hdc Hdn]. pose proof (not_earlier_spec c _ 8 ltac:(lia) Hdn) as Hn.
  usecls Hn 0%nat; usecls Hn 1%nat; usecls Hn 2%nat; usecls Hn 3%nat; usecls Hn 4%nat; usecls Hn 5%nat; usecls Hn 6%nat; usecls Hn 7%nat.
  rewrite Hdc. cbn [depth with_start enter]. rewrite Hd. cbn [N.eqb].
  eexists. split; [reflexivity|]. reflexivity.
Qed.

Lemma stop_top_closer cl g p : (cl = "]"%byte \/ cl = ")"%byte) -> gapwf g -> alt g ->
  p + N.of_nat (List.length (gappr g ++ [cl])) <= e -> slice m p (List.length (gappr g ++ [cl])) = gappr g ++ [cl] ->
  stops p (fun d => d = 0) (fun s' => err s' = EUnmatched).
Proof.
  intros Hcl Hg Ha Hle Hsl s Hcs Hok Hd.
  rewrite app_length in Hle, Hsl. cbn [List.length] in Hle, Hsl.
  rewrite slice_app in Hsl. apply app_eq_len in Hsl; [|now rewrite slice_length]. destruct Hsl as [Hsg Hsc].
  apply byte_hd in Hsc. destruct Hsc as [Hmb _].
  destruct byte_facts as (_ & _ & _ & _ & N2 & N3 & _).
  assert (Hcf : is_ws cl = false /\ is_semi cl = false /\ numdelim (bz cl) = true) by (destruct Hcl as [-> | ->]; repeat split; assumption).
  destruct Hcf as (Hw1 & Hw2 & Hw3).
  destruct (gap_skip g Hg Ha s Hok ltac:(rewrite Hcs; lia) ltac:(rewrite Hcs; exact Hsg) ltac:(rewrite Hcs; now rewrite Hmb) ltac:(rewrite Hcs; now rewrite Hmb)
              ltac:(right; rewrite Hcs; now rewrite Hmb)) as (k & f0 & s2 & Hc2 & Hok2 & Hd2 & Hrun).
  exists (S f0 + k)%nat. intros f Hf. replace f with (S (f - k - 1) + k)%nat by lia. rewrite (Hrun (f - k - 1)%nat) by lia.
  destruct (rv_closer0 (f - k - 1) s2 cl Hok2 ltac:(now rewrite Hd2) ltac:(rewrite Hc2, Hcs; lia) ltac:(now rewrite Hc2, Hcs) Hcl) as (s' & Hr & He).
  rewrite Hr. destruct (lvn_err k None s') as (s3 & E3 & He3). rewrite E3. exists s3. split; [reflexivity|]. now rewrite He3.
Qed.

(* ---- contexts: nested open collections around an innermost defect ---- *)
Inductive ctx :=
| CEof (t : bytes)                                                   (* only trivia up to the end of the input *)
| CBad (vec : bool) (els : list (list gitem * gterm)) (tl : list gitem)   (* a complete collection with the other closer *)
| COpen (vec : bool) (l : list (list gitem * gterm)) (g : list gitem) (k : ctx).   (* opener, complete elements, a gap, then ... *)

Fixpoint ctext (k : ctx) : bytes :=
  match k with
  | CEof t => t
  | CBad vec els tl => opener vec :: ltext els ++ gappr tl ++ [closer_of (kind_of_vec (negb vec))]
  | COpen vec l g k' => opener vec :: ltext l ++ gappr g ++ ctext k'
  end.
Fixpoint cerr (k : ctx) : ecode := match k with CEof _ => EEof | CBad _ _ _ => EUnmatched | COpen _ _ _ k' => lift (cerr k') end.
Fixpoint cexact (k : ctx) : bool := match k with CEof _ => true | CBad _ _ _ => false | COpen _ _ _ k' => cexact k' end.
Fixpoint cwf (k : ctx) : Prop :=
  match k with
  | CEof t => exists st, ws_state false t = Some st
  | CBad vec els tl => Forall elwf els /\ seps_ok els /\ gapwf tl /\ alt tl /\ (els <> [] -> tail_ok tl)
  | COpen vec l g k' => Forall elwf l /\ seps_ok l /\ gapwf g /\ alt g /\ (l <> [] -> tail_ok g) /\
                        match k' with CEof _ => g = [] | _ => True end /\ cwf k'
  end.

Lemma cerr_not_ok k : cerr k <> EOk.
Proof. induction k as [t|vec els tl|vec l g k IH]; cbn [cerr]; try discriminate. destruct (cerr k); cbn [lift]; congruence. Qed.

Lemma cerr_class k : match k with CEof _ => True | _ => cerr k = if cexact k then EUnterminated else EUnmatched end.
Proof.
  induction k as [t|vec els tl|vec l g k IH]; [exact I|reflexivity|]. cbn [cerr cexact].
  destruct k as [t|vec' els tl|vec' l' g' k']; [reflexivity|reflexivity|]. rewrite IH. destruct (cexact (COpen vec' l' g' k')); reflexivity.
Qed.

Lemma stops_weaken p (d : N -> Prop) Q : stops p (fun _ => True) Q -> stops p d Q.
Proof. intros H s Hcs Hok _. now apply H. Qed.

Lemma ws_first_numdelim t st : ws_state false t = Some st -> forall b r, t = b :: r -> numdelim (bz b) = true.
Proof.
  intros Hst b r ->. cbn [ws_state] in Hst.
  assert (Hs : forallb (fun b => implb (is_ws b || is_semi b) (numdelim (bz b))) all_bytes = true) by (vm_compute; reflexivity).
  pose proof (byte_sweep _ Hs b) as H. cbv beta in H.
  destruct (is_semi b); [now rewrite orb_true_r in H|]. destruct (is_ws b); [exact H|discriminate].
Qed.

Lemma opener_facts vec : is_ws (opener vec) = false /\ is_semi (opener vec) = false /\ numdelim (bz (opener vec)) = true.
Proof. destruct vec; repeat split; reflexivity. Qed.

(* the position where a context starts is a legal end of the token in front of it *)
Lemma ctx_follow k p : cwf k -> slice m p (List.length (ctext k)) = ctext k ->
  (if cexact k then p + N.of_nat (List.length (ctext k)) = e else p + N.of_nat (List.length (ctext k)) <= e) -> follow p.
Proof.
  intros Hw Hsl Hend. destruct k as [t|vec els tl|vec l g k'].
  - cbn [ctext cexact] in *. destruct Hw as [st Hst]. destruct t as [|b r]; [left; cbn in Hend; lia|].
    right. cbn [List.length] in Hend, Hsl. split; [lia|]. apply byte_hd in Hsl. destruct Hsl as [-> _]. apply (ws_first_numdelim _ st Hst b r eq_refl).
  - cbn [ctext cexact List.length] in *. right. split; [lia|]. apply byte_hd in Hsl. destruct Hsl as [-> _]. apply opener_facts.
  - cbn [ctext List.length] in *. right. split; [destruct (cexact (COpen vec l g k')); lia|]. apply byte_hd in Hsl. destruct Hsl as [-> _]. apply opener_facts.
Qed.

Lemma ctx_first k : match k with CEof _ => True | _ => exists vec r, ctext k = opener vec :: r end.
Proof. destruct k as [t|vec els tl|vec l g k']; [exact I| |]; cbn [ctext]; eexists; eexists; reflexivity. Qed.

Theorem ctx_stops : forall k, cwf k -> forall p, slice m p (List.length (ctext k)) = ctext k ->
  (if cexact k then p + N.of_nat (List.length (ctext k)) = e else p + N.of_nat (List.length (ctext k)) <= e) ->
  stops p (fun _ => True) (fun s' => err s' = cerr k).
Proof.
  induction k as [t|vec els tl|vec l g k' IH]; intros Hw p Hsl Hend.
  - destruct Hw as [st Hst]. cbn [ctext cexact cerr] in *. exact (stop_eof p t st Hst Hsl Hend).
  - destruct Hw as (H1 & H2 & H3 & H4 & H5). cbn [cerr cexact] in *. exact (bad_seq_fails vec els tl p H1 H2 H3 H4 H5 Hend Hsl).
  - destruct Hw as (H1 & H2 & H3 & H4 & H5 & H6 & H7). cbn [cerr]. cbn [ctext cexact] in Hsl, Hend.
    cbn [List.length] in Hsl, Hend. pose proof Hsl as Hsl0. apply byte_hd in Hsl. destruct Hsl as [Hb Hbody].
    rewrite !app_length in Hend, Hbody. rewrite slice_app in Hbody. apply app_eq_len in Hbody; [|now rewrite slice_length]. destruct Hbody as [Hl Hrest].
    rewrite slice_app in Hrest. apply app_eq_len in Hrest; [|now rewrite slice_length]. destruct Hrest as [Hg Hk].
    set (pend := p + 1 + N.of_nat (List.length (ltext l))) in *. set (pin := pend + N.of_nat (List.length (gappr g))) in *.
    assert (Hendk : if cexact k' then pin + N.of_nat (List.length (ctext k')) = e else pin + N.of_nat (List.length (ctext k')) <= e)
      by (unfold pin, pend; destruct (cexact k'); lia).
    assert (Hle : pin + N.of_nat (List.length (ctext k')) <= e) by (destruct (cexact k'); lia).
    pose proof (IH H7 pin Hk Hendk) as Hin.
    assert (Hstop : stops pend (fun _ => True) (fun s' => err s' = cerr k')).
    { destruct g as [|it r]; [cbn [gappr map List.concat List.length N.of_nat] in *; replace pend with pin by (unfold pin; lia); exact Hin|].
      destruct k' as [t|vec' els tl|vec' l' g' k'']; [discriminate| |].
      - cbn [ctext] in Hk, Hle. cbn [List.length] in Hk, Hle. apply byte_hd in Hk. destruct Hk as [Hbk _].
        destruct (opener_facts vec') as (O1 & O2 & O3).
        apply (stop_after_gap (it :: r) pend _ H3 H4); fold pin; try (rewrite Hbk; assumption); [lia|exact Hg|exact Hin].
      - cbn [ctext] in Hk, Hle. cbn [List.length] in Hk, Hle. apply byte_hd in Hk. destruct Hk as [Hbk _].
        destruct (opener_facts vec') as (O1 & O2 & O3).
        apply (stop_after_gap (it :: r) pend _ H3 H4); fold pin; try (rewrite Hbk; assumption); [lia|exact Hg|exact Hin]. }
    assert (Hfol : l <> [] -> follow pend).
    { intros Hne. destruct g as [|it r].
      - cbn [gappr map List.concat List.length N.of_nat] in *. replace pend with pin by (unfold pin; lia). exact (ctx_follow k' pin H7 Hk Hendk).
      - specialize (H5 Hne). destruct it as [t0|ws d]; [|contradiction].
        destruct (gap_ws_first (GWs t0 :: r) H3 I) as (b & rr & E & Hn). right.
        split; [rewrite E in Hend; cbn [List.length] in Hend; unfold pend; destruct (cexact k'); lia|]. now rewrite (byte_at m pend _ b rr E Hg). }
    apply (open_seq_fails vec l p pend (cerr k') (cerr_not_ok k') H1 H2 eq_refl ltac:(unfold pin in Hle; lia) ltac:(unfold pin, pend in Hle; lia)).
    + cbn [List.length]. rewrite slice_S. rewrite Hb, Hl. reflexivity.
    + exact Hfol.
    + apply stops_weaken. exact Hstop.
Qed.
End ERR.

(* ---- whole documents ---- *)
Lemma doc_of_stop c o m e E : In c all_cfgs -> E <> EOk -> E <> EEof ->
  stops c o builtin_handler no_ext_equal no_ext_hash (isort c) m e 0 (fun d => d = 0) (fun s' => err s' = E) ->
  exists r s, run_doc c o m e = Ret r s /\ r_value r = None /\ r_err r = E /\ r_eof r = false.
Proof.
  intros Hc H1 H2 Hstop. destruct (Hstop init_pst eq_refl eq_refl eq_refl) as (f0 & Hf0). destruct (Hf0 f0 (le_n _)) as (s' & Hr & He).
  assert (Hdoc : exists r, read_doc c o builtin_handler no_ext_equal no_ext_hash (isort c) m e f0 = Ret r s' /\ r_value r = None /\ r_err r = E /\ r_eof r = false).
  { unfold read_doc. rewrite Hr. cbv zeta.
    assert (Heof : is_eof s' = false) by (unfold is_eof; rewrite He; destruct E; congruence). rewrite Heof. cbn [andb].
    destruct (is_ok s'); eexists; (split; [reflexivity|]); cbn; repeat split; assumption. }
  destruct Hdoc as (r & Hrd & Hv & Hee & Hf). exists r, s'. split; [|repeat split; assumption].
  apply (any_fuel_is_the_run c o m e f0 _ Hc Hrd). discriminate.
Qed.

(* (a) the input ends inside open collections; (b) some collection is closed by the delimiter of the other kind *)
Theorem ill_formed_rejected c o m e k : In c all_cfgs -> cwf k -> (match k with CEof _ => False | _ => True end) ->
  slice m 0 (List.length (ctext k)) = ctext k ->
  (if cexact k then N.of_nat (List.length (ctext k)) = e else N.of_nat (List.length (ctext k)) <= e) ->
  exists r s, run_doc c o m e = Ret r s /\ r_value r = None /\ r_eof r = false /\
              r_err r = if cexact k then EUnterminated else EUnmatched.
Proof.
  intros Hc Hw Hk Hsl Hend.
  pose proof (ctx_stops c Hc o builtin_handler no_ext_equal no_ext_hash (isort c) m e k Hw 0 Hsl Hend) as Hstop.
  pose proof (cerr_class k) as Hcls. destruct k as [t|vec els tl|vec l g k']; [contradiction| |]; rewrite Hcls in Hstop.
  - cbn [cexact] in Hstop |- *.
    destruct (doc_of_stop c o m e EUnmatched Hc ltac:(discriminate) ltac:(discriminate)
                (stops_weaken c o builtin_handler no_ext_equal no_ext_hash (isort c) m e 0 _ _ Hstop)) as (r & s & A & B & C & D).
    exists r, s. repeat split; assumption.
  - assert (HE : (if cexact (COpen vec l g k') then EUnterminated else EUnmatched) <> EOk /\ (if cexact (COpen vec l g k') then EUnterminated else EUnmatched) <> EEof)
      by (destruct (cexact (COpen vec l g k')); split; discriminate).
    destruct (doc_of_stop c o m e _ Hc (proj1 HE) (proj2 HE)
                (stops_weaken c o builtin_handler no_ext_equal no_ext_hash (isort c) m e 0 _ _ Hstop)) as (r & s & A & B & C & D).
    exists r, s. repeat split; assumption.
Qed.

(* (c) a closing delimiter at top level, after any gap, whatever follows *)
Theorem stray_closer_rejected c o m e g cl : In c all_cfgs -> (cl = "]"%byte \/ cl = ")"%byte) -> gapwf g -> alt g ->
  slice m 0 (List.length (gappr g ++ [cl])) = gappr g ++ [cl] -> N.of_nat (List.length (gappr g ++ [cl])) <= e ->
  exists r s, run_doc c o m e = Ret r s /\ r_value r = None /\ r_eof r = false /\ r_err r = EUnmatched.
Proof.
  intros Hc Hcl Hg Ha Hsl Hle.
  destruct (doc_of_stop c o m e EUnmatched Hc ltac:(discriminate) ltac:(discriminate)
              (stop_top_closer c Hc o builtin_handler no_ext_equal no_ext_hash (isort c) m e cl g 0 Hcl Hg Ha Hle Hsl)) as (r & s & A & B & C & D).
  exists r, s. repeat split; assumption.
Qed.

(* non-vacuity *)
Example truncated_example :
  let k := COpen true [([], GInt false ["1"%byte])] [GWs [" "%byte]] (COpen false [([], GKw ["a"%byte])] [] (CEof [" "; ";"; "x"]%byte)) in
  cwf k /\ ctext k = list_byte_of_string "[1 (:a ;x" /\ cexact k = true.
Proof. cbn. repeat split; try discriminate; try reflexivity; try (constructor; fail); try (eexists; reflexivity).
  all: try (repeat constructor; cbn; repeat split; try discriminate; try reflexivity; left; discriminate). Qed.
Example mismatched_example :
  let k := COpen true [([], GInt false ["1"%byte])] [GWs [" "%byte]] (CBad false [([], GKw ["a"%byte]); ([GWs [" "%byte]], GInt false ["2"%byte])] []) in
  cwf k /\ ctext k = list_byte_of_string "[1 (:a 2]" /\ cexact k = false.
Proof. cbn. repeat split; try discriminate; try reflexivity; try (constructor; fail).
  all: try (repeat constructor; cbn; repeat split; try discriminate; try reflexivity; try exact I; left; discriminate). Qed.
