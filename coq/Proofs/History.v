(* Proofs/History.v -- history independence on the sequence fragment (C07) and its consequence for
   duplicate detection (C08): computing and caching the hash of either operand never changes the answer
   of an equality query; hence the hash-table duplicate strategy (which caches the hashes of the
   elements it visits) gives the pairwise verdict of the ORIGINAL elements, and the verdict of the
   reader's duplicate check is the pairwise one at every size. *)
From Coq Require Import ZArith NArith List Bool Lia Permutation Sorted.
From Verif Require Import Lanes Common Values Floats Numbers Equality EqBasics EqEquiv HashDup SortDup.
Import ListNotations.
Local Open Scope Z_scope.

Section Hist.
Variable c : cfg.
Variable xe : Z -> option (Z -> Z -> bool).
Variable xh : Z -> option (Z -> Z).

Notation hc := (hash_cache c xh).

Lemma nf_set_hash f n h : nf c f (set_hash n h) = nf c f n.
Proof. destruct f; [reflexivity|]. destruct n. reflexivity. Qed.
Lemma hv_set_hash n h : hv c xh (set_hash n h) = hv c xh n.
Proof.
  unfold hv, hash_internal. destruct n as [v s e mm h0]. cbn [set_hash].
  replace (height (Node v s e mm h)) with (height (Node v s e mm h0)) by reflexivity.
  now rewrite (hash_fuel_ignores c xh _ v s e mm h s e mm h0).
Qed.
Lemma cache_ok_hc f n : cache_ok c xh (S f) n -> cache_ok c xh (S f) (hc n).
Proof.
  intros H. pose proof (hash_value_hv c xh f n H) as Hv. destruct H as [_ Hk].
  unfold hash_cache. cbn [cache_ok]. split.
  - right. rewrite hv_set_hash. destruct n; cbn [set_hash nhash]. exact Hv.
  - destruct n as [v s e mm h0]. cbn [set_hash nval] in *. exact Hk.
Qed.

Lemma bool_iff (a b : bool) : (a = true <-> b = true) -> a = b.
Proof. destruct a, b; intuition congruence. Qed.

(* hashing either or both operands beforehand does not change the answer *)
Theorem equal_after_hashing a b : simple c a -> coherent c xh a -> coherent c xh b ->
  equal c xe (hc a) (hc b) = equal c xe a b /\ equal c xe (hc a) b = equal c xe a b /\ equal c xe a (hc b) = equal c xe a b.
Proof.
  intros [va Hva] Ha Hb. unfold coherent, Equality.equal in *.
  destruct max_depth as [|md] eqn:Emd; [unfold max_depth in Emd; vm_compute in Emd; discriminate|].
  pose proof (cache_ok_hc md a Ha) as Ha'. pose proof (cache_ok_hc md b Hb) as Hb'.
  assert (Hva' : nf c (S md) (hc a) = Some va) by (unfold hash_cache; now rewrite nf_set_hash).
  repeat split; apply bool_iff.
  - rewrite (equal_iff_nf c xe xh _ (hc a) (hc b) va Hva' Ha' Hb'), (equal_iff_nf c xe xh _ a b va Hva Ha Hb).
    unfold hash_cache. now rewrite nf_set_hash.
  - rewrite (equal_iff_nf c xe xh _ (hc a) b va Hva' Ha' Hb), (equal_iff_nf c xe xh _ a b va Hva Ha Hb). tauto.
  - rewrite (equal_iff_nf c xe xh _ a (hc b) va Hva Ha Hb'), (equal_iff_nf c xe xh _ a b va Hva Ha Hb).
    unfold hash_cache. now rewrite nf_set_hash.
Qed.

(* ---- duplicate detection ---- *)
Lemma existsb_hc x t : simple c x -> coherent c xh x -> Forall (coherent c xh) t ->
  existsb (fun y => equal c xe (hc x) y) (map hc t) = existsb (fun y => equal c xe x y) t.
Proof.
  intros Hsx Hcx. induction t as [|y t IHt]; intros Hct; [reflexivity|]. cbn [map existsb].
  inversion Hct as [|? ? Hcy Hct']; subst. rewrite (IHt Hct'). f_equal.
  now destruct (equal_after_hashing x y Hsx Hcx Hcy) as (H & _ & _).
Qed.
Lemma dup_linear_hc l : Forall (simple c) l -> Forall (coherent c xh) l ->
  dup_linear c xe (map hc l) = dup_linear c xe l.
Proof.
  induction l as [|x t IH]; intros Hs Hc; [reflexivity|]. cbn [map dup_linear].
  inversion Hs as [|? ? Hsx Hst]; subst. inversion Hc as [|? ? Hcx Hct]; subst.
  rewrite (IH Hst Hct). f_equal. now apply existsb_hc.
Qed.

(* the hash-table strategy on the original elements *)
Theorem dup_hash_pairwise sort l : Forall (simple c) l -> Forall (coherent c xh) l -> Z.of_nat (length l) < 2 ^ 64 ->
  fst (dup_hash c xe xh sort l) = dup_linear c xe l.
Proof. intros Hs Hc Hn. rewrite dup_hash_correct by assumption. now apply dup_linear_hc. Qed.

(* the reader's duplicate check, every size: the verdict is the pairwise one.  For the sort-based tier the
   assumptions about the sorting function and the scalar domain of SortDup apply. *)
Theorem has_duplicates_pairwise sort l :
  (forall v1 v2, scalar v1 = true -> scalar v2 = true -> type_of c v1 = type_of c v2 -> kind_of v1 = kind_of v2) ->
  Forall (simple c) l -> Forall (coherent c xh) l -> Z.of_nat (length l) < 2 ^ 64 ->
  (forallb sort_comparable l = true -> Forall sdom l /\ Permutation (sort l) l /\
                                       StronglySorted (fun a b => compare_nodes c a b <= 0) (sort l)) ->
  fst (has_duplicates c xe xh sort l) = dup_linear c xe l.
Proof.
  intros Htags Hs Hc Hn Hsort. unfold has_duplicates.
  destruct (Z.leb_spec (Z.of_nat (length l)) 1) as [H1|H1].
  - cbn [fst]. destruct l as [|x [|y t]]; cbn [dup_linear existsb orb]; try reflexivity. cbn [length] in H1. lia.
  - destruct (Z.of_nat (length l) <=? LINEAR_THRESHOLD); [reflexivity|].
    destruct (forallb sort_comparable l) eqn:Hcmp; cbn [andb].
    + destruct (Z.of_nat (length l) <=? SORTED_THRESHOLD); cbn [andb fst].
      * destruct (Hsort eq_refl) as (Hd & Hp & Hss). now apply dup_sorted_correct.
      * now apply dup_hash_pairwise.
    + rewrite andb_false_r. now apply dup_hash_pairwise.
Qed.
End Hist.
