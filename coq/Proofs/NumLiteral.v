(* Proofs/NumLiteral.v -- the literal scanner on decimal integer literals (C04 at the token level):
   an optional sign, a run of ASCII digits of ANY length without a superfluous leading zero,
   followed by the end of the input or a number delimiter, reads -- under every flag set -- as the
   64-bit integer equal to its mathematical value when that fits the signed range for its sign,
   and as a big integer with exactly the literal's sign and digit string otherwise; the cursor ends
   right behind the last digit.  (Scanner control flow + parse_int64_correct.) *)
From Coq Require Import ZArith NArith List Bool Lia String.
From Coq.Strings Require Import Byte.
From Verif Require Import Lanes Common Values Floats Scan Numbers Tokens ByteSweep ScanProofs Swar Int64 NumProgress.
Import ListNotations.
Local Open Scope N_scope.

(* what a number delimiter / general delimiter can NOT be (256-value sweeps over the generated tables) *)
Definition numchar (b : byte) : bool :=
  is_dig b || is_us b || is_c b "." || is_c b "e" || is_c b "E" || is_c b "N" || is_c b "M" || is_c b "/" ||
  is_c b "r" || is_c b "R" || is_c b "x" || is_c b "X".
Lemma numdelim_not_numchar b : numdelim (bz b) = true -> numchar b = false /\ is_delim b = true.
Proof.
  intros H.
  assert (Hs : forallb (fun b => implb (numdelim (bz b)) (negb (numchar b) && is_delim b)) all_bytes = true) by (vm_compute; reflexivity).
  pose proof (byte_sweep _ Hs b) as Hb. cbv beta in Hb. rewrite H in Hb. cbn [implb] in Hb.
  apply andb_prop in Hb as [H1 H2]. split; [now apply negb_true_iff|assumption].
Qed.
Lemma nul_not_numchar : numchar nul = false /\ not_nul_nor_delim nul = false.
Proof. vm_compute. split; reflexivity. Qed.
Lemma numchar_false b : numchar b = false ->
  is_dig b = false /\ is_us b = false /\ is_c b "." = false /\ is_c b "e" = false /\ is_c b "E" = false /\
  is_c b "N" = false /\ is_c b "M" = false /\ is_c b "/" = false /\ is_c b "r" = false /\ is_c b "R" = false /\
  is_c b "x" = false /\ is_c b "X" = false.
Proof. unfold numchar. intros H. repeat (apply orb_false_elim in H as [H ?]). repeat split; assumption. Qed.
Lemma not_digit_facts b : is_dig b = false ->
  is_c b "0" = false /\ is_c b "8" = false /\ is_c b "9" = false /\ ((49 <=? bz b)%Z && (bz b <=? 55)%Z) = false.
Proof.
  intros H.
  assert (Hs : forallb (fun b => implb (negb (is_dig b)) (negb (is_c b "0") && negb (is_c b "8") && negb (is_c b "9") &&
                                    negb ((49 <=? bz b)%Z && (bz b <=? 55)%Z))) all_bytes = true) by (vm_compute; reflexivity).
  pose proof (byte_sweep _ Hs b) as Hb. cbv beta in Hb. rewrite H in Hb. cbn [negb implb] in Hb.
  repeat (apply andb_prop in Hb as [Hb ?]). repeat split; now apply negb_true_iff.
Qed.

Lemma app_eq_len {A} : forall (a a' b b' : list A), List.length a = List.length a' -> a ++ b = a' ++ b' -> a = a' /\ b = b'.
Proof.
  induction a as [|x a IH]; intros [|y a'] b b' Hl H; cbn in Hl; try discriminate; cbn [app] in H; [tauto|].
  injection H as -> H. destruct (IH a' b b' ltac:(lia) H) as [-> ->]. tauto.
Qed.

Lemma dig_not_us' d : is_dig d = true -> is_us d = false.
Proof.
  intros H. assert (Hs : forallb (fun b => implb (is_dig b) (negb (is_us b))) all_bytes = true) by (vm_compute; reflexivity).
  pose proof (byte_sweep _ Hs d) as Hb. cbv beta in Hb. rewrite H in Hb. now apply negb_true_iff.
Qed.

Section Lit.
Variable c : cfg.
Variable m : mem.
Variable e : N.

Notation adv := (adv e).
Notation peek := (peek m e).

Lemma peek_in p : p < e -> peek p = m p.
Proof. intros H. unfold Numbers.peek. now replace (p <? e) with true by (symmetry; now apply N.ltb_lt). Qed.
Lemma peek_end p : e <= p -> peek p = nul.
Proof. intros H. unfold Numbers.peek. now replace (p <? e) with false by (symmetry; now apply N.ltb_ge). Qed.
Lemma adv_in' p : p < e -> adv p = p + 1.
Proof. intros H. unfold Numbers.adv. now replace (p <? e) with true by (symmetry; now apply N.ltb_lt). Qed.

(* the byte right behind the literal: the end of the input, or a number delimiter *)
Definition ends_at (q : N) : Prop := q = e \/ (q < e /\ numdelim (bz (m q)) = true).

Lemma ends_peek q : q <= e -> ends_at q -> numchar (peek q) = false /\ not_nul_nor_delim (peek q) = false /\ delim_ok m e q = true.
Proof.
  intros Hq [->|[Hlt Hd]].
  - rewrite peek_end by lia. destruct nul_not_numchar as [A B]. repeat split; try assumption.
    unfold delim_ok. now rewrite N.ltb_irrefl.
  - rewrite peek_in by assumption. destruct (numdelim_not_numchar _ Hd) as [A B]. repeat split; [assumption| |].
    + unfold not_nul_nor_delim. rewrite B. now rewrite andb_false_r.
    + unfold delim_ok. now replace (q <? e) with true by (symmetry; now apply N.ltb_lt).
Qed.

Lemma digit_loop_run st : forall ds f p, (List.length ds < f)%nat -> slice m p (List.length ds) = ds ->
  forallb is_dig ds = true -> p + N.of_nat (List.length ds) <= e -> ends_at (p + N.of_nat (List.length ds)) ->
  digit_loop c m e f is_dig st p = inl (p + N.of_nat (List.length ds)).
Proof.
  induction ds as [|d ds IH]; intros f p Hf Hs Hd Hle Hend; destruct f as [|f]; try (cbn in Hf; lia); cbn [digit_loop].
  - cbn [List.length N.of_nat] in *. rewrite N.add_0_r in *. destruct (ends_peek p Hle Hend) as (_ & B & _). now rewrite B.
  - cbn [List.length] in *. rewrite slice_S in Hs. injection Hs as Hd0 Hs. cbn [forallb] in Hd. apply andb_prop in Hd as [Hd1 Hd2].
    assert (Hlt : p < e) by lia. rewrite peek_in by assumption. rewrite Hd0.
    rewrite (digit_not_delim _ Hd1), Hd1, adv_in' by assumption.
    rewrite (IH f (p + 1)); [f_equal; lia|lia|assumption|assumption|lia|].
    replace (p + 1 + N.of_nat (List.length ds)) with (p + N.of_nat (S (List.length ds))) by lia. exact Hend.
Qed.

Lemma plain_digits_run : forall ds f p, (List.length ds < f)%nat -> slice m p (List.length ds) = ds ->
  forallb is_dig ds = true -> p + N.of_nat (List.length ds) <= e -> ends_at (p + N.of_nat (List.length ds)) ->
  plain_digits m e f p = p + N.of_nat (List.length ds).
Proof.
  induction ds as [|d ds IH]; intros f p Hf Hs Hd Hle Hend; destruct f as [|f]; try (cbn in Hf; lia); cbn [plain_digits].
  - cbn [List.length N.of_nat] in *. rewrite N.add_0_r in *. destruct (ends_peek p Hle Hend) as (A & _ & _).
    apply numchar_false in A. destruct A as (A & _). rewrite A. reflexivity.
  - cbn [List.length] in *. rewrite slice_S in Hs. injection Hs as Hd0 Hs. cbn [forallb] in Hd. apply andb_prop in Hd as [Hd1 Hd2].
    assert (Hlt : p < e) by lia. rewrite peek_in by assumption. rewrite Hd0, Hd1, adv_in' by assumption.
    rewrite (IH f (p + 1)); [lia|lia|assumption|assumption|lia|].
    replace (p + 1 + N.of_nat (List.length ds)) with (p + N.of_nat (S (List.length ds))) by lia. exact Hend.
Qed.

(* the value the literal denotes / the node it must read as *)
Definition decimal_value (ds : list byte) : Z := int_value c 10 ds.
Definition int_literal_value (neg : bool) (ds : list byte) : value :=
  let mag := decimal_value ds in
  if neg then (if (mag <=? two63)%Z then VInt (- mag) else VBigInt true 10 ds)
  else (if (mag <=? int64_max)%Z then VInt mag else VBigInt false 10 ds).

Lemma digits_ok_dig ds : forallb is_dig ds = true -> digits_ok c 10 ds = true.
Proof.
  unfold digits_ok. cbn [Z.eqb Pos.eqb]. induction ds as [|d t IH]; cbn [forallb]; [reflexivity|].
  intros H. apply andb_prop in H as [H1 H2]. rewrite (IH H2), andb_true_r.
  unfold valid_byte. rewrite dv10_dig by assumption. pose proof (proj1 (is_dig_range _) H1) as Hr. unfold dval.
  replace (0 <=? bz d - 48)%Z with true by (symmetry; apply Z.leb_le; lia).
  replace (bz d - 48 <? 10)%Z with true by (symmetry; apply Z.ltb_lt; lia). now rewrite orb_true_r.
Qed.

Lemma int_or_big_digits (a b : N) (ds : list byte) neg : Numbers.sub m a b = ds -> forallb is_dig ds = true ->
  int_or_big c m a b 10 neg = inl (int_literal_value neg ds).
Proof.
  intros Hs Hd. unfold int_or_big. rewrite Hs. rewrite parse_int64_correct by (try lia; now apply digits_ok_dig).
  cbv zeta. unfold int_literal_value, decimal_value.
  destruct neg; [destruct (_ <=? two63)%Z|destruct (_ <=? int64_max)%Z]; reflexivity.
Qed.

(* the value is the plain positional one: sum of digit * 10^position *)
Fixpoint positional (ds : list byte) (acc : Z) : Z :=
  match ds with [] => acc | d :: t => positional t (acc * 10 + (bz d - 48))%Z end.
Lemma decimal_value_positional ds : forallb is_dig ds = true -> decimal_value ds = positional ds 0%Z.
Proof.
  unfold decimal_value, int_value. cbn [Z.eqb Pos.eqb]. generalize 0%Z as acc.
  induction ds as [|d t IH]; intros acc H; cbn [mag_of positional]; [reflexivity|].
  cbn [forallb] in H. apply andb_prop in H as [H1 H2]. rewrite (dig_not_us' _ H1), andb_false_r.
  rewrite dv10_dig by assumption. unfold dval. now apply IH.
Qed.

Lemma int_literal_zero neg : int_literal_value neg ["0"%byte] = VInt 0.
Proof.
  unfold int_literal_value. rewrite decimal_value_positional by reflexivity. cbn [positional].
  change (0 * 10 + (bz "0" - 48))%Z with 0%Z. destruct neg; reflexivity.
Qed.

(* ---- the theorem ---- *)
Theorem read_number_decimal_integer start (neg : bool) (sign : list byte) (ds : list byte) :
  (sign = [] /\ neg = false \/ sign = ["-"%byte] /\ neg = true \/ sign = ["+"%byte] /\ neg = false) ->
  ds <> [] -> forallb is_dig ds = true ->
  (hd "0"%byte ds <> "0"%byte \/ ds = ["0"%byte]) ->                (* no superfluous leading zero *)
  let q := start + N.of_nat (List.length (sign ++ ds)) in
  q <= e -> slice m start (List.length (sign ++ ds)) = sign ++ ds -> ends_at q ->
  read_number c m e start = NVal (int_literal_value neg ds) q.
Proof.
  intros Hsign Hne Hdig Hlead q Hq Hsl Hend.
  (* position of the first digit *)
  set (p1 := start + N.of_nat (List.length sign)).
  assert (Hq1 : q = p1 + N.of_nat (List.length ds)) by (unfold q, p1; rewrite app_length; lia).
  assert (Hsl1 : slice m p1 (List.length ds) = ds).
  { rewrite app_length, slice_app in Hsl. apply app_eq_len in Hsl; [tauto|now rewrite slice_length]. }
  destruct ds as [|d0 ds']; [congruence|]. clear Hne.
  assert (Hp1lt : p1 < e) by (cbn [List.length] in Hq1; lia).
  assert (Hd0 : m p1 = d0) by (cbn [List.length] in Hsl1; rewrite slice_S in Hsl1; now injection Hsl1).
  assert (Hdig0 : is_dig d0 = true) by (cbn [forallb] in Hdig; now apply andb_prop in Hdig as [? _]).
  destruct (ends_peek q Hq Hend) as (Hnc & Hnn & Hdok). apply numchar_false in Hnc.
  destruct Hnc as (N1 & N2 & N3 & N4 & N5 & N6 & N7 & N8 & N9 & N10 & N11 & N12).
  unfold read_number.
  (* the sign *)
  assert (Hsg : (if is_c (peek start) "-" then (true, adv start) else if is_c (peek start) "+" then (false, adv start) else (false, start))
                = (neg, p1)).
  { destruct Hsign as [[-> ->]|[[-> ->]|[-> ->]]]; unfold p1; cbn [List.length N.of_nat].
    - rewrite N.add_0_r in *. rewrite peek_in by (unfold p1 in Hp1lt; cbn in Hp1lt; lia).
      unfold p1 in Hd0. cbn in Hd0. rewrite N.add_0_r in Hd0. rewrite Hd0.
      assert (Hs : forallb (fun b => implb (is_dig b) (negb (is_c b "-") && negb (is_c b "+"))) all_bytes = true) by (vm_compute; reflexivity).
      pose proof (byte_sweep _ Hs d0) as Hb. cbv beta in Hb. rewrite Hdig0 in Hb. cbn [implb] in Hb.
      apply andb_prop in Hb as [H1 H2]. apply negb_true_iff in H1, H2. now rewrite H1, H2.
    - cbn [app List.length] in Hsl. rewrite slice_S in Hsl. injection Hsl as Hm _.
      assert (start < e) by (unfold p1 in Hp1lt; cbn in Hp1lt; lia).
      rewrite peek_in, Hm, adv_in' by assumption. reflexivity.
    - cbn [app List.length] in Hsl. rewrite slice_S in Hsl. injection Hsl as Hm _.
      assert (start < e) by (unfold p1 in Hp1lt; cbn in Hp1lt; lia).
      rewrite peek_in, Hm, adv_in' by assumption. reflexivity. }
  rewrite Hsg. clear Hsg. cbv zeta.
  assert (Hpk1 : peek p1 = d0) by (rewrite peek_in by assumption; exact Hd0).
  rewrite Hpk1, Hdig0.
  (* no radix prefix: the digit run is followed by the end or a delimiter *)
  rewrite (plain_digits_run (d0 :: ds') (fuel_of e p1) p1) by
      (try assumption; try (rewrite <- Hq1; assumption); unfold fuel_of; cbn [List.length] in *; lia).
  rewrite <- Hq1.
  assert (Hrfalse : (q <? e) && (is_c (m q) "r" || is_c (m q) "R") && (p1 <? q) = false).
  { destruct (N.ltb_spec q e) as [Hlt|Hge]; [|reflexivity]. rewrite peek_in in N9, N10 by assumption. now rewrite N9, N10. }
  rewrite Hrfalse. rewrite andb_true_r.
  assert (Hzero : is_c d0 "0" = true -> ds' = [] /\ d0 = "0"%byte).
  { intros Hz. assert (Hd00 : d0 = "0"%byte) by (unfold is_c, is_byte in Hz; cbn in Hz; now apply Byte.byte_dec_bl in Hz).
    split; [|exact Hd00]. destruct Hlead as [Hl|Hl]; [cbn in Hl; congruence|now injection Hl]. }
  assert (Hnz : is_c d0 "0" = false ->
     match digit_loop c m e (fuel_of e p1) is_dig true p1 with
     | inl p => after_int_digits c m e start p1 neg p false
     | inr ec => NErr ec
     end = NVal (int_literal_value neg (d0 :: ds')) q).
  { intros _. rewrite (digit_loop_run true (d0 :: ds') (fuel_of e p1) p1) by
        (try assumption; try (rewrite <- Hq1; assumption); unfold fuel_of; cbn [List.length] in *; lia).
    rewrite <- Hq1. unfold after_int_digits. rewrite N3. unfold after_frac. rewrite N4, N5. cbn [orb].
    unfold suffix_section. rewrite N6, N7, N8. cbn [orb andb]. rewrite !andb_false_r. cbn [andb orb].
    rewrite (int_or_big_digits p1 q (d0 :: ds') neg); [|unfold Numbers.sub; rewrite Hq1; replace (p1 + N.of_nat (List.length (d0 :: ds')) - p1) with (N.of_nat (List.length (d0 :: ds'))) by lia; now rewrite Nat2N.id|assumption].
    unfold finish. now rewrite Hdok. }
  assert (Hzt : zero_tail c m e start p1 neg q = NVal (VInt 0) q).
  { unfold zero_tail. rewrite N3, N6, N7, N4, N5, N8, andb_false_r. cbn [orb]. unfold finish. now rewrite Hdok. }
  destruct (is_c d0 "0") eqn:Hz.
  - destruct (Hzero eq_refl) as [-> ->]. cbn [List.length N.of_nat] in Hq1. rewrite adv_in' by assumption.
    replace (p1 + 1) with q by lia. rewrite int_literal_zero.
    destruct (clj c) eqn:Hclj; cbv beta iota.
    + destruct (not_digit_facts _ N1) as (Z0 & Z8 & Z9 & Z17).
      assert (Hsz : skip_zeros m e (fuel_of e q) q = q) by (unfold fuel_of; cbn [skip_zeros]; now rewrite Z0).
      rewrite Hsz, N11, N12. cbn [orb]. rewrite Z17, Z8, Z9. cbn [orb]. exact Hzt.
    + rewrite N1. exact Hzt.
  - destruct (clj c); cbv beta iota; now apply Hnz.
Qed.

(* ---- N and M suffixes on integer-shaped literals: big integer / big decimal with exactly the literal's
   sign and digit text, whatever its magnitude ---- *)
Lemma digit_loop_stop st : forall ds f p, (List.length ds < f)%nat -> slice m p (List.length ds) = ds ->
  forallb is_dig ds = true -> p + N.of_nat (List.length ds) <= e ->
  is_dig (peek (p + N.of_nat (List.length ds))) = false -> is_us (peek (p + N.of_nat (List.length ds))) = false ->
  digit_loop c m e f is_dig st p = inl (p + N.of_nat (List.length ds)).
Proof.
  induction ds as [|d ds IH]; intros f p Hf Hs Hd Hle H1 H2; destruct f as [|f]; try (cbn in Hf; lia); cbn [digit_loop].
  - cbn [List.length N.of_nat] in *. rewrite N.add_0_r in *. rewrite H1, H2, andb_false_r.
    destruct (not_nul_nor_delim (peek p)); reflexivity.
  - cbn [List.length] in *. rewrite slice_S in Hs. injection Hs as Hd0 Hs. cbn [forallb] in Hd. apply andb_prop in Hd as [Hd1 Hd2].
    assert (Hlt : p < e) by lia. rewrite peek_in by assumption. rewrite Hd0.
    rewrite (digit_not_delim _ Hd1), Hd1, adv_in' by assumption.
    replace (p + N.of_nat (S (List.length ds))) with (p + 1 + N.of_nat (List.length ds)) in * by lia.
    rewrite (IH f (p + 1)); [reflexivity|lia|assumption|assumption|lia|assumption|assumption].
Qed.
Lemma plain_digits_stop : forall ds f p, (List.length ds < f)%nat -> slice m p (List.length ds) = ds ->
  forallb is_dig ds = true -> p + N.of_nat (List.length ds) <= e ->
  is_dig (peek (p + N.of_nat (List.length ds))) = false ->
  plain_digits m e f p = p + N.of_nat (List.length ds).
Proof.
  induction ds as [|d ds IH]; intros f p Hf Hs Hd Hle H1; destruct f as [|f]; try (cbn in Hf; lia); cbn [plain_digits].
  - cbn [List.length N.of_nat] in *. rewrite N.add_0_r in *. now rewrite H1.
  - cbn [List.length] in *. rewrite slice_S in Hs. injection Hs as Hd0 Hs. cbn [forallb] in Hd. apply andb_prop in Hd as [Hd1 Hd2].
    assert (Hlt : p < e) by lia. rewrite peek_in by assumption. rewrite Hd0, Hd1, adv_in' by assumption.
    replace (p + N.of_nat (S (List.length ds))) with (p + 1 + N.of_nat (List.length ds)) in * by lia.
    rewrite (IH f (p + 1)); [reflexivity|lia|assumption|assumption|lia|assumption].
Qed.

Definition suffix_value (sfx : byte) (neg : bool) (ds : list byte) : value :=
  if is_c sfx "N" then VBigInt neg 10 ds else VBigDec neg ds.

Lemma suffix_facts sfx : is_c sfx "N" = true \/ is_c sfx "M" = true ->
  is_dig sfx = false /\ is_us sfx = false /\ is_c sfx "." = false /\ is_c sfx "e" = false /\ is_c sfx "E" = false /\
  is_c sfx "r" = false /\ is_c sfx "R" = false /\ is_c sfx "x" = false /\ is_c sfx "X" = false /\ is_c sfx "0" = false /\
  is_c sfx "8" = false /\ is_c sfx "9" = false /\ ((49 <=? bz sfx)%Z && (bz sfx <=? 55)%Z) = false /\
  (is_c sfx "N" = true -> is_c sfx "M" = false).
Proof.
  intros H. assert (Hb : sfx = "N"%byte \/ sfx = "M"%byte)
    by (destruct H as [H|H]; unfold is_c, is_byte in H; cbn in H; apply Byte.byte_dec_bl in H; auto).
  destruct Hb as [->| ->]; vm_compute; repeat split; try reflexivity; discriminate.
Qed.

Theorem read_number_suffixed_integer start (neg : bool) (sign : list byte) (ds : list byte) (sfx : byte) :
  (sign = [] /\ neg = false \/ sign = ["-"%byte] /\ neg = true \/ sign = ["+"%byte] /\ neg = false) ->
  ds <> [] -> forallb is_dig ds = true -> (hd "0"%byte ds <> "0"%byte \/ ds = ["0"%byte]) ->
  is_c sfx "N" = true \/ is_c sfx "M" = true ->
  let q := start + N.of_nat (List.length (sign ++ ds)) in
  q < e -> slice m start (List.length (sign ++ ds)) = sign ++ ds -> m q = sfx -> ends_at (q + 1) ->
  read_number c m e start = NVal (suffix_value sfx neg ds) (q + 1).
Proof.
  intros Hsign Hne Hdig Hlead Hsfx q Hq Hsl Hmq Hend.
  set (p1 := start + N.of_nat (List.length sign)).
  assert (Hq1 : q = p1 + N.of_nat (List.length ds)) by (unfold q, p1; rewrite app_length; lia).
  assert (Hsl1 : slice m p1 (List.length ds) = ds).
  { rewrite app_length, slice_app in Hsl. apply app_eq_len in Hsl; [tauto|now rewrite slice_length]. }
  destruct ds as [|d0 ds']; [congruence|]. clear Hne.
  assert (Hp1lt : p1 < e) by (cbn [List.length] in Hq1; lia).
  assert (Hd0 : m p1 = d0) by (cbn [List.length] in Hsl1; rewrite slice_S in Hsl1; now injection Hsl1).
  assert (Hdig0 : is_dig d0 = true) by (cbn [forallb] in Hdig; now apply andb_prop in Hdig as [? _]).
  destruct (ends_peek (q + 1) ltac:(lia) Hend) as (_ & _ & Hdok).
  destruct (suffix_facts sfx Hsfx) as (S1 & S2 & S3 & S4 & S5 & S6 & S7 & S8 & S9 & S10 & S11 & S12 & S13 & S14).
  assert (Hpq : peek q = sfx) by (rewrite peek_in by assumption; exact Hmq).
  unfold read_number.
  assert (Hsg : (if is_c (peek start) "-" then (true, adv start) else if is_c (peek start) "+" then (false, adv start) else (false, start))
                = (neg, p1)).
  { destruct Hsign as [[-> ->]|[[-> ->]|[-> ->]]]; unfold p1; cbn [List.length N.of_nat].
    - rewrite N.add_0_r in *. rewrite peek_in by (unfold p1 in Hp1lt; cbn in Hp1lt; lia).
      unfold p1 in Hd0. cbn in Hd0. rewrite N.add_0_r in Hd0. rewrite Hd0.
      assert (Hs : forallb (fun b => implb (is_dig b) (negb (is_c b "-") && negb (is_c b "+"))) all_bytes = true) by (vm_compute; reflexivity).
      pose proof (byte_sweep _ Hs d0) as Hb. cbv beta in Hb. rewrite Hdig0 in Hb. cbn [implb] in Hb.
      apply andb_prop in Hb as [H1 H2]. apply negb_true_iff in H1, H2. now rewrite H1, H2.
    - cbn [app List.length] in Hsl. rewrite slice_S in Hsl. injection Hsl as Hm _.
      assert (start < e) by (unfold p1 in Hp1lt; cbn in Hp1lt; lia).
      rewrite peek_in, Hm, adv_in' by assumption. reflexivity.
    - cbn [app List.length] in Hsl. rewrite slice_S in Hsl. injection Hsl as Hm _.
      assert (start < e) by (unfold p1 in Hp1lt; cbn in Hp1lt; lia).
      rewrite peek_in, Hm, adv_in' by assumption. reflexivity. }
  rewrite Hsg. clear Hsg. cbv zeta.
  assert (Hpk1 : peek p1 = d0) by (rewrite peek_in by assumption; exact Hd0).
  rewrite Hpk1, Hdig0.
  rewrite (plain_digits_stop (d0 :: ds') (fuel_of e p1) p1) by
      (try assumption; try (rewrite <- Hq1, Hpq; assumption); unfold fuel_of; cbn [List.length] in *; lia).
  rewrite <- Hq1. replace (q <? e) with true by (symmetry; now apply N.ltb_lt). rewrite Hmq, S6, S7. cbn [orb andb].
  rewrite andb_true_r.
  (* the last digit is not an underscore *)
  assert (Hlast : q - 1 < e /\ is_us (m (q - 1)) = false).
  { split; [lia|]. assert (Hn : nth_error (d0 :: ds') (List.length ds') = Some (m (q - 1))).
    { rewrite <- Hsl1. rewrite slice_nth_error by (cbn [List.length]; lia). f_equal. f_equal. cbn [List.length] in Hq1. lia. }
    apply nth_error_In in Hn. rewrite forallb_forall in Hdig. now apply dig_not_us', Hdig. }
  destruct Hlast as [_ Hlast].
  assert (Hfin : finish m e (suffix_value sfx neg (d0 :: ds')) (adv q) = NVal (suffix_value sfx neg (d0 :: ds')) (q + 1))
    by (rewrite adv_in' by assumption; unfold finish; now rewrite Hdok).
  assert (Hsub : Numbers.sub m p1 q = d0 :: ds').
  { unfold Numbers.sub. rewrite Hq1. replace (p1 + N.of_nat (List.length (d0 :: ds')) - p1) with (N.of_nat (List.length (d0 :: ds'))) by lia. now rewrite Nat2N.id. }
  assert (Hsuffix : suffix_section c m e start p1 neg q false false = NVal (suffix_value sfx neg (d0 :: ds')) (q + 1)).
  { unfold suffix_section. rewrite Hpq, Hlast, andb_false_r. cbn [negb andb]. rewrite andb_true_r. rewrite Hsub.
    unfold suffix_value in *. destruct (is_c sfx "N") eqn:HN; [exact Hfin|].
    destruct Hsfx as [Hx|Hx]; [congruence|]. rewrite Hx. exact Hfin. }
  assert (Hzero : is_c d0 "0" = true -> ds' = [] /\ d0 = "0"%byte).
  { intros Hz. assert (Hd00 : d0 = "0"%byte) by (unfold is_c, is_byte in Hz; cbn in Hz; now apply Byte.byte_dec_bl in Hz).
    split; [|exact Hd00]. destruct Hlead as [Hl|Hl]; [cbn in Hl; congruence|now injection Hl]. }
  assert (Hnz : match digit_loop c m e (fuel_of e p1) is_dig true p1 with
     | inl p => after_int_digits c m e start p1 neg p false
     | inr ec => NErr ec
     end = NVal (suffix_value sfx neg (d0 :: ds')) (q + 1)).
  { rewrite (digit_loop_stop true (d0 :: ds') (fuel_of e p1) p1) by
        (try assumption; try (rewrite <- Hq1, Hpq; assumption); unfold fuel_of; cbn [List.length] in *; lia).
    rewrite <- Hq1. unfold after_int_digits. rewrite Hpq, S3. unfold after_frac. rewrite Hpq, S4, S5. cbn [orb]. exact Hsuffix. }
  destruct (is_c d0 "0") eqn:Hz.
  - destruct (Hzero eq_refl) as [-> ->]. cbn [List.length N.of_nat] in Hq1. rewrite (adv_in' p1) by assumption.
    replace (p1 + 1) with q by lia.
    assert (Hzt : zero_tail c m e start p1 neg q = NVal (suffix_value sfx neg ["0"%byte]) (q + 1)).
    { unfold zero_tail. rewrite Hpq, S3. unfold suffix_value in *.
      destruct (is_c sfx "N") eqn:HN; [exact Hfin|]. destruct Hsfx as [Hx|Hx]; [congruence|]. rewrite Hx. exact Hfin. }
    destruct (clj c) eqn:Hclj; cbv beta iota.
    + assert (Hsz : skip_zeros m e (fuel_of e q) q = q) by (unfold fuel_of; cbn [skip_zeros]; now rewrite Hpq, S10).
      rewrite Hsz, Hpq, S8, S9. cbn [orb]. rewrite S13, S11, S12. cbn [orb]. exact Hzt.
    + rewrite Hpq, S1. exact Hzt.
  - destruct (clj c); cbv beta iota; exact Hnz.
Qed.

(* the token reader: the node spans exactly the literal *)
Corollary read_number_tok_decimal_integer s (neg : bool) (sign ds : list byte) :
  (sign = [] /\ neg = false \/ sign = ["-"%byte] /\ neg = true \/ sign = ["+"%byte] /\ neg = false) ->
  ds <> [] -> forallb is_dig ds = true -> (hd "0"%byte ds <> "0"%byte \/ ds = ["0"%byte]) ->
  let q := cur s + N.of_nat (List.length (sign ++ ds)) in
  q <= e -> slice m (cur s) (List.length (sign ++ ds)) = sign ++ ds -> ends_at q ->
  Tokens.read_number_tok c m e s = Ret (Some (mk (int_literal_value neg ds) (cur s) q)) (with_cur s q).
Proof.
  intros H1 H2 H3 H4 q H5 H6 H7. unfold Tokens.read_number_tok.
  now rewrite (read_number_decimal_integer (cur s) neg sign ds H1 H2 H3 H4 H5 H6 H7).
Qed.
End Lit.
