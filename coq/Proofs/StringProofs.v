(* Proofs/StringProofs.v -- facts about the escape decoder and edn_string_get models. *)
From Coq Require Import ZArith NArith List Bool Lia String.
From Coq.Strings Require Import Byte.
From Verif Require Import Lanes Common Values Floats Scan Numbers Tokens.
Import ListNotations.
Local Open Scope nat_scope.

(* one escape sequence never produces more bytes than it consumes (the decoder writes into a
   buffer of the literal's length + 1) *)
Lemma decode_escape_fits c l o rest :
  decode_escape c l = Some (o, rest) -> List.length o + List.length rest <= List.length l.
Proof.
  unfold decode_escape. destruct l as [|ch t]; [discriminate|].
  repeat match goal with
         | |- (if ?b then _ else _) = Some _ -> _ => destruct b
         | |- Some (_, _) = Some (_, _) -> _ => let H := fresh in intros H; inversion H; subst; clear H; cbn [List.length]; try lia
         | |- None = Some _ -> _ => discriminate
         end.
  - (* \uXXXX *)
    destruct t as [|h1 [|h2 [|h3 [|h4 t']]]]; try discriminate.
    destruct (hexv h1), (hexv h2), (hexv h3), (hexv h4); try discriminate.
    unfold utf8_3.
    repeat match goal with
           | |- match (if ?b then _ else _) with _ => _ end = Some _ -> _ => destruct b
           end; intros H; inversion H; subst; cbn [List.length]; lia.
  - (* octal *)
    destruct t as [|d1 t1].
    + intros H; inversion H; subst; cbn [List.length]; lia.
    + destruct (is_oct d1 && _)%bool.
      * destruct t1 as [|d2 t2].
        -- intros H; inversion H; subst; cbn [List.length]; lia.
        -- destruct (is_oct d2 && _)%bool; intros H; inversion H; subst; cbn [List.length]; lia.
      * intros H; inversion H; subst; cbn [List.length]; lia.
Qed.

Lemma decode_string_fits fuel c l d :
  decode_string fuel c l = Some d -> List.length d <= List.length l.
Proof.
  revert l d. induction fuel as [|f IH]; intros l d; cbn [decode_string]; [discriminate|].
  destruct l as [|ch t]; [intros H; inversion H; cbn; lia|].
  destruct (is_bslash ch).
  - destruct (decode_escape c t) as [[o rest]|] eqn:E; [|discriminate].
    destruct (decode_string f c rest) as [r|] eqn:R; [|discriminate].
    intros H; inversion H; subst. rewrite app_length. apply decode_escape_fits in E. apply IH in R.
    cbn [List.length]. lia.
  - destruct (decode_string f c t) as [r|] eqn:R; [|discriminate].
    intros H; inversion H; subst. apply IH in R. cbn [List.length]. lia.
Qed.

Theorem decode_fits c l d : decode c l = Some d -> List.length d <= List.length l.
Proof. apply decode_string_fits. Qed.

(* strlen of a NUL-free buffer is its length *)
Lemma c_strlen_nul_free l :
  forallb (fun b => negb (Byte.eqb b "000"%byte)) l = true -> c_strlen l = List.length l.
Proof.
  induction l as [|b t IH]; cbn; [reflexivity|]. intros H. apply andb_prop in H as [Hb Ht].
  apply negb_true_iff in Hb. rewrite Hb, IH by assumption. reflexivity.
Qed.

Lemma firstn_all_len {A} (l : list A) : firstn (List.length l) l = l.
Proof. apply firstn_all. Qed.

(* literal without escapes: exactly its raw bytes, exact length, whatever the bytes are *)
Theorem string_get_plain c raw pre :
  string_get c (VString raw false pre) = Some (raw, N.of_nat (List.length raw)).
Proof. reflexivity. Qed.

(* literal with escapes whose decoded content has no NUL: exactly the decoded bytes *)
Theorem string_get_escaped c raw d :
  decode c raw = Some d -> forallb (fun b => negb (Byte.eqb b "000"%byte)) d = true ->
  string_get c (VString raw true None) = Some (d, N.of_nat (List.length d)).
Proof.
  intros Hd Hn. cbn [string_get negb]. rewrite Hd, c_strlen_nul_free by assumption.
  now rewrite firstn_all_len.
Qed.

(* an undefined escape is reported at access time, never returned as garbage *)
Theorem string_get_undefined c raw : decode c raw = None -> string_get c (VString raw true None) = None.
Proof. intros H. cbn [string_get negb]. now rewrite H. Qed.
