(* Proofs/FastPath.v -- the Clinger fast path of number.c, with the operation and table the
   source says (the fastpath items of Gen/Common.v), returns the correctly rounded (nearest, ties to
   even) binary64 value of m * 10^e for every 0 <= m < 2^53 and -22 <= e <= 22.
   Uses Flocq (Coq's Reals axioms appear under Print Assumptions). *)
From Coq Require Import ZArith Reals Lia Lra SpecFloat List Bool String.
From Flocq Require Import Core BinarySingleNaN.
From Verif Require Import Lanes Common Floats.
Import ListNotations.
Local Open Scope Z_scope.

#[export] Instance prec_gt_0_53 : Prec_gt_0 Floats.prec := eq_refl.
#[export] Instance prec_lt_emax_53 : Prec_lt_emax Floats.prec Floats.emax := eq_refl.

Notation prec := Floats.prec.
Notation emax := Floats.emax.
Definition fx := SpecFloat.fexp prec emax.
(* round to nearest, ties to even, in binary64 (no overflow handling): the specification *)
Definition rnd (x : R) : R := round radix2 fx ZnearestE x.

(* SpecFloat's rounding (as computed by the model) is Flocq's rounding in mode NE *)
Lemma rne_equiv s m l : round_nearest_even m l = choice_mode mode_NE s m l.
Proof.
  case l; [reflexivity|intro c]. case c; [ | reflexivity..].
  now simpl; unfold Round.cond_incr; case Z.even.
Qed.

Lemma bra_equiv sx mx ex lx :
  SpecFloat.binary_round_aux prec emax sx mx ex lx =
  BinarySingleNaN.binary_round_aux prec emax mode_NE sx mx ex lx.
Proof.
  unfold SpecFloat.binary_round_aux, BinarySingleNaN.binary_round_aux.
  set (mrse' := shr_fexp _ _ _ _ _). case mrse'; intros mrs' e'; simpl.
  now rewrite (rne_equiv sx).
Qed.

Lemma br_equiv s m e :
  SpecFloat.binary_round prec emax s m e = BinarySingleNaN.binary_round prec emax mode_NE s m e.
Proof.
  unfold SpecFloat.binary_round, BinarySingleNaN.binary_round, shl_align_fexp.
  set (mez := shl_align _ _ _); case mez as [mz ez]. apply bra_equiv.
Qed.

Definition finite_ok (f : spec_float) : Prop :=
  valid_binary prec emax f = true /\ is_finite_SF f = true.

Lemma bound_lt x (k : Z) : (Rabs x <= bpow radix2 k)%R -> 0 <= k < emax ->
  (Rabs (round radix2 fx ZnearestE x) < bpow radix2 emax)%R.
Proof.
  intros Hx Hk. apply Rle_lt_trans with (bpow radix2 k).
  - apply abs_round_le_generic; try typeclasses eauto; [|assumption].
    apply generic_format_bpow. unfold fx, SpecFloat.fexp, SpecFloat.emin, emax, prec in *. lia.
  - apply bpow_lt. lia.
Qed.

(* ---- multiplication of two finite floats ---- *)
Lemma SFmul_correct sx mx ex sy my ey (k : Z) :
  bounded prec emax mx ex = true -> bounded prec emax my ey = true ->
  let x := SF2R radix2 (S754_finite sx mx ex) in
  let y := SF2R radix2 (S754_finite sy my ey) in
  (Rabs (x * y) <= bpow radix2 k)%R -> 0 <= k < emax ->
  let z := SFmul prec emax (S754_finite sx mx ex) (S754_finite sy my ey) in
  finite_ok z /\ SF2R radix2 z = rnd (x * y).
Proof.
  intros Hx Hy x y Hb Hk z.
  pose proof (Bmult_correct_aux prec emax _ _ mode_NE sx mx ex Hx sy my ey Hy) as H.
  cbn zeta in H. destruct H as [Hv H].
  unfold z. cbn [SFmul]. rewrite bra_equiv.
  change (round_mode mode_NE) with ZnearestE in H.
  rewrite Rlt_bool_true in H by (apply (bound_lt _ k); assumption).
  destruct H as (H1 & H2 & _). repeat split; assumption.
Qed.

(* ---- division of two finite floats ---- *)
Lemma SFdiv_correct sx mx ex sy my ey (k : Z) :
  let x := SF2R radix2 (S754_finite sx mx ex) in
  let y := SF2R radix2 (S754_finite sy my ey) in
  (Rabs (x / y) <= bpow radix2 k)%R -> 0 <= k < emax ->
  let z := SFdiv prec emax (S754_finite sx mx ex) (S754_finite sy my ey) in
  finite_ok z /\ SF2R radix2 z = rnd (x / y).
Proof.
  intros x y Hb Hk z.
  pose proof (Bdiv_correct_aux prec emax _ _ mode_NE sx mx ex sy my ey) as H.
  cbn zeta in H. unfold z. cbn [SFdiv].
  destruct (SFdiv_core_binary prec emax (Z.pos mx) ex (Z.pos my) ey) as [[mz ez] lz].
  rewrite bra_equiv. destruct H as [Hv H].
  change (round_mode mode_NE) with ZnearestE in H.
  rewrite Rlt_bool_true in H by (apply (bound_lt _ k); assumption).
  destruct H as (H1 & H2 & _). repeat split; assumption.
Qed.

(* ---- (double) of a small integer is exact ---- *)
Lemma SF2R_finite s m e : SF2R radix2 (S754_finite s m e) = F2R (Float radix2 (cond_Zopp s (Zpos m)) e).
Proof. reflexivity. Qed.

Lemma int_format (m : Z) : 0 < m < 2 ^ 53 -> generic_format radix2 fx (IZR m).
Proof.
  intros Hm. replace (IZR m) with (F2R (Float radix2 m 0)) by (unfold F2R; simpl; lra).
  apply generic_format_F2R. intros _. unfold cexp.
  assert (Hmag : (mag radix2 (F2R (Float radix2 m 0)) <= 53)%Z).
  { apply mag_le_bpow.
    - unfold F2R; simpl. rewrite Rmult_1_r. apply not_0_IZR. lia.
    - unfold F2R; simpl. rewrite Rmult_1_r. rewrite Rabs_pos_eq by (apply IZR_le; lia).
      change (bpow radix2 53) with (IZR (2 ^ 53)). apply IZR_lt. lia. }
  unfold fx, SpecFloat.fexp, SpecFloat.emin, emax, prec. lia.
Qed.

Lemma sf_of_Z_exact (m : Z) : 0 < m < 2 ^ 53 ->
  exists mm ee, sf_of_Z m = S754_finite false mm ee /\ bounded prec emax mm ee = true /\
                SF2R radix2 (sf_of_Z m) = IZR m.
Proof.
  intros Hm. destruct m as [|p|p]; try lia.
  unfold sf_of_Z. cbn [SpecFloat.binary_normalize]. rewrite br_equiv.
  pose proof (binary_round_correct prec emax _ _ mode_NE false p 0) as H. cbn zeta in H.
  destruct H as [Hv H].
  assert (E : F2R (Float radix2 (cond_Zopp false (Z.pos p)) 0) = IZR (Z.pos p))
    by (unfold F2R; simpl; lra).
  rewrite E in H. change (round_mode mode_NE) with ZnearestE in H.
  assert (R : round radix2 (SpecFloat.fexp prec emax) ZnearestE (IZR (Z.pos p)) = IZR (Z.pos p))
    by (apply round_generic; [typeclasses eauto | apply int_format; assumption]).
  rewrite R in H.
  rewrite Rlt_bool_true in H.
  2:{ rewrite Rabs_pos_eq by (apply IZR_le; lia).
      apply Rlt_trans with (IZR (2 ^ 53)); [apply IZR_lt; lia|].
      change (IZR (2 ^ 53)) with (bpow radix2 53). apply bpow_lt. unfold emax. lia. }
  destruct H as (H1 & H2 & H3).
  destruct (BinarySingleNaN.binary_round prec emax mode_NE false p 0) as [s|s| |s mm ee] eqn:Eb;
    try discriminate.
  - exfalso. cbn in H1. apply (not_0_IZR (Z.pos p)); [lia|symmetry; exact H1].
  - cbn in H3. subst s. exists mm, ee. repeat split; assumption.
Qed.

(* ---- the table entries are exactly the powers of ten ---- *)
Definition tbl (t : list Z) (k : Z) : spec_float := sf_of_bits (nthz t k).

Definition entry_is (f : spec_float) (v : Z) : bool :=
  match f with
  | S754_finite false m e =>
    bounded prec emax m e &&
    (if 0 <=? e then Z.pos m * 2 ^ e =? v else Z.pos m =? v * 2 ^ (- e))
  | _ => false
  end.

Lemma entry_is_sound f v : entry_is f v = true ->
  exists m e, f = S754_finite false m e /\ bounded prec emax m e = true /\ SF2R radix2 f = IZR v.
Proof.
  destruct f as [s|s| |s m e]; try discriminate. cbn [entry_is]. destruct s; [discriminate|].
  intros H. apply andb_prop in H as [Hb Hv]. exists m, e. repeat split; [assumption|].
  rewrite SF2R_finite. cbn [cond_Zopp]. unfold F2R. cbn [Fnum Fexp].
  destruct (Z.leb_spec 0 e) as [He|He].
  - apply Z.eqb_eq in Hv. rewrite <- Hv, mult_IZR. f_equal.
    rewrite <- (IZR_Zpower radix2) by assumption. reflexivity.
  - apply Z.eqb_eq in Hv. rewrite Hv, mult_IZR.
    rewrite (IZR_Zpower radix2) by lia. rewrite Rmult_assoc, <- bpow_plus.
    replace (- e + e) with 0 by lia. cbn. lra.
Qed.

Definition pows : list Z := [0;1;2;3;4;5;6;7;8;9;10;11;12;13;14;15;16;17;18;19;20;21;22].

Lemma pos_table_exact : forallb (fun k => entry_is (tbl fastpath_pos_table k) (10 ^ k)) pows = true.
Proof. vm_compute. reflexivity. Qed.
Lemma neg_table_is_pos_table : fastpath_neg_table = fastpath_pos_table.
Proof. reflexivity. Qed.
Lemma fastpath_ops : fastpath_pos_op = "*"%string /\ fastpath_neg_op = "/"%string.
Proof. split; reflexivity. Qed.

Lemma table_entry k : 0 <= k <= 22 ->
  exists m e, tbl fastpath_pos_table k = S754_finite false m e /\ bounded prec emax m e = true /\
              SF2R radix2 (tbl fastpath_pos_table k) = IZR (10 ^ k).
Proof.
  intros Hk. apply entry_is_sound.
  pose proof pos_table_exact as H. rewrite forallb_forall in H. apply H.
  unfold pows.
  assert (C : k = 0 \/ k = 1 \/ k = 2 \/ k = 3 \/ k = 4 \/ k = 5 \/ k = 6 \/ k = 7 \/ k = 8 \/ k = 9 \/
              k = 10 \/ k = 11 \/ k = 12 \/ k = 13 \/ k = 14 \/ k = 15 \/ k = 16 \/ k = 17 \/ k = 18 \/
              k = 19 \/ k = 20 \/ k = 21 \/ k = 22) by lia.
  repeat (destruct C as [-> | C]; [cbn; tauto|]). subst. cbn. tauto.
Qed.

(* ---- the fast path ---- *)
Definition radix10 : radix := Build_radix 10 eq_refl.
(* the real number (-1)^neg * m * 10^e *)
Definition dec_real (neg : bool) (m e : Z) : R := F2R (Float radix10 (cond_Zopp neg m) e).

Lemma dec_real_neg m e : dec_real true m e = (- dec_real false m e)%R.
Proof. unfold dec_real. cbn [cond_Zopp]. apply F2R_Zopp. Qed.

Lemma SF2R_opp f : SF2R radix2 (SFopp f) = (- SF2R radix2 f)%R.
Proof.
  destruct f as [s|s| |s m e]; cbn; try lra.
  rewrite <- F2R_Zopp. f_equal. destruct s; reflexivity.
Qed.

Lemma rnd_opp x : rnd (- x) = (- rnd x)%R.
Proof. unfold rnd. apply round_NE_opp. Qed.

Lemma pow10_pos k : 0 <= k -> 0 < 10 ^ k.
Proof. intros. apply Z.pow_pos_nonneg; lia. Qed.

Lemma fast_path_pos m e :
  0 < m < 2 ^ 53 -> -22 <= e <= 22 ->
  SF2R radix2 (fast_path m e false) = rnd (dec_real false m e).
Proof.
  intros Hm He. unfold fast_path.
  destruct (sf_of_Z_exact m Hm) as (mm & ee & Ed & Bd & Rd).
  destruct fastpath_ops as [Opos Oneg]. rewrite Opos, Oneg, neg_table_is_pos_table.
  unfold apply_op. cbn [String.eqb Ascii.eqb Bool.eqb].
  destruct (Z.ltb_spec e 0) as [Hneg|Hpos].
  - (* division by the exact positive power *)
    destruct (table_entry (- e) ltac:(lia)) as (m2 & e2 & Et & Bt & Rt).
    fold (tbl fastpath_pos_table (- e)). rewrite Ed, Et.
    pose proof (SFdiv_correct false mm ee false m2 e2 53) as H. cbn zeta in H.
    rewrite <- Ed, <- Et, Rd, Rt in H.
    assert (P : 0 < 10 ^ (- e)) by (apply pow10_pos; lia).
    destruct H as [_ H].
    + rewrite Rabs_pos_eq.
      2:{ apply Rmult_le_pos; [apply IZR_le; lia|]. apply Rlt_le, Rinv_0_lt_compat, IZR_lt. lia. }
      apply Rle_trans with (IZR m).
      * rewrite <- (Rmult_1_r (IZR m)) at 2. unfold Rdiv. apply Rmult_le_compat_l; [apply IZR_le; lia|].
        rewrite <- Rinv_1. apply Rinv_le_contravar; [lra|]. apply IZR_le. lia.
      * change (bpow radix2 53) with (IZR (2 ^ 53)). apply IZR_le. lia.
    + unfold emax. lia.
    + rewrite Ed, Et in H. rewrite H. f_equal. unfold dec_real, F2R. cbn [cond_Zopp Fnum Fexp].
      unfold Rdiv. f_equal. replace e with (- (- e)) at 2 by lia. rewrite bpow_opp. f_equal.
      rewrite (IZR_Zpower radix10) by lia. reflexivity.
  - destruct (table_entry e ltac:(lia)) as (m2 & e2 & Et & Bt & Rt).
    fold (tbl fastpath_pos_table e). rewrite Ed, Et.
    pose proof (SFmul_correct false mm ee false m2 e2 127 Bd Bt) as H. cbn zeta in H.
    rewrite <- Ed, <- Et, Rd, Rt in H.
    assert (P : 0 < 10 ^ e) by (apply pow10_pos; lia).
    destruct H as [_ H].
    + rewrite <- mult_IZR. rewrite Rabs_pos_eq by (apply IZR_le; nia).
      change (bpow radix2 127) with (IZR (2 ^ 127)). apply IZR_le.
      assert (10 ^ e <= 10 ^ 22) by (apply Z.pow_le_mono_r; lia).
      assert (m * 10 ^ e <= 2 ^ 53 * 10 ^ 22) by nia. lia.
    + unfold emax. lia.
    + rewrite Ed, Et in H. rewrite H. f_equal. unfold dec_real, F2R. cbn [cond_Zopp Fnum Fexp].
      f_equal. rewrite (IZR_Zpower radix10) by lia. reflexivity.
Qed.

Theorem fast_path_correct m e neg :
  0 <= m < 2 ^ 53 -> -22 <= e <= 22 ->
  SF2R radix2 (fast_path m e neg) = rnd (dec_real neg m e).
Proof.
  intros Hm He. destruct (Z.eq_dec m 0) as [->|Hnz].
  - (* zero mantissa: signed zero *)
    assert (Z0 : rnd (dec_real neg 0 e) = 0%R).
    { unfold dec_real. replace (cond_Zopp neg 0) with 0 by (destruct neg; reflexivity).
      rewrite F2R_0. unfold rnd. apply round_0. typeclasses eauto. }
    rewrite Z0. unfold fast_path.
    destruct fastpath_ops as [Opos Oneg]. rewrite Opos, Oneg, neg_table_is_pos_table.
    unfold apply_op. cbn [String.eqb Ascii.eqb Bool.eqb].
    change (sf_of_Z 0) with (S754_zero false).
    destruct (Z.ltb_spec e 0).
    + destruct (table_entry (- e) ltac:(lia)) as (m2 & e2 & Et & _ & _).
      fold (tbl fastpath_pos_table (- e)). rewrite Et. destruct neg; reflexivity.
    + destruct (table_entry e ltac:(lia)) as (m2 & e2 & Et & _ & _).
      fold (tbl fastpath_pos_table e). rewrite Et. destruct neg; reflexivity.
  - assert (Hp : 0 < m < 2 ^ 53) by lia.
    destruct neg.
    + assert (E : fast_path m e true = SFopp (fast_path m e false)) by reflexivity.
      rewrite E, SF2R_opp, fast_path_pos, dec_real_neg, rnd_opp by assumption. reflexivity.
    + apply fast_path_pos; assumption.
Qed.

(* the guards of parse_double_fast in the model are the literals of the source *)
Lemma fast_path_guards : fastpath_literals = [0; 1; 22; 9007199254740991].
Proof. reflexivity. Qed.
