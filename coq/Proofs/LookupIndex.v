(* Proofs/LookupIndex.v -- C09, first clause, on the sequence fragment of the equality proofs: in a map whose keys are
   pairwise unequal (what the reader's duplicate check guarantees), looking up ANY value equal to key i -- e.g. an
   independently read copy -- returns exactly entry i, and contains-key reports true; whatever hashes are cached. *)
From Coq Require Import ZArith NArith List Bool Lia.
From Verif Require Import Lanes Common Values Floats Numbers Equality Api EqBasics EqEquiv.
Import ListNotations.

Section LI.
Variable c : cfg.
Variable xe : Z -> option (Z -> Z -> bool).
Variable xh : Z -> option (Z -> Z).

Theorem lookup_copy_finds_its_entry pre x post vs k s e mm h :
  Forall (simple c) (pre ++ x :: post) -> Forall (coherent c xh) (pre ++ x :: post) -> coherent c xh k ->
  dup_linear c xe (pre ++ x :: post) = false -> equal c xe x k = true ->
  map_lookup c xe (Node (VMap (pre ++ x :: post) vs) s e mm h) k = Some (List.length pre) /\
  map_contains c xe (Node (VMap (pre ++ x :: post) vs) s e mm h) k = true.
Proof.
  intros Hs Hc Hck Hnd Hxk.
  assert (Hl : map_lookup c xe (Node (VMap (pre ++ x :: post) vs) s e mm h) k = Some (List.length pre)).
  { apply (map_lookup_first c xe). exists pre, x, post. split; [reflexivity|]. split; [reflexivity|]. split; [exact Hxk|].
    apply forallb_forall. intros y Hy. apply negb_true_iff. destruct (equal c xe y k) eqn:Eyk; [|reflexivity]. exfalso.
    rewrite Forall_forall in Hs, Hc.
    assert (Hxs : simple c x) by (apply Hs; apply in_or_app; right; now left).
    assert (Hxc : coherent c xh x) by (apply Hc; apply in_or_app; right; now left).
    assert (Hys : simple c y) by (apply Hs; apply in_or_app; now left).
    assert (Hyc : coherent c xh y) by (apply Hc; apply in_or_app; now left).
    pose proof (equal_sym c xe xh x k Hxs Hxc Hck Hxk) as Hkx.
    pose proof (equal_trans c xe xh y k x Hys Hyc Hck Hxc Eyk Hkx) as Hyx.
    assert (Hdup : dup_linear c xe (pre ++ x :: post) = true).
    { apply (dup_linear_iff c xe). apply in_split in Hy. destruct Hy as (l1 & l2 & ->).
      exists l1, y, l2, x, post. split; [now rewrite <- app_assoc|exact Hyx]. }
    congruence. }
  split; [exact Hl|]. unfold map_contains. now rewrite Hl.
Qed.
End LI.
