(* Proofs/TriviaProofs.v -- inserting trivia (whitespace, commas, LF-terminated comments) in
   front of anything only advances the whitespace scanner by the length of the trivia;
   an input consisting only of trivia is consumed entirely. *)
From Coq Require Import ZArith NArith List Bool Lia.
From Coq.Strings Require Import Byte.
From Verif Require Import Lanes Common Values Scan ScanFacts ScanProofs.
Import ListNotations.

(* state of the byte-at-a-time scanner after consuming all of t: Some in_comment, or None when
   t contains a byte that is not trivia *)
Fixpoint ws_state (inc : bool) (t : list byte) : option bool :=
  match t with
  | [] => Some inc
  | b :: r =>
    if inc then ws_state (negb (is_lf b)) r
    else if is_semi b then ws_state true r
    else if is_ws b then ws_state false r
    else None
  end.

Lemma skip_ws_spec_app inc t l st :
  ws_state inc t = Some st -> skip_ws_spec inc (t ++ l) = (List.length t + skip_ws_spec st l)%nat.
Proof.
  revert inc. induction t as [|b r IH]; intros inc; cbn [ws_state app skip_ws_spec List.length].
  - intros H. inversion H. reflexivity.
  - destruct inc.
    + intros H. rewrite (IH _ H). reflexivity.
    + destruct (is_semi b); [intros H; rewrite (IH _ H); reflexivity|].
      destruct (is_ws b); [intros H; rewrite (IH _ H); reflexivity|discriminate].
Qed.

(* complete trivia: ends outside a comment *)
Definition trivia (t : list byte) : Prop := ws_state false t = Some false.

Theorem trivia_insertion t l : trivia t ->
  skip_ws_spec false (t ++ l) = (List.length t + skip_ws_spec false l)%nat.
Proof. apply skip_ws_spec_app. Qed.

(* a document consisting only of trivia (possibly ending inside a comment) is skipped whole *)
Theorem trivia_only t st : ws_state false t = Some st -> skip_ws_spec false t = List.length t.
Proof.
  intros H. pose proof (skip_ws_spec_app false t [] st H) as E. rewrite app_nil_r in E. rewrite E.
  destruct st; cbn; lia.
Qed.

(* lifted to the accelerated scanner on any memory *)
Theorem skip_ws_trivia_insertion m p e t :
  (p <= e)%N -> trivia t -> (N.of_nat (List.length t) <= e - p)%N ->
  slice m p (List.length t) = t ->
  skip_ws m p e = skip_ws m (p + N.of_nat (List.length t)) e.
Proof.
  intros Hle Ht Hlen Hsl. rewrite !skip_ws_correct by lia.
  replace (N.to_nat (e - p)) with (List.length t + N.to_nat (e - (p + N.of_nat (List.length t))))%nat by lia.
  rewrite slice_app, Hsl, trivia_insertion by assumption. lia.
Qed.
