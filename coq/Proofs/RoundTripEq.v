(* Proofs/RoundTripEq.v -- the fragment of RoundTrip.v seen through the library's own equality and hash:
   the tree the reader returns for a term has the normal form [canon t] and no cached hashes; hence two trees
   read from ANY two renderings of terms are equal under edn_value_equal exactly when the terms have the same
   normal form, equal trees hash alike, and in particular two renderings of one term that differ only in
   their trivia (RoundTripWs) are read to equal values (C13 for whole documents, with the equality users call).
   The nesting bound is the equality's own recursion cap (finding K10: beyond it not even  x = x  holds). *)
From Coq Require Import ZArith NArith List Bool Lia String.
From Coq.Strings Require Import Byte.
From Verif Require Import Lanes Common Values Floats Scan Numbers Equality Tokens Reader Configs EqBasics EqEquiv
     NumLiteral FlagProofs FuelMono RoundTrip RoundTripWs.
Import ListNotations.
Local Open Scope N_scope.

Fixpoint tdepth (t : term) : nat :=
  match t with
  | TVec l | TList l => S (fold_right (fun x a => Nat.max (tdepth x) a) O l)
  | _ => 1%nat
  end.

Section Eq.
Variable c : cfg.
Variable xe : Z -> option (Z -> Z -> bool).
Variable xh : Z -> option (Z -> Z).

Definition canon_int (neg : bool) (ds : bytes) : cval :=
  match int_literal_value c neg ds with
  | VInt z => CInt z
  | VBigInt n r d => CBigInt r n (clean_digits c d)
  | _ => CNil
  end.
Fixpoint canon (t : term) : cval :=
  match t with
  | TKw nm => CSym true (opt_len None) (opt_bytes None) nm
  | TInt neg ds => canon_int neg ds
  | TVec l | TList l => CSeq (map canon l)
  end.

Lemma denotes_nf : forall f t n, (tdepth t <= f)%nat -> denotes c t n -> nf c f n = Some (canon t) /\ cache_ok c xh f n.
Proof.
  induction f as [|f IH]; intros t n Hd Hden.
  - destruct t; cbn [tdepth] in Hd; lia.
  - assert (Hseq : forall l xs, (fold_right (fun x a => Nat.max (tdepth x) a) O l <= f)%nat -> Forall2 (denotes c) l xs ->
                    sequence (map (nf c f) xs) = Some (map canon l) /\ Forall (cache_ok c xh f) xs).
    { intros l xs Hl H2. induction H2 as [|x y l' xs' Hxy H2 IH2]; [split; [reflexivity|constructor]|].
      cbn [fold_right] in Hl. destruct (IH x y ltac:(lia) Hxy) as [Hn Hc]. destruct (IH2 ltac:(lia)) as [Hs Hcs].
      cbn [map sequence]. rewrite Hn, Hs. split; [reflexivity|now constructor]. }
    inversion Hden as [nm n0 Hv Hh|neg ds n0 Hv Hh|l xs n0 Hv Hh H2|l xs n0 Hv Hh H2]; subst; cbn [nf cache_ok].
    + rewrite Hv. split; [reflexivity|]. split; [now left|exact I].
    + cbn [canon]. unfold canon_int. unfold int_literal_value in *.
      destruct neg; [destruct (decimal_value c ds <=? two63)%Z|destruct (decimal_value c ds <=? int64_max)%Z];
        rewrite Hv; (split; [reflexivity|split; [now left|exact I]]).
    + rewrite Hv. cbn [tdepth] in Hd. destruct (Hseq l xs ltac:(lia) H2) as [Hs Hc]. rewrite Hs. split; [reflexivity|]. split; [now left|exact Hc].
    + rewrite Hv. cbn [tdepth] in Hd. destruct (Hseq l xs ltac:(lia) H2) as [Hs Hc]. rewrite Hs. split; [reflexivity|]. split; [now left|exact Hc].
Qed.

(* the library's equality on trees read from two terms decides equality of the normal forms *)
Theorem denotes_equal_iff t1 t2 n1 n2 : (tdepth t1 <= max_depth)%nat -> (tdepth t2 <= max_depth)%nat ->
  denotes c t1 n1 -> denotes c t2 n2 -> (equal c xe n1 n2 = true <-> canon t1 = canon t2).
Proof.
  intros H1 H2 D1 D2. destruct (denotes_nf _ _ _ H1 D1) as [N1 C1]. destruct (denotes_nf _ _ _ H2 D2) as [N2 C2].
  unfold equal. rewrite (equal_iff_nf c xe xh max_depth n1 n2 _ N1 C1 C2), N2. split; [now intros [= ->]|now intros ->].
Qed.

Corollary denotes_equal t n1 n2 : (tdepth t <= max_depth)%nat -> denotes c t n1 -> denotes c t n2 -> equal c xe n1 n2 = true.
Proof. intros H D1 D2. now apply (denotes_equal_iff t t n1 n2). Qed.

Corollary denotes_same_hash t n1 n2 : (tdepth t <= max_depth)%nat -> denotes c t n1 -> denotes c t n2 ->
  hash_value c xh n1 = hash_value c xh n2.
Proof.
  intros H D1 D2. destruct (denotes_nf _ _ _ H D1) as [N1 C1]. destruct (denotes_nf _ _ _ H D2) as [N2 C2].
  apply (equal_same_hash c xe xh n1 n2); [now exists (canon t)|exact C1|exact C2|now apply (denotes_equal t)].
Qed.
End Eq.

(* ---- whole documents: two renderings of a term that differ only in trivia are read to equal values ---- *)
Theorem renderings_read_equal c o m1 m2 a1 a2 : In c all_cfgs -> awf a1 -> awf a2 -> erase a1 = erase a2 ->
  (tdepth (erase a1) <= max_depth)%nat ->
  slice m1 0 (List.length (prg a1)) = prg a1 -> slice m2 0 (List.length (prg a2)) = prg a2 ->
  exists r1 s1 n1 r2 s2 n2,
    run_doc c o m1 (N.of_nat (List.length (prg a1))) = Ret r1 s1 /\ r_value r1 = Some n1 /\ r_err r1 = EOk /\
    run_doc c o m2 (N.of_nat (List.length (prg a2))) = Ret r2 s2 /\ r_value r2 = Some n2 /\ r_err r2 = EOk /\
    equal c no_ext_equal n1 n2 = true /\ hash_value c no_ext_hash n1 = hash_value c no_ext_hash n2.
Proof.
  intros Hc H1 H2 He Hd Hs1 Hs2.
  destruct (trivia_never_changes_the_value c o m1 m2 a1 a2 Hc H1 H2 He Hs1 Hs2) as (r1 & s1 & n1 & r2 & s2 & n2 & A1 & B1 & C1 & A2 & B2 & C2 & D1 & D2).
  exists r1, s1, n1, r2, s2, n2. repeat split; try assumption.
  - now apply (denotes_equal c no_ext_equal no_ext_hash (erase a1)).
  - now apply (denotes_same_hash c no_ext_equal no_ext_hash (erase a1)).
Qed.

(* and two documents of the fragment are read to equal values exactly when their terms have the same normal form *)
Theorem documents_equal_iff c o m1 m2 a1 a2 : In c all_cfgs -> awf a1 -> awf a2 ->
  (tdepth (erase a1) <= max_depth)%nat -> (tdepth (erase a2) <= max_depth)%nat ->
  slice m1 0 (List.length (prg a1)) = prg a1 -> slice m2 0 (List.length (prg a2)) = prg a2 ->
  exists r1 s1 n1 r2 s2 n2,
    run_doc c o m1 (N.of_nat (List.length (prg a1))) = Ret r1 s1 /\ r_value r1 = Some n1 /\
    run_doc c o m2 (N.of_nat (List.length (prg a2))) = Ret r2 s2 /\ r_value r2 = Some n2 /\
    (equal c no_ext_equal n1 n2 = true <-> canon c (erase a1) = canon c (erase a2)).
Proof.
  intros Hc H1 H2 Hd1 Hd2 Hs1 Hs2.
  destruct (read_document_ws c o m1 a1 Hc H1 Hs1) as (r1 & s1 & n1 & A1 & B1 & C1 & _).
  destruct (read_document_ws c o m2 a2 Hc H2 Hs2) as (r2 & s2 & n2 & A2 & B2 & C2 & _).
  exists r1, s1, n1, r2, s2, n2. repeat split; try assumption.
  - now apply (denotes_equal_iff c no_ext_equal no_ext_hash (erase a1) (erase a2) n1 n2 Hd1 Hd2 C1 C2).
  - now apply (denotes_equal_iff c no_ext_equal no_ext_hash (erase a1) (erase a2) n1 n2 Hd1 Hd2 C1 C2).
Qed.

(* ---- C18 on the fragment: the four builds read a document of the fragment to the same value ---- *)
Lemma int_literal_cfg c1 c2 neg ds : forallb is_dig ds = true -> int_literal_value c1 neg ds = int_literal_value c2 neg ds.
Proof. intros H. unfold int_literal_value. now rewrite !decimal_value_positional. Qed.

Lemma denotes_cfg c1 c2 : forall k t, (tsize t <= k)%nat -> wft t -> forall nd, denotes c1 t nd -> denotes c2 t nd.
Proof.
  induction k as [|k IH]; intros t Hs Hw nd Hd; [destruct t; cbn [tsize] in Hs; lia|].
  assert (Hseq : forall l xs, (fold_right (fun x a => tsize x + a)%nat O l <= k)%nat -> fold_right (fun x a => wft x /\ a) True l ->
                   Forall2 (denotes c1) l xs -> Forall2 (denotes c2) l xs).
  { intros l xs Hl Hwl H2. induction H2 as [|x y l' xs' Hxy H2 IH2]; [constructor|]. cbn [fold_right] in Hl, Hwl. destruct Hwl as [Hwx Hwl].
    constructor; [apply (IH x); [lia|assumption|assumption]|apply IH2; [lia|assumption]]. }
  inversion Hd as [nm n0 Hv Hh|neg ds n0 Hv Hh|l xs n0 Hv Hh H2|l xs n0 Hv Hh H2]; subst.
  - now constructor.
  - destruct Hw as (_ & Hdig & _). constructor; [|assumption]. now rewrite (int_literal_cfg c2 c1).
  - cbn [tsize wft] in Hs, Hw. econstructor; [eassumption|assumption|]. apply Hseq; [lia|assumption|assumption].
  - cbn [tsize wft] in Hs, Hw. econstructor; [eassumption|assumption|]. apply Hseq; [lia|assumption|assumption].
Qed.

Lemma awf_wft : forall k a, (asize a <= k)%nat -> awf a -> wft (erase a).
Proof.
  induction k as [|k IH]; intros a Hs Hw; [destruct a; cbn [asize] in Hs; lia|].
  destruct a as [nm|neg ds|vec els tl]; [exact Hw|exact Hw|].
  cbn [awf] in Hw. destruct Hw as (_ & Hels & _). cbn [asize] in Hs.
  assert (H : fold_right (fun x a => wft x /\ a) True (map (fun p => erase (snd p)) els)).
  { clear -IH Hs Hels. induction els as [|p t IHt]; [exact I|]. cbn [fold_right map] in *. destruct Hels as (_ & Hp & Ht).
    split; [apply IH; [lia|assumption]|apply IHt; [lia|assumption]]. }
  cbn [erase]. destruct vec; exact H.
Qed.

Theorem builds_read_equal c1 c2 o1 o2 m a : In c1 all_cfgs -> In c2 all_cfgs -> awf a ->
  (tdepth (erase a) <= max_depth)%nat -> slice m 0 (List.length (prg a)) = prg a ->
  exists r1 s1 n1 r2 s2 n2,
    run_doc c1 o1 m (N.of_nat (List.length (prg a))) = Ret r1 s1 /\ r_value r1 = Some n1 /\ r_err r1 = EOk /\
    run_doc c2 o2 m (N.of_nat (List.length (prg a))) = Ret r2 s2 /\ r_value r2 = Some n2 /\ r_err r2 = EOk /\
    denotes c1 (erase a) n1 /\ denotes c1 (erase a) n2 /\
    equal c1 no_ext_equal n1 n2 = true /\ equal c2 no_ext_equal n1 n2 = true.
Proof.
  intros H1 H2 Hw Hd Hs.
  destruct (read_document_ws c1 o1 m a H1 Hw Hs) as (r1 & s1 & n1 & A1 & B1 & C1 & D1 & _).
  destruct (read_document_ws c2 o2 m a H2 Hw Hs) as (r2 & s2 & n2 & A2 & B2 & C2 & D2 & _).
  pose proof (awf_wft _ a (le_n _) Hw) as Hwt.
  pose proof (denotes_cfg c2 c1 _ _ (le_n _) Hwt n2 C2) as C2'. pose proof (denotes_cfg c1 c2 _ _ (le_n _) Hwt n1 C1) as C1'.
  exists r1, s1, n1, r2, s2, n2. repeat split; try assumption.
  - now apply (denotes_equal c1 no_ext_equal no_ext_hash (erase a)).
  - now apply (denotes_equal c2 no_ext_equal no_ext_hash (erase a)).
Qed.

(* non-vacuity: a rendering with commas, a comment, tabs and no separator at all where none is needed *)
Example rendering_example :
  let a := ASeq true [([], AInt false ["1"%byte]); ([","; " "]%byte, ASeq false [([" "]%byte, AKw ["a"%byte]); ([";"; "c"; "010"]%byte, AInt true ["2"; "0"]%byte)] ["009"%byte]);
                      ([","]%byte, ASeq true [] [])] [" "]%byte in
  awf a /\ prg a = list_byte_of_string ("[1, ( :a;c" ++ String (Ascii.ascii_of_nat 10) ("-20" ++ String (Ascii.ascii_of_nat 9) "),[] ]")) /\
  erase a = TVec [TInt false ["1"%byte]; TList [TKw ["a"%byte]; TInt true ["2"; "0"]%byte]; TVec []] /\
  (tdepth (erase a) <= max_depth)%nat.
Proof. split; [|split; [reflexivity|split; [reflexivity|vm_compute; lia]]]. cbn. repeat split; try discriminate; try reflexivity; left; discriminate. Qed.
