(* Proofs/ByteSweep.v -- lifting a 256-value computation to "forall b : byte" *)
From Coq Require Import ZArith NArith List Bool Lia.
From Coq.Strings Require Import Byte.
From Verif Require Import Lanes.
Import ListNotations.

Lemma all_bytes_nth (b : byte) : nth (N.to_nat (Byte.to_N b)) all_bytes x00 = b.
Proof. destruct b; reflexivity. Qed.

Lemma all_bytes_length : length all_bytes = 256%nat.
Proof. reflexivity. Qed.

Lemma all_bytes_complete (b : byte) : In b all_bytes.
Proof.
  rewrite <- (all_bytes_nth b). apply nth_In. rewrite all_bytes_length.
  pose proof (Byte.to_N_bounded b). lia.
Qed.

(* the finite sweep: the domain is the 256 byte values, all of them *)
Lemma byte_sweep (P : byte -> bool) : forallb P all_bytes = true -> forall b, P b = true.
Proof. intros H b. rewrite forallb_forall in H. apply H, all_bytes_complete. Qed.

Lemma bz_range (b : byte) : (0 <= bz b < 256)%Z.
Proof. unfold bz. pose proof (Byte.to_N_bounded b). lia. Qed.
