(* Proofs/FidelityProofs.v -- symbols and keywords are read with exactly their namespace and
   name bytes (identifier.c model + the PROVED chunked identifier scanner), for identifiers
   of any length at any offset. *)
From Coq Require Import ZArith NArith List Bool Lia String.
From Coq.Strings Require Import Byte.
From Verif Require Import Lanes Common Values Scan Numbers Tokens ScanProofs.
Import ListNotations.
Local Open Scope list_scope.
Local Open Scope N_scope.

(* constituent byte: no delimiter, no colon, no slash *)
Definition identb (b : byte) : bool := negb (is_delim b) && negb (is_colon b) && negb (is_slash b).

Lemma ident_spec_run l : forall pc slash i rest, l <> [] -> forallb identb l = true ->
  ident_spec pc slash i (l ++ rest) = ident_spec false slash (i + List.length l) rest.
Proof.
  induction l as [|b t IH]; intros pc slash i rest Hne Hall; [congruence|].
  cbn [forallb] in Hall. apply andb_true_iff in Hall. destruct Hall as [Hb Ht].
  unfold identb in Hb. apply andb_true_iff in Hb. destruct Hb as [Hb Hs]. apply andb_true_iff in Hb. destruct Hb as [Hd Hc].
  apply negb_true_iff in Hd, Hc, Hs.
  cbn [app ident_spec]. rewrite Hd, Hc, Hs. cbn [andb].
  destruct t as [|b2 t2].
  - cbn [app List.length]. replace (i + 1)%nat with (S i) by lia. destruct slash; reflexivity.
  - rewrite IH; [|discriminate|assumption]. cbn [List.length]. replace (S i + S (List.length t2))%nat with (i + S (S (List.length t2)))%nat by lia.
    destruct slash; reflexivity.
Qed.

Lemma ident_spec_stop pc slash i rest :
  (rest = [] \/ exists b t, rest = b :: t /\ is_delim b = true) -> ident_spec pc slash i rest = Some (i, slash).
Proof. intros [->|[b [t [-> Hb]]]]; cbn [ident_spec]; [reflexivity|]. now rewrite Hb. Qed.

Section Fid.
Variable c : cfg.
Variable m : mem.
Variable e : N.

(* the bytes l stand at offset p and are followed by a delimiter or the end of input *)
Definition stands (p : N) (l : bytes) : Prop :=
  p + N.of_nat (List.length l) <= e /\ slice m p (List.length l) = l /\
  (p + N.of_nat (List.length l) = e \/ is_delim (m (p + N.of_nat (List.length l))) = true).

Lemma stands_split p l : stands p l ->
  exists rest, slice m p (N.to_nat (e - p)) = l ++ rest /\ (rest = [] \/ exists b t, rest = b :: t /\ is_delim b = true).
Proof.
  intros [Hle [Hs Hend]]. set (n := List.length l) in *.
  replace (N.to_nat (e - p)) with (n + N.to_nat (e - (p + N.of_nat n)))%nat by lia.
  rewrite slice_app, Hs. eexists. split; [reflexivity|].
  destruct Hend as [He|Hd].
  - left. replace (e - (p + N.of_nat n)) with 0 by lia. reflexivity.
  - destruct (N.eq_dec (p + N.of_nat n) e) as [He|Hne].
    + left. replace (e - (p + N.of_nat n)) with 0 by lia. reflexivity.
    + right. replace (N.to_nat (e - (p + N.of_nat n))) with (S (N.to_nat (e - (p + N.of_nat n) - 1))) by lia.
      rewrite slice_S. eauto.
Qed.

Lemma subm_slice a n : subm m a (a + N.of_nat n) = slice m a n.
Proof. unfold subm. f_equal. lia. Qed.

Lemma identb_not_colon b : identb b = true -> is_colon b = false.
Proof. unfold identb. intros H. apply andb_true_iff in H. destruct H as [H _]. apply andb_true_iff in H. destruct H as [_ H]. now apply negb_true_iff. Qed.

(* an unqualified symbol *)
Theorem read_symbol_plain s l : l <> [] -> forallb identb l = true -> stands (cur s) l ->
  bytes_eqb l (lit "nil") = false -> bytes_eqb l (lit "true") = false -> bytes_eqb l (lit "false") = false ->
  read_identifier m e s =
  Ret (Some (mk (VSymbol None l) (cur s) (cur s + N.of_nat (List.length l)))) (with_cur s (cur s + N.of_nat (List.length l))).
Proof.
  intros Hne Hall Hst Hn Ht Hf. pose proof Hst as [Hle [Hs Hend]].
  assert (Hc0 : is_colon (m (cur s)) = false).
  { clear -Hs Hall Hne. destruct l as [|b t]; [congruence|]. cbn [List.length] in Hs. rewrite slice_S in Hs. injection Hs as Hb _.
    rewrite Hb. cbn [forallb] in Hall. apply andb_true_iff in Hall. now apply identb_not_colon. }
  destruct (stands_split _ _ Hst) as [rest [Hsl Hrest]].
  unfold read_identifier, split_identifier.
  rewrite scan_identifier_correct by lia. rewrite Hsl, ident_spec_run by assumption.
  rewrite ident_spec_stop by assumption. cbn [lift_slash Nat.add].
  set (n := List.length l) in *. assert (Hn0 : (0 < n)%nat) by (destruct l; [congruence|cbn; lia]).
  replace (cur s + N.of_nat n =? cur s) with false by (symmetry; apply N.eqb_neq; lia).
  replace (cur s + N.of_nat n - cur s) with (N.of_nat n) by lia.
  rewrite subm_slice, Hs.
  rewrite Hc0, Hn, Ht, Hf. reflexivity.
Qed.

(* an unqualified keyword: colon, then the name *)
Theorem read_keyword_plain s l : l <> [] -> forallb identb l = true -> stands (cur s) (":"%byte :: l) ->
  read_identifier m e s =
  Ret (Some (mk (VKeyword None l) (cur s) (cur s + 1 + N.of_nat (List.length l)))) (with_cur s (cur s + 1 + N.of_nat (List.length l))).
Proof.
  intros Hne Hall Hst. pose proof Hst as [Hle [Hs Hend]].
  cbn [List.length] in Hs, Hle. rewrite slice_S in Hs. injection Hs as Hb Hs.
  assert (Hc1 : is_colon (m (cur s + 1)) = false).
  { clear -Hs Hall Hne. destruct l as [|b t]; [congruence|]. cbn [List.length] in Hs. rewrite slice_S in Hs. injection Hs as Hb1 _.
    rewrite Hb1. cbn [forallb] in Hall. apply andb_true_iff in Hall. now apply identb_not_colon. }
  destruct (stands_split _ _ Hst) as [rest [Hsl Hrest]].
  unfold read_identifier, split_identifier.
  rewrite scan_identifier_correct by lia. rewrite Hsl.
  cbn [app ident_spec]. replace (is_delim ":"%byte) with false by (vm_compute; reflexivity).
  cbn [is_colon Byte.eqb andb]. replace (is_colon ":"%byte && false) with false by reflexivity.
  replace (is_slash ":"%byte) with false by reflexivity.
  rewrite ident_spec_run by assumption. rewrite ident_spec_stop by assumption. cbn [lift_slash].
  set (n := List.length l) in *. assert (Hn0 : (0 < n)%nat) by (destruct l; [congruence|cbn; lia]).
  replace (cur s + N.of_nat (1 + n) =? cur s) with false by (symmetry; apply N.eqb_neq; lia).
  replace (cur s + N.of_nat (1 + n) - cur s) with (N.of_nat (1 + n)) by lia.
  rewrite Hb. replace (is_colon ":"%byte) with true by reflexivity.
  replace (N.of_nat (1 + n) - 1 =? 0) with false by (symmetry; apply N.eqb_neq; lia).
  rewrite Hc1.
  replace (cur s + N.of_nat (1 + n)) with (cur s + 1 + N.of_nat n) by lia.
  rewrite subm_slice, Hs. reflexivity.
Qed.
End Fid.
