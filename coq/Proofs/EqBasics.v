(* Proofs/EqBasics.v -- first facts about the equality / hashing / lookup / duplicate models:
   what does not participate in equality, the linear duplicate check, first-match lookup. *)
From Coq Require Import ZArith NArith List Bool Lia.
From Coq.Strings Require Import Byte.
From Coq.Floats Require Import SpecFloat.
From Verif Require Import Lanes Common Values Floats Numbers Equality Api.
Import ListNotations.
Local Open Scope Z_scope.

Section Basics.
Variable c : cfg.
Variable xe : Z -> option (Z -> Z -> bool).
Variable xh : Z -> option (Z -> Z).

(* equality looks only at the value and the cached hash of a node: source range and
   metadata do not participate *)
Lemma equal_fuel_ignores f v s1 e1 m1 s2 e2 m2 h b :
  equal_fuel c xe f (Node v s1 e1 m1 h) b = equal_fuel c xe f (Node v s2 e2 m2 h) b.
Proof. destruct f; reflexivity. Qed.

Lemma equal_fuel_ignores_r f a v s1 e1 m1 s2 e2 m2 h :
  equal_fuel c xe f a (Node v s1 e1 m1 h) = equal_fuel c xe f a (Node v s2 e2 m2 h).
Proof. destruct f; reflexivity. Qed.

Theorem equal_ignores_meta a b mm : equal c xe (set_meta a mm) b = equal c xe a b.
Proof. destruct a. apply equal_fuel_ignores. Qed.
Theorem equal_ignores_meta_r a b mm : equal c xe a (set_meta b mm) = equal c xe a b.
Proof. destruct b. apply equal_fuel_ignores_r. Qed.
Theorem equal_ignores_range a b s e : equal c xe (set_range a s e) b = equal c xe a b.
Proof. destruct a. apply equal_fuel_ignores. Qed.

Lemma hash_fuel_ignores f v s1 e1 m1 h1 s2 e2 m2 h2 :
  hash_fuel c xh f (Node v s1 e1 m1 h1) = hash_fuel c xh f (Node v s2 e2 m2 h2).
Proof. destruct f; reflexivity. Qed.

(* NaN equals NaN; +0.0 equals -0.0 and they hash alike *)
Lemma nan_eq_nan : float_eq S754_nan S754_nan = true. Proof. reflexivity. Qed.
Lemma zeros_eq : float_eq (S754_zero false) (S754_zero true) = true. Proof. reflexivity. Qed.
Lemma zeros_hash : float_hash_bits (S754_zero false) = float_hash_bits (S754_zero true). Proof. reflexivity. Qed.

(* ---- the pairwise duplicate check finds exactly the equal pairs ---- *)
Definition has_equal_pair (l : list node) : Prop :=
  exists l1 x l2 y l3, l = l1 ++ x :: l2 ++ y :: l3 /\ equal c xe x y = true.

Theorem dup_linear_iff l : dup_linear c xe l = true <-> has_equal_pair l.
Proof.
  induction l as [|x t IH]; cbn [dup_linear].
  - split; [discriminate|]. intros (l1 & a & l2 & b & l3 & E & _). destruct l1; discriminate.
  - rewrite orb_true_iff, existsb_exists, IH. split.
    + intros [[y [Hy He]]|(l1 & a & l2 & b & l3 & E & He)].
      * apply in_split in Hy as (l2 & l3 & ->). exists [], x, l2, y, l3. split; [reflexivity|assumption].
      * exists (x :: l1), a, l2, b, l3. split; [now rewrite E|assumption].
    + intros (l1 & a & l2 & b & l3 & E & He). destruct l1 as [|z l1]; cbn in E; inversion E; subst.
      * left. exists b. split; [apply in_or_app; right; left; reflexivity|assumption].
      * right. exists l1, a, l2, b, l3. split; [reflexivity|assumption].
Qed.

(* ---- lookup returns the first entry whose key equals the probe ---- *)
Lemma first_equal_spec ks k i0 r :
  first_equal c xe ks k i0 = Some r <->
  exists pre x post, ks = pre ++ x :: post /\ r = (i0 + List.length pre)%nat /\
                     equal c xe x k = true /\ forallb (fun y => negb (equal c xe y k)) pre = true.
Proof.
  revert i0. induction ks as [|x t IH]; intros i0; cbn [first_equal]; unfold eqv.
  - split; [discriminate|]. intros (pre & y & post & E & _). destruct pre; discriminate.
  - destruct (equal c xe x k) eqn:Ex.
    + split.
      * intros H. inversion H; subst. exists [], x, t. cbn [app List.length forallb]. repeat split; try assumption; lia.
      * intros (pre & y & post & E & -> & Hy & Hpre). destruct pre as [|z pre]; cbn [app List.length forallb] in *.
        -- f_equal. lia.
        -- inversion E; subst. rewrite Ex in Hpre. discriminate.
    + rewrite IH. split.
      * intros (pre & y & post & -> & -> & Hy & Hpre). exists (x :: pre), y, post. cbn [app List.length forallb].
        rewrite Ex. repeat split; try assumption; lia.
      * intros (pre & y & post & E & -> & Hy & Hpre). destruct pre as [|z pre]; cbn [app List.length forallb] in *.
        -- inversion E; subst. congruence.
        -- inversion E; subst. apply andb_prop in Hpre as [_ Hpre].
           exists pre, y, post. repeat split; try assumption; lia.
Qed.

Lemma first_equal_none ks k i0 :
  first_equal c xe ks k i0 = None <-> forallb (fun y => negb (equal c xe y k)) ks = true.
Proof.
  revert i0. induction ks as [|x t IH]; intros i0; cbn [first_equal forallb]; unfold eqv; [tauto|].
  destruct (equal c xe x k); cbn [negb andb]; [split; discriminate|apply IH].
Qed.

Theorem contains_agrees_with_lookup m k :
  map_contains c xe m k = match map_lookup c xe m k with Some _ => true | None => false end.
Proof. reflexivity. Qed.

(* a temporary key built by the convenience helpers has no cached hash, so the cached-hash
   short cut can never reject it *)
Lemma temp_keys_uncached ns nm key :
  nhash (temp_keyword ns nm) = 0 /\ nhash (temp_string key) = 0.
Proof. split; reflexivity. Qed.

Variable sort : list node -> list node.

Lemma has_duplicates_small l : 2 <= Z.of_nat (List.length l) <= LINEAR_THRESHOLD ->
  fst (has_duplicates c xe xh sort l) = dup_linear c xe l.
Proof.
  intros H. unfold has_duplicates.
  destruct (Z.leb_spec (Z.of_nat (List.length l)) 1); [lia|].
  destruct (Z.leb_spec (Z.of_nat (List.length l)) LINEAR_THRESHOLD); [reflexivity|lia].
Qed.

Lemma dup_sorted_gate l :
  forallb sort_comparable l = false -> dup_sorted c xe sort l = dup_linear c xe l.
Proof. intros H. unfold dup_sorted. now rewrite H. Qed.

Lemma map_lookup_first ks vs k s e mm h r :
  map_lookup c xe (Node (VMap ks vs) s e mm h) k = Some r <->
  exists pre x post, ks = pre ++ x :: post /\ r = List.length pre /\
                     equal c xe x k = true /\ forallb (fun y => negb (equal c xe y k)) pre = true.
Proof. unfold map_lookup. cbn [nval]. rewrite first_equal_spec. reflexivity. Qed.

Lemma map_lookup_absent ks vs k s e mm h :
  forallb (fun y => negb (equal c xe y k)) ks = true ->
  map_lookup c xe (Node (VMap ks vs) s e mm h) k = None /\
  map_contains c xe (Node (VMap ks vs) s e mm h) k = false.
Proof.
  intros H. unfold map_contains, map_lookup. cbn [nval].
  apply (first_equal_none ks k O) in H. now rewrite H.
Qed.

Lemma helpers_are_lookup m name ns key :
  map_get_keyword c xe m name = map_lookup c xe m (temp_keyword None name) /\
  map_get_ns_keyword c xe m ns name = map_lookup c xe m (temp_keyword (Some ns) name) /\
  map_get_string_key c xe m key = map_lookup c xe m (temp_string key) /\
  nhash (temp_keyword None name) = 0 /\ nhash (temp_string key) = 0.
Proof. repeat split. Qed.

Lemma meta_not_in_equality a b mm :
  equal c xe (set_meta a mm) b = equal c xe a b /\ equal c xe a (set_meta b mm) = equal c xe a b.
Proof. split; [apply equal_ignores_meta | apply equal_ignores_meta_r]. Qed.

Lemma nan_and_zeros :
  float_eq S754_nan S754_nan = true /\ float_eq (S754_zero false) (S754_zero true) = true /\
  float_hash_bits (S754_zero false) = float_hash_bits (S754_zero true).
Proof. repeat split. Qed.
End Basics.
