(* Proofs/RoundTripRange.v -- source ranges on the fragment of RoundTripGap.v (C11 at the level of whole documents):
   every node of the tree read from a document of the fragment carries EXACTLY the span of the text of the sub-term it
   denotes -- start at the first byte of the form (behind all trivia and discarded forms), end behind its last byte --
   at every nesting depth; hence re-reading exactly that byte range yields an equal value, and the ranges of the
   children lie inside the parent's, in order, without overlap (they are the spans of consecutive pieces of text). *)
From Coq Require Import ZArith NArith List Bool Lia String.
From Coq.Strings Require Import Byte.
From Verif Require Import Lanes Common Values Floats Scan ScanFacts Numbers Equality Tokens Reader Configs ByteSweep ScanProofs
     FidelityProofs NumProgress NumLiteral FlagProofs FuelMono TriviaProofs TriviaReader ReaderInv EqBasics EqEquiv
     RoundTrip RoundTripWs RoundTripEq RoundTripGap RoundTripErr.
Import ListNotations.
Local Open Scope N_scope.

(* P holds at every node of the tree, each paired with the sub-term it was read from and the offset of that sub-term's text *)
Inductive tree_all (P : gterm -> N -> node -> Prop) : gterm -> N -> node -> Prop :=
| TAKw nm p n : P (GKw nm) p n -> tree_all P (GKw nm) p n
| TAInt neg ds p n : P (GInt neg ds) p n -> tree_all P (GInt neg ds) p n
| TASeq vec els tl p n xs : P (GSeq vec els tl) p n -> nval n = (if vec then VVector xs else VList xs) ->
    list_all P els (p + 1) xs -> tree_all P (GSeq vec els tl) p n
with list_all (P : gterm -> N -> node -> Prop) : list (list gitem * gterm) -> N -> list node -> Prop :=
| LANil q : list_all P [] q []
| LACons g x t q y ys : tree_all P x (q + N.of_nat (List.length (gappr g))) y ->
    list_all P t (q + N.of_nat (List.length (gappr g ++ gpr x))) ys -> list_all P ((g, x) :: t) q (y :: ys).

Scheme tree_all_mind := Minimality for tree_all Sort Prop
  with list_all_mind := Minimality for list_all Sort Prop.
Combined Scheme tree_list_all_ind from tree_all_mind, list_all_mind.

(* the node's range is exactly the span of the sub-term's text *)
Definition exact (a : gterm) (p : N) (n : node) : Prop := nrs n = p /\ nre n = p + N.of_nat (List.length (gpr a)).

Section RNG.
Variable c : cfg.
Hypothesis Hc : In c all_cfgs.
Variable o : opts.
Variable handler : Z -> node -> option node * option bytes.
Variable xe : Z -> option (Z -> Z -> bool).
Variable xh : Z -> option (Z -> Z).
Variable sort : list node -> list node.
Variable m : mem.
Variable e : N.

Notation RV := (read_value c o handler xe xh sort m e).
Notation RS := (read_seq c o handler xe xh sort m e).
Notation RE := (read_elems c o handler xe xh sort m e).
Notation follow := (ends_at m e).
Notation stops := (stops c o handler xe xh sort m e).

Definition RGIH (n : nat) : Prop := forall a, (gsize a <= n)%nat -> gwf a -> forall s, is_ok s = true ->
  cur s + N.of_nat (List.length (gpr a)) <= e -> slice m (cur s) (List.length (gpr a)) = gpr a ->
  follow (cur s + N.of_nat (List.length (gpr a))) ->
  exists f0, forall f, (f0 <= f)%nat -> exists nd s', RV f s = Ret (Some nd) s' /\ tree_all exact a (cur s) nd /\
    cur s' = cur s + N.of_nat (List.length (gpr a)) /\ is_ok s' = true /\ depth s' = depth s.

(* a gap, then a form: the node starts behind the gap *)
Lemma rgap_value n g x : RGIH n -> gapwf g -> alt g -> ends_ws g -> (gsize x <= n)%nat -> gwf x -> forall s, is_ok s = true ->
  let txt := gappr g ++ gpr x in
  cur s + N.of_nat (List.length txt) <= e -> slice m (cur s) (List.length txt) = txt -> follow (cur s + N.of_nat (List.length txt)) ->
  exists f0, forall f, (f0 <= f)%nat -> exists nx sx, RV f s = Ret (Some nx) sx /\
    tree_all exact x (cur s + N.of_nat (List.length (gappr g))) nx /\
    cur sx = cur s + N.of_nat (List.length txt) /\ is_ok sx = true /\ depth sx = depth s.
Proof.
  intros IH Hwg Halt Hends Hszx Hwx s Hok txt Hle Hsl Hfol. unfold txt in *. clear txt.
  rewrite app_length in Hle, Hsl, Hfol |- *. rewrite slice_app in Hsl. apply app_eq_len in Hsl; [|now rewrite slice_length].
  destruct Hsl as [Hsg Hsx]. destruct (gpr_first x Hwx) as (b & r & Epx & Hb1 & Hb2 & _).
  assert (Hlx : (0 < List.length (gpr x))%nat) by (rewrite Epx; cbn; lia).
  pose proof (byte_at m _ _ _ _ Epx Hsx) as Hmb.
  destruct (gap_skip c Hc o handler xe xh sort m e g Hwg Halt s Hok ltac:(lia) Hsg ltac:(now rewrite Hmb) ltac:(now rewrite Hmb) (or_introl Hends))
    as (k & f0 & s2 & Hc2 & Hok2 & Hd2 & Hrun).
  destruct (IH x Hszx Hwx s2 Hok2 ltac:(rewrite Hc2; lia) ltac:(rewrite Hc2; exact Hsx)
              ltac:(rewrite Hc2; replace (cur s + N.of_nat (List.length (gappr g)) + N.of_nat (List.length (gpr x)))
                       with (cur s + N.of_nat (List.length (gappr g) + List.length (gpr x))) by lia; exact Hfol)) as (fx & Hfx).
  exists (S (Nat.max f0 fx) + k)%nat. intros f Hf.
  replace f with (S (f - k - 1) + k)%nat by lia. rewrite (Hrun (f - k - 1)%nat) by lia.
  destruct (Hfx (S (f - k - 1)) ltac:(lia)) as (nx & sx & Hr & Hsp & Hcx & Hokx & Hdx). rewrite Hr.
  destruct (lvn_ret k (Some nx) sx) as (s' & E & H1 & H2 & H3). rewrite E. exists nx, s'. split; [reflexivity|].
  split; [rewrite <- Hc2; exact Hsp|]. split; [rewrite H1, Hcx, Hc2; lia|]. split; [now rewrite H2|]. now rewrite H3, Hdx, Hd2.
Qed.

Definition szs (n : nat) (l : list (list gitem * gterm)) : Prop := Forall (fun p => (gsize (snd p) <= n)%nat) l.

(* the element loop in front of a stopping position, with the ranges of the elements *)
Lemma rloop_all n (d : N -> Prop) (Q : pst -> Prop) : RGIH n -> forall l, szs n l -> Forall elwf l -> Forall (fun p => starts_ws (fst p)) l ->
  forall pend, (l <> [] -> follow pend) -> stops pend d Q ->
  forall s acc, is_ok s = true -> d (depth s) ->
  cur s + N.of_nat (List.length (ltext l)) = pend -> pend <= e -> slice m (cur s) (List.length (ltext l)) = ltext l ->
  exists f0, forall f, (f0 <= f)%nat -> exists xs s',
    RE f s acc = Ret (Some (rev acc ++ xs)) s' /\ list_all exact l (cur s) xs /\ Q s'.
Proof.
  intros IH. induction l as [|[g x] t IHl]; intros Hsz Hw Hst pend Hfol Hstop s acc Hok Hd Hend Hle Hsl.
  - unfold ltext in *. cbn [map List.concat List.length N.of_nat] in *. destruct (Hstop s ltac:(lia) Hok Hd) as (f0 & Hf0). exists (S f0). intros f Hf. destruct f as [|f]; [lia|].
    destruct (Hf0 f ltac:(lia)) as (s' & Hr & HQ). rewrite RE_S. unfold elems_body. rewrite Hr.
    exists [], s'. rewrite app_nil_r. repeat split; [constructor|exact HQ].
  - destruct (Forall_inv Hw) as [[Hwg [Haltg Hendg]] Hwx]. pose proof (Forall_inv_tail Hw) as Hwt. pose proof (Forall_inv Hst) as Hsg. pose proof (Forall_inv_tail Hst) as Hstt.
    pose proof (Forall_inv Hsz) as Hszx. pose proof (Forall_inv_tail Hsz) as Hszt. cbn [fst snd] in *.
    unfold ltext in Hend, Hsl. cbn [map List.concat fst snd] in Hend, Hsl. fold (ltext t) in Hend, Hsl. rewrite app_length in Hend, Hsl.
    rewrite slice_app in Hsl. apply app_eq_len in Hsl; [|now rewrite slice_length]. destruct Hsl as [Hgx Ht].
    set (q := cur s + N.of_nat (List.length (gappr g ++ gpr x))) in *.
    assert (Hfq : follow q).
    { destruct t as [|[g2 x2] t2].
      - unfold ltext in Hend. cbn [map List.concat List.length] in Hend. replace q with pend by (unfold q; lia). apply Hfol. discriminate.
      - destruct (Forall_inv Hwt) as [[Hwg2 _] _]. pose proof (Forall_inv Hstt) as Hsg2. cbn [fst snd] in *.
        destruct (gap_ws_first g2 Hwg2 Hsg2) as (b & rr & E & Hn).
        assert (Er : ltext ((g2, x2) :: t2) = b :: rr ++ gpr x2 ++ ltext t2).
        { unfold ltext. cbn [map List.concat fst snd]. rewrite E. cbn [app]. now rewrite <- app_assoc. }
        right. split; [rewrite Er in Hend; cbn [List.length] in Hend; unfold q; lia|].
        rewrite (byte_at m q _ b _ Er Ht). exact Hn. }
    destruct (rgap_value n g x IH Hwg Haltg Hendg Hszx Hwx s Hok ltac:(fold q; lia) Hgx Hfq) as (fv & Hfv).
    destruct (Hfv fv (le_n _)) as (nx & sx & Hrx & Hspx & Hcx & Hokx & Hdpx). fold q in Hcx.
    destruct (IHl Hszt Hwt Hstt pend ltac:(intros _; apply Hfol; discriminate) Hstop sx (nx :: acc) Hokx ltac:(now rewrite Hdpx)
                  ltac:(rewrite Hcx; unfold q; lia) Hle ltac:(rewrite Hcx; exact Ht)) as (ft & Hft).
    exists (S (Nat.max fv ft)). intros f Hf. destruct f as [|f]; [lia|]. rewrite RE_S. unfold elems_body.
    assert (Hrx' : RV f s = Ret (Some nx) sx).
    { replace f with (fv + (f - fv))%nat by lia. apply read_value_fuel_irrelevant; [exact Hrx|discriminate]. }
    rewrite Hrx'. destruct (Hft f ltac:(lia)) as (xs & s' & Hre & Hla & HQ).
    exists (nx :: xs), s'. split.
    { rewrite Hre. cbn [rev]. rewrite <- app_assoc. reflexivity. }
    split; [|exact HQ]. constructor; [exact Hspx|]. rewrite Hcx in Hla. exact Hla.
Qed.

Lemma rloop_first n (d : N -> Prop) (Q : pst -> Prop) : RGIH n -> forall l, szs n l -> Forall elwf l -> seps_ok l ->
  forall pend, (l <> [] -> follow pend) -> stops pend d Q ->
  forall s, is_ok s = true -> d (depth s) ->
  cur s + N.of_nat (List.length (ltext l)) = pend -> pend <= e -> slice m (cur s) (List.length (ltext l)) = ltext l ->
  exists f0, forall f, (f0 <= f)%nat -> exists xs s',
    RE f s [] = Ret (Some xs) s' /\ list_all exact l (cur s) xs /\ Q s'.
Proof.
  intros IH l Hsz Hw Hseps pend Hfol Hstop s Hok Hd Hend Hle Hsl. destruct l as [|[g x] t].
  - destruct (rloop_all n d Q IH [] (Forall_nil _) (Forall_nil _) (Forall_nil _) pend Hfol Hstop s [] Hok Hd Hend Hle Hsl) as (f0 & Hf0).
    exists f0. intros f Hf. destruct (Hf0 f Hf) as (xs & s' & H1 & H2 & H3). exists xs, s'. cbn [rev app] in H1. repeat split; assumption.
  - destruct (Forall_inv Hw) as [[Hwg [Haltg Hendg]] Hwx]. pose proof (Forall_inv_tail Hw) as Hwt. cbn [seps_ok] in Hseps.
    pose proof (Forall_inv Hsz) as Hszx. pose proof (Forall_inv_tail Hsz) as Hszt. cbn [fst snd] in *.
    unfold ltext in Hend, Hsl. cbn [map List.concat fst snd] in Hend, Hsl. fold (ltext t) in Hend, Hsl. rewrite app_length in Hend, Hsl.
    rewrite slice_app in Hsl. apply app_eq_len in Hsl; [|now rewrite slice_length]. destruct Hsl as [Hgx Ht].
    set (q := cur s + N.of_nat (List.length (gappr g ++ gpr x))) in *.
    assert (Hfq : follow q).
    { destruct t as [|[g2 x2] t2].
      - unfold ltext in Hend. cbn [map List.concat List.length] in Hend. replace q with pend by (unfold q; lia). apply Hfol. discriminate.
      - destruct (Forall_inv Hwt) as [[Hwg2 _] _]. pose proof (Forall_inv Hseps) as Hsg2. cbn [fst snd] in *.
        destruct (gap_ws_first g2 Hwg2 Hsg2) as (b & rr & E & Hn).
        assert (Er : ltext ((g2, x2) :: t2) = b :: rr ++ gpr x2 ++ ltext t2).
        { unfold ltext. cbn [map List.concat fst snd]. rewrite E. cbn [app]. now rewrite <- app_assoc. }
        right. split; [rewrite Er in Hend; cbn [List.length] in Hend; unfold q; lia|].
        rewrite (byte_at m q _ b _ Er Ht). exact Hn. }
    destruct (rgap_value n g x IH Hwg Haltg Hendg Hszx Hwx s Hok ltac:(fold q; lia) Hgx Hfq) as (fv & Hfv).
    destruct (Hfv fv (le_n _)) as (nx & sx & Hrx & Hspx & Hcx & Hokx & Hdpx). fold q in Hcx.
    destruct (rloop_all n d Q IH t Hszt Hwt Hseps pend ltac:(intros _; apply Hfol; discriminate) Hstop sx [nx] Hokx ltac:(now rewrite Hdpx)
                  ltac:(rewrite Hcx; unfold q; lia) Hle ltac:(rewrite Hcx; exact Ht)) as (ft & Hft).
    exists (S (Nat.max fv ft)). intros f Hf. destruct f as [|f]; [lia|]. rewrite RE_S. unfold elems_body.
    assert (Hrx' : RV f s = Ret (Some nx) sx).
    { replace f with (fv + (f - fv))%nat by lia. apply read_value_fuel_irrelevant; [exact Hrx|discriminate]. }
    rewrite Hrx'. destruct (Hft f ltac:(lia)) as (xs & s' & Hre & Hla & HQ).
    exists (nx :: xs), s'. cbn [rev app] in Hre. split; [exact Hre|]. split; [|exact HQ].
    constructor; [exact Hspx|]. rewrite Hcx in Hla. exact Hla.
Qed.

Lemma szs_els n (els : list (list gitem * gterm)) :
  (fold_right (fun p acc => fold_right (fun it a2 => isize it + a2) O (fst p) + gsize (snd p) + acc) O els <= n)%nat -> szs n els.
Proof. induction els as [|p t IH]; cbn [fold_right]; intros H; constructor; [lia|apply IH; lia]. Qed.

Theorem read_gterm_ranges : forall n, RGIH n.
Proof.
  induction n as [|n IH]; intros a Hsz Hw s Hok Hle Hsl Hf.
  - destruct a; cbn in Hsz; lia.
  - destruct a as [nm|neg ds|vec els tl].
    + destruct Hw as [Hne Hid]. exists 1%nat. intros f Hf1. destruct f as [|f]; [lia|].
      destruct (rv_keyword_node c Hc o handler xe xh sort m e f s nm Hok Hne Hid Hle Hsl Hf) as (s' & Hr & H1 & H2 & H3).
      rewrite Hr. eexists. exists s'. split; [reflexivity|]. split; [|repeat split; assumption].
      constructor. split; [reflexivity|]. cbn [nre mk gpr List.length]. lia.
    + destruct Hw as (Hne & Hd & Hl). exists 1%nat. intros f Hf1. destruct f as [|f]; [lia|].
      destruct (rv_int_node c Hc o handler xe xh sort m e f s neg ds Hok Hne Hd Hl Hle Hsl Hf) as (s' & Hr & H1 & H2 & H3).
      rewrite Hr. eexists. exists s'. split; [reflexivity|]. split; [|repeat split; assumption].
      constructor. split; reflexivity.
    + pose proof Hw as Hw0. cbn [gwf] in Hw. destruct Hw as (Hwtl & Halttl & Htok & Hwels & Hsts).
      set (K := kind_of_vec vec). set (cl := closer_of K).
      assert (Hcl : cl = "]"%byte \/ cl = ")"%byte) by (unfold cl, K; destruct vec; [left|right]; reflexivity).
      assert (Hpr : gpr (GSeq vec els tl) = opener vec :: ltext els ++ gappr tl ++ [cl]) by (unfold cl, K, ltext, gappr; destruct vec; reflexivity).
      rewrite Hpr in Hle, Hsl, Hf |- *. cbn [List.length] in Hle, Hsl, Hf |- *. apply byte_hd in Hsl. destruct Hsl as [Hb Hbody].
      rewrite app_length in Hle, Hbody, Hf. rewrite slice_app in Hbody. apply app_eq_len in Hbody; [|now rewrite slice_length]. destruct Hbody as [Hels Htail].
      cbn [gsize] in Hsz.
      assert (Hszels : szs n els) by (apply szs_els; lia).
      pose proof (elwf_Forall els Hwels) as Hwf.
      assert (Hseps : seps_ok els) by (destruct els as [|p0 t0]; [exact I|]; cbn [seps_ok]; apply starts_Forall; exact Hsts).
      set (pend := cur s + 1 + N.of_nat (List.length (ltext els))) in *.
      assert (Hstop := stop_closer c Hc o handler xe xh sort m e cl tl pend Hcl Hwtl Halttl ltac:(unfold pend; lia) Htail).
      assert (Hfol : els <> [] -> follow pend).
      { intros Hne. right. destruct byte_facts as (_ & _ & _ & _ & N2 & N3 & _).
        destruct tl as [|[t0|ws d] r].
        - cbn [gappr map List.concat app List.length] in *. split; [unfold pend; lia|]. apply byte_hd in Htail. destruct Htail as [-> _].
          destruct Hcl as [-> | ->]; assumption.
        - destruct (gap_ws_first (GWs t0 :: r) Hwtl I) as (b & rr & E & Hn).
          assert (E2 : gappr (GWs t0 :: r) ++ [cl] = b :: rr ++ [cl]) by now rewrite E.
          split; [rewrite E2 in Hle; cbn [List.length] in Hle; unfold pend; lia|]. now rewrite (byte_at m pend _ b _ E2 Htail).
        - destruct els; [congruence|contradiction]. }
      set (s0 := with_start (enter s) (cur s)).
      set (s1 := with_depth (with_cur s0 (cur s0 + 1)) (depth s0 + 1)).
      assert (Hc1 : cur s1 = cur s + 1) by reflexivity.
      destruct (rloop_first n (fun d => d <> 0) _ IH els Hszels Hwf Hseps pend Hfol Hstop s1 Hok ltac:(unfold s1; cbn; lia)
                  ltac:(rewrite Hc1; reflexivity) ltac:(unfold pend; lia) ltac:(rewrite Hc1; exact Hels)) as (f0 & Hf0).
      exists (S (S f0)). intros f Hf'. destruct f as [|[|f]]; try lia.
      rewrite (rv_opener c Hc o handler xe xh sort m e (S f) s vec ltac:(lia) Hb).
      destruct (Hf0 f ltac:(lia)) as (xs & s2 & Hr & Hla & Hok2 & Hc2 & Hm2).
      rewrite RS_S. unfold seq_body. fold s0. fold s1. rewrite Hr, Hok2. cbn [negb].
      replace (e <=? cur s2) with false by (symmetry; apply N.leb_gt; lia).
      rewrite Hm2. fold K. fold cl. rewrite (Byte.byte_dec_lb eq_refl). cbn [negb].
      set (s3 := with_depth (with_cur s2 (cur s2 + 1)) (depth s2 - 1)).
      assert (Hc3 : cur s3 = cur s + N.of_nat (S (List.length (ltext els) + List.length (gappr tl ++ [cl])))) by (unfold s3; cbn [cur with_depth with_cur]; unfold pend in Hc2; lia).
      assert (Hd2 : depth s2 = depth s1).
      { (* the protocol invariant: a reader restores the depth *)
        pose proof (readers_good c o handler xe xh sort m e f) as (_ & _ & G & _).
        pose proof (G s1 [] Hok) as G1. rewrite Hr in G1. cbn [good_elems] in G1. exact (proj1 G1). }
      unfold K, kind_of_vec. destruct vec; cbn [lv].
      * eexists. eexists. split; [reflexivity|]. split.
        { econstructor; [split; [reflexivity|]|reflexivity|exact Hla]. cbn [nre mk cur leave]. rewrite Hc3, Hpr. cbn [List.length]. rewrite !app_length. cbn [List.length]. lia. }
        cbn [cur leave is_ok err depth]. split; [rewrite Hc3, !app_length; reflexivity|]. split; [exact Hok2|]. unfold s3. cbn [depth with_depth]. rewrite Hd2. unfold s1. cbn. lia.
      * eexists. eexists. split; [reflexivity|]. split.
        { econstructor; [split; [reflexivity|]|reflexivity|exact Hla]. cbn [nre mk cur leave]. rewrite Hc3, Hpr. cbn [List.length]. rewrite !app_length. cbn [List.length]. lia. }
        cbn [cur leave is_ok err depth]. split; [rewrite Hc3, !app_length; reflexivity|]. split; [exact Hok2|]. unfold s3. cbn [depth with_depth]. rewrite Hd2. unfold s1. cbn. lia.
Qed.
End RNG.

(* ---- what every node of the tree knows ---- *)
Definition shift (m : mem) (p : N) : mem := fun i => m (p + i).
Lemma slice_shift m p k : slice (shift m p) 0 k = slice m p k.
Proof. unfold slice, shift. apply map_ext. intros i. f_equal. Qed.

Section FULL.
Variable c : cfg.
Variable m : mem.

(* the node's range is the span of the sub-term's text, that text stands there, and the node denotes the sub-term *)
Definition full (a : gterm) (p : N) (n : node) : Prop :=
  exact a p n /\ gwf a /\ slice m p (List.length (gpr a)) = gpr a /\ denotes c (gerase a) n.

Lemma enrich :
  (forall a p n, tree_all exact a p n -> gwf a -> slice m p (List.length (gpr a)) = gpr a -> denotes c (gerase a) n -> tree_all full a p n) /\
  (forall l q xs, list_all exact l q xs -> Forall (fun p => gwf (snd p)) l -> slice m q (List.length (ltext l)) = ltext l ->
                  Forall2 (denotes c) (map (fun p => gerase (snd p)) l) xs -> list_all full l q xs).
Proof.
  apply tree_list_all_ind.
  - intros nm p n He Hw Hs Hd. constructor. exact (conj He (conj Hw (conj Hs Hd))).
  - intros neg ds p n He Hw Hs Hd. constructor. exact (conj He (conj Hw (conj Hs Hd))).
  - intros vec els tl p n xs He Hv _ IHl Hw Hs Hd. econstructor; [exact (conj He (conj Hw (conj Hs Hd)))|exact Hv|].
    apply IHl.
    + cbn [gwf] in Hw. destruct Hw as (_ & _ & _ & Hels & _). clear -Hels. induction els as [|p0 t IH]; [constructor|].
      cbn [fold_right] in Hels. constructor; [tauto|apply IH; tauto].
    + assert (Hpr : gpr (GSeq vec els tl) = opener vec :: ltext els ++ gappr tl ++ [closer_of (kind_of_vec vec)]) by (unfold ltext, gappr; destruct vec; reflexivity).
      rewrite Hpr in Hs. cbn [List.length] in Hs. rewrite slice_S in Hs. injection Hs as _ Hs.
      rewrite app_length, slice_app in Hs. apply app_eq_len in Hs; [|now rewrite slice_length]. exact (proj1 Hs).
    + cbn [gerase] in Hd. destruct vec; inversion Hd as [| |l0 xs0 n0 Hv0 _ HF|l0 xs0 n0 Hv0 _ HF]; subst; rewrite Hv in Hv0; injection Hv0 as <-; exact HF.
  - intros q _ _ _. constructor.
  - intros g x t q y ys _ IHx _ IHt Hw Hs Hd.
    pose proof (Forall_inv Hw) as Hwx. pose proof (Forall_inv_tail Hw) as Hwt. cbn [snd] in Hwx.
    unfold ltext in Hs. cbn [map List.concat fst snd] in Hs. fold (ltext t) in Hs. rewrite <- app_assoc in Hs.
    rewrite !app_length in Hs. rewrite slice_app in Hs. apply app_eq_len in Hs; [|now rewrite slice_length]. destruct Hs as [_ Hs].
    rewrite slice_app in Hs. apply app_eq_len in Hs; [|now rewrite slice_length]. destruct Hs as [Hsx Hst].
    cbn [map snd] in Hd. inversion Hd as [|? ? ? ? Hdx Hdt]; subst.
    constructor; [apply IHx; assumption|]. apply IHt; [assumption| |assumption].
    rewrite app_length. replace (q + N.of_nat (List.length (gappr g) + List.length (gpr x))) with (q + N.of_nat (List.length (gappr g)) + N.of_nat (List.length (gpr x))) by lia. exact Hst.
Qed.
End FULL.

Lemma tree_all_impl (P Q : gterm -> N -> node -> Prop) : (forall a p n, P a p n -> Q a p n) ->
  (forall a p n, tree_all P a p n -> tree_all Q a p n) /\ (forall l q xs, list_all P l q xs -> list_all Q l q xs).
Proof.
  intros H. apply tree_list_all_ind; intros; try (constructor; auto; fail).
  econstructor; eauto.
Qed.

(* ---- whole documents ---- *)
Theorem read_document_ranges c o m a : In c all_cfgs -> gwf a ->
  slice m 0 (List.length (gpr a)) = gpr a ->
  exists r s n, run_doc c o m (N.of_nat (List.length (gpr a))) = Ret r s /\ r_value r = Some n /\ r_err r = EOk /\
                tree_all (full c m) a 0 n.
Proof.
  intros Hc Hw Hsl. set (e := N.of_nat (List.length (gpr a))).
  destruct (read_gterm_ranges c Hc o builtin_handler no_ext_equal no_ext_hash (isort c) m e (gsize a) a (le_n _) Hw init_pst eq_refl
              ltac:(cbn [cur init_pst]; unfold e; lia) Hsl ltac:(left; cbn [cur init_pst]; unfold e; lia)) as (f0 & Hf0).
  destruct (Hf0 f0 (le_n _)) as (n & s' & Hr & Hsp & Hcur & Hok & Hdep).
  assert (Herr : err s' = EOk) by (now apply is_ok_iff).
  assert (Hdoc : exists r, read_doc c o builtin_handler no_ext_equal no_ext_hash (isort c) m e f0 = Ret r s' /\
                           r_value r = Some n /\ r_err r = EOk).
  { unfold read_doc. rewrite Hr. cbv zeta. rewrite Hok.
    assert (Heof : is_eof s' = false) by (unfold is_eof; now rewrite Herr). rewrite Heof. cbn [andb].
    eexists. split; [reflexivity|]. cbn. split; [reflexivity|assumption]. }
  destruct Hdoc as (r & Hrd & Hv & He).
  pose proof (any_fuel_is_the_run c o m e f0 _ Hc Hrd ltac:(discriminate)) as Hrun.
  destruct (read_document_gap c o m a Hc Hw Hsl) as (r' & s'' & n' & A & B & C & _). fold e in A.
  rewrite Hrun in A. injection A as <- <-. rewrite Hv in B. injection B as <-.
  exists r, s', n. repeat split; try assumption.
  exact (proj1 (enrich c m) a 0 n Hsp Hw Hsl C).
Qed.

(* C11: re-reading exactly the byte range of ANY node of the tree yields a value equal to that node *)
Definition rereads (c : cfg) (o : opts) (m : mem) (a : gterm) (p : N) (n : node) : Prop :=
  nrs n = p /\ nre n = p + N.of_nat (List.length (gpr a)) /\
  exists r s n', run_doc c o (shift m (nrs n)) (nre n - nrs n) = Ret r s /\ r_value r = Some n' /\ r_err r = EOk /\
                 denotes c (gerase a) n /\ denotes c (gerase a) n' /\
                 ((tdepth (gerase a) <= max_depth)%nat -> equal c no_ext_equal n n' = true).

Theorem every_range_rereads c o m a : In c all_cfgs -> gwf a ->
  slice m 0 (List.length (gpr a)) = gpr a ->
  exists r s n, run_doc c o m (N.of_nat (List.length (gpr a))) = Ret r s /\ r_value r = Some n /\ r_err r = EOk /\
                tree_all (rereads c o m) a 0 n.
Proof.
  intros Hc Hw Hsl. destruct (read_document_ranges c o m a Hc Hw Hsl) as (r & s & n & A & B & C & D).
  exists r, s, n. repeat split; try assumption.
  refine (proj1 (tree_all_impl (full c m) (rereads c o m) _) a 0 n D).
  intros a' p' n' ((E1 & E2) & Hw' & Hs' & Hd'). split; [exact E1|]. split; [exact E2|].
  rewrite E1, E2. replace (p' + N.of_nat (List.length (gpr a')) - p') with (N.of_nat (List.length (gpr a'))) by lia.
  destruct (read_document_gap c o (shift m p') a' Hc Hw' ltac:(rewrite slice_shift; exact Hs')) as (r' & s' & n'' & A' & B' & C' & D' & _).
  exists r', s', n''. repeat split; try assumption.
  intros Hdep. now apply (denotes_equal c no_ext_equal no_ext_hash (gerase a')).
Qed.

(* C12: a gap (blanks, comments, discarded forms) in front of the document only shifts every position by its length *)
Theorem leading_gap_shifts c o m g a : In c all_cfgs -> gapwf g -> alt g -> ends_ws g -> gwf a ->
  slice m 0 (List.length (gappr g ++ gpr a)) = gappr g ++ gpr a ->
  exists r s n, run_doc c o m (N.of_nat (List.length (gappr g ++ gpr a))) = Ret r s /\ r_value r = Some n /\ r_err r = EOk /\
                tree_all (full c m) a (N.of_nat (List.length (gappr g))) n.
Proof.
  intros Hc Hg Ha He Hw Hsl. set (e := N.of_nat (List.length (gappr g ++ gpr a))).
  destruct (rgap_value c Hc o builtin_handler no_ext_equal no_ext_hash (isort c) m e (gsize a) g a
              (read_gterm_ranges c Hc o builtin_handler no_ext_equal no_ext_hash (isort c) m e (gsize a)) Hg Ha He (le_n _) Hw init_pst eq_refl
              ltac:(cbn [cur init_pst]; unfold e; lia) Hsl ltac:(left; cbn [cur init_pst]; unfold e; lia)) as (f0 & Hf0).
  destruct (gap_value c Hc o builtin_handler no_ext_equal no_ext_hash (isort c) m e g a Hg Ha He Hw init_pst eq_refl
              ltac:(cbn [cur init_pst]; unfold e; lia) Hsl ltac:(left; cbn [cur init_pst]; unfold e; lia)) as (f1 & Hf1).
  destruct (Hf0 (Nat.max f0 f1) ltac:(lia)) as (n & s' & Hr & Hsp & Hcur & Hok & Hdep).
  destruct (Hf1 (Nat.max f0 f1) ltac:(lia)) as (n1 & s1 & Hr1 & Hden & _).
  rewrite Hr in Hr1. injection Hr1 as <- <-.
  assert (Herr : err s' = EOk) by (now apply is_ok_iff).
  assert (Hdoc : exists r, read_doc c o builtin_handler no_ext_equal no_ext_hash (isort c) m e (Nat.max f0 f1) = Ret r s' /\
                           r_value r = Some n /\ r_err r = EOk).
  { unfold read_doc. rewrite Hr. cbv zeta. rewrite Hok.
    assert (Heof : is_eof s' = false) by (unfold is_eof; now rewrite Herr). rewrite Heof. cbn [andb].
    eexists. split; [reflexivity|]. cbn. split; [reflexivity|assumption]. }
  destruct Hdoc as (r & Hrd & Hv & Hee).
  exists r, s', n. split; [apply (any_fuel_is_the_run c o m e _ _ Hc Hrd); discriminate|]. repeat split; try assumption.
  cbn [cur init_pst] in Hsp. rewrite N.add_0_l in Hsp.
  rewrite app_length, slice_app in Hsl. apply app_eq_len in Hsl; [|now rewrite slice_length]. destruct Hsl as [_ Hsa]. rewrite N.add_0_l in Hsa.
  exact (proj1 (enrich c m) a _ n Hsp Hw Hsa Hden).
Qed.
