(* Proofs/NumFloatLit.v -- the literal scanner on plain decimal fractions (C05 at the token level):
   [sign] d1...dk . f1...fn  with at most 15 digits in all, followed by the end of the input or a
   number delimiter, reads -- under every flag set -- as the binary64 number NEAREST (ties to even)
   to the decimal value of the literal, with the cursor right behind the last digit.
   (Scanner control flow + parse_double on the token text + fast_path_correct.) *)
From Coq Require Import ZArith NArith List Bool Lia String Reals.
From Coq.Strings Require Import Byte.
From Coq.Floats Require Import SpecFloat.
From Flocq Require Import Core BinarySingleNaN.
From Verif Require Import Lanes Common Values Floats Scan Numbers Tokens ByteSweep ScanProofs Swar Int64 NumProgress NumLiteral FastPath.
Import ListNotations.
Local Open Scope N_scope.

Lemma positional_app a b acc : positional (a ++ b) acc = positional b (positional a acc).
Proof. revert acc. induction a as [|x a IH]; intros acc; cbn [app positional]; [reflexivity|apply IH]. Qed.
Lemma positional_bound ds : forallb is_dig ds = true -> forall acc, (0 <= acc)%Z ->
  (0 <= positional ds acc < (acc + 1) * 10 ^ Z.of_nat (List.length ds))%Z.
Proof.
  induction ds as [|d t IH]; intros H acc Ha; cbn [positional List.length].
  - cbn. lia.
  - cbn [forallb] in H. apply andb_prop in H as [H1 H2]. pose proof (proj1 (is_dig_range _) H1) as Hr.
    specialize (IH H2 (acc * 10 + (bz d - 48))%Z ltac:(lia)).
    rewrite Nat2Z.inj_succ, Z.pow_succ_r by lia. nia.
Qed.

Lemma acc_digits_run ex : forall ds mant cnt rest, forallb is_dig ds = true ->
  (cnt + Z.of_nat (List.length ds) <= 18)%Z ->
  (match rest with [] => True | b :: _ => is_dig b = false /\ is_us b = false end) ->
  acc_digits ex (ds ++ rest) mant cnt = (positional ds mant, (cnt + Z.of_nat (List.length ds))%Z, rest).
Proof.
  induction ds as [|d t IH]; intros mant cnt rest Hd Hc Hr; cbn [app acc_digits positional List.length].
  - rewrite Z.add_0_r. destruct rest as [|b r]; [reflexivity|]. destruct Hr as [H1 H2]. cbn [acc_digits].
    now rewrite H2, andb_false_r, H1.
  - cbn [forallb] in Hd. apply andb_prop in Hd as [H1 H2]. rewrite (dig_not_us' _ H1), andb_false_r, H1.
    replace (cnt <? 18)%Z with true by (symmetry; apply Z.ltb_lt; cbn [List.length] in Hc; lia).
    rewrite IH; [|assumption|cbn [List.length] in Hc; lia|assumption]. unfold dval. f_equal. f_equal. cbn [List.length]. lia.
Qed.

(* parse_double on the text of the literal *)
Lemma parse_double_fraction (c : cfg) (neg : bool) (sign ds1 ds2 : list byte) :
  (sign = [] /\ neg = false \/ sign = ["-"%byte] /\ neg = true \/ sign = ["+"%byte] /\ neg = false) ->
  ds1 <> [] -> forallb is_dig ds1 = true -> forallb is_dig ds2 = true ->
  (List.length ds1 + List.length ds2 <= 15)%nat ->
  parse_double c (sign ++ ds1 ++ "."%byte :: ds2) =
  DOk (fast_path (positional (ds1 ++ ds2) 0) (- Z.of_nat (List.length ds2)) neg).
Proof.
  intros Hsign Hne H1 H2 Hlen. unfold parse_double. cbv zeta.
  assert (Hhead : (match sign ++ ds1 ++ "."%byte :: ds2 with
                   | ch :: t => if is_byte ch "-" then (true, t) else if is_byte ch "+" then (false, t) else (false, sign ++ ds1 ++ "."%byte :: ds2)
                   | [] => (false, []) end) = (neg, ds1 ++ "."%byte :: ds2)).
  { destruct Hsign as [[-> ->]|[[-> ->]|[-> ->]]]; cbn [app]; try reflexivity.
    destruct ds1 as [|d t]; [congruence|]. cbn [app]. cbn [forallb] in H1. apply andb_prop in H1 as [Hd _].
    assert (Hs : forallb (fun b => implb (is_dig b) (negb (is_byte b "-") && negb (is_byte b "+"))) all_bytes = true) by (vm_compute; reflexivity).
    pose proof (byte_sweep _ Hs d) as Hb. cbv beta in Hb. rewrite Hd in Hb. cbn [implb] in Hb.
    apply andb_prop in Hb as [A B]. apply negb_true_iff in A, B. now rewrite A, B. }
  rewrite Hhead. clear Hhead.
  rewrite (acc_digits_run (exp c) ds1 0 0 ("."%byte :: ds2)); [|assumption|lia|split; reflexivity].
  cbv beta iota. change (is_byte "." ".") with true. cbv beta iota.
  replace ds2 with (ds2 ++ []) at 1 by apply app_nil_r.
  rewrite (acc_digits_run (exp c) ds2 (positional ds1 0) (0 + Z.of_nat (List.length ds1)) []); [|assumption|lia|exact I].
  cbv beta iota.
  set (m2 := positional ds2 (positional ds1 0)).
  assert (Hm2 : m2 = positional (ds1 ++ ds2) 0) by (unfold m2; now rewrite positional_app).
  assert (Hb : (0 <= m2 < 10 ^ 15)%Z).
  { rewrite Hm2. pose proof (positional_bound (ds1 ++ ds2) ltac:(rewrite forallb_app; now rewrite H1, H2) 0%Z ltac:(lia)) as Hp.
    rewrite app_length in Hp. assert ((10 ^ Z.of_nat (List.length ds1 + List.length ds2) <= 10 ^ 15)%Z) by (apply Z.pow_le_mono_r; lia). lia. }
  replace (0 + Z.of_nat (List.length ds1) + Z.of_nat (List.length ds2) - (0 + Z.of_nat (List.length ds1)))%Z
    with (Z.of_nat (List.length ds2)) by lia.
  assert (Hin : in_i64 m2 = true).
  { unfold in_i64. apply andb_true_intro. split; [apply Z.leb_le; unfold int64_min, two63; lia|apply Z.leb_le; unfold int64_max, two63; lia]. }
  rewrite Hin. cbn [negb].
  replace (0 + Z.of_nat (List.length ds1) + Z.of_nat (List.length ds2) <=? 15)%Z with true by (symmetry; apply Z.leb_le; lia).
  assert (Hfp : fast_path_ok m2 (- Z.of_nat (List.length ds2)) = true).
  { unfold fast_path_ok. apply andb_true_intro. split; apply negb_true_iff.
    - apply orb_false_intro; [apply Z.ltb_ge; lia|rewrite Z.gtb_ltb; apply Z.ltb_ge; lia].
    - rewrite Z.gtb_ltb. apply Z.ltb_ge. lia. }
  rewrite Hfp. cbn [andb]. now rewrite Hm2.
Qed.

Section FLit.
Variable c : cfg.
Variable m : mem.
Variable e : N.

Notation adv := (adv e).
Notation peek := (peek m e).

Lemma frac_loop_run : forall ds f p, (List.length ds < f)%nat -> slice m p (List.length ds) = ds ->
  forallb is_dig ds = true -> p + N.of_nat (List.length ds) <= e ->
  is_dig (peek (p + N.of_nat (List.length ds))) = false -> is_us (peek (p + N.of_nat (List.length ds))) = false ->
  frac_loop c m e f p = p + N.of_nat (List.length ds).
Proof.
  induction ds as [|d ds IH]; intros f p Hf Hs Hd Hle H1 H2; destruct f as [|f]; try (cbn in Hf; lia); cbn [frac_loop].
  - cbn [List.length N.of_nat] in *. rewrite N.add_0_r in *. now rewrite H1, H2, andb_false_r.
  - cbn [List.length] in *. rewrite slice_S in Hs. injection Hs as Hd0 Hs. cbn [forallb] in Hd. apply andb_prop in Hd as [Hd1 Hd2].
    assert (Hlt : p < e) by lia. rewrite (peek_in m e) by assumption. rewrite Hd0, Hd1, (adv_in' e) by assumption. cbn [orb].
    replace (p + N.of_nat (S (List.length ds))) with (p + 1 + N.of_nat (List.length ds)) in * by lia.
    rewrite (IH f (p + 1)); [reflexivity|lia|assumption|assumption|lia|assumption|assumption].
Qed.

(* the double the literal must read as: the result of the generated fast path on (all digits, -#fraction digits) *)
Definition fraction_value (neg : bool) (ds1 ds2 : list byte) : spec_float :=
  fast_path (positional (ds1 ++ ds2) 0) (- Z.of_nat (List.length ds2)) neg.

Theorem read_number_decimal_fraction start (neg : bool) (sign ds1 ds2 : list byte) :
  (sign = [] /\ neg = false \/ sign = ["-"%byte] /\ neg = true \/ sign = ["+"%byte] /\ neg = false) ->
  ds1 <> [] -> forallb is_dig ds1 = true -> (hd "0"%byte ds1 <> "0"%byte \/ ds1 = ["0"%byte]) ->
  ds2 <> [] -> forallb is_dig ds2 = true -> (List.length ds1 + List.length ds2 <= 15)%nat ->
  let text := sign ++ ds1 ++ "."%byte :: ds2 in
  let q := start + N.of_nat (List.length text) in
  q <= e -> slice m start (List.length text) = text -> ends_at m e q ->
  read_number c m e start = NVal (VFloat (fraction_value neg ds1 ds2)) q.
Proof.
  intros Hsign Hne1 Hd1 Hlead Hne2 Hd2 Hlen text q Hq Hsl Hend.
  set (p1 := start + N.of_nat (List.length sign)).
  set (pd := p1 + N.of_nat (List.length ds1)).
  set (pf := pd + 1).
  assert (Hlt : List.length text = (List.length sign + (List.length ds1 + S (List.length ds2)))%nat)
    by (unfold text; rewrite !app_length; reflexivity).
  assert (Hq1 : q = pf + N.of_nat (List.length ds2)) by (unfold q, pf, pd, p1; rewrite Hlt; lia).
  (* the three pieces of the token in memory *)
  assert (Hparts : slice m p1 (List.length ds1) = ds1 /\ m pd = "."%byte /\ slice m pf (List.length ds2) = ds2).
  { rewrite Hlt in Hsl. unfold text in Hsl. rewrite slice_app in Hsl.
    apply app_eq_len in Hsl; [|now rewrite slice_length]. destruct Hsl as [_ Hsl]. fold p1 in Hsl.
    rewrite slice_app in Hsl. apply app_eq_len in Hsl; [|now rewrite slice_length]. destruct Hsl as [A Hsl]. fold pd in Hsl.
    rewrite slice_S in Hsl. injection Hsl as B C. fold pf in C. tauto. }
  destruct Hparts as (Hs1 & Hdot & Hs2).
  destruct ds1 as [|d0 ds1']; [congruence|]. clear Hne1.
  destruct ds2 as [|f0 ds2']; [congruence|]. clear Hne2.
  assert (Hp1lt : p1 < e) by (unfold pf, pd in Hq1; cbn [List.length] in *; lia).
  assert (Hpdlt : pd < e) by (unfold pf in Hq1; cbn [List.length] in *; lia).
  assert (Hpflt : pf < e) by (cbn [List.length] in *; lia).
  assert (Hd0 : m p1 = d0) by (cbn [List.length] in Hs1; rewrite slice_S in Hs1; now injection Hs1).
  assert (Hf0 : m pf = f0) by (cbn [List.length] in Hs2; rewrite slice_S in Hs2; now injection Hs2).
  assert (Hdig0 : is_dig d0 = true) by (cbn [forallb] in Hd1; now apply andb_prop in Hd1 as [? _]).
  assert (Hdigf : is_dig f0 = true) by (cbn [forallb] in Hd2; now apply andb_prop in Hd2 as [? _]).
  destruct (ends_peek m e q Hq Hend) as (Hnc & Hnn & Hdok). apply numchar_false in Hnc.
  destruct Hnc as (N1 & N2 & N3 & N4 & N5 & N6 & N7 & N8 & N9 & N10 & N11 & N12).
  assert (Hpkd : peek pd = "."%byte) by (rewrite (peek_in m e) by assumption; exact Hdot).
  assert (Hpkf : peek pf = f0) by (rewrite (peek_in m e) by assumption; exact Hf0).
  assert (Hpk1 : peek p1 = d0) by (rewrite (peek_in m e) by assumption; exact Hd0).
  unfold read_number.
  assert (Hsg : (if is_c (peek start) "-" then (true, adv start) else if is_c (peek start) "+" then (false, adv start) else (false, start))
                = (neg, p1)).
  { destruct Hsign as [[-> ->]|[[-> ->]|[-> ->]]]; unfold p1; cbn [List.length N.of_nat].
    - rewrite N.add_0_r in *. rewrite (peek_in m e) by (unfold p1 in Hp1lt; cbn in Hp1lt; lia).
      unfold p1 in Hd0. cbn in Hd0. rewrite N.add_0_r in Hd0. rewrite Hd0.
      assert (Hs : forallb (fun b => implb (is_dig b) (negb (is_c b "-") && negb (is_c b "+"))) all_bytes = true) by (vm_compute; reflexivity).
      pose proof (byte_sweep _ Hs d0) as Hb. cbv beta in Hb. rewrite Hdig0 in Hb. cbn [implb] in Hb.
      apply andb_prop in Hb as [H1 H2]. apply negb_true_iff in H1, H2. now rewrite H1, H2.
    - rewrite Hlt in Hsl. unfold text in Hsl. cbn [app List.length Nat.add] in Hsl. rewrite slice_S in Hsl. injection Hsl as Hm _.
      assert (start < e) by (unfold p1 in Hp1lt; cbn in Hp1lt; lia).
      rewrite (peek_in m e), Hm, (adv_in' e) by assumption. reflexivity.
    - rewrite Hlt in Hsl. unfold text in Hsl. cbn [app List.length Nat.add] in Hsl. rewrite slice_S in Hsl. injection Hsl as Hm _.
      assert (start < e) by (unfold p1 in Hp1lt; cbn in Hp1lt; lia).
      rewrite (peek_in m e), Hm, (adv_in' e) by assumption. reflexivity. }
  rewrite Hsg. clear Hsg. cbv zeta. rewrite Hpk1, Hdig0.
  (* no radix prefix: the integer digits are followed by the point *)
  rewrite (plain_digits_stop m e (d0 :: ds1') (fuel_of e p1) p1) by
      (try assumption; try (fold pd; rewrite Hpkd; reflexivity); unfold fuel_of, pd in *; cbn [List.length] in *; lia).
  fold pd. replace (pd <? e) with true by (symmetry; now apply N.ltb_lt). rewrite Hdot.
  change (is_c "." "r") with false. change (is_c "." "R") with false. cbn [orb andb]. rewrite andb_true_r.
  (* from the point on *)
  assert (Hsub : Numbers.sub m start q = text).
  { unfold Numbers.sub. unfold q at 1. replace (start + N.of_nat (List.length text) - start) with (N.of_nat (List.length text)) by lia.
    now rewrite Nat2N.id. }
  assert (Hpoint : forall hasdp, after_int_digits c m e start p1 neg pd hasdp = NVal (VFloat (fraction_value neg (d0 :: ds1') (f0 :: ds2'))) q).
  { intros hasdp. unfold after_int_digits. rewrite Hpkd. change (is_c "." ".") with true. cbv beta iota.
    rewrite (adv_in' e pd) by assumption. fold pf. rewrite Hpkf, (dig_not_us' _ Hdigf), andb_false_r.
    rewrite (frac_loop_run (f0 :: ds2') (fuel_of e pf) pf) by
        (try assumption; try (rewrite <- Hq1; assumption); unfold fuel_of; cbn [List.length] in *; lia).
    rewrite <- Hq1. unfold after_frac. rewrite N4, N5. cbn [orb].
    unfold suffix_section. rewrite N6, N7, N8. cbn [orb andb]. rewrite !andb_false_r. cbn [andb orb].
    rewrite Hsub. unfold text. rewrite (parse_double_fraction c neg sign (d0 :: ds1') (f0 :: ds2')) by (try assumption; discriminate).
    unfold finish. rewrite Hdok. reflexivity. }
  assert (Hzero : is_c d0 "0" = true -> ds1' = []).
  { intros Hz. assert (Hd00 : d0 = "0"%byte) by (unfold is_c, is_byte in Hz; cbn in Hz; now apply Byte.byte_dec_bl in Hz).
    destruct Hlead as [Hl|Hl]; [cbn in Hl; congruence|now injection Hl]. }
  destruct (is_c d0 "0") eqn:Hz.
  - assert (Hnil := Hzero eq_refl). assert (Hpd : pd = p1 + 1) by (unfold pd; rewrite Hnil; cbn; lia).
    rewrite (adv_in' e p1) by assumption. rewrite <- Hpd.
    assert (Hzt : zero_tail c m e start p1 neg pd = NVal (VFloat (fraction_value neg (d0 :: ds1') (f0 :: ds2'))) q).
    { unfold zero_tail. rewrite Hpkd. change (is_c "." ".") with true. cbv beta iota. apply Hpoint. }
    destruct (clj c) eqn:Hclj; cbv beta iota.
    + assert (Hsz : skip_zeros m e (fuel_of e pd) pd = pd) by (unfold fuel_of; cbn [skip_zeros]; rewrite Hpkd; reflexivity).
      rewrite Hsz, Hpkd. change (is_c "." "x") with false. change (is_c "." "X") with false. cbn [orb].
      change ((49 <=? bz ".")%Z && (bz "." <=? 55)%Z) with false. cbv beta iota.
      change (is_c "." "8") with false. change (is_c "." "9") with false. cbn [orb]. exact Hzt.
    + rewrite Hpkd. change (is_dig ".") with false. cbv beta iota. exact Hzt.
  - assert (Hnz : match digit_loop c m e (fuel_of e p1) is_dig true p1 with
       | inl p => after_int_digits c m e start p1 neg p false
       | inr ec => NErr ec
       end = NVal (VFloat (fraction_value neg (d0 :: ds1') (f0 :: ds2'))) q).
    { rewrite (digit_loop_stop c m e true (d0 :: ds1') (fuel_of e p1) p1) by
          (try assumption; try (fold pd; rewrite Hpkd; reflexivity); unfold fuel_of, pd in *; cbn [List.length] in *; lia).
      fold pd. apply Hpoint. }
    destruct (clj c); cbv beta iota; exact Hnz.
Qed.
End FLit.

(* and that double is the correctly rounded one: nearest to (-1)^neg * (all digits) * 10^-(fraction digits), ties to even *)
Theorem fraction_value_correctly_rounded neg ds1 ds2 :
  forallb is_dig ds1 = true -> forallb is_dig ds2 = true -> (List.length ds1 + List.length ds2 <= 15)%nat ->
  SF2R radix2 (fraction_value neg ds1 ds2) = rnd (dec_real neg (positional (ds1 ++ ds2) 0) (- Z.of_nat (List.length ds2))).
Proof.
  intros H1 H2 Hlen. unfold fraction_value. apply fast_path_correct; [|lia].
  pose proof (positional_bound (ds1 ++ ds2) ltac:(rewrite forallb_app; now rewrite H1, H2) 0%Z ltac:(lia)) as Hp.
  rewrite app_length in Hp.
  assert ((10 ^ Z.of_nat (List.length ds1 + List.length ds2) <= 10 ^ 15)%Z) by (apply Z.pow_le_mono_r; lia).
  assert ((10 ^ 15 < 2 ^ 53)%Z) by reflexivity. lia.
Qed.
