(* Proofs/Int64.v -- parse_int64 (model of number.c parse_int64_from_buffer, all three tiers,
   both flag variants) returns exactly the mathematical value of the digit string when it
   fits the signed 64-bit range in the requested sign, and reports overflow otherwise. *)
From Coq Require Import ZArith NArith List Bool Lia.
From Coq.Strings Require Import Byte.
From Verif Require Import Lanes Common ByteSweep Values Scan Numbers Swar.
Import ListNotations.
Local Open Scope Z_scope.

(* mathematical value of a digit string (underscores skipped when [e]) *)
Fixpoint mag_of (e : bool) (dv : byte -> Z) (radix : Z) (l : list byte) (acc : Z) : Z :=
  match l with
  | [] => acc
  | c :: t => if e && is_us c then mag_of e dv radix t acc else mag_of e dv radix t (acc * radix + dv c)
  end.

Definition valid_byte (e : bool) (dv : byte -> Z) (radix : Z) (c : byte) : bool :=
  (e && is_us c) || ((0 <=? dv c) && (dv c <? radix)).

Lemma mag_mono e dv radix l acc :
  1 <= radix -> 0 <= acc -> forallb (valid_byte e dv radix) l = true ->
  acc <= mag_of e dv radix l acc.
Proof.
  intros Hr. revert acc. induction l as [|c t IH]; intros acc Ha Hv; cbn [mag_of]; [lia|].
  cbn [forallb] in Hv. apply andb_prop in Hv as [Hc Ht]. unfold valid_byte in Hc.
  destruct (e && is_us c); [apply IH; assumption|].
  cbn [orb] in Hc. apply andb_prop in Hc as [H0 H1]. apply Z.leb_le in H0. apply Z.ltb_lt in H1.
  specialize (IH (acc * radix + dv c)). assert (acc <= acc * radix + dv c) by nia.
  specialize (IH ltac:(lia) Ht). lia.
Qed.

Lemma mag_mono2 e dv radix l a b :
  1 <= radix -> a <= b -> mag_of e dv radix l a <= mag_of e dv radix l b.
Proof.
  intros Hr. revert a b. induction l as [|c t IH]; intros a b Hab; cbn [mag_of]; [lia|].
  destruct (e && is_us c); apply IH; nia.
Qed.

(* the cutoff / cutlim test is exactly "the next value would exceed max_val" *)
Lemma cutoff_test max_val radix v d :
  0 <= max_val -> 2 <= radix -> 0 <= v -> 0 <= d < radix ->
  ((v >? Z.quot max_val radix) || ((v =? Z.quot max_val radix) && (d >? Z.rem max_val radix))) =
  (max_val <? v * radix + d).
Proof.
  intros Hm Hr Hv Hd.
  rewrite Z.quot_div_nonneg, Z.rem_mod_nonneg by lia.
  pose proof (Z.div_mod max_val radix ltac:(lia)) as E.
  pose proof (Z.mod_pos_bound max_val radix ltac:(lia)) as B.
  set (q := max_val / radix) in *. set (r := max_val mod radix) in *.
  destruct (Z.ltb_spec max_val (v * radix + d)) as [H|H].
  - destruct (Z.gtb_spec v q) as [G|G]; [reflexivity|]. cbn [orb].
    destruct (Z.eqb_spec v q) as [Q|Q]; [|nia]. cbn [andb]. subst v.
    destruct (Z.gtb_spec d r); [reflexivity|nia].
  - destruct (Z.gtb_spec v q) as [G|G]; [nia|]. cbn [orb].
    destruct (Z.eqb_spec v q) as [Q|Q]; [|reflexivity]. cbn [andb]. subst v.
    destruct (Z.gtb_spec d r); [nia|reflexivity].
Qed.

Lemma scalar_digits_ok e dv radix max_val l v :
  2 <= radix -> 0 <= max_val < two64 -> 0 <= v <= max_val ->
  forallb (valid_byte e dv radix) l = true ->
  scalar_digits e dv radix (Z.quot max_val radix) (Z.rem max_val radix) l v =
  if mag_of e dv radix l v <=? max_val then Some (mag_of e dv radix l v) else None.
Proof.
  intros Hr Hm. revert v. induction l as [|c t IH]; intros v Hv Hval; cbn [scalar_digits mag_of].
  - destruct (Z.leb_spec v max_val); [reflexivity|lia].
  - cbn [forallb] in Hval. apply andb_prop in Hval as [Hc Ht]. unfold valid_byte in Hc.
    destruct (e && is_us c); [apply IH; assumption|].
    cbn [orb] in Hc. apply andb_prop in Hc as [H0 H1]. apply Z.leb_le in H0. apply Z.ltb_lt in H1.
    destruct (Z.ltb_spec (dv c) 0); [lia|].
    rewrite cutoff_test by lia.
    destruct (Z.ltb_spec max_val (v * radix + dv c)) as [Hov|Hfit].
    + assert (v * radix + dv c <= mag_of e dv radix t (v * radix + dv c))
        by (apply mag_mono; [lia|nia|assumption]).
      destruct (Z.leb_spec (mag_of e dv radix t (v * radix + dv c)) max_val); [lia|reflexivity].
    + unfold u64. rewrite Z.mod_small by (unfold two64 in *; nia). apply IH; [nia|assumption].
Qed.

(* ------------------------------------------------------------------ decimal tiers *)
Definition dv10 (c : byte) : Z := dec_digit c.

Lemma valid10_cases e c : valid_byte e dv10 10 c = true -> (e && is_us c = true) \/ (e && is_us c = false /\ is_dig c = true).
Proof.
  unfold valid_byte, dv10, dec_digit. destruct (e && is_us c); [left; reflexivity|right].
  split; [reflexivity|]. cbn [orb] in H. destruct (is_dig c); [reflexivity|]. cbn in H. discriminate.
Qed.

Lemma dv10_dig c : is_dig c = true -> dv10 c = dval c.
Proof. intros H. unfold dv10, dec_digit. now rewrite H. Qed.

Lemma dig_not_us : forall b, implb (is_dig b) (negb (is_us b)) = true.
Proof. apply byte_sweep. vm_compute. reflexivity. Qed.

(* a block of 8 digits advances the magnitude by one SWAR step *)
Lemma mag_block e l8 rest v :
  List.length l8 = 8%nat -> forallb is_dig l8 = true ->
  mag_of e dv10 10 (l8 ++ rest) v = mag_of e dv10 10 rest (v * 100000000 + dec8 l8).
Proof.
  intros Hl Hd.
  destruct l8 as [|b0 [|b1 [|b2 [|b3 [|b4 [|b5 [|b6 [|b7 [|? ?]]]]]]]]]; try discriminate.
  cbn [forallb] in Hd. rewrite !andb_true_iff in Hd.
  destruct Hd as (h0 & h1 & h2 & h3 & h4 & h5 & h6 & h7 & _).
  cbn [app mag_of].
  assert (U : forall b, is_dig b = true -> e && is_us b = false).
  { intros b Hb. pose proof (dig_not_us b) as H. rewrite Hb in H. cbn in H.
    apply negb_true_iff in H. rewrite H. apply andb_false_r. }
  rewrite !U by assumption. rewrite !dv10_dig by assumption.
  f_equal. unfold dec8. cbn [fold_left]. ring.
Qed.

Lemma firstn_skipn_8 (l : list byte) : (8 <= List.length l)%nat -> List.length (firstn 8 l) = 8%nat.
Proof. intros H. rewrite firstn_length. lia. Qed.

Lemma dec8_bound l8 : List.length l8 = 8%nat -> forallb is_dig l8 = true -> 0 <= dec8 l8 <= 99999999.
Proof.
  intros Hl Hd.
  destruct l8 as [|b0 [|b1 [|b2 [|b3 [|b4 [|b5 [|b6 [|b7 [|? ?]]]]]]]]]; try discriminate.
  cbn [forallb] in Hd. rewrite !andb_true_iff in Hd.
  destruct Hd as (h0 & h1 & h2 & h3 & h4 & h5 & h6 & h7 & _).
  apply is_dig_range in h0, h1, h2, h3, h4, h5, h6, h7.
  unfold dec8, dval. cbn [fold_left]. lia.
Qed.

Lemma swar_blocks_ok e fuel max_val l v :
  int64_max <= max_val <= two63 -> 0 <= v <= max_val ->
  forallb (valid_byte e dv10 10) l = true ->
  match swar_blocks fuel max_val l v with
  | None => max_val < mag_of e dv10 10 l v
  | Some (rest, v') =>
    mag_of e dv10 10 l v = mag_of e dv10 10 rest v' /\ 0 <= v' <= max_val /\
    forallb (valid_byte e dv10 10) rest = true
  end.
Proof.
  intros Hm. revert l v. induction fuel as [|f IH]; intros l v Hv Hval; cbn [swar_blocks].
  - auto.
  - destruct (Z.leb_spec 8 (Z.of_nat (List.length l))) as [H8|H8]; [|auto].
    destruct (z2b (eight_digits_check (le_val (firstn 8 l)))) eqn:Echk; [|auto].
    assert (Hlen : List.length (firstn 8 l) = 8%nat) by (apply firstn_skipn_8; lia).
    assert (Hdig : forallb is_dig (firstn 8 l) = true).
    { remember (firstn 8 l) as l8.
      destruct l8 as [|b0 [|b1 [|b2 [|b3 [|b4 [|b5 [|b6 [|b7 [|? ?]]]]]]]]]; try discriminate.
      now rewrite eight_digits_check_correct in Echk. }
    assert (Hval8 : eight_digits_value (le_val (firstn 8 l)) = dec8 (firstn 8 l)).
    { remember (firstn 8 l) as l8.
      destruct l8 as [|b0 [|b1 [|b2 [|b3 [|b4 [|b5 [|b6 [|b7 [|? ?]]]]]]]]]; try discriminate.
      now apply eight_digits_value_correct. }
    rewrite Hval8.
    pose proof (dec8_bound _ Hlen Hdig) as Hb.
    assert (Hsplit : mag_of e dv10 10 l v = mag_of e dv10 10 (skipn 8 l) (v * 100000000 + dec8 (firstn 8 l))).
    { rewrite <- (firstn_skipn 8 l) at 1. apply mag_block; assumption. }
    assert (Hvrest : forallb (valid_byte e dv10 10) (skipn 8 l) = true).
    { rewrite <- (firstn_skipn 8 l) in Hval. rewrite forallb_app in Hval. now apply andb_prop in Hval as [_ ?]. }
    assert (Hmono : v * 100000000 + dec8 (firstn 8 l) <= mag_of e dv10 10 (skipn 8 l) (v * 100000000 + dec8 (firstn 8 l)))
      by (apply mag_mono; [lia|nia|assumption]).
    unfold int64_max, two63 in Hm.
    rewrite Z.quot_div_nonneg by lia.
    destruct (Z.gtb_spec v (max_val / 100000000)) as [Hg|Hg].
    + (* v > max_val / 10^8 *)
      rewrite Hsplit.
      pose proof (Z.div_mod max_val 100000000 ltac:(lia)).
      pose proof (Z.mod_pos_bound max_val 100000000 ltac:(lia)). nia.
    + unfold u64.
      pose proof (Z.div_mod max_val 100000000 ltac:(lia)).
      pose proof (Z.mod_pos_bound max_val 100000000 ltac:(lia)).
      rewrite Z.mod_small by (unfold two64; nia).
      destruct (Z.ltb_spec (v * 100000000 + dec8 (firstn 8 l)) v); [nia|].
      destruct (Z.gtb_spec (v * 100000000 + dec8 (firstn 8 l)) max_val) as [Hov|Hfit].
      * rewrite Hsplit. lia.
      * specialize (IH (skipn 8 l) (v * 100000000 + dec8 (firstn 8 l)) ltac:(nia) Hvrest).
        destruct (swar_blocks f max_val (skipn 8 l) (v * 100000000 + dec8 (firstn 8 l))) as [[rest v']|].
        -- rewrite Hsplit. exact IH.
        -- rewrite Hsplit. exact IH.
Qed.

Lemma tier1_ok e l acc moved :
  forallb (valid_byte e dv10 10) l = true ->
  tier1 e l acc moved = (mag_of e dv10 10 l acc, moved || negb (match l with [] => true | _ => false end)).
Proof.
  revert acc moved. induction l as [|c t IH]; intros acc moved Hv; cbn [tier1 mag_of].
  - now rewrite orb_false_r.
  - cbn [forallb] in Hv. apply andb_prop in Hv as [Hc Ht].
    destruct (valid10_cases e c Hc) as [Hu|[Hu Hd]]; rewrite Hu.
    + rewrite IH by assumption. cbn. now rewrite orb_true_r.
    + rewrite Hd, IH by assumption. rewrite dv10_dig by assumption. cbn. now rewrite orb_true_r.
Qed.

Lemma mag_small e l acc :
  forallb (valid_byte e dv10 10) l = true -> 0 <= acc ->
  mag_of e dv10 10 l acc <= acc * 10 ^ Z.of_nat (List.length l) + (10 ^ Z.of_nat (List.length l) - 1).
Proof.
  revert acc. induction l as [|c t IH]; intros acc Hv Ha; cbn [mag_of List.length].
  - cbn. lia.
  - cbn [forallb] in Hv. apply andb_prop in Hv as [Hc Ht].
    rewrite Nat2Z.inj_succ, Z.pow_succ_r by lia.
    assert (P : 1 <= 10 ^ Z.of_nat (List.length t)) by (apply Z.pow_le_mono_r with (b := 0) (c := Z.of_nat (List.length t)) (a := 10); lia).
    destruct (valid10_cases e c Hc) as [Hu|[Hu Hd]]; rewrite Hu.
    + specialize (IH acc Ht Ha). nia.
    + rewrite dv10_dig by assumption. apply is_dig_range in Hd. unfold dval.
      specialize (IH (acc * 10 + (bz c - 48)) Ht ltac:(lia)). nia.
Qed.

(* ------------------------------------------------------------------ main theorem *)
Definition digit_of (radix : Z) (b : byte) : Z := digit_value (sgn8 (bz b)) radix.
Definition int_value (c : cfg) (radix : Z) (ds : list byte) : Z :=
  mag_of (exp c) (if radix =? 10 then dv10 else digit_of radix) radix ds 0.
Definition digits_ok (c : cfg) (radix : Z) (ds : list byte) : bool :=
  forallb (valid_byte (exp c) (if radix =? 10 then dv10 else digit_of radix) radix) ds.

Theorem parse_int64_correct c ds radix neg :
  2 <= radix <= 36 -> digits_ok c radix ds = true ->
  parse_int64 c ds radix neg =
  let mag := int_value c radix ds in
  if neg then (if mag <=? two63 then IOk (- mag) else IOverflow)
  else (if mag <=? int64_max then IOk mag else IOverflow).
Proof.
  intros Hr Hv. unfold parse_int64, int_value, digits_ok in *. cbn zeta.
  change dec_digit with dv10.
  set (e := exp c) in *.
  destruct (Z.eqb_spec radix 10) as [E10|N10].
  - subst radix.
    (* tier 1 *)
    assert (T1 : (Z.of_nat (List.length ds) <=? 3) = true ->
                 ds <> [] ->
                 mag_of e dv10 10 ds 0 <= 999).
    { intros H3 _. apply Z.leb_le in H3. pose proof (mag_small e ds 0 Hv ltac:(lia)) as B.
      assert (10 ^ Z.of_nat (List.length ds) <= 10 ^ 3) by (apply Z.pow_le_mono_r; lia). lia. }
    cbn [andb]. rewrite tier1_ok by assumption.
    destruct (Z.of_nat (List.length ds) <=? 3) eqn:E3.
    + destruct ds as [|c0 t].
      * (* empty: falls through to the general path with value 0 *)
        cbn. destruct neg; reflexivity.
      * cbn [orb negb]. specialize (T1 eq_refl ltac:(discriminate)).
        assert (0 <= mag_of e dv10 10 (c0 :: t) 0) by (apply mag_mono; [lia|lia|assumption]).
        assert (Hb : mag_of e dv10 10 (c0 :: t) 0 <= int64_max /\ mag_of e dv10 10 (c0 :: t) 0 <= two63)
          by (unfold int64_max, two63; lia).
        destruct neg.
        -- destruct (Z.leb_spec (mag_of e dv10 10 (c0 :: t) 0) two63); [reflexivity|lia].
        -- destruct (Z.leb_spec (mag_of e dv10 10 (c0 :: t) 0) int64_max); [reflexivity|lia].
    + (* tiers 2 and 3 *)
      set (max_val := if neg then two63 else int64_max).
      assert (Hm : int64_max <= max_val <= two63) by (unfold max_val, int64_max, two63; destruct neg; lia).
      pose proof (swar_blocks_ok e (S (List.length ds)) max_val ds 0 Hm ltac:(unfold int64_max, two63 in Hm; lia) Hv) as HS.
      destruct (swar_blocks (S (List.length ds)) max_val ds 0) as [[rest v']|].
      * destruct HS as (Heq & Hv' & Hrest).
        rewrite (scalar_digits_ok e dv10 10 max_val rest v') by (unfold two64, int64_max, two63 in *; lia || assumption).
        rewrite <- Heq.
        assert (0 <= mag_of e dv10 10 ds 0) by (apply mag_mono; [lia|lia|assumption]).
        unfold max_val. destruct neg.
        -- destruct (mag_of e dv10 10 ds 0 <=? two63) eqn:L; [|reflexivity].
           destruct (Z.eqb_spec (mag_of e dv10 10 ds 0) two63) as [Q|Q]; [rewrite Q; reflexivity|reflexivity].
        -- destruct (mag_of e dv10 10 ds 0 <=? int64_max); reflexivity.
      * unfold max_val in HS. destruct neg.
        -- destruct (Z.leb_spec (mag_of e dv10 10 ds 0) two63); [lia|reflexivity].
        -- destruct (Z.leb_spec (mag_of e dv10 10 ds 0) int64_max); [lia|reflexivity].
  - cbn [andb].
    set (max_val := if neg then two63 else int64_max).
    assert (Hm : int64_max <= max_val <= two63) by (unfold max_val, int64_max, two63; destruct neg; lia).
    change (fun ch : byte => digit_value (sgn8 (bz ch)) radix) with (digit_of radix).
    rewrite (scalar_digits_ok e (digit_of radix) radix max_val ds 0) by (unfold two64, int64_max, two63 in *; lia || assumption).
    assert (0 <= mag_of e (digit_of radix) radix ds 0) by (apply mag_mono; [lia|lia|assumption]).
    unfold max_val. destruct neg.
    + destruct (mag_of e (digit_of radix) radix ds 0 <=? two63) eqn:L; [|reflexivity].
      destruct (Z.eqb_spec (mag_of e (digit_of radix) radix ds 0) two63) as [Q|Q]; [rewrite Q; reflexivity|reflexivity].
    + destruct (mag_of e (digit_of radix) radix ds 0 <=? int64_max); reflexivity.
Qed.

(* parse_int64 never executes undefined behaviour *)
Theorem parse_int64_no_ub c ds radix neg :
  match parse_int64 c ds radix neg with IUB _ => False | _ => True end.
Proof.
  unfold parse_int64.
  destruct (if (radix =? 10) && (Z.of_nat (List.length ds) <=? 3) then _ else _) as [v|]; [exact I|].
  destruct (if radix =? 10 then _ else _) as [v|]; [|exact I].
  destruct neg; [destruct (v =? two63)|]; exact I.
Qed.
