(* Proofs/GcdProofs.v -- number.c ratio_gcd (binary GCD on uint64 magnitudes): terminates for
   every pair of int64 operands within the model's fuel, and returns the greatest common
   divisor. *)
From Coq Require Import ZArith Znumtheory Lia Bool.
From Verif Require Import Lanes Common Numbers.
Local Open Scope Z_scope.

Lemma odd_even_false a : Z.odd a = true -> Z.even a = false.
Proof. rewrite <- Z.negb_odd. now intros ->. Qed.

(* ---- while ((a & 1) == 0) a >>= 1 *)
Lemma strip_spec fuel : forall b, 0 < b < 2 ^ Z.of_nat fuel ->
  let r := gcd_strip fuel b in Z.odd r = true /\ 0 < r <= b /\ exists k, 0 <= k /\ b = r * 2 ^ k.
Proof.
  induction fuel as [|f IH]; intros b Hb; cbn zeta.
  - cbn in Hb. lia.
  - cbn [gcd_strip]. destruct (Z.even b) eqn:He.
    + rewrite Z.shiftr_div_pow2 by lia. change (2 ^ 1) with 2.
      apply Z.even_spec in He. destruct He as [h Hh]. subst b.
      replace (2 * h / 2) with h by (symmetry; rewrite Z.mul_comm; apply Z.div_mul; lia).
      assert (Hh : 0 < h < 2 ^ Z.of_nat f).
      { rewrite Nat2Z.inj_succ, Z.pow_succ_r in Hb by lia. lia. }
      destruct (IH h Hh) as [Ho [Hr [k [Hk Hkk]]]]. split; [exact Ho|]. split; [lia|].
      exists (k + 1). split; [lia|]. rewrite Z.pow_add_r by lia. change (2 ^ 1) with 2. lia.
    + split; [now rewrite <- Z.negb_even, He|]. split; [lia|]. exists 0. split; [lia|]. cbn. lia.
Qed.

Lemma strip_even_half fuel b : 0 < b < 2 ^ Z.of_nat fuel -> Z.even b = true -> 2 * gcd_strip fuel b <= b.
Proof.
  intros Hb He. destruct fuel as [|f]; [cbn in Hb; lia|]. cbn [gcd_strip]. rewrite He.
  rewrite Z.shiftr_div_pow2 by lia. change (2 ^ 1) with 2.
  apply Z.even_spec in He. destruct He as [h Hh]. subst b.
  replace (2 * h / 2) with h by (symmetry; rewrite Z.mul_comm; apply Z.div_mul; lia).
  assert (Hh : 0 < h < 2 ^ Z.of_nat f) by (rewrite Nat2Z.inj_succ, Z.pow_succ_r in Hb by lia; lia).
  destruct (strip_spec f h Hh) as [_ [Hr _]]. lia.
Qed.

(* ---- gcd facts *)
Lemma odd_gcd_2 q : Z.odd q = true -> Z.gcd q 2 = 1.
Proof.
  intros Hq. pose proof (Z.gcd_nonneg q 2) as Hn. pose proof (Z.gcd_divide_l q 2) as Hl.
  pose proof (Z.gcd_divide_r q 2) as Hr. set (g := Z.gcd q 2) in *.
  assert (Hle : g <= 2) by (apply Z.divide_pos_le; [lia|assumption]).
  assert (Hcase : g = 0 \/ g = 1 \/ g = 2) by lia. destruct Hcase as [H0|[H1|H2]].
  - rewrite H0 in Hr. destruct Hr as [t Ht]. lia.
  - assumption.
  - rewrite H2 in Hl. destruct Hl as [t Ht]. subst q. rewrite Z.odd_mul in Hq. cbn in Hq.
    rewrite andb_false_r in Hq. discriminate.
Qed.

Lemma gcd_odd_double a x : Z.odd a = true -> Z.gcd a (2 * x) = Z.gcd a x.
Proof.
  intros Ho. apply Z.gcd_unique.
  - apply Z.gcd_nonneg.
  - apply Z.gcd_divide_l.
  - apply Z.divide_mul_r. apply Z.gcd_divide_r.
  - intros q Hqa Hq2. apply Z.gcd_greatest; [assumption|].
    apply Z.gauss with 2; [assumption|]. apply odd_gcd_2.
    destruct Hqa as [t Ht]. rewrite Ht, Z.odd_mul in Ho. apply andb_true_iff in Ho. tauto.
Qed.

Lemma gcd_odd_pow2 a r k : Z.odd a = true -> 0 <= k -> Z.gcd a (r * 2 ^ k) = Z.gcd a r.
Proof.
  intros Ho Hk. revert r. pattern k. apply natlike_ind; [| |exact Hk].
  - intros r. now rewrite Z.pow_0_r, Z.mul_1_r.
  - intros j Hj IH r. rewrite Z.pow_succ_r by lia.
    replace (r * (2 * 2 ^ j)) with (2 * (r * 2 ^ j)) by lia. rewrite gcd_odd_double by assumption. apply IH.
Qed.

Lemma gcd_strip_gcd a b : Z.odd a = true -> 0 < b < 2 ^ 64 -> Z.gcd a (gcd_strip 64 b) = Z.gcd a b.
Proof.
  intros Ho Hb. destruct (strip_spec 64 b Hb) as [_ [_ [k [Hk Hkk]]]]. cbn zeta in Hkk.
  rewrite Hkk at 2. now rewrite gcd_odd_pow2.
Qed.

(* ---- main loop *)
Lemma u64_small x : 0 <= x < 2 ^ 64 -> u64 x = x.
Proof. intros H. unfold u64, two64. apply Z.mod_small. exact H. Qed.

Lemma gcd_main_correct fuel : forall a b,
  Z.odd a = true -> 0 < a < 2 ^ 64 -> 0 < b < 2 ^ 64 ->
  Z.log2 (a * gcd_strip 64 b) < Z.of_nat fuel ->
  gcd_main fuel a b = Some (Z.gcd a b).
Proof.
  induction fuel as [|f IH]; intros a b Ho Ha Hb Hm.
  - pose proof (Z.log2_nonneg (a * gcd_strip 64 b)). lia.
  - cbn [gcd_main]. destruct (strip_spec 64 b Hb) as [Hob [Hr _]]. cbn zeta in Hob, Hr.
    set (b1 := gcd_strip 64 b) in *.
    assert (Hg : Z.gcd a b1 = Z.gcd a b) by (apply gcd_strip_gcd; assumption).
    destruct (Z.gtb_spec a b1) as [Hgt|Hle].
    + (* swap: a2 = b1, b2 = a *)
      rewrite u64_small by lia.
      destruct (Z.eqb_spec (a - b1) 0) as [Hz|Hnz]; [lia|].
      assert (Hev : Z.even (a - b1) = true).
      { rewrite Z.even_sub. rewrite <- !Z.negb_odd, Ho, Hob. reflexivity. }
      rewrite IH; try assumption; try lia.
      * f_equal. rewrite <- Hg. rewrite (Z.gcd_comm a b1). 
        replace a with ((a - b1) + 1 * b1) at 2 by lia. rewrite Z.gcd_add_mult_diag_r. reflexivity.
      * assert (H2 : 2 * gcd_strip 64 (a - b1) <= a - b1) by (apply strip_even_half; [lia|assumption]).
        assert (Hpos : 0 < gcd_strip 64 (a - b1)) by (destruct (strip_spec 64 (a - b1)) as [_ [? _]]; [lia|cbn zeta in *; lia]).
        assert (Hlt : 2 * (b1 * gcd_strip 64 (a - b1)) < a * b1) by nia.
        assert (Hl : Z.log2 (b1 * gcd_strip 64 (a - b1)) < Z.log2 (a * b1)).
        { apply Z.lt_le_trans with (Z.log2 (2 * (b1 * gcd_strip 64 (a - b1)))).
          - rewrite Z.log2_double by nia. lia.
          - apply Z.log2_le_mono. lia. }
        lia.
    + rewrite u64_small by lia.
      destruct (Z.eqb_spec (b1 - a) 0) as [Hz|Hnz].
      * f_equal. rewrite <- Hg. replace b1 with a by lia. rewrite Z.gcd_diag. lia.
      * assert (Hev : Z.even (b1 - a) = true).
        { rewrite Z.even_sub. rewrite <- !Z.negb_odd, Ho, Hob. reflexivity. }
        rewrite IH; try assumption; try lia.
        -- f_equal. rewrite <- Hg.
           replace b1 with ((b1 - a) + 1 * a) at 2 by lia. rewrite Z.gcd_comm, Z.gcd_add_mult_diag_r. apply Z.gcd_comm.
        -- assert (H2 : 2 * gcd_strip 64 (b1 - a) <= b1 - a) by (apply strip_even_half; [lia|assumption]).
           assert (Hpos : 0 < gcd_strip 64 (b1 - a)) by (destruct (strip_spec 64 (b1 - a)) as [_ [? _]]; [lia|cbn zeta in *; lia]).
           assert (Hlt : 2 * (a * gcd_strip 64 (b1 - a)) < a * b1) by nia.
           assert (Hl : Z.log2 (a * gcd_strip 64 (b1 - a)) < Z.log2 (a * b1)).
           { apply Z.lt_le_trans with (Z.log2 (2 * (a * gcd_strip 64 (b1 - a)))).
             - rewrite Z.log2_double by nia. lia.
             - apply Z.log2_le_mono. lia. }
           lia.
Qed.

(* ---- common factors of two *)
Lemma even_lor a b : Z.even (Z.lor a b) = Z.even a && Z.even b.
Proof. rewrite <- !Z.negb_odd, <- !Z.bit0_odd, Z.lor_spec. now rewrite negb_orb. Qed.

Lemma half_exact h : Z.shiftr (2 * h) 1 = h.
Proof. rewrite Z.shiftr_div_pow2 by lia. change (2 ^ 1) with 2. rewrite Z.mul_comm. apply Z.div_mul. lia. Qed.

Lemma common_spec fuel : forall a b sh, 0 < a < 2 ^ Z.of_nat fuel -> 0 < b -> 0 <= sh ->
  let '(a1, b1, sh1) := gcd_common fuel a b sh in
  0 < a1 <= a /\ 0 < b1 <= b /\ sh <= sh1 /\ a = a1 * 2 ^ (sh1 - sh) /\ b = b1 * 2 ^ (sh1 - sh) /\
  (Z.odd a1 = true \/ Z.odd b1 = true).
Proof.
  induction fuel as [|f IH]; intros a b sh Ha Hb Hs.
  - cbn in Ha. lia.
  - cbn [gcd_common]. rewrite even_lor. destruct (Z.even a) eqn:Hea; cbn [andb].
    + destruct (Z.even b) eqn:Heb.
      * apply Z.even_spec in Hea, Heb. destruct Hea as [ha Hha], Heb as [hb Hhb]. subst a b. rewrite !half_exact.
        assert (Hha : 0 < ha < 2 ^ Z.of_nat f) by (rewrite Nat2Z.inj_succ, Z.pow_succ_r in Ha by lia; lia).
        specialize (IH ha hb (sh + 1) Hha ltac:(lia) ltac:(lia)).
        destruct (gcd_common f ha hb (sh + 1)) as [[a1 b1] sh1].
        destruct IH as [H1 [H2 [H3 [H4 [H5 H6]]]]].
        replace (sh1 - sh) with (Z.succ (sh1 - (sh + 1))) by lia. rewrite Z.pow_succ_r by lia.
        repeat split; try lia; try assumption.
      * replace (sh - sh) with 0 by lia. rewrite Z.pow_0_r. repeat split; try lia. right. now rewrite <- Z.negb_even, Heb.
    + replace (sh - sh) with 0 by lia. rewrite Z.pow_0_r. repeat split; try lia. left. now rewrite <- Z.negb_even, Hea.
Qed.

Lemma gcd_scale a1 b1 k : 0 <= k -> Z.gcd (a1 * 2 ^ k) (b1 * 2 ^ k) = Z.gcd a1 b1 * 2 ^ k.
Proof.
  intros Hk. rewrite !(Z.mul_comm _ (2 ^ k)), Z.gcd_mul_mono_l_nonneg by (apply Z.pow_nonneg; lia). lia.
Qed.

Lemma log2_prod_bound x y : 0 < x < 2 ^ 64 -> 0 < y < 2 ^ 64 -> Z.log2 (x * y) < 200.
Proof.
  intros Hx Hy. assert (x * y < 2 ^ 128) by (change (2 ^ 128) with (2 ^ 64 * 2 ^ 64); nia).
  assert (Z.log2 (x * y) < 128) by (apply Z.log2_lt_pow2; nia). lia.
Qed.

(* magnitudes *)
Lemma mag_u64 s : - 2 ^ 63 <= s < 2 ^ 63 -> (if s <? 0 then u64 (0 - u64 s) else u64 s) = Z.abs s.
Proof.
  intros Hs. unfold u64, two64. change (2 ^ 63) with 9223372036854775808 in Hs.
  change (2 ^ 64) with 18446744073709551616.
  destruct (Z.ltb_spec s 0) as [Hn|Hp].
  - assert (H1 : s mod 18446744073709551616 = s + 18446744073709551616).
    { symmetry. apply Z.mod_unique with (-1); lia. }
    rewrite H1. symmetry. apply Z.mod_unique with (-1); lia.
  - rewrite Z.mod_small by lia. lia.
Qed.

Theorem ratio_gcd_correct sa sb : - 2 ^ 63 <= sa < 2 ^ 63 -> - 2 ^ 63 <= sb < 2 ^ 63 ->
  ratio_gcd sa sb = Some (wrapS 64 (Z.gcd sa sb)).
Proof.
  intros Ha Hb. unfold ratio_gcd. rewrite !mag_u64 by assumption.
  rewrite <- (Z.gcd_abs_l sa), <- (Z.gcd_abs_r (Z.abs sa)).
  set (a := Z.abs sa). set (b := Z.abs sb).
  assert (Hra : 0 <= a <= 2 ^ 63) by (unfold a; lia). assert (Hrb : 0 <= b <= 2 ^ 63) by (unfold b; lia).
  destruct (Z.eqb_spec a 0) as [Ha0|Ha0]; [rewrite Ha0; cbn [Z.gcd]; now rewrite Z.abs_eq by lia|].
  destruct (Z.eqb_spec b 0) as [Hb0|Hb0]; [rewrite Hb0, Z.gcd_0_r; now rewrite Z.abs_eq by lia|].
  pose proof (common_spec 64 a b 0) as Hc. cbn [Z.of_nat] in Hc. specialize (Hc ltac:(lia) ltac:(lia) ltac:(lia)).
  destruct (gcd_common 64 a b 0) as [[a1 b1] sh]. destruct Hc as [H1 [H2 [H3 [H4 [H5 H6]]]]].
  rewrite Z.sub_0_r in H4, H5.
  assert (Ha1 : 0 < a1 < 2 ^ 64) by lia. assert (Hb1 : 0 < b1 < 2 ^ 64) by lia.
  destruct (strip_spec 64 a1 Ha1) as [Hoa [Hra2 [k [Hk Hkk]]]]. cbn zeta in Hoa, Hra2, Hkk.
  set (a2 := gcd_strip 64 a1) in *.
  rewrite gcd_main_correct; try assumption; try lia.
  2:{ apply Z.lt_le_trans with 200; [|lia]. apply log2_prod_bound; [lia|].
      destruct (strip_spec 64 b1 Hb1) as [_ [Hr _]]. cbn zeta in Hr. lia. }
  f_equal. f_equal.
  assert (Hg : Z.gcd a2 b1 = Z.gcd a1 b1).
  { destruct H6 as [Ho|Ho].
    - (* a1 odd: nothing stripped *)
      assert (a2 = a1); [|congruence]. unfold a2. destruct a1 as [|p|p]; try lia. cbn [gcd_strip].
      now rewrite (odd_even_false _ Ho).
    - rewrite (Z.gcd_comm a2 b1), (Z.gcd_comm a1 b1). apply gcd_strip_gcd; assumption. }
  rewrite Hg. rewrite H4, H5. rewrite gcd_scale by lia.
  rewrite Z.shiftl_mul_pow2 by lia. apply u64_small.
  assert (0 < Z.gcd a1 b1 <= a1).
  { split; [|apply Z.divide_pos_le; [lia|apply Z.gcd_divide_l]].
    pose proof (Z.gcd_nonneg a1 b1). assert (Z.gcd a1 b1 <> 0) by (intros H0; apply Z.gcd_eq_0_l in H0; lia). lia. }
  assert (0 < 2 ^ sh) by (apply Z.pow_pos_nonneg; lia). nia.
Qed.

(* as used by the ratio reader: the denominator is a positive int64, so no wrap *)
Corollary ratio_gcd_denominator sa sb : - 2 ^ 63 <= sa < 2 ^ 63 -> 0 < sb < 2 ^ 63 ->
  ratio_gcd sa sb = Some (Z.gcd sa sb).
Proof.
  intros Ha Hb. rewrite ratio_gcd_correct by lia. f_equal.
  assert (0 <= Z.gcd sa sb <= sb).
  { split; [apply Z.gcd_nonneg|]. apply Z.divide_pos_le; [lia|apply Z.gcd_divide_r]. }
  unfold wrapS. rewrite Z.mod_small by lia. change (64 - 1) with 63.
  destruct (Z.ltb_spec (Z.gcd sa sb) (2 ^ 63)); lia.
Qed.
