(* Proofs/ScanProofs.v -- each chunked scanner equals its byte-at-a-time specification,
   for every memory, every start offset and every length (no bound). *)
From Coq Require Import ZArith NArith List Bool Lia.
From Coq.Strings Require Import Byte.
From Verif Require Import Lanes Common ByteSweep Scan ScanFacts.
Import ListNotations.
Local Open Scope N_scope.

(* ------------------------------------------------------------------ slices and masks *)
Lemma slice_S m off n : slice m off (S n) = m off :: slice m (off + 1) n.
Proof.
  unfold slice. cbn [seq map]. rewrite N.add_0_r. f_equal.
  rewrite <- seq_shift, map_map. apply map_ext. intros k. f_equal. lia.
Qed.

Lemma slice_0 m off : slice m off 0 = [].
Proof. reflexivity. Qed.

Lemma slice_length m off n : length (slice m off n) = n.
Proof. unfold slice. now rewrite map_length, seq_length. Qed.

Lemma slice_app m off a b :
  slice m off (a + b) = slice m off a ++ slice m (off + N.of_nat a) b.
Proof.
  revert off. induction a as [|a IH]; intros off.
  - cbn [Nat.add slice_0]. rewrite slice_0, N.add_0_r. reflexivity.
  - cbn [Nat.add]. rewrite !slice_S, IH. cbn [app]. replace (off + N.of_nat (S a)) with (off + 1 + N.of_nat a) by lia. reflexivity.
Qed.

Lemma mask16_slice m p i : mask16 m p i = map p (slice m i 16).
Proof. reflexivity. Qed.

Lemma slice_agree m1 m2 off n :
  (forall k, (k < n)%nat -> m1 (off + N.of_nat k) = m2 (off + N.of_nat k)) ->
  slice m1 off n = slice m2 off n.
Proof.
  intros H. unfold slice. apply map_ext_in. intros k Hk. apply in_seq in Hk. apply H. lia.
Qed.

Lemma all_set_map {A} (f : A -> bool) l : all_set (map f l) = forallb f l.
Proof. unfold all_set. induction l; cbn; [reflexivity|]. now rewrite IHl. Qed.

Lemma any_set_map {A} (f : A -> bool) l : any_set (map f l) = existsb f l.
Proof. unfold any_set. induction l; cbn; [reflexivity|]. now rewrite IHl. Qed.

(* count_while generalised over the element type is only needed at byte *)
Lemma ctz_map_byte (f : byte -> bool) l :
  ctz (map f l) = N.of_nat (count_while (fun b => negb (f b)) l).
Proof.
  induction l as [|b t IH]; [reflexivity|]. cbn [map ctz count_while].
  destruct (f b); cbn [negb]; [reflexivity|]. rewrite IH. lia.
Qed.

Lemma ctz_not_map_byte (f : byte -> bool) l :
  ctz (mask_not (map f l)) = N.of_nat (count_while f l).
Proof.
  unfold mask_not. rewrite map_map, ctz_map_byte. f_equal.
  induction l as [|b t IH]; [reflexivity|]. cbn. rewrite negb_involutive, IH. reflexivity.
Qed.

Lemma count_while_ext f g l : (forall b, f b = g b) -> count_while f l = count_while g l.
Proof. intros H. induction l as [|b t IH]; [reflexivity|]. cbn. now rewrite H, IH. Qed.

Lemma count_while_app_all f l1 l2 :
  forallb f l1 = true -> count_while f (l1 ++ l2) = (length l1 + count_while f l2)%nat.
Proof.
  induction l1 as [|b t IH]; cbn; [reflexivity|]. intros H. apply andb_prop in H as [Hb Ht].
  rewrite Hb, IH by assumption. reflexivity.
Qed.

Lemma count_while_app_stop f l1 l2 :
  forallb f l1 = false -> count_while f (l1 ++ l2) = count_while f l1.
Proof.
  induction l1 as [|b t IH]; cbn; [discriminate|]. intros H.
  destruct (f b); [|reflexivity]. cbn in H. now rewrite IH.
Qed.

Lemma count_while_le f l : (count_while f l <= length l)%nat.
Proof. induction l as [|b t IH]; cbn; [lia|]. destruct (f b); cbn; lia. Qed.

Lemma forallb_ext_byte (f g : byte -> bool) l :
  (forall b, f b = g b) -> forallb f l = forallb g l.
Proof. intros H. induction l; cbn; [reflexivity|]. now rewrite H, IHl. Qed.

(* ------------------------------------------------------------------ scan_digits *)
Lemma scan_digits_tail_ok fuel m p e :
  p <= e -> (N.to_nat (e - p) < fuel)%nat ->
  scan_digits_tail fuel m p e = p + N.of_nat (scan_digits_spec (slice m p (N.to_nat (e - p)))).
Proof.
  unfold scan_digits_spec. revert p. induction fuel as [|f IH]; intros p Hle Hf; [lia|].
  cbn [scan_digits_tail]. destruct (N.ltb_spec p e) as [Hlt|Hge].
  - replace (N.to_nat (e - p)) with (S (N.to_nat (e - (p + 1)))) by lia.
    rewrite slice_S. cbn [count_while andb]. destruct (is_digit (m p)).
    + rewrite IH by lia. lia.
    + lia.
  - replace (e - p) with 0 by lia. cbn. lia.
Qed.

Lemma scan_digits_chunked_ok fuel m p e :
  p <= e -> (N.to_nat (e - p) < fuel)%nat ->
  scan_digits_chunked fuel m p e = p + N.of_nat (scan_digits_spec (slice m p (N.to_nat (e - p)))).
Proof.
  revert p. induction fuel as [|f IH]; intros p Hle Hf; [lia|].
  cbn [scan_digits_chunked]. destruct (N.leb_spec (p + 16) e) as [H16|H16].
  - rewrite mask16_slice.
    replace (N.to_nat (e - p)) with (16 + N.to_nat (e - (p + 16)))%nat by lia.
    rewrite slice_app. unfold scan_digits_spec.
    rewrite all_set_map.
    rewrite (forallb_ext_byte _ _ _ digit_vec_is).
    destruct (forallb is_digit (slice m p 16)) eqn:Hall.
    + rewrite IH by lia. unfold scan_digits_spec.
      rewrite count_while_app_all by assumption. rewrite slice_length.
      change (N.of_nat 16) with 16. lia.
    + rewrite count_while_app_stop by assumption.
      rewrite ctz_not_map_byte. do 2 f_equal. apply count_while_ext, digit_vec_is.
  - apply scan_digits_tail_ok; assumption.
Qed.

Theorem scan_digits_correct m p e :
  p <= e -> scan_digits m p e = p + N.of_nat (scan_digits_spec (slice m p (N.to_nat (e - p)))).
Proof. intros H. unfold scan_digits. apply scan_digits_chunked_ok; [assumption|lia]. Qed.

(* ------------------------------------------------------------------ find newline *)
Definition not_lf (b : byte) : bool := negb (is_lf b).

Lemma find_nl_tail_ok fuel m p e :
  p <= e -> (N.to_nat (e - p) < fuel)%nat ->
  find_nl_tail fuel m p e = p + N.of_nat (count_while not_lf (slice m p (N.to_nat (e - p)))).
Proof.
  revert p. induction fuel as [|f IH]; intros p Hle Hf; [lia|].
  cbn [find_nl_tail]. destruct (N.ltb_spec p e) as [Hlt|Hge].
  - replace (N.to_nat (e - p)) with (S (N.to_nat (e - (p + 1)))) by lia.
    rewrite slice_S. cbn [count_while andb]. unfold not_lf at 1. destruct (is_lf (m p)); cbn [negb].
    + lia.
    + rewrite IH by lia. lia.
  - replace (e - p) with 0 by lia. cbn. lia.
Qed.

Lemma existsb_false_forallb_neg (f : byte -> bool) l :
  existsb f l = false -> forallb (fun b => negb (f b)) l = true.
Proof.
  induction l as [|b t IH]; cbn; [reflexivity|]. intros H. apply orb_false_elim in H as [Hb Ht].
  rewrite Hb, IH by assumption. reflexivity.
Qed.

Lemma existsb_true_forallb_neg (f : byte -> bool) l :
  existsb f l = true -> forallb (fun b => negb (f b)) l = false.
Proof.
  induction l as [|b t IH]; cbn; [discriminate|]. intros H. destruct (f b); cbn; [reflexivity|].
  now apply IH.
Qed.

Lemma find_nl_chunked_ok fuel m p e :
  p <= e -> (N.to_nat (e - p) < fuel)%nat ->
  find_nl_chunked fuel m p e = p + N.of_nat (count_while not_lf (slice m p (N.to_nat (e - p)))).
Proof.
  revert p. induction fuel as [|f IH]; intros p Hle Hf; [lia|].
  cbn [find_nl_chunked]. destruct (N.leb_spec (p + 16) e) as [H16|H16].
  - rewrite mask16_slice.
    replace (N.to_nat (e - p)) with (16 + N.to_nat (e - (p + 16)))%nat by lia.
    rewrite slice_app. rewrite any_set_map.
    destruct (existsb is_lf_vec_findnl (slice m p 16)) eqn:Hany.
    + rewrite count_while_app_stop.
      * rewrite ctz_map_byte. do 2 f_equal. apply count_while_ext. intros b. unfold not_lf.
        now rewrite lf_vec_findnl_is.
      * apply existsb_true_forallb_neg in Hany.
        rewrite <- Hany. apply forallb_ext_byte. intros b. unfold not_lf. now rewrite lf_vec_findnl_is.
    + rewrite IH by lia. rewrite count_while_app_all.
      * rewrite slice_length. change (N.of_nat 16) with 16. lia.
      * apply existsb_false_forallb_neg in Hany.
        rewrite <- Hany. apply forallb_ext_byte. intros b. unfold not_lf. now rewrite lf_vec_findnl_is.
  - apply find_nl_tail_ok; assumption.
Qed.

Lemma find_nl_correct m p e :
  p <= e -> find_nl m p e = p + N.of_nat (count_while not_lf (slice m p (N.to_nat (e - p)))).
Proof. intros H. unfold find_nl. apply find_nl_chunked_ok; [assumption|lia]. Qed.

(* ------------------------------------------------------------------ skip whitespace *)
Lemma count_while_slice_split f m off n :
  let k := count_while f (slice m off n) in
  forallb f (slice m off k) = true /\ ((k < n)%nat -> f (m (off + N.of_nat k)) = false).
Proof.
  revert off. induction n as [|n IH]; intros off; cbn zeta.
  - cbn. split; [reflexivity|lia].
  - rewrite slice_S. cbn [count_while]. destruct (f (m off)) eqn:Hf.
    + specialize (IH (off + 1)). cbn zeta in IH. destruct IH as [IH1 IH2].
      rewrite slice_S. cbn [forallb]. rewrite Hf, IH1. split; [reflexivity|].
      intros Hk. replace (off + N.of_nat (S (count_while f (slice m (off + 1) n))))
        with (off + 1 + N.of_nat (count_while f (slice m (off + 1) n))) by lia.
      apply IH2. lia.
    + cbn. split; [reflexivity|]. intros _. now rewrite N.add_0_r.
Qed.

Definition ws_plain (b : byte) : bool := is_ws b && negb (is_semi b).

Lemma spec_comment_app l1 l2 :
  forallb not_lf l1 = true ->
  skip_ws_spec true (l1 ++ l2) = (length l1 + skip_ws_spec true l2)%nat.
Proof.
  induction l1 as [|b t IH]; cbn [app length forallb skip_ws_spec Nat.add]; [reflexivity|].
  intros H. apply andb_prop in H as [Hb Ht]. unfold not_lf in Hb. rewrite Hb. cbn [negb].
  now rewrite IH.
Qed.

Lemma spec_plain_app l1 l2 :
  forallb ws_plain l1 = true ->
  skip_ws_spec false (l1 ++ l2) = (length l1 + skip_ws_spec false l2)%nat.
Proof.
  induction l1 as [|b t IH]; cbn [app length forallb skip_ws_spec Nat.add]; [reflexivity|].
  intros H. apply andb_prop in H as [Hb Ht]. unfold ws_plain in Hb. apply andb_prop in Hb as [Hw Hs].
  apply negb_true_iff in Hs. rewrite Hs, Hw. now rewrite IH.
Qed.

Lemma ws_vec_plain l : forallb is_ws_vec l = true -> forallb ws_plain l = true.
Proof.
  induction l as [|b t IH]; cbn; [reflexivity|]. intros H. apply andb_prop in H as [Hb Ht].
  rewrite IH by assumption. unfold ws_plain. apply ws_vec_ws in Hb. rewrite Hb, (ws_semi_false _ Hb).
  reflexivity.
Qed.

Lemma skip_ws_chunked_ok fuel m p e :
  p <= e -> (N.to_nat (e - p) < fuel)%nat ->
  skip_ws_chunked fuel m p e = p + N.of_nat (skip_ws_spec false (slice m p (N.to_nat (e - p)))).
Proof.
  revert p. induction fuel as [|f IH]; intros p Hle Hf; [lia|].
  cbn [skip_ws_chunked]. destruct (N.ltb_spec p e) as [Hlt|Hge].
  2:{ replace (e - p) with 0 by lia. cbn. lia. }
  destruct (is_semi (m p)) eqn:Hsemi.
  - (* comment *)
    rewrite find_nl_correct by lia.
    set (n := N.to_nat (e - (p + 1))).
    set (k := count_while not_lf (slice m (p + 1) n)).
    pose proof (count_while_slice_split not_lf m (p + 1) n) as Hsplit. cbn zeta in Hsplit.
    fold k in Hsplit. destruct Hsplit as [Hpre Hstop].
    pose proof (count_while_le not_lf (slice m (p + 1) n)) as Hk. fold k in Hk.
    rewrite slice_length in Hk.
    replace (N.to_nat (e - p)) with (S n) by (unfold n; lia).
    rewrite slice_S. cbn [skip_ws_spec]. rewrite Hsemi.
    replace n with (k + (n - k))%nat by lia. rewrite slice_app.
    rewrite spec_comment_app by assumption. rewrite slice_length.
    destruct (N.ltb_spec (p + 1 + N.of_nat k) e) as [Hq|Hq].
    + assert (Hkn : (k < n)%nat) by (unfold n; lia).
      specialize (Hstop Hkn). unfold not_lf in Hstop. apply negb_false_iff in Hstop.
      rewrite Hstop. cbn [andb].
      replace (n - k)%nat with (S (n - k - 1)) by lia. rewrite slice_S.
      cbn [skip_ws_spec]. rewrite Hstop. cbn [negb].
      rewrite IH by (unfold n in *; lia).
      replace (N.to_nat (e - (p + 1 + N.of_nat k + 1))) with (n - k - 1)%nat by (unfold n; lia).
      replace (p + 1 + N.of_nat k + 1) with (p + 1 + N.of_nat k + 1) by reflexivity. lia.
    + cbn [andb]. assert (Hkn : k = n) by (unfold n in *; lia).
      rewrite IH by (unfold n in *; lia).
      replace (N.to_nat (e - (p + 1 + N.of_nat k))) with 0%nat by (unfold n in *; lia).
      replace (n - k)%nat with 0%nat by lia. rewrite !slice_0. cbn [skip_ws_spec]. lia.
  - destruct (N.leb_spec (p + 16) e) as [H16|H16]; cbn [andb].
    + rewrite mask16_slice, all_set_map.
      destruct (forallb is_ws_vec (slice m p 16)) eqn:Hall.
      * rewrite IH by lia.
        replace (N.to_nat (e - p)) with (16 + N.to_nat (e - (p + 16)))%nat by lia.
        rewrite slice_app, spec_plain_app by (apply ws_vec_plain; assumption).
        rewrite slice_length. change (N.of_nat 16) with 16. lia.
      * replace (N.to_nat (e - p)) with (S (N.to_nat (e - (p + 1)))) by lia.
        rewrite slice_S. cbn [skip_ws_spec]. rewrite Hsemi.
        destruct (is_ws (m p)); [rewrite IH by lia; lia | lia].
    + replace (N.to_nat (e - p)) with (S (N.to_nat (e - (p + 1)))) by lia.
      rewrite slice_S. cbn [skip_ws_spec]. rewrite Hsemi.
      destruct (is_ws (m p)); [rewrite IH by lia; lia | lia].
Qed.

Theorem skip_ws_correct m p e :
  p <= e -> skip_ws m p e = p + N.of_nat (skip_ws_spec false (slice m p (N.to_nat (e - p)))).
Proof. intros H. unfold skip_ws. apply skip_ws_chunked_ok; [assumption|lia]. Qed.

(* ------------------------------------------------------------------ line-feed index *)
Lemma lf_positions_app i l1 l2 :
  lf_positions i (l1 ++ l2) = lf_positions i l1 ++ lf_positions (i + N.of_nat (length l1)) l2.
Proof.
  revert i. induction l1 as [|b t IH]; intros i; cbn [app lf_positions length].
  - now rewrite N.add_0_r.
  - rewrite IH. replace (i + 1 + N.of_nat (length t)) with (i + N.of_nat (S (length t))) by lia.
    destruct (is_lf b); reflexivity.
Qed.

Lemma mask_positions_lf base k l :
  mask_positions base k (map is_lf_vec_index l) = lf_positions (base + k) l.
Proof.
  revert k. induction l as [|b t IH]; intros k; cbn [map mask_positions lf_positions]; [reflexivity|].
  rewrite lf_vec_index_is, IH. replace (base + (k + 1)) with (base + k + 1) by lia. reflexivity.
Qed.

Lemma lf_index_tail_ok fuel m p e :
  p <= e -> (N.to_nat (e - p) < fuel)%nat ->
  lf_index_tail fuel m p e = lf_positions p (slice m p (N.to_nat (e - p))).
Proof.
  revert p. induction fuel as [|f IH]; intros p Hle Hf; [lia|].
  cbn [lf_index_tail]. destruct (N.ltb_spec p e) as [Hlt|Hge].
  - replace (N.to_nat (e - p)) with (S (N.to_nat (e - (p + 1)))) by lia.
    rewrite slice_S. cbn [lf_positions]. rewrite IH by lia. destruct (is_lf (m p)); reflexivity.
  - replace (e - p) with 0 by lia. reflexivity.
Qed.

Lemma lf_index_chunked_ok fuel m p e :
  p <= e -> (N.to_nat (e - p) < fuel)%nat ->
  lf_index_chunked fuel m p e = lf_positions p (slice m p (N.to_nat (e - p))).
Proof.
  revert p. induction fuel as [|f IH]; intros p Hle Hf; [lia|].
  cbn [lf_index_chunked]. destruct (N.leb_spec (p + 16) e) as [H16|H16].
  - rewrite mask16_slice, mask_positions_lf, N.add_0_r, IH by lia.
    replace (N.to_nat (e - p)) with (16 + N.to_nat (e - (p + 16)))%nat by lia.
    rewrite slice_app, lf_positions_app, slice_length. reflexivity.
  - apply lf_index_tail_ok; assumption.
Qed.

Theorem lf_index_correct m len : lf_index m len = lf_positions 0 (slice m 0 (N.to_nat len)).
Proof.
  unfold lf_index. rewrite lf_index_chunked_ok by lia. now rewrite N.sub_0_r.
Qed.

(* ------------------------------------------------------------------ identifier scan *)
Definition upd_slash (slash : option N) (c : byte) (p : N) : option N :=
  match slash with Some s => Some s | None => if is_slash c then Some p else None end.

Definition lift_slash (base : N) (r : option (nat * option nat)) : option (N * option N) :=
  match r with
  | None => None
  | Some (i, s) => Some (base + N.of_nat i,
                         match s with None => None | Some j => Some (base + N.of_nat j) end)
  end.

(* the scalar loop started at offset [p] = base + i with state (prev_colon, slash) *)
Lemma ident_loop_ok fuel m base i e pc (slash : option nat) :
  base + N.of_nat i <= e -> (N.to_nat (e - (base + N.of_nat i)) < fuel)%nat ->
  ident_loop fuel m (base + N.of_nat i) e pc
             (match slash with None => None | Some j => Some (base + N.of_nat j) end)
  = lift_slash base (ident_spec pc slash i
                       (slice m (base + N.of_nat i) (N.to_nat (e - (base + N.of_nat i))))).
Proof.
  revert i pc slash. induction fuel as [|f IH]; intros i pc slash Hle Hf; [lia|].
  cbn [ident_loop]. destruct (N.ltb_spec (base + N.of_nat i) e) as [Hlt|Hge].
  - replace (N.to_nat (e - (base + N.of_nat i)))
      with (S (N.to_nat (e - (base + N.of_nat (S i))))) by lia.
    rewrite slice_S. cbn [ident_spec]. set (c := m (base + N.of_nat i)).
    destruct (is_delim c); [reflexivity|].
    destruct (is_colon c && pc); [reflexivity|].
    replace (base + N.of_nat i + 1) with (base + N.of_nat (S i)) by lia.
    specialize (IH (S i) (is_colon c)
                   (match slash with Some s => Some s | None => if is_slash c then Some i else None end)).
    rewrite <- IH by lia. f_equal.
    destruct slash as [j|]; [reflexivity|]. destruct (is_slash c); reflexivity.
  - replace (e - (base + N.of_nat i)) with 0 by lia. reflexivity.
Qed.

(* the non-stopping scalar pass used for long inputs: end / first slash / adjacency, in
   terms of the same specification run twice (once ignoring adjacency) *)
Fixpoint ident_end (slash : option nat) (i : nat) (l : list byte) : nat * option nat :=
  match l with
  | [] => (i, slash)
  | c :: t => if is_delim c then (i, slash)
              else ident_end (match slash with Some s => Some s | None => if is_slash c then Some i else None end)
                             (S i) t
  end.
Fixpoint ident_adj (pc : bool) (l : list byte) : bool :=
  match l with
  | [] => false
  | c :: t => if is_delim c then false else (is_colon c && pc) || ident_adj (is_colon c) t
  end.

Lemma ident_spec_split pc slash i l :
  ident_spec pc slash i l = if ident_adj pc l then None else Some (ident_end slash i l).
Proof.
  revert pc slash i. induction l as [|c t IH]; intros pc slash i; cbn [ident_spec ident_adj ident_end].
  - reflexivity.
  - destruct (is_delim c); [reflexivity|]. destruct (is_colon c && pc); cbn [orb]; [reflexivity|].
    apply IH.
Qed.

Lemma ident_simd_scalar_ok fuel m base i e pc adj (slash : option nat) :
  base + N.of_nat i <= e -> (N.to_nat (e - (base + N.of_nat i)) < fuel)%nat ->
  let l := slice m (base + N.of_nat i) (N.to_nat (e - (base + N.of_nat i))) in
  ident_simd_scalar fuel m (base + N.of_nat i) e pc adj
                    (match slash with None => None | Some j => Some (base + N.of_nat j) end)
  = (base + N.of_nat (fst (ident_end slash i l)),
     match snd (ident_end slash i l) with None => None | Some j => Some (base + N.of_nat j) end,
     adj || ident_adj pc l).
Proof.
  revert i pc adj slash. induction fuel as [|f IH]; intros i pc adj slash Hle Hf; [lia|].
  cbn zeta. cbn [ident_simd_scalar]. destruct (N.ltb_spec (base + N.of_nat i) e) as [Hlt|Hge].
  - replace (N.to_nat (e - (base + N.of_nat i)))
      with (S (N.to_nat (e - (base + N.of_nat (S i))))) by lia.
    rewrite slice_S. cbn [ident_end ident_adj]. set (c := m (base + N.of_nat i)).
    destruct (is_delim c).
    + cbn [fst snd]. now rewrite orb_false_r.
    + replace (base + N.of_nat i + 1) with (base + N.of_nat (S i)) by lia.
      specialize (IH (S i) (is_colon c) (adj || is_colon c && pc)
                     (match slash with Some s => Some s | None => if is_slash c then Some i else None end)).
      cbn zeta in IH. rewrite orb_assoc. rewrite <- IH by lia. f_equal.
      destruct slash as [j|]; [reflexivity|]. destruct (is_slash c); reflexivity.
  - replace (e - (base + N.of_nat i)) with 0 by lia. cbn. now rewrite orb_false_r.
Qed.

Lemma ident_end_bound slash i l : (i <= fst (ident_end slash i l) <= i + length l)%nat.
Proof.
  revert slash i. induction l as [|c t IH]; intros slash i; cbn [ident_end length fst]; [lia|].
  destruct (is_delim c); cbn [fst]; [lia|].
  specialize (IH (match slash with Some s => Some s | None => if is_slash c then Some i else None end) (S i)).
  lia.
Qed.

(* after the non-stopping pass the cursor is at a delimiter or at the end *)
Lemma ident_end_stops slash i l :
  let k := fst (ident_end slash i l) in
  (k - i = length l)%nat \/ exists c, nth_error l (k - i) = Some c /\ is_delim c = true.
Proof.
  revert slash i. induction l as [|c t IH]; intros slash i; cbn zeta; cbn [ident_end length fst].
  - left. lia.
  - destruct (is_delim c) eqn:Hd; cbn [fst].
    + right. exists c. rewrite Nat.sub_diag. split; [reflexivity|assumption].
    + set (sl := match slash with Some s => Some s | None => if is_slash c then Some i else None end).
      specialize (IH sl (S i)). cbn zeta in IH.
      pose proof (ident_end_bound sl (S i) t) as Hb.
      destruct IH as [IH|[c' [Hn Hc']]].
      * left. lia.
      * right. exists c'. split; [|assumption].
        replace (fst (ident_end sl (S i) t) - i)%nat with (S (fst (ident_end sl (S i) t) - S i)) by lia.
        exact Hn.
Qed.

Lemma slice_nth_error m off n k :
  (k < n)%nat -> nth_error (slice m off n) k = Some (m (off + N.of_nat k)).
Proof.
  intros H. unfold slice. rewrite nth_error_map, nth_error_nth' with (d := 0%nat) by (rewrite seq_length; lia).
  rewrite seq_nth by lia. reflexivity.
Qed.

Lemma ident_loop_at_stop fuel m q e pc slash :
  (q < e -> is_delim (m q) = true) -> ident_loop (S fuel) m q e pc slash = Some (q, slash).
Proof.
  intros H. cbn [ident_loop]. destruct (N.ltb_spec q e) as [Hlt|Hge]; [|reflexivity].
  now rewrite (H Hlt).
Qed.

Theorem scan_identifier_correct m p e :
  p <= e ->
  scan_identifier m p e = lift_slash p (ident_spec false None 0 (slice m p (N.to_nat (e - p)))).
Proof.
  intros Hle. unfold scan_identifier.
  destruct (N.leb_spec (e - p) 16) as [Hshort|Hlong].
  - pose proof (ident_loop_ok (S (N.to_nat (e - p))) m p 0 e false None) as H.
    cbn [N.of_nat] in H. rewrite N.add_0_r in H. apply H; lia.
  - pose proof (ident_simd_scalar_ok (S (N.to_nat (e - p))) m p 0 e false false None) as H.
    cbn [N.of_nat] in H. rewrite N.add_0_r in H. cbn zeta in H. rewrite H by lia. clear H.
    set (l := slice m p (N.to_nat (e - p))).
    rewrite ident_spec_split. cbn [orb].
    destruct (ident_adj false l); [reflexivity|].
    pose proof (ident_end_stops None 0 l) as Hstop. cbn zeta in Hstop.
    pose proof (ident_end_bound None 0 l) as Hb.
    destruct (ident_end None 0 l) as [k sl] eqn:Hend. cbn [fst snd] in *.
    unfold l in Hb, Hstop. rewrite slice_length in Hb, Hstop. rewrite Nat.sub_0_r in Hstop.
    rewrite ident_loop_at_stop.
    + reflexivity.
    + intros Hq. destruct Hstop as [Hk|[c [Hn Hc]]]; [lia|].
      rewrite slice_nth_error in Hn by lia. now inversion Hn; subst.
Qed.

(* ------------------------------------------------------------------ find closing quote *)
Definition special (b : byte) : bool := is_quote b || is_bslash b.
Definition plain (b : byte) : bool := negb (special b).

Definition lift_q (base : N) (r : option (nat * bool)) : option (N * bool) :=
  match r with None => None | Some (i, f) => Some (base + N.of_nat i, f) end.

Lemma fq_spec_plain_app seen i l1 l2 :
  forallb plain l1 = true ->
  find_quote_spec false seen i (l1 ++ l2) = find_quote_spec false seen (i + length l1) l2.
Proof.
  revert i. induction l1 as [|b t IH]; intros i; cbn [app length forallb find_quote_spec].
  - intros _. now rewrite Nat.add_0_r.
  - intros H. apply andb_prop in H as [Hb Ht]. unfold plain, special in Hb.
    apply negb_true_iff, orb_false_elim in Hb as [Hq Hs]. rewrite Hq, Hs, IH by assumption.
    f_equal. lia.
Qed.

Lemma mask_or_map (f g : byte -> bool) l :
  mask_or (map f l) (map g l) = map (fun b => f b || g b) l.
Proof. unfold mask_or. induction l as [|b t IH]; cbn; [reflexivity|]. now rewrite <- IH. Qed.

Lemma existsb_count_lt (f : byte -> bool) l :
  existsb f l = true -> (count_while (fun b => negb (f b)) l < length l)%nat.
Proof.
  induction l as [|b t IH]; cbn; [discriminate|]. destruct (f b); cbn; [lia|]. intros H.
  specialize (IH H). lia.
Qed.

Lemma find_quote_tail_ok fuel m base i e hb :
  base + N.of_nat i <= e -> (N.to_nat (e - (base + N.of_nat i)) < fuel)%nat ->
  find_quote_tail fuel m (base + N.of_nat i) e hb
  = lift_q base (find_quote_spec false hb i
                   (slice m (base + N.of_nat i) (N.to_nat (e - (base + N.of_nat i))))).
Proof.
  revert i hb. induction fuel as [|f IH]; intros i hb Hle Hf; [lia|].
  cbn [find_quote_tail]. destruct (N.ltb_spec (base + N.of_nat i) e) as [Hlt|Hge].
  2:{ replace (e - (base + N.of_nat i)) with 0 by lia. reflexivity. }
  replace (N.to_nat (e - (base + N.of_nat i)))
    with (S (N.to_nat (e - (base + N.of_nat (S i))))) by lia.
  rewrite slice_S. cbn [find_quote_spec]. set (c := m (base + N.of_nat i)).
  destruct (is_bslash c) eqn:Hbs.
  - destruct (N.leb_spec e (base + N.of_nat i + 1)) as [Hend|Hmore].
    + replace (e - (base + N.of_nat (S i))) with 0 by lia. reflexivity.
    + replace (N.to_nat (e - (base + N.of_nat (S i))))
        with (S (N.to_nat (e - (base + N.of_nat (S (S i)))))) by lia.
      rewrite slice_S. cbn [find_quote_spec].
      replace (base + N.of_nat i + 2) with (base + N.of_nat (S (S i))) by lia.
      replace (base + N.of_nat i + 1 + 1) with (base + N.of_nat (S (S i))) by lia.
      apply IH; lia.
  - destruct (is_quote c).
    + rewrite flag_tail_exact. reflexivity.
    + replace (base + N.of_nat i + 1) with (base + N.of_nat (S i)) by lia. apply IH; lia.
Qed.

Lemma find_quote_chunked_ok fuel m base i e hb :
  base + N.of_nat i <= e -> (N.to_nat (e - (base + N.of_nat i)) < fuel)%nat ->
  find_quote_chunked fuel m (base + N.of_nat i) e hb
  = lift_q base (find_quote_spec false hb i
                   (slice m (base + N.of_nat i) (N.to_nat (e - (base + N.of_nat i))))).
Proof.
  revert i hb. induction fuel as [|f IH]; intros i hb Hle Hf; [lia|].
  cbn [find_quote_chunked]. set (p := base + N.of_nat i) in *.
  destruct (N.leb_spec (p + 16) e) as [H16|H16].
  2:{ apply find_quote_tail_ok; assumption. }
  cbn zeta. rewrite !mask16_slice, mask_or_map, any_set_map.
  set (sp := fun b => is_quote_vec b || is_bslash_vec b).
  assert (Hsp : forall b, sp b = special b).
  { intros b. unfold sp, special. now rewrite quote_vec_is, bslash_vec_is. }
  destruct (existsb sp (slice m p 16)) eqn:Hany; cbn [negb].
  - (* some special byte in the chunk *)
    rewrite ctz_map_byte.
    set (k := count_while (fun b => negb (sp b)) (slice m p 16)).
    pose proof (count_while_slice_split (fun b => negb (sp b)) m p 16) as Hsplit.
    cbn zeta in Hsplit. fold k in Hsplit. destruct Hsplit as [Hpre Hstop].
    pose proof (existsb_count_lt sp _ Hany) as Hk. fold k in Hk. rewrite slice_length in Hk.
    specialize (Hstop Hk). apply negb_false_iff in Hstop. rewrite Hsp in Hstop.
    assert (Hpre' : forallb plain (slice m p k) = true).
    { rewrite <- Hpre. apply forallb_ext_byte. intros b. unfold plain. now rewrite Hsp. }
    replace (N.to_nat (e - p)) with (k + S (N.to_nat (e - (p + N.of_nat k + 1))))%nat by lia.
    rewrite slice_app, fq_spec_plain_app, slice_length by assumption.
    rewrite (slice_S m (p + N.of_nat k)). cbn [find_quote_spec].
    set (c := m (p + N.of_nat k)) in *. unfold special in Hstop.
    destruct (is_bslash c) eqn:Hbs.
    + destruct (N.leb_spec e (p + N.of_nat k + 1)) as [Hend|Hmore].
      * replace (e - (p + N.of_nat k + 1)) with 0 by lia. reflexivity.
      * replace (N.to_nat (e - (p + N.of_nat k + 1)))
          with (S (N.to_nat (e - (p + N.of_nat k + 2)))) by lia.
        rewrite (slice_S m (p + N.of_nat k + 1)). cbn [find_quote_spec].
        replace (p + N.of_nat k + 2) with (base + N.of_nat (S (i + k + 1))) by (unfold p; lia).
        replace (p + N.of_nat k + 1 + 1) with (base + N.of_nat (S (i + k + 1))) by (unfold p; lia).
        replace (S (S (i + k))) with (S (i + k + 1)) by lia.
        apply IH; unfold p in *; lia.
    + rewrite orb_false_r in Hstop. rewrite Hstop, flag_vec_exact. cbn [lift_q].
      f_equal. f_equal. unfold p. lia.
  - (* no special byte: skip 16 *)
    assert (Hpl : forallb plain (slice m p 16) = true).
    { apply existsb_false_forallb_neg in Hany. rewrite <- Hany. apply forallb_ext_byte.
      intros b. unfold plain. now rewrite Hsp. }
    replace (N.to_nat (e - p)) with (16 + N.to_nat (e - (p + 16)))%nat by lia.
    rewrite slice_app, fq_spec_plain_app, slice_length by assumption.
    replace (p + 16) with (base + N.of_nat (i + 16)) by (unfold p; lia).
    replace (p + N.of_nat 16) with (base + N.of_nat (i + 16)) by (unfold p; lia).
    apply IH; unfold p in *; lia.
Qed.

Theorem find_quote_correct m p e :
  p <= e ->
  find_quote m p e = lift_q p (find_quote_spec false false 0 (slice m p (N.to_nat (e - p)))).
Proof.
  intros Hle. unfold find_quote.
  pose proof (find_quote_chunked_ok (S (N.to_nat (e - p))) m p 0 e false) as H.
  cbn [N.of_nat] in H. rewrite N.add_0_r in H. apply H; lia.
Qed.

(* ------------------------------------------------------------------ frame: the result of
   scanning m[p..e) does not depend on any byte outside it *)
Definition agree (m1 m2 : mem) (p e : N) : Prop := forall k, p <= k < e -> m1 k = m2 k.

Lemma agree_slice m1 m2 p e : p <= e -> agree m1 m2 p e ->
  slice m1 p (N.to_nat (e - p)) = slice m2 p (N.to_nat (e - p)).
Proof. intros Hle H. apply slice_agree. intros k Hk. apply H. lia. Qed.

Theorem scanners_frame m1 m2 p e : p <= e -> agree m1 m2 p e ->
  scan_digits m1 p e = scan_digits m2 p e /\
  skip_ws m1 p e = skip_ws m2 p e /\
  find_quote m1 p e = find_quote m2 p e /\
  scan_identifier m1 p e = scan_identifier m2 p e.
Proof.
  intros Hle H. rewrite !scan_digits_correct, !skip_ws_correct, !find_quote_correct,
    !scan_identifier_correct by assumption.
  now rewrite (agree_slice m1 m2 p e Hle H).
Qed.

Theorem lf_index_frame m1 m2 len : agree m1 m2 0 len -> lf_index m1 len = lf_index m2 len.
Proof.
  intros H. rewrite !lf_index_correct. f_equal.
  pose proof (agree_slice m1 m2 0 len (N.le_0_l _) H) as E. now rewrite N.sub_0_r in E.
Qed.
