(* Proofs/RegistryProofs.v -- the 16-bucket chained handler registry (reader.c) and the
   external-type list (edn.c) refine a finite map: after any sequence of register /
   re-register / unregister operations, lookup returns the most recently registered entry
   for the name, or none. *)
From Coq Require Import ZArith NArith List Bool Lia.
From Coq.Strings Require Import Byte.
From Verif Require Import Lanes Common Values Numbers Equality Api.
Import ListNotations.

Lemma byte_eqb_eq a b : Byte.eqb a b = true <-> a = b.
Proof. apply Byte.byte_dec_bl || (split; [apply Byte.byte_dec_bl|apply Byte.byte_dec_lb]). Qed.

Lemma bytes_eqb_eq a b : bytes_eqb a b = true <-> a = b.
Proof.
  revert b. induction a as [|x a IH]; intros [|y b]; cbn; try (split; [discriminate|discriminate]); try tauto.
  rewrite andb_true_iff, byte_eqb_eq, IH. split; [intros [-> ->]; reflexivity|intros H; inversion H; auto].
Qed.

Lemma bytes_eqb_refl a : bytes_eqb a a = true.
Proof. now apply bytes_eqb_eq. Qed.

Lemma bytes_eqb_neq a b : a <> b -> bytes_eqb a b = false.
Proof. intros H. destruct (bytes_eqb a b) eqn:E; [apply bytes_eqb_eq in E; contradiction|reflexivity]. Qed.

(* ---- one chain ---- *)
Definition keys (ch : list (bytes * Z)) : list bytes := map fst ch.

Lemma chain_find_not_in ch t : ~ In t (keys ch) -> chain_find ch t = None.
Proof.
  induction ch as [|[k v] r IH]; cbn; [reflexivity|]. intros H.
  rewrite bytes_eqb_neq by (intros ->; apply H; now left). apply IH. intros Hin. apply H. now right.
Qed.

Lemma chain_replace_none ch t h : chain_replace ch t h = None <-> ~ In t (keys ch).
Proof.
  induction ch as [|[k v] r IH]; cbn; [tauto|].
  destruct (bytes_eqb k t) eqn:E.
  - apply bytes_eqb_eq in E. subst. split; [discriminate|]. intros H. exfalso. apply H. now left.
  - destruct (chain_replace r t h) eqn:R.
    + split; [discriminate|]. intros H. exfalso. apply (proj1 IH); [|reflexivity] || idtac.
      assert (~ In t (keys r)) by (intros Hin; apply H; now right). apply IH in H0. discriminate.
    + split; [|reflexivity]. intros _ [Hk|Hin]; [subst; rewrite bytes_eqb_refl in E; discriminate|].
      apply (proj1 IH eq_refl Hin).
Qed.

Lemma chain_replace_keys ch t h ch' : chain_replace ch t h = Some ch' -> keys ch' = keys ch.
Proof.
  revert ch'. induction ch as [|[k v] r IH]; cbn; [discriminate|]. intros ch'.
  destruct (bytes_eqb k t); [intros H; inversion H; reflexivity|].
  destruct (chain_replace r t h) as [r'|] eqn:R; [|discriminate].
  intros H; inversion H; subst. cbn. f_equal. now apply IH.
Qed.

Lemma chain_replace_find ch t h ch' t' :
  chain_replace ch t h = Some ch' ->
  chain_find ch' t' = if bytes_eqb t t' then Some h else chain_find ch t'.
Proof.
  revert ch'. induction ch as [|[k v] r IH]; cbn; [discriminate|]. intros ch'.
  destruct (bytes_eqb k t) eqn:E.
  - intros H; inversion H; subst. cbn. apply bytes_eqb_eq in E. subst k.
    destruct (bytes_eqb t t'); reflexivity.
  - destruct (chain_replace r t h) as [r'|] eqn:R; [|discriminate].
    intros H; inversion H; subst. cbn. destruct (bytes_eqb k t') eqn:E'.
    + apply bytes_eqb_eq in E'. subst k. rewrite bytes_eqb_neq; [reflexivity|].
      intros ->. rewrite bytes_eqb_refl in E. discriminate.
    + now apply IH.
Qed.

Lemma chain_remove_find ch t t' : NoDup (keys ch) ->
  chain_find (chain_remove ch t) t' = if bytes_eqb t t' then None else chain_find ch t'.
Proof.
  induction ch as [|[k v] r IH]; cbn; intros Hnd.
  - now destruct (bytes_eqb t t').
  - inversion Hnd as [|? ? Hnotin Hnd']; subst.
    destruct (bytes_eqb k t) eqn:E.
    + apply bytes_eqb_eq in E. subst k. destruct (bytes_eqb t t') eqn:E'.
      * apply bytes_eqb_eq in E'. subst t'. now apply chain_find_not_in.
      * reflexivity.
    + cbn. destruct (bytes_eqb k t') eqn:E'.
      * apply bytes_eqb_eq in E'. subst k. rewrite bytes_eqb_neq; [reflexivity|].
        intros ->. rewrite bytes_eqb_refl in E. discriminate.
      * now apply IH.
Qed.

Lemma chain_remove_keys_incl ch t : forall k, In k (keys (chain_remove ch t)) -> In k (keys ch).
Proof.
  induction ch as [|[k v] r IH]; cbn; [tauto|]. intros k'.
  destruct (bytes_eqb k t); cbn; [now right|]. intros [->|H]; [now left|right; now apply IH].
Qed.

Lemma chain_remove_nodup ch t : NoDup (keys ch) -> NoDup (keys (chain_remove ch t)).
Proof.
  induction ch as [|[k v] r IH]; cbn; intros Hnd; [constructor|].
  inversion Hnd as [|? ? Hnotin Hnd']; subst.
  destruct (bytes_eqb k t); [assumption|]. cbn. constructor; [|now apply IH].
  intros Hin. apply Hnotin. eapply chain_remove_keys_incl; eassumption.
Qed.

(* ---- the bucket array ---- *)
Lemma nth_upd_nth_same {A} (f : A -> A) l i d : (i < List.length l)%nat -> nth i (upd_nth i f l) d = f (nth i l d).
Proof. revert i. induction l as [|x t IH]; intros [|i] H; cbn in *; try lia; [reflexivity|apply IH; lia]. Qed.
Lemma nth_upd_nth_other {A} (f : A -> A) l i j d : i <> j -> nth j (upd_nth i f l) d = nth j l d.
Proof. revert i j. induction l as [|x t IH]; intros [|i] [|j] H; cbn; try reflexivity; try lia. apply IH. lia. Qed.
Lemma upd_nth_length {A} (f : A -> A) l i : List.length (upd_nth i f l) = List.length l.
Proof. revert i. induction l as [|x t IH]; intros [|i]; cbn; try reflexivity. now rewrite IH. Qed.

Definition nbuckets : nat := Z.to_nat INITIAL_BUCKET_COUNT.
Definition reg_inv (r : registry) : Prop :=
  List.length r = nbuckets /\ forall i, NoDup (keys (nth i r [])).

Lemma bucket_lt t : (bucket_of t < nbuckets)%nat.
Proof.
  unfold bucket_of, nbuckets. assert (0 < INITIAL_BUCKET_COUNT)%Z by reflexivity.
  pose proof (Z.mod_pos_bound (hash_tag t) INITIAL_BUCKET_COUNT H). lia.
Qed.

Lemma reg_empty_inv : reg_inv reg_empty.
Proof.
  split; [apply repeat_length|]. intros i. unfold reg_empty.
  destruct (Nat.lt_ge_cases i (Z.to_nat INITIAL_BUCKET_COUNT)).
  - rewrite nth_repeat. constructor.
  - rewrite nth_overflow by (rewrite repeat_length; lia). constructor.
Qed.

Lemma reg_empty_lookup t : reg_lookup reg_empty t = None.
Proof. unfold reg_lookup, reg_empty. rewrite nth_repeat. reflexivity. Qed.

Lemma reg_register_spec r t h t' : reg_inv r ->
  reg_inv (reg_register r t h) /\
  reg_lookup (reg_register r t h) t' = if bytes_eqb t t' then Some h else reg_lookup r t'.
Proof.
  intros [Hlen Hnd]. pose proof (bucket_lt t) as Hb. split.
  - split; [unfold reg_register; now rewrite upd_nth_length|]. intros i. unfold reg_register.
    destruct (Nat.eq_dec (bucket_of t) i) as [<-|Hne].
    + rewrite nth_upd_nth_same by lia. specialize (Hnd (bucket_of t)).
      destruct (chain_replace (nth (bucket_of t) r []) t h) as [ch'|] eqn:R.
      * now rewrite (chain_replace_keys _ _ _ _ R).
      * cbn. constructor; [now apply chain_replace_none in R|assumption].
    + rewrite nth_upd_nth_other by assumption. apply Hnd.
  - unfold reg_lookup, reg_register.
    destruct (Nat.eq_dec (bucket_of t) (bucket_of t')) as [E|Hne].
    + rewrite <- E, nth_upd_nth_same by lia.
      destruct (chain_replace (nth (bucket_of t) r []) t h) as [ch'|] eqn:R.
      * now apply chain_replace_find.
      * cbn. destruct (bytes_eqb t t'); reflexivity.
    + rewrite nth_upd_nth_other by assumption. rewrite bytes_eqb_neq; [reflexivity|]. intros ->. now apply Hne.
Qed.

Lemma reg_unregister_spec r t t' : reg_inv r ->
  reg_inv (reg_unregister r t) /\
  reg_lookup (reg_unregister r t) t' = if bytes_eqb t t' then None else reg_lookup r t'.
Proof.
  intros [Hlen Hnd]. pose proof (bucket_lt t) as Hb. split.
  - split; [unfold reg_unregister; now rewrite upd_nth_length|]. intros i. unfold reg_unregister.
    destruct (Nat.eq_dec (bucket_of t) i) as [<-|Hne].
    + rewrite nth_upd_nth_same by lia. apply chain_remove_nodup, Hnd.
    + rewrite nth_upd_nth_other by assumption. apply Hnd.
  - unfold reg_lookup, reg_unregister.
    destruct (Nat.eq_dec (bucket_of t) (bucket_of t')) as [E|Hne].
    + rewrite <- E, nth_upd_nth_same by lia. apply chain_remove_find, Hnd.
    + rewrite nth_upd_nth_other by assumption. rewrite bytes_eqb_neq; [reflexivity|]. intros ->. now apply Hne.
Qed.

(* ---- refinement of a finite map, over any operation sequence ---- *)
Definition spec := bytes -> option Z.
Definition spec_step (s : spec) (o : reg_op) : spec :=
  match o with
  | RReg t h => fun t' => if bytes_eqb t t' then Some h else s t'
  | RUnreg t => fun t' => if bytes_eqb t t' then None else s t'
  | RLook _ => s
  end.

Theorem registry_refines ops : forall r s,
  reg_inv r -> (forall t, reg_lookup r t = s t) ->
  let r' := fold_left (fun r o => fst (reg_step r o)) ops r in
  let s' := fold_left spec_step ops s in
  reg_inv r' /\ forall t, reg_lookup r' t = s' t.
Proof.
  induction ops as [|o ops IH]; intros r s Hinv Heq; cbn [fold_left]; [split; assumption|].
  apply IH.
  - destruct o as [t h|t|t]; cbn [reg_step fst]; [apply (reg_register_spec r t h t Hinv)|apply (reg_unregister_spec r t t Hinv)|assumption].
  - intros t'. destruct o as [t h|t|t]; cbn [reg_step fst spec_step].
    + rewrite (proj2 (reg_register_spec r t h t' Hinv)), Heq. reflexivity.
    + rewrite (proj2 (reg_unregister_spec r t t' Hinv)), Heq. reflexivity.
    + apply Heq.
Qed.

Corollary registry_from_empty ops t :
  reg_lookup (fold_left (fun r o => fst (reg_step r o)) ops reg_empty) t =
  fold_left spec_step ops (fun _ => None) t.
Proof.
  apply (registry_refines ops reg_empty (fun _ => None) reg_empty_inv). apply reg_empty_lookup.
Qed.

(* ---- external-type table ---- *)
Definition ekeys (l : exttab) : list Z := map fst l.

Lemma ext_lookup_not_in l id : ~ In id (ekeys l) -> ext_lookup l id = None.
Proof.
  induction l as [|[i v] r IH]; cbn; [reflexivity|]. intros H.
  destruct (Z.eqb_spec i id) as [->|Hne]; [exfalso; apply H; now left|]. apply IH. intros Hin. apply H. now right.
Qed.

Lemma ext_replace_none l id k : ext_replace l id k = None <-> ~ In id (ekeys l).
Proof.
  induction l as [|[i v] r IH]; cbn; [tauto|].
  destruct (Z.eqb_spec i id) as [->|Hne].
  - split; [discriminate|]. intros H. exfalso. apply H. now left.
  - destruct (ext_replace r id k) eqn:R.
    + split; [discriminate|]. intros H. assert (~ In id (ekeys r)) by (intros Hin; apply H; now right).
      apply IH in H0. discriminate.
    + split; [|reflexivity]. intros _ [Hk|Hin]; [cbn in Hk; contradiction|]. apply (proj1 IH eq_refl Hin).
Qed.

Lemma ext_replace_spec l id k l' id' : ext_replace l id k = Some l' ->
  ekeys l' = ekeys l /\ ext_lookup l' id' = if (id =? id')%Z then Some k else ext_lookup l id'.
Proof.
  revert l'. induction l as [|[i v] r IH]; cbn; [discriminate|]. intros l'.
  destruct (Z.eqb_spec i id) as [->|Hne].
  - intros H; inversion H; subst. cbn. split; [reflexivity|]. destruct (id =? id')%Z; reflexivity.
  - destruct (ext_replace r id k) as [r'|] eqn:R; [|discriminate].
    intros H; inversion H; subst. cbn. destruct (IH r' eq_refl) as [Hk Hl]. split; [now f_equal|].
    destruct (Z.eqb_spec i id') as [->|Hne'].
    + destruct (Z.eqb_spec id id'); [congruence|reflexivity].
    + exact Hl.
Qed.

Lemma ext_register_spec l id k id' : NoDup (ekeys l) ->
  NoDup (ekeys (ext_register l id k)) /\
  ext_lookup (ext_register l id k) id' = if (id =? id')%Z then Some k else ext_lookup l id'.
Proof.
  intros Hnd. unfold ext_register. destruct (ext_replace l id k) as [l'|] eqn:R.
  - destruct (ext_replace_spec l id k l' id' R) as [Hk Hl]. rewrite Hk. split; assumption.
  - apply ext_replace_none in R. cbn. split; [constructor; assumption|]. destruct (id =? id')%Z; reflexivity.
Qed.

Lemma ext_unregister_spec l id id' : NoDup (ekeys l) ->
  NoDup (ekeys (ext_unregister l id)) /\
  ext_lookup (ext_unregister l id) id' = if (id =? id')%Z then None else ext_lookup l id'.
Proof.
  induction l as [|[i v] r IH]; cbn; intros Hnd.
  - split; [constructor|]. now destruct (id =? id')%Z.
  - inversion Hnd as [|? ? Hnotin Hnd']; subst.
    destruct (Z.eqb_spec i id) as [->|Hne].
    + split; [assumption|]. destruct (Z.eqb_spec id id') as [E|Hne']; [subst id'; now apply ext_lookup_not_in|reflexivity].
    + destruct (IH Hnd') as [IH1 IH2]. cbn. split.
      * constructor; [|assumption]. intros Hin. apply Hnotin.
        clear -Hin. induction r as [|[j w] r IHr]; cbn in *; [assumption|].
        destruct (j =? id)%Z; cbn in *; [now right|]. destruct Hin as [->|Hin]; [now left|right; now apply IHr].
      * destruct (Z.eqb_spec i id') as [->|Hne'].
        -- destruct (Z.eqb_spec id id'); [congruence|reflexivity].
        -- exact IH2.
Qed.
