(* Proofs/NumBounds.v -- every cursor the number scanner produces (the end of an accepted literal
   as well as the end of an error range) lies between the position the section was entered
   with and the end of the input. *)
From Coq Require Import ZArith NArith List Bool Lia String.
From Coq.Strings Require Import Byte.
From Verif Require Import Lanes Common Values Floats Scan Numbers ByteSweep RangeDefs.
Import ListNotations.
Local Open Scope N_scope.

Section NB.
Variable c : cfg.
Variable m : mem.
Variable e : N.

Notation adv := (adv e).
Notation peek := (peek m e).

Definition nres_in (lo : N) (r : nres) : Prop :=
  match r with NVal v q => lo <= q <= e /\ is_leaf v = true | NErr q => lo <= q <= e | NUB _ => True end.

Lemma nres_in_mono lo lo' r : lo' <= lo -> nres_in lo r -> nres_in lo' r.
Proof. intros H. destruct r; cbn [nres_in]; [intros [H1 H2]; split; [lia|exact H2]|lia|trivial]. Qed.

Lemma adv_in p : p <= e -> p <= adv p <= e.
Proof. intros H. unfold Numbers.adv. destruct (N.ltb_spec p e); lia. Qed.

Lemma digit_loop_in f isd st : forall p, p <= e ->
  match digit_loop c m e f isd st p with inl q | inr q => p <= q <= e end.
Proof.
  induction f as [|f IH]; intros p Hp; cbn [digit_loop]; [lia|].
  pose proof (adv_in p Hp) as Ha.
  destruct (not_nul_nor_delim (peek p)); [|lia].
  destruct (isd (peek p)).
  - specialize (IH (adv p) ltac:(lia)). destruct (digit_loop c m e f isd st (adv p)); lia.
  - destruct (exp c && is_us (peek p)); [|lia].
    destruct (st && negb (is_us (peek (adv p))) && negb (isd (peek (adv p)))); [lia|].
    specialize (IH (adv p) ltac:(lia)). destruct (digit_loop c m e f isd st (adv p)); lia.
Qed.

Lemma frac_loop_in f : forall p, p <= e -> p <= frac_loop c m e f p <= e.
Proof.
  induction f as [|f IH]; intros p Hp; cbn [frac_loop]; [lia|].
  destruct (is_dig (peek p) || (exp c && is_us (peek p))); [|lia].
  pose proof (adv_in p Hp). specialize (IH (adv p) ltac:(lia)). lia.
Qed.

Lemma plain_digits_in f : forall p, p <= e -> p <= plain_digits m e f p <= e.
Proof.
  induction f as [|f IH]; intros p Hp; cbn [plain_digits]; [lia|].
  destruct (is_dig (peek p)); [|lia]. pose proof (adv_in p Hp). specialize (IH (adv p) ltac:(lia)). lia.
Qed.

Lemma skip_zeros_in f : forall p, p <= e -> p <= skip_zeros m e f p <= e.
Proof.
  induction f as [|f IH]; intros p Hp; cbn [skip_zeros]; [lia|].
  destruct (is_c (peek p) "0"); [|lia]. pose proof (adv_in p Hp). specialize (IH (adv p) ltac:(lia)). lia.
Qed.

Lemma finish_in lo v p : is_leaf v = true -> lo <= p <= e -> nres_in lo (finish m e v p).
Proof. intros Hl Hp. unfold finish. destruct (delim_ok m e p); cbn [nres_in]; [split; [lia|exact Hl]|lia]. Qed.
Lemma int_or_big_leaf a b radix neg v : int_or_big c m a b radix neg = inl v -> is_leaf v = true.
Proof. unfold int_or_big. destruct (parse_int64 c _ radix neg); intros H; [injection H as <-|injection H as <-|discriminate]; reflexivity. Qed.

Lemma ratio_denominator_in p : p <= e ->
  match ratio_denominator m e p with inl (_, q) | inr q => p <= q <= e end.
Proof.
  intros Hp. unfold ratio_denominator.
  pose proof (plain_digits_in (fuel_of e p) p Hp) as Hg. pose proof (adv_in p Hp).
  set (qq := plain_digits m e (fuel_of e p) p) in *.
  destruct ((e <=? p) || negb (is_dig (peek p))); [lia|].
  destruct (is_c (peek p) "0"); [lia|].
  destruct (is_c (peek qq) "N" || is_c (peek qq) "M" || is_c (peek qq) "/"); [lia|].
  destruct ((qq <? e) && negb (is_delim (peek qq))); lia.
Qed.

Lemma suffix_section_in start ds0 neg p dp ex : p <= e ->
  nres_in p (suffix_section c m e start ds0 neg p dp ex).
Proof.
  intros Hp. unfold suffix_section. pose proof (adv_in p Hp) as Ha.
  destruct (exp c && _ && _ && _); [cbn [nres_in]; lia|].
  destruct (is_c (peek p) "N" && negb dp && negb ex); [apply finish_in; [reflexivity|lia]|].
  destruct (is_c (peek p) "M"); [apply finish_in; [reflexivity|lia]|].
  destruct (clj c && is_c (peek p) "/" && negb dp && negb ex).
  - pose proof (ratio_denominator_in (adv p) ltac:(lia)) as Hr.
    destruct (ratio_denominator m e (adv p)) as [[ds de]|ec]; [|cbn [nres_in]; lia].
    destruct (parse_int64 c (Numbers.sub m ds0 p) 10 neg) as [nu| |s1];
      destruct (parse_int64 c (Numbers.sub m ds de) 10 false) as [dv| |s2]; try exact I;
      try (apply finish_in; [reflexivity|lia]).
    + destruct (ratio_gcd nu dv) as [g|]; [|exact I].
      destruct (if (g >? 1)%Z then _ else _) as [nu' de'].
      destruct (nu' =? 0)%Z; [cbn [nres_in]; split; [lia|reflexivity]|].
      destruct (de' =? 1)%Z; [cbn [nres_in]; split; [lia|reflexivity]|]. apply finish_in; [reflexivity|lia].
    + destruct (dv =? 1)%Z; (apply finish_in; [reflexivity|lia]).
  - destruct (dp || ex).
    + destruct (parse_double c _); [apply finish_in; [reflexivity|lia]|exact I].
    + destruct (int_or_big c m ds0 p 10 neg) eqn:Hib; [apply finish_in; [now apply int_or_big_leaf in Hib|lia]|exact I].
Qed.

Lemma exponent_section_in start ds0 neg p dp fg : p <= e ->
  nres_in p (exponent_section c m e start ds0 neg p dp fg).
Proof.
  intros Hp. unfold exponent_section. destruct (negb fg && _ && _ && _); [cbn [nres_in]; lia|].
  pose proof (adv_in p Hp). pose proof (adv_in (adv p) ltac:(lia)).
  set (p3 := if is_c (peek (adv p)) "+" || is_c (peek (adv p)) "-" then adv (adv p) else adv p).
  assert (p <= p3 <= e) by (unfold p3; destruct (is_c (peek (adv p)) "+" || is_c (peek (adv p)) "-"); lia).
  destruct (negb (is_dig (peek p3))); [cbn [nres_in]; lia|].
  pose proof (frac_loop_in (fuel_of e p3) p3 ltac:(lia)).
  eapply nres_in_mono; [|apply suffix_section_in]; lia.
Qed.

Lemma after_frac_in start ds0 neg p dp : p <= e -> nres_in p (after_frac c m e start ds0 neg p dp).
Proof.
  intros Hp. unfold after_frac. destruct (_ || _); [now apply exponent_section_in|now apply suffix_section_in].
Qed.

Lemma after_int_digits_in start ds0 neg p dp : p <= e -> nres_in p (after_int_digits c m e start ds0 neg p dp).
Proof.
  intros Hp. unfold after_int_digits. pose proof (adv_in p Hp). destruct (is_c (peek p) ".").
  - destruct (exp c && _); [cbn [nres_in]; lia|].
    pose proof (frac_loop_in (fuel_of e (adv p)) (adv p) ltac:(lia)).
    eapply nres_in_mono; [|apply after_frac_in]; lia.
  - now apply after_frac_in.
Qed.

Lemma zero_tail_in start ds0 neg p : p <= e -> nres_in p (zero_tail c m e start ds0 neg p).
Proof.
  intros Hp. unfold zero_tail. pose proof (adv_in p Hp).
  destruct (is_c (peek p) "."); [now apply after_int_digits_in|].
  destruct (is_c (peek p) "N"); [apply finish_in; [reflexivity|lia]|].
  destruct (is_c (peek p) "M"); [apply finish_in; [reflexivity|lia]|].
  destruct (_ || _); [now apply exponent_section_in|].
  destruct (clj c && _).
  - pose proof (ratio_denominator_in (adv p) ltac:(lia)) as Hr.
    destruct (ratio_denominator m e (adv p)) as [[ds de]|ec]; cbn [nres_in]; [split; [lia|reflexivity]|lia].
  - apply finish_in; [reflexivity|lia].
Qed.

Lemma radix_tail_in start ds p radix neg ns : p <= e -> nres_in p (radix_tail c m e start ds p radix neg ns).
Proof.
  intros Hp. unfold radix_tail. pose proof (adv_in p Hp).
  destruct (ns && is_c (peek p) "N").
  - destruct (is_c _ "/"); [cbn [nres_in]; lia|]. apply finish_in; [reflexivity|lia].
  - destruct (is_c (peek p) "M").
    + destruct (is_c _ "/"); [cbn [nres_in]; lia|]. apply finish_in; [reflexivity|lia].
    + destruct (is_c _ "/"); [cbn [nres_in]; lia|]. destruct (int_or_big c m ds p radix neg) eqn:Hib; [apply finish_in; [now apply int_or_big_leaf in Hib|lia]|exact I].
Qed.

(* the whole literal scanner: value end and error end both lie in [start, e] *)
Theorem read_number_in start : start <= e -> nres_in start (read_number c m e start).
Proof.
  intros Hs. unfold read_number.
  pose proof (adv_in start Hs) as Ha.
  set (np := if is_c (peek start) "-" then (true, adv start) else if is_c (peek start) "+" then (false, adv start) else (false, start)).
  assert (Hp1 : start <= snd np <= e) by (unfold np; destruct (is_c (peek start) "-"); [cbn [snd]; lia|destruct (is_c (peek start) "+"); cbn [snd]; lia]).
  destruct np as [neg p1]. cbn [snd] in Hp1. cbv zeta.
  pose proof (plain_digits_in (fuel_of e p1) p1 ltac:(lia)) as Hr.
  set (r_pos := plain_digits m e (fuel_of e p1) p1) in *.
  assert (Hmono : forall p r, start <= p -> nres_in p r -> nres_in start r) by (intros p r Hle; now apply nres_in_mono).
  destruct (clj c && is_dig (peek p1)) eqn:Hrb.
  - destruct ((r_pos <? e) && (is_c (m r_pos) "r" || is_c (m r_pos) "R") && (p1 <? r_pos)) eqn:Hrr.
    + assert (Hlt : r_pos < e) by (apply andb_prop in Hrr as [Hrr _]; apply andb_prop in Hrr as [Hrr _]; now apply N.ltb_lt).
      set (rv := fold_left (fun acc b => if (acc <=? 36)%Z then (acc * 10 + dval b)%Z else acc) (Numbers.sub m p1 r_pos) 0%Z).
      destruct ((2 <=? rv) && (rv <=? 36))%Z.
      * destruct (negb (in_radix rv (peek (r_pos + 1)))); [cbn [nres_in]; lia|].
        pose proof (digit_loop_in (fuel_of e (r_pos + 1)) (in_radix rv) true (r_pos + 1) ltac:(lia)) as Hd.
        destruct (digit_loop c m e (fuel_of e (r_pos + 1)) (in_radix rv) true (r_pos + 1)) as [p|ec]; [|cbn [nres_in]; lia].
        apply (Hmono p); [lia|]. apply radix_tail_in; lia.
      * cbn [nres_in]; lia.
    + (* no radix prefix *)
      clear Hrr.
      destruct (is_c (peek p1) "0").
      * pose proof (adv_in p1 ltac:(lia)) as Ha1.
        rewrite (proj1 (andb_prop _ _ Hrb)).
        pose proof (skip_zeros_in (fuel_of e (adv p1)) (adv p1) ltac:(lia)) as Hz.
        set (p3 := skip_zeros m e (fuel_of e (adv p1)) (adv p1)) in *.
        pose proof (adv_in p3 ltac:(lia)) as Ha3.
        destruct (is_c (peek p3) "x" || is_c (peek p3) "X")%bool.
        -- destruct (negb (in_radix 16 _)); [cbn [nres_in]; lia|].
           pose proof (digit_loop_in (fuel_of e (adv p3)) (in_radix 16) false (adv p3) ltac:(lia)) as Hd.
           destruct (digit_loop c m e _ _ false (adv p3)) as [p|ec]; [|cbn [nres_in]; lia].
           apply (Hmono p); [lia|]. apply radix_tail_in; lia.
        -- destruct ((49 <=? bz (peek p3))%Z && (bz (peek p3) <=? 55)%Z)%bool.
           ++ pose proof (digit_loop_in (fuel_of e p3) (in_radix 8) false p3 ltac:(lia)) as Hd.
              destruct (digit_loop c m e _ _ false p3) as [p|ec]; [|cbn [nres_in]; lia].
              apply (Hmono p); [lia|]. apply radix_tail_in; lia.
           ++ destruct (is_c (peek p3) "8" || is_c (peek p3) "9")%bool; [cbn [nres_in]; lia|]. apply (Hmono p3); [lia|]. apply zero_tail_in; lia.
      * pose proof (digit_loop_in (fuel_of e p1) is_dig true p1 ltac:(lia)) as Hd.
        destruct (digit_loop c m e _ _ true p1) as [p|ec]; [|cbn [nres_in]; lia].
        apply (Hmono p); [lia|]. apply after_int_digits_in; lia.
  - destruct (is_c (peek p1) "0").
    + pose proof (adv_in p1 ltac:(lia)) as Ha1.
      destruct (clj c).
      * pose proof (skip_zeros_in (fuel_of e (adv p1)) (adv p1) ltac:(lia)) as Hz.
        set (p3 := skip_zeros m e (fuel_of e (adv p1)) (adv p1)) in *.
        pose proof (adv_in p3 ltac:(lia)) as Ha3.
        destruct (is_c (peek p3) "x" || is_c (peek p3) "X")%bool.
        -- destruct (negb (in_radix 16 _)); [cbn [nres_in]; lia|].
           pose proof (digit_loop_in (fuel_of e (adv p3)) (in_radix 16) false (adv p3) ltac:(lia)) as Hd.
           destruct (digit_loop c m e _ _ false (adv p3)) as [p|ec]; [|cbn [nres_in]; lia].
           apply (Hmono p); [lia|]. apply radix_tail_in; lia.
        -- destruct ((49 <=? bz (peek p3))%Z && (bz (peek p3) <=? 55)%Z)%bool.
           ++ pose proof (digit_loop_in (fuel_of e p3) (in_radix 8) false p3 ltac:(lia)) as Hd.
              destruct (digit_loop c m e _ _ false p3) as [p|ec]; [|cbn [nres_in]; lia].
              apply (Hmono p); [lia|]. apply radix_tail_in; lia.
           ++ destruct (is_c (peek p3) "8" || is_c (peek p3) "9")%bool; [cbn [nres_in]; lia|]. apply (Hmono p3); [lia|]. apply zero_tail_in; lia.
      * destruct (is_dig (peek (adv p1))); [cbn [nres_in]; lia|]. apply (Hmono (adv p1)); [lia|]. apply zero_tail_in; lia.
    + pose proof (digit_loop_in (fuel_of e p1) is_dig true p1 ltac:(lia)) as Hd.
      destruct (digit_loop c m e _ _ true p1) as [p|ec]; [|cbn [nres_in]; lia].
      apply (Hmono p); [lia|]. apply after_int_digits_in; lia.
Qed.
End NB.
