(* Proofs/StringRefuted.v -- witness for the known finding K02 (length by strlen) *)
From Coq Require Import ZArith NArith List Bool.
From Coq.Strings Require Import Byte.
From Verif Require Import Lanes Common Values Tokens Configs.
Import ListNotations.
Local Open Scope N_scope.

Lemma string_get_nul_refuted : exists raw d,
  decode cfg10 raw = Some d /\ List.length d = 2%nat /\
  string_get cfg10 (VString raw true None) = Some ([], 0).
Proof.
  exists ["\"; "u"; "0"; "0"; "0"; "0"; "a"]%byte, ["000"; "a"]%byte. vm_compute. repeat split; reflexivity.
Qed.
