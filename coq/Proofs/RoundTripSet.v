(* Proofs/RoundTripSet.v -- SET LITERALS over the fragment of RoundTripGap.v (C08 at the level of whole documents):
   a document  #{ g1 x1 g2 x2 ... gk xk tl }  -- elements any terms of the fragment (integers, keywords, nested lists and
   vectors), any trivia and discarded forms in the gaps, ANY number of elements -- is rejected with the class "duplicate
   element" EXACTLY WHEN two of its elements are equal (have the same normal form), wherever the equal pair stands, and is
   otherwise accepted as a set with all k elements.  The three strategies of the duplicate check (pairwise, sorted,
   hash table) are behind the one verdict through has_duplicates_pairwise. *)
From Coq Require Import ZArith NArith List Bool Lia String Permutation Sorted.
From Coq.Strings Require Import Byte.
From Verif Require Import Lanes Common Values Floats Scan ScanFacts Numbers Equality Tokens Reader Configs ByteSweep ScanProofs
     FidelityProofs NumProgress NumLiteral FlagProofs FuelMono TriviaProofs TriviaReader ReaderInv EqBasics EqEquiv HashDup SortDup History
     RoundTrip RoundTripWs RoundTripEq RoundTripGap RoundTripErr.
Import ListNotations.
Local Open Scope N_scope.

Lemma brace_facts :
  is_ws "}" = false /\ is_semi "}" = false /\ numdelim (bz "}") = true /\ prefilter (bz "}") = false /\
  forallb (fun c => (dispatch_of c "}" =? ct_delim c)%Z && not_earlier c (dispatch_of c "}") 8) all_cfgs = true.
Proof. vm_compute. repeat split; reflexivity. Qed.

(* names short enough for the comparator of the sort strategy (it returns length differences as int) *)
Fixpoint tsmall (t : term) : Prop :=
  match t with
  | TKw nm => (Z.of_nat (List.length nm) < 2 ^ 31)%Z
  | TInt _ _ => True
  | TVec l | TList l => fold_right (fun x a => tsmall x /\ a) True l
  end.

Section SET.
Variable c : cfg.
Hypothesis Hc : In c all_cfgs.
Variable o : opts.
Variable handler : Z -> node -> option node * option bytes.
Variable m : mem.
Variable e : N.

Notation xe := no_ext_equal.
Notation xh := no_ext_hash.
Notation RV := (read_value c o handler xe xh (isort c) m e).
Notation RS := (read_seq c o handler xe xh (isort c) m e).
Notation RE := (read_elems c o handler xe xh (isort c) m e).
Notation follow := (ends_at m e).
Notation stops := (stops c o handler xe xh (isort c) m e).

(* the closing brace inside a collection *)
Lemma rv_brace f s : is_ok s = true -> depth s <> 0 -> cur s < e -> m (cur s) = "}"%byte ->
  RV (S f) s = Ret None (leave (with_start (enter s) (cur s))).
Proof.
  intros Hok Hd Hlt Hb. destruct brace_facts as (_ & _ & _ & Hpf & Hcls). rewrite forallb_forall in Hcls. specialize (Hcls c Hc).
  apply andb_prop in Hcls as [Hdc Hdn]. pose proof (not_earlier_spec c _ 8 ltac:(lia) Hdn) as Hn.
  rewrite RV_S. unfold value_body. cbv zeta. cbn [cur with_start enter].
  replace (cur s <? e) with true by (symmetry; now apply N.ltb_lt). rewrite Hb, Hpf. cbn [cur with_start enter]. rewrite Hb.
  usecls Hn 0%nat; usecls Hn 1%nat; usecls Hn 2%nat; usecls Hn 3%nat; usecls Hn 4%nat; usecls Hn 5%nat; usecls Hn 6%nat; usecls Hn 7%nat.
  rewrite Hdc. cbn [depth with_start enter].
  replace (depth s =? 0) with false by (symmetry; now apply N.eqb_neq). reflexivity.
Qed.

Lemma stop_brace g p : gapwf g -> alt g ->
  p + N.of_nat (List.length (gappr g ++ ["}"%byte])) <= e -> slice m p (List.length (gappr g ++ ["}"%byte])) = gappr g ++ ["}"%byte] ->
  stops p (fun d => d <> 0) (fun s' => is_ok s' = true /\ cur s' + 1 = p + N.of_nat (List.length (gappr g ++ ["}"%byte])) /\ m (cur s') = "}"%byte).
Proof.
  intros Hg Ha Hle Hsl s Hcs Hok Hd.
  rewrite app_length in Hle, Hsl |- *. cbn [List.length] in Hle, Hsl |- *.
  rewrite slice_app in Hsl. apply app_eq_len in Hsl; [|now rewrite slice_length]. destruct Hsl as [Hsg Hsc].
  apply byte_hd in Hsc. destruct Hsc as [Hmb _].
  destruct brace_facts as (Hw1 & Hw2 & Hw3 & _).
  destruct (gap_skip c Hc o handler xe xh (isort c) m e g Hg Ha s Hok ltac:(rewrite Hcs; lia) ltac:(rewrite Hcs; exact Hsg)
              ltac:(rewrite Hcs, Hmb; exact Hw1) ltac:(rewrite Hcs, Hmb; exact Hw2) ltac:(right; rewrite Hcs, Hmb; exact Hw3))
    as (k & f0 & s2 & Hc2 & Hok2 & Hd2 & Hrun).
  exists (S f0 + k)%nat. intros f Hf. replace f with (S (f - k - 1) + k)%nat by lia. rewrite (Hrun (f - k - 1)%nat) by lia.
  rewrite (rv_brace (f - k - 1) s2 Hok2 ltac:(now rewrite Hd2) ltac:(rewrite Hc2, Hcs; lia) ltac:(now rewrite Hc2, Hcs)).
  destruct (lvn_ret k None (leave (with_start (enter s2) (cur s2)))) as (s3 & E & H1 & H2 & H3). rewrite E. exists s3. split; [reflexivity|].
  cbn [cur is_ok err depth leave with_start enter] in H1, H2, H3.
  split; [rewrite H2; exact Hok2|]. split; [rewrite H1, Hc2, Hcs; lia|]. now rewrite H1, Hc2, Hcs.
Qed.

(* the text of a set literal *)
Definition settext (els : list (list gitem * gterm)) (tl : list gitem) : bytes :=
  "#"%byte :: "{"%byte :: ltext els ++ gappr tl ++ ["}"%byte].
Definition setwf (els : list (list gitem * gterm)) (tl : list gitem) : Prop :=
  Forall elwf els /\ seps_ok els /\ gapwf tl /\ alt tl /\ (els <> [] -> tail_ok tl).

(* the elements are read, then the duplicate check decides *)
Lemma set_reads els tl : setwf els tl -> forall s, is_ok s = true ->
  cur s + N.of_nat (List.length (settext els tl)) <= e -> slice m (cur s) (List.length (settext els tl)) = settext els tl ->
  exists f0, forall f, (f0 <= f)%nat -> exists xs s3,
    Forall2 (denotes c) (map (fun p => gerase (snd p)) els) xs /\ cur s3 = cur s + N.of_nat (List.length (settext els tl)) /\ depth s3 = depth s /\ is_ok s3 = true /\
    RV f s = (let '(dup, els') := if (2 <=? List.length xs)%nat then has_duplicates c xe xh (isort c) xs else (false, xs) in
              if dup then Ret None (leave (err_at s3 EDupElem (cur s) (cur s3)))
              else Ret (Some (mk (VSet els') (cur s) (cur s3))) (leave s3)).
Proof.
  intros (Hw & Hseps & Hwtl & Halt & Htok) s Hok Hle Hsl. unfold settext in *.
  cbn [List.length] in Hle, Hsl. apply byte_hd in Hsl. destruct Hsl as [Hb0 Hsl]. apply byte_hd in Hsl. destruct Hsl as [Hb1 Hbody].
  rewrite app_length in Hle, Hbody. rewrite slice_app in Hbody. apply app_eq_len in Hbody; [|now rewrite slice_length]. destruct Hbody as [Hels Htail].
  replace (cur s + 1 + 1) with (cur s + 2) in * by lia.
  set (pend := cur s + 2 + N.of_nat (List.length (ltext els))) in *.
  assert (Hstop := stop_brace tl pend Hwtl Halt ltac:(unfold pend; lia) Htail).
  assert (Hfol : els <> [] -> follow pend).
  { intros Hne. right. destruct brace_facts as (_ & _ & N3 & _).
    destruct tl as [|[t0|ws d] r].
    - cbn [gappr map List.concat app List.length] in *. split; [unfold pend; lia|]. apply byte_hd in Htail. destruct Htail as [-> _]. exact N3.
    - destruct (gap_ws_first (GWs t0 :: r) Hwtl I) as (b & rr & E & Hn).
      assert (E2 : gappr (GWs t0 :: r) ++ ["}"%byte] = b :: rr ++ ["}"%byte]) by now rewrite E.
      split; [rewrite E2 in Hle; cbn [List.length] in Hle; unfold pend; lia|]. now rewrite (byte_at m pend _ b _ E2 Htail).
    - specialize (Htok Hne). contradiction. }
  set (s0 := with_start (enter s) (cur s)).
  set (s1 := with_depth (with_cur s0 (cur s0 + 2)) (depth s0 + 1)).
  assert (Hc1 : cur s1 = cur s + 2) by reflexivity.
  destruct (loop_first c Hc o handler xe xh (isort c) m e (fun d => d <> 0) _ els Hw Hseps pend Hfol Hstop s1 Hok ltac:(unfold s1; cbn; lia)
              ltac:(rewrite Hc1; reflexivity) ltac:(unfold pend; lia) ltac:(rewrite Hc1; exact Hels)) as (f0 & Hf0).
  exists (S (S f0)). intros f Hf. destruct f as [|[|f]]; try lia.
  destruct (Hf0 f ltac:(lia)) as (xs & s2 & Hr & Hden & Hok2 & Hc2 & Hm2).
  assert (Hd2 : depth s2 = depth s1).
  { pose proof (readers_good c o handler xe xh (isort c) m e f) as (_ & _ & G & _).
    pose proof (G s1 [] Hok) as G1. rewrite Hr in G1. cbn [good_elems] in G1. exact (proj1 G1). }
  set (s3 := with_depth (with_cur s2 (cur s2 + 1)) (depth s2 - 1)).
  exists xs, s3. split; [exact Hden|].
  split; [unfold s3; cbn [cur with_depth with_cur List.length]; unfold pend in Hc2; rewrite !app_length; rewrite !app_length in Hc2; cbn [List.length] in Hc2 |- *; lia|].
  split; [unfold s3; cbn [depth with_depth]; rewrite Hd2; unfold s1; cbn; lia|]. split; [exact Hok2|].
  (* the dispatcher: '#' then '{' *)
  destruct hash_facts as (_ & _ & Hpf & Hcls). rewrite forallb_forall in Hcls. specialize (Hcls c Hc). apply andb_prop in Hcls as [Hh Hnee].
  pose proof (not_earlier_spec c _ 5 ltac:(lia) Hnee) as Hn.
  rewrite RV_S. unfold value_body. cbv zeta. cbn [cur with_start enter].
  replace (cur s <? e) with true by (symmetry; apply N.ltb_lt; lia). rewrite Hb0, Hpf. cbn [cur with_start enter]. rewrite Hb0.
  usecls Hn 0%nat; usecls Hn 1%nat; usecls Hn 2%nat; usecls Hn 3%nat; usecls Hn 4%nat. rewrite Hh.
  replace (cur s + 1 <? e) with true by (symmetry; apply N.ltb_lt; lia). rewrite Hb1.
  replace (is_byte "{" "{") with true by reflexivity. cbn [andb]. fold s0.
  rewrite RS_S. unfold seq_body. fold s1. rewrite Hr, Hok2. cbn [negb].
  replace (e <=? cur s2) with false by (symmetry; apply N.leb_gt; unfold pend in Hc2; lia).
  rewrite Hm2. cbn [closer_of]. rewrite (Byte.byte_dec_lb eq_refl). cbn [negb]. fold s3.
  change (Reader.v_has_dups c xe xh (isort c)) with (has_duplicates c xe xh (isort c)).
  destruct (if (2 <=? List.length xs)%nat then has_duplicates c xe xh (isort c) xs else (false, xs)) as [dup els'].
  destruct dup; reflexivity.
Qed.
End SET.

(* ---- the verdict ---- *)
Lemma dup_hash_loop_length c xe xh sort : forall l tbl size done,
  List.length (snd (dup_hash_loop c xe xh sort l tbl size done)) = (List.length done + List.length l)%nat.
Proof.
  induction l as [|x t IH]; intros tbl size done; cbn [dup_hash_loop].
  - cbn [snd List.length]. rewrite rev_length. lia.
  - destruct (probe _ _ _ _ _ _ _ _) as [[[|] slot]|]; cbn [snd].
    + rewrite app_length, rev_length. cbn [List.length]. lia.
    + rewrite IH. cbn [List.length]. lia.
    + rewrite app_length, rev_length. cbn [List.length]. lia.
Qed.
Lemma has_duplicates_length c xe xh sort l : List.length (snd (has_duplicates c xe xh sort l)) = List.length l.
Proof.
  unfold has_duplicates. destruct (_ <=? 1)%Z; [reflexivity|]. destruct (_ <=? LINEAR_THRESHOLD)%Z; [reflexivity|].
  destruct (_ && _); [reflexivity|]. unfold dup_hash. now rewrite dup_hash_loop_length.
Qed.

Definition has_equal_terms (c : cfg) (ts : list term) : Prop :=
  exists t1 tx t2 ty t3, ts = t1 ++ tx :: t2 ++ ty :: t3 /\ canon c tx = canon c ty.

Section VERDICT.
Variable c : cfg.
Hypothesis Hc : In c all_cfgs.
Notation xe := no_ext_equal.
Notation xh := no_ext_hash.

Lemma denotes_sdom t n : denotes c t n -> tsmall t -> sort_comparable n = true -> sdom n.
Proof.
  intros Hd Hs Hsc. unfold sdom. split; [exact Hsc|].
  inversion Hd as [nm n0 Hv Hh|neg ds n0 Hv Hh|l xs n0 Hv Hh H2|l xs n0 Hv Hh H2]; subst; (split; [exact Hh|]); rewrite Hv.
  - cbn [small tsmall opt_len] in *. split; [reflexivity|exact Hs].
  - unfold int_literal_value. destruct neg; [destruct (_ <=? two63)%Z|destruct (_ <=? int64_max)%Z]; exact I.
  - exact I.
  - exact I.
Qed.

Lemma verdict ts xs : Forall2 (denotes c) ts xs -> Forall (fun t => (tdepth t <= max_depth)%nat) ts -> Forall tsmall ts ->
  (Z.of_nat (List.length xs) < 2 ^ 64)%Z ->
  (fst (has_duplicates c xe xh (isort c) xs) = true <-> has_equal_terms c ts).
Proof.
  intros HF Hdep Hsm Hlen.
  assert (Hsimple : Forall (simple c) xs /\ Forall (coherent c xh) xs).
  { clear Hsm Hlen. induction HF as [|t x ts' xs' Htx HF IH]; [split; constructor|].
    pose proof (Forall_inv Hdep) as Hd1. destruct (IH (Forall_inv_tail Hdep)) as [I1 I2].
    destruct (denotes_nf c xh max_depth t x Hd1 Htx) as [N1 C1]. split; constructor; try assumption. now exists (canon c t). }
  destruct Hsimple as [Hs1 Hs2].
  assert (Hsd : forallb sort_comparable xs = true -> Forall sdom xs).
  { clear Hdep Hlen Hs1 Hs2. induction HF as [|t x ts' xs' Htx HF IH]; intros Hall; [constructor|].
    cbn [forallb] in Hall. apply andb_prop in Hall as [H1 H2]. constructor; [apply (denotes_sdom t x Htx (Forall_inv Hsm) H1)|apply IH; [exact (Forall_inv_tail Hsm)|exact H2]]. }
  rewrite (has_duplicates_pairwise c xe xh (isort c) xs (tags_inj_all c Hc) Hs1 Hs2 Hlen).
  2:{ intros Hall. pose proof (Hsd Hall) as Hd. split; [exact Hd|]. split; [apply isort_perm|]. apply (isort_sorted c (tags_inj_all c Hc)); exact Hd. }
  rewrite (dup_linear_iff c xe). unfold has_equal_pair, has_equal_terms. split.
  - intros (l1 & x & l2 & y & l3 & -> & He).
    apply Forall2_app_inv_r in HF. destruct HF as (t1 & r1 & F1 & Fr & ->). inversion Fr as [|tx ? r2 ? Hx Fr2]; subst.
    apply Forall2_app_inv_r in Fr2. destruct Fr2 as (t2 & r3 & F2 & Fr3 & ->). inversion Fr3 as [|ty ? t3 ? Hy F3]; subst.
    exists t1, tx, t2, ty, t3. split; [reflexivity|].
    rewrite Forall_app in Hdep. destruct Hdep as [_ Hd]. pose proof (Forall_inv Hd) as Hdx. apply Forall_inv_tail in Hd.
    rewrite Forall_app in Hd. destruct Hd as [_ Hd]. pose proof (Forall_inv Hd) as Hdy.
    now apply (denotes_equal_iff c xe xh tx ty x y Hdx Hdy Hx Hy).
  - intros (t1 & tx & t2 & ty & t3 & -> & He).
    apply Forall2_app_inv_l in HF. destruct HF as (l1 & r1 & F1 & Fr & ->). inversion Fr as [|? x ? r2 Hx Fr2]; subst.
    apply Forall2_app_inv_l in Fr2. destruct Fr2 as (l2 & r3 & F2 & Fr3 & ->). inversion Fr3 as [|? y ? l3 Hy F3]; subst.
    exists l1, x, l2, y, l3. split; [reflexivity|].
    rewrite Forall_app in Hdep. destruct Hdep as [_ Hd]. pose proof (Forall_inv Hd) as Hdx. apply Forall_inv_tail in Hd.
    rewrite Forall_app in Hd. destruct Hd as [_ Hd]. pose proof (Forall_inv Hd) as Hdy.
    now apply (denotes_equal_iff c xe xh tx ty x y Hdx Hdy Hx Hy).
Qed.
End VERDICT.

Lemma F2_length {A B} (R : A -> B -> Prop) l1 l2 : Forall2 R l1 l2 -> List.length l1 = List.length l2.
Proof. induction 1; cbn [List.length]; congruence. Qed.

Section DOC.
Variable c : cfg.
Variable o : opts.
Variable m : mem.
Variable e : N.
Notation RV0 f := (read_value c o builtin_handler no_ext_equal no_ext_hash (isort c) m e f init_pst).
Notation RD f := (read_doc c o builtin_handler no_ext_equal no_ext_hash (isort c) m e f).

Lemma doc_ok f n s' : RV0 f = Ret (Some n) s' -> is_ok s' = true ->
  exists r, RD f = Ret r s' /\ r_value r = Some n /\ r_err r = EOk /\ r_eof r = false.
Proof.
  intros Hr Hok. assert (Herr : err s' = EOk) by (now apply is_ok_iff).
  unfold read_doc. rewrite Hr. cbv zeta. rewrite Hok.
  assert (Heof : is_eof s' = false) by (unfold is_eof; now rewrite Herr). rewrite Heof. cbn [andb].
  eexists. split; [reflexivity|]. cbn. repeat split; assumption.
Qed.
Lemma doc_err f s' E : RV0 f = Ret None s' -> err s' = E -> E <> EOk -> E <> EEof ->
  exists r, RD f = Ret r s' /\ r_value r = None /\ r_err r = E /\ r_eof r = false.
Proof.
  intros Hr He H1 H2. unfold read_doc. rewrite Hr. cbv zeta.
  assert (Heof : is_eof s' = false) by (unfold is_eof; rewrite He; destruct E; congruence). rewrite Heof. cbn [andb].
  destruct (is_ok s'); eexists; (split; [reflexivity|]); cbn; repeat split; assumption.
Qed.
End DOC.

(* ---- whole documents: a set literal is rejected exactly when two elements are equal ---- *)
Theorem set_document c o m els tl : In c all_cfgs -> setwf els tl ->
  let ts := map (fun p => gerase (snd p)) els in
  Forall (fun t => (tdepth t <= max_depth)%nat) ts -> Forall tsmall ts -> (Z.of_nat (List.length els) < 2 ^ 64)%Z ->
  slice m 0 (List.length (settext els tl)) = settext els tl ->
  exists r s, run_doc c o m (N.of_nat (List.length (settext els tl))) = Ret r s /\ r_eof r = false /\
    ((has_equal_terms c ts /\ r_value r = None /\ r_err r = EDupElem) \/
     (~ has_equal_terms c ts /\ r_err r = EOk /\ exists n xs', r_value r = Some n /\ nval n = VSet xs' /\ List.length xs' = List.length els)).
Proof.
  intros Hc Hw ts Hdep Hsm Hlen Hsl. set (e := N.of_nat (List.length (settext els tl))).
  destruct (set_reads c Hc o builtin_handler m e els tl Hw init_pst eq_refl ltac:(cbn [cur init_pst]; unfold e; lia) Hsl) as (f0 & Hf0).
  destruct (Hf0 f0 (le_n _)) as (xs & s3 & Hden & Hc3 & Hd3 & Hok3 & Hr). fold ts in Hden.
  assert (Hlx : List.length xs = List.length els).
  { apply F2_length in Hden. unfold ts in Hden. rewrite map_length in Hden. lia. }
  pose proof (verdict c Hc ts xs Hden Hdep Hsm ltac:(rewrite Hlx; exact Hlen)) as Hv.
  assert (Hfew : (2 <=? List.length xs)%nat = false -> ~ has_equal_terms c ts).
  { intros Hl (t1 & tx & t2 & ty & t3 & E & _). apply Nat.leb_gt in Hl. rewrite Hlx in Hl.
    assert (Hlt : List.length ts = List.length els) by (unfold ts; now rewrite map_length).
    rewrite E in Hlt. rewrite !app_length in Hlt. cbn [List.length] in Hlt. rewrite app_length in Hlt. cbn [List.length] in Hlt. lia. }
  assert (Hfin : forall r, read_doc c o builtin_handler no_ext_equal no_ext_hash (isort c) m e f0 = Ret r (r_state r) -> run_doc c o m e = Ret r (r_state r))
    by (intros r Hrd; apply (any_fuel_is_the_run c o m e f0 _ Hc Hrd); discriminate).
  destruct (2 <=? List.length xs)%nat eqn:Hl.
  - destruct (has_duplicates c no_ext_equal no_ext_hash (isort c) xs) as [dup els'] eqn:Ehd. cbn [fst] in Hv.
    assert (Hlen' : List.length els' = List.length els).
    { pose proof (has_duplicates_length c no_ext_equal no_ext_hash (isort c) xs) as Hh. rewrite Ehd in Hh. cbn [snd] in Hh. lia. }
    destruct dup.
    + destruct (doc_err c o m e f0 _ EDupElem Hr eq_refl ltac:(discriminate) ltac:(discriminate)) as (r & Hrd & A & B & C).
      exists r, (leave (err_at s3 EDupElem (cur init_pst) (cur s3))). split; [apply (any_fuel_is_the_run c o m e f0 _ Hc Hrd); discriminate|].
      split; [exact C|]. left. split; [now apply Hv|]. split; assumption.
    + destruct (doc_ok c o m e f0 _ _ Hr Hok3) as (r & Hrd & A & B & C).
      exists r, (leave s3). split; [apply (any_fuel_is_the_run c o m e f0 _ Hc Hrd); discriminate|].
      split; [exact C|]. right. split; [intros Hx; apply Hv in Hx; discriminate|]. split; [exact B|].
      eexists. exists els'. split; [exact A|]. split; [reflexivity|exact Hlen'].
  - destruct (doc_ok c o m e f0 _ _ Hr Hok3) as (r & Hrd & A & B & C).
    exists r, (leave s3). split; [apply (any_fuel_is_the_run c o m e f0 _ Hc Hrd); discriminate|].
    split; [exact C|]. right. split; [now apply Hfew|]. split; [exact B|].
    eexists. exists xs. split; [exact A|]. split; [reflexivity|exact Hlx].
Qed.

(* the verdict is the same for every permutation of the elements (C08, last clause): the condition is symmetric *)
Lemma has_equal_terms_perm c ts ts' : Permutation ts ts' -> has_equal_terms c ts -> has_equal_terms c ts'.
Proof.
  intros Hp (t1 & tx & t2 & ty & t3 & -> & He).
  assert (Hx : In tx ts') by (eapply Permutation_in; [exact Hp|]; apply in_or_app; right; now left).
  apply in_split in Hx. destruct Hx as (a & b & ->).
  assert (Hp2 : Permutation (t1 ++ t2 ++ ty :: t3) (a ++ b)).
  { apply Permutation_app_inv with (a := tx). exact Hp. }
  assert (Hy : In ty (a ++ b)) by (eapply Permutation_in; [exact Hp2|]; apply in_or_app; right; apply in_or_app; right; now left).
  apply in_app_or in Hy. destruct Hy as [Hy|Hy]; apply in_split in Hy; destruct Hy as (u & v & ->).
  - exists u, ty, v, tx, b. split; [now rewrite <- app_assoc|]. now symmetry.
  - exists a, tx, u, ty, v. split; [reflexivity|exact He].
Qed.

(* non-vacuity:  #{1 :a, [1 2] #_:x (1 2) }  has two equal elements (a list equals the vector of the same elements) *)
Example set_example :
  let els := [([], GInt false ["1"%byte]); ([GWs [" "%byte]], GKw ["a"%byte]); ([GWs [","; " "]%byte], GSeq true [([], GInt false ["1"%byte]); ([GWs [" "%byte]], GInt false ["2"%byte])] []);
              ([GWs [" "%byte]; GDisc [] (GKw ["x"%byte]); GWs [" "%byte]], GSeq false [([], GInt false ["1"%byte]); ([GWs [" "%byte]], GInt false ["2"%byte])] [])] in
  setwf els [GWs [" "%byte]] /\ settext els [GWs [" "%byte]] = list_byte_of_string "#{1 :a, [1 2] #_:x (1 2) }" /\
  has_equal_terms cfg00 (map (fun p => gerase (snd p)) els).
Proof.
  split; [|split; [reflexivity|]].
  - unfold setwf. split; [|split; [|split; [|split]]].
    + repeat constructor; cbn; repeat split; try discriminate; try reflexivity; try exact I; left; discriminate.
    + cbn. repeat constructor.
    + cbn. repeat split; try reflexivity; discriminate.
    + exact I.
    + intros _. exact I.
  - eexists [_; _], _, [], _, []. split; [reflexivity|]. reflexivity.
Qed.
