(* Proofs/FuelMono.v -- the fuel of the reader model is only a termination device: once a reader
   returns (anything but OutOfFuel) with some fuel, it returns exactly the same with any larger
   fuel.  Together with termination (ReaderTerm: fuel 8 + 4 * length always suffices) every
   statement about "some fuel" is a statement about the run of the model. *)
From Coq Require Import ZArith NArith List Bool Lia String.
From Coq.Strings Require Import Byte.
From Verif Require Import Lanes Common Values Floats Scan Numbers Equality Tokens Reader Configs.
Import ListNotations.
Local Open Scope N_scope.

(* r1 is OutOfFuel, or r1 = r2 *)
Definition le_res {A} (r1 r2 : res A) : Prop := r1 = OutOfFuel \/ r1 = r2.
Lemma le_res_refl {A} (r : res A) : le_res r r. Proof. now right. Qed.
Lemma le_res_oof {A} (r : res A) : le_res OutOfFuel r. Proof. now left. Qed.

Section Mono.
Variable c : cfg.
Variable o : opts.
Variable handler : Z -> node -> option node * option bytes.
Variable xe : Z -> option (Z -> Z -> bool).
Variable xh : Z -> option (Z -> Z).
Variable sort : list node -> list node.
Variable m : mem.
Variable e : N.

Notation vbody := (value_body c m e).
Notation sbody := (seq_body c xe xh sort m e).
Notation ebody := elems_body.
Notation mbody := (map_body c xe xh sort m e).
Notation enbody := entries_body.
Notation nsbody := (nsmap_body m e).
Notation tbody := (tagged_body o handler m e).
Notation mtbody := (meta_body c xe).

Definition Lv (rv rv' : rdr) := forall s, le_res (rv s) (rv' s).
Definition Lseq (r r' : kind -> N -> rdr) := forall k sk s, le_res (r k sk s) (r' k sk s).
Definition Lel (r r' : pst -> list node -> res (option (list node))) := forall s acc, le_res (r s acc) (r' s acc).
Definition Lmap (r r' : pst -> N -> option bytes -> res (option node)) := forall s st ns, le_res (r s st ns) (r' s st ns).
Definition Len (r r' : pst -> N -> option bytes -> list node -> list node -> res (option (list node * list node))) :=
  forall s st ns ks vs, le_res (r s st ns ks vs) (r' s st ns ks vs).

(* use a callee hypothesis: either the smaller-fuel call ran out of fuel (and so does the body), or both agree *)
Ltac callee H x :=
  let E := fresh "E" in destruct (H x) as [E|E]; [rewrite E; try (left; reflexivity)|rewrite <- E].
Ltac callee2 H x y :=
  let E := fresh "E" in destruct (H x y) as [E|E]; [rewrite E; try (left; reflexivity)|rewrite <- E].

Lemma elems_body_mono rv rv' re re' : Lv rv rv' -> Lel re re' -> Lel (ebody rv re) (ebody rv' re').
Proof.
  intros Hv He s acc. unfold elems_body. callee Hv s.
  destruct (rv s) as [[v|] s1| | |]; try apply le_res_refl. apply He.
Qed.

Lemma seq_body_mono re re' : Lel re re' -> Lseq (sbody re) (sbody re').
Proof.
  intros He k sk s. unfold seq_body.
  set (s1 := with_depth (with_cur s (cur s + sk)) (depth s + 1)).
  callee2 He s1 (@nil node). apply le_res_refl.
Qed.

Lemma entries_body_mono rv rv' ren ren' : Lv rv rv' -> Len ren ren' -> Len (enbody rv ren) (enbody rv' ren').
Proof.
  intros Hv Hen s st ns ks vs. unfold entries_body. callee Hv s.
  destruct (rv s) as [[k|] s1| | |]; try apply le_res_refl.
  callee Hv s1. destruct (rv s1) as [[v|] s2| | |]; try apply le_res_refl. apply Hen.
Qed.

Lemma map_body_mono ren ren' : Len ren ren' -> Lmap (mbody ren) (mbody ren').
Proof.
  intros Hen s st ns. unfold map_body.
  set (s1 := with_depth (with_cur s (cur s + 1)) (depth s + 1)).
  destruct (Hen s1 st ns [] []) as [E|E]; [rewrite E; now left|rewrite <- E]. apply le_res_refl.
Qed.

Lemma nsmap_body_mono rv rv' rm rm' : Lv rv rv' -> Lmap rm rm' -> Lv (nsbody rv rm) (nsbody rv' rm').
Proof.
  intros Hv Hm s. unfold nsmap_body. callee Hv (with_cur s (cur s + 1)).
  destruct (rv (with_cur s (cur s + 1))) as [[kw|] s1| | |]; try apply le_res_refl.
  destruct (nval kw); try apply le_res_refl. destruct ns; try apply le_res_refl. cbv zeta.
  destruct ((e <=? skip_ws m (cur s1) e) || negb (is_byte (m (skip_ws m (cur s1) e)) "{")); [apply le_res_refl|apply Hm].
Qed.

Lemma tagged_body_mono rv rv' : Lv rv rv' -> Lv (tbody rv) (tbody rv').
Proof.
  intros Hv s. unfold tagged_body.
  destruct (e <=? cur (with_cur s (cur s + 1))); [apply le_res_refl|].
  destruct (tag_adjacent_ws _); [apply le_res_refl|].
  destruct (read_identifier m e (with_cur s (cur s + 1))) as [[tv|] s2| | |]; try apply le_res_refl.
  destruct (nval tv); try apply le_res_refl.
  callee Hv (with_depth s2 (depth s + 1)). apply le_res_refl.
Qed.

Lemma meta_body_mono rv rv' : Lv rv rv' -> Lv (mtbody rv) (mtbody rv').
Proof.
  intros Hv s. unfold meta_body. callee Hv (with_ext (with_cur s (cur s + 1)) "metadata").
  destruct (rv (with_ext (with_cur s (cur s + 1)) "metadata")) as [[a|] s1| | |]; try apply le_res_refl.
  destruct (negb (meta_ok_annotation (nval a))); [apply le_res_refl|].
  callee Hv s1. apply le_res_refl.
Qed.

Lemma le_res_leave (r r' : res (option node)) : le_res r r' ->
  le_res (match r with Ret v s => Ret v (leave s) | x => x end) (match r' with Ret v s => Ret v (leave s) | x => x end).
Proof. intros [->| ->]; [now left|now right]. Qed.

Lemma value_body_mono rv rv' rs rs' rm rm' rn rn' rt rt' rmt rmt' :
  Lv rv rv' -> Lseq rs rs' -> Lmap rm rm' -> Lv rn rn' -> Lv rt rt' -> Lv rmt rmt' ->
  Lv (vbody rv rs rm rn rt rmt) (vbody rv' rs' rm' rn' rt' rmt').
Proof.
  intros Hv Hs Hm Hn Ht Hmt s0. unfold value_body. cbv zeta. apply le_res_leave.
  generalize (enter s0). clear s0. intros s0.
  set (pre := if cur s0 <? e then if prefilter (bz (m (cur s0))) then if skip_ws m (cur s0) e <? e then Some (with_cur s0 (skip_ws m (cur s0) e)) else None else Some s0 else None).
  destruct pre as [s|]; [|apply le_res_refl].
  set (s' := with_start s (cur s)).
  repeat match goal with
         | |- le_res (if ?b then _ else _) (if ?b then _ else _) => destruct b
         end;
    try apply le_res_refl; try apply Hs; try apply Hm; try apply Hn; try apply Ht; try apply Hmt.
  (* discard *)
  callee Hv (with_discard (with_cur s' (cur s' + 2)) true).
  destruct (rv (with_discard (with_cur s' (cur s' + 2)) true)) as [[dv|] s1| | |]; try apply le_res_refl.
  destruct (is_ok (with_discard s1 (discard s'))); [apply Hv|apply le_res_refl].
Qed.

Notation RV := (read_value c o handler xe xh sort m e).
Notation RS := (read_seq c o handler xe xh sort m e).
Notation RE := (read_elems c o handler xe xh sort m e).
Notation RM := (read_map c o handler xe xh sort m e).
Notation REN := (read_entries c o handler xe xh sort m e).
Notation RN := (read_nsmap c o handler xe xh sort m e).
Notation RT := (read_tagged c o handler xe xh sort m e).
Notation RMT := (read_meta c o handler xe xh sort m e).

Theorem readers_mono_step : forall f,
  Lv (RV f) (RV (S f)) /\ Lseq (RS f) (RS (S f)) /\ Lel (RE f) (RE (S f)) /\ Lmap (RM f) (RM (S f)) /\
  Len (REN f) (REN (S f)) /\ Lv (RN f) (RN (S f)) /\ Lv (RT f) (RT (S f)) /\ Lv (RMT f) (RMT (S f)).
Proof.
  induction f as [|f (IHv & IHs & IHe & IHm & IHen & IHn & IHt & IHmt)].
  - repeat split; intro; intros; apply le_res_oof.
  - repeat split.
    + apply value_body_mono; assumption.
    + apply seq_body_mono; assumption.
    + apply elems_body_mono; assumption.
    + apply map_body_mono; assumption.
    + apply entries_body_mono; assumption.
    + apply nsmap_body_mono; assumption.
    + apply tagged_body_mono; assumption.
    + apply meta_body_mono; assumption.
Qed.

(* once it returns, more fuel changes nothing *)
Theorem read_value_fuel_irrelevant f k s r : RV f s = r -> r <> OutOfFuel -> RV (f + k) s = r.
Proof.
  intros H Hr. induction k as [|k IH]; [now rewrite Nat.add_0_r|].
  rewrite Nat.add_succ_r. destruct (proj1 (readers_mono_step (f + k)) s) as [E|E]; congruence.
Qed.

Theorem read_doc_fuel_irrelevant f k r : read_doc c o handler xe xh sort m e f = r -> r <> OutOfFuel ->
  read_doc c o handler xe xh sort m e (f + k) = r.
Proof.
  unfold read_doc. intros H Hr.
  destruct (RV f init_pst) as [v s| | |] eqn:E.
  - now rewrite (read_value_fuel_irrelevant f k init_pst _ E ltac:(discriminate)).
  - now rewrite (read_value_fuel_irrelevant f k init_pst _ E ltac:(discriminate)).
  - now rewrite (read_value_fuel_irrelevant f k init_pst _ E ltac:(discriminate)).
  - congruence.
Qed.
End Mono.

(* ---- with termination: whatever fuel a statement was proved for, it is a statement about the run of the model ---- *)
From Verif Require Import ByteSweep ScanProofs ReaderInv NumProgress FlagProofs ReaderTerm.

Theorem any_fuel_is_the_run c o m len f r : In c all_cfgs ->
  read_doc c o builtin_handler no_ext_equal no_ext_hash (isort c) m len f = r -> r <> OutOfFuel ->
  run_doc c o m len = r.
Proof.
  intros Hc H Hr. unfold run_doc.
  destruct (Nat.le_ge_cases f (fuel_for len)) as [Hle|Hge].
  - replace (fuel_for len) with (f + (fuel_for len - f))%nat by lia. now apply read_doc_fuel_irrelevant.
  - pose proof (run_doc_always_returns c o m len Hc) as Hrun. unfold run_doc in Hrun.
    pose proof (read_doc_fuel_irrelevant c o builtin_handler no_ext_equal no_ext_hash (isort c) m len (fuel_for len) (f - fuel_for len) _ eq_refl Hrun) as E.
    replace (fuel_for len + (f - fuel_for len))%nat with f in E by lia. congruence.
Qed.
