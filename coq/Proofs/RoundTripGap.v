(* Proofs/RoundTripGap.v -- the fragment of RoundTrip.v with DISCARDED FORMS in every gap (C13 at the level of whole
   documents): between the opener and the first element, between consecutive elements and in front of the closer may
   stand any alternation of trivia runs (white space, commas, complete line comments) and discards  #_ <trivia> <form>
   whose form is again any term of this grammar (so discards nest, and discarded collections contain discards).
   The run of the model reads every such document to a tree denoting the term with all gaps erased. *)
From Coq Require Import ZArith NArith List Bool Lia String.
From Coq.Strings Require Import Byte.
From Verif Require Import Lanes Common Values Floats Scan ScanFacts Numbers Equality Tokens Reader Configs ByteSweep ScanProofs
     FidelityProofs NumProgress NumLiteral FlagProofs FuelMono TriviaProofs TriviaReader ReaderInv EqBasics EqEquiv RoundTrip RoundTripWs RoundTripEq.
Import ListNotations.
Local Open Scope N_scope.

Inductive gterm :=
| GKw (name : bytes)
| GInt (neg : bool) (digits : bytes)
| GSeq (vec : bool) (els : list (list gitem * gterm)) (tl : list gitem)
with gitem :=
| GWs (t : bytes)
| GDisc (ws : bytes) (d : gterm).

Fixpoint gerase (a : gterm) : term :=
  match a with
  | GKw nm => TKw nm
  | GInt neg ds => TInt neg ds
  | GSeq vec els _ => let l := map (fun p => gerase (snd p)) els in if vec then TVec l else TList l
  end.

Fixpoint gsize (a : gterm) : nat :=
  match a with
  | GSeq _ els tl => S (fold_right (fun p acc => fold_right (fun it a2 => isize it + a2) O (fst p) + gsize (snd p) + acc) O els
                        + fold_right (fun it a2 => isize it + a2) O tl)%nat
  | _ => 1%nat
  end
with isize (it : gitem) : nat := match it with GWs _ => O | GDisc _ d => gsize d end.

Fixpoint gpr (a : gterm) : bytes :=
  match a with
  | GKw nm => ":"%byte :: nm
  | GInt neg ds => (if neg then ["-"%byte] else []) ++ ds
  | GSeq vec els tl => (if vec then "["%byte else "("%byte) ::
        List.concat (map (fun p => List.concat (map ipr (fst p)) ++ gpr (snd p)) els) ++ List.concat (map ipr tl) ++
        [if vec then "]"%byte else ")"%byte]
  end
with ipr (it : gitem) : bytes := match it with GWs t => t | GDisc ws d => "#"%byte :: "_"%byte :: ws ++ gpr d end.
Definition gappr (g : list gitem) : bytes := List.concat (map ipr g).

(* shape of a gap: trivia runs and discards alternate (two adjacent trivia runs are one run; two adjacent discards need a
   separator unless ... we simply ask for one) *)
Fixpoint alt (g : list gitem) : Prop :=
  match g with
  | [] => True
  | GWs _ :: r => match r with GWs _ :: _ => False | _ => alt r end
  | GDisc _ _ :: r => match r with GDisc _ _ :: _ => False | _ => alt r end
  end.
Fixpoint ends_ws (g : list gitem) : Prop :=
  match g with
  | [] => True
  | it :: r => match r with [] => match it with GDisc _ _ => False | GWs _ => True end | _ :: _ => ends_ws r end
  end.
Definition starts_ws (g : list gitem) : Prop := match g with GWs _ :: _ => True | _ => False end.
Definition tail_ok (g : list gitem) : Prop := match g with GDisc _ _ :: _ => False | _ => True end.

Fixpoint gwf (a : gterm) : Prop :=
  match a with
  | GKw nm => nm <> [] /\ forallb identb nm = true
  | GInt _ ds => ds <> [] /\ forallb is_dig ds = true /\ (List.hd "0"%byte ds <> "0"%byte \/ ds = ["0"%byte])
  | GSeq _ els tl =>
      fold_right (fun it acc => iwf it /\ acc) True tl /\ alt tl /\
      match els with [] => True | _ :: _ => tail_ok tl end /\
      fold_right (fun p acc => (fold_right (fun it a2 => iwf it /\ a2) True (fst p) /\ alt (fst p) /\ ends_ws (fst p)) /\ gwf (snd p) /\ acc) True els /\
      match els with [] => True | _ :: t => fold_right (fun p acc => starts_ws (fst p) /\ acc) True t end
  end
with iwf (it : gitem) : Prop := match it with GWs t => trivia t /\ t <> [] | GDisc ws d => trivia ws /\ gwf d end.

Definition gapwf (g : list gitem) : Prop := fold_right (fun it acc => iwf it /\ acc) True g.

Lemma gpr_first a : gwf a -> exists b r, gpr a = b :: r /\ is_ws b = false /\ is_semi b = false /\ prefilter (bz b) = false.
Proof.
  intros Hw. destruct a as [nm|neg ds|vec els tl].
  - exact (pr_first (TKw nm) Hw).
  - exact (pr_first (TInt neg ds) Hw).
  - cbn [gpr]. eexists. eexists. split; [reflexivity|]. destruct vec; repeat split; reflexivity.
Qed.

Lemma hash_facts : is_ws "#" = false /\ is_semi "#" = false /\ prefilter (bz "#") = false /\
  forallb (fun c => (dispatch_of c "#" =? ct_hash c)%Z && not_earlier c (dispatch_of c "#") 5) all_cfgs = true.
Proof. vm_compute. repeat split; reflexivity. Qed.

Definition lv (r : res (option node)) : res (option node) := match r with Ret v s => Ret v (leave s) | x => x end.
Fixpoint lvn (k : nat) (r : res (option node)) : res (option node) := match k with O => r | S k' => lv (lvn k' r) end.

Lemma lvn_ret k v s : exists s', lvn k (Ret v s) = Ret v s' /\ cur s' = cur s /\ is_ok s' = is_ok s /\ depth s' = depth s.
Proof.
  induction k as [|k (s' & E & H1 & H2 & H3)]; [exists s; repeat split|].
  cbn [lvn]. rewrite E. cbn [lv]. exists (leave s'). repeat split; assumption.
Qed.

Lemma gapwf_app_size n g : (fold_right (fun it a2 => isize it + a2) O g <= n)%nat -> Forall (fun it => (isize it <= n)%nat) g.
Proof. induction g as [|it r IH]; cbn [fold_right]; intros H; constructor; [lia|apply IH; lia]. Qed.

Section GAP.
Variable c : cfg.
Hypothesis Hc : In c all_cfgs.
Variable o : opts.
Variable handler : Z -> node -> option node * option bytes.
Variable xe : Z -> option (Z -> Z -> bool).
Variable xh : Z -> option (Z -> Z).
Variable sort : list node -> list node.
Variable m : mem.
Variable e : N.

Notation RV := (read_value c o handler xe xh sort m e).
Notation RS := (read_seq c o handler xe xh sort m e).
Notation RE := (read_elems c o handler xe xh sort m e).
Notation follow := (ends_at m e).
Notation Reads := (Reads c o handler xe xh sort m e).
Notation fstarts := (form_starts m e).

Definition GIH (n : nat) : Prop := forall a, (gsize a <= n)%nat -> gwf a -> forall s, is_ok s = true ->
  cur s + N.of_nat (List.length (gpr a)) <= e -> slice m (cur s) (List.length (gpr a)) = gpr a ->
  follow (cur s + N.of_nat (List.length (gpr a))) -> Reads s (gerase a) (cur s + N.of_nat (List.length (gpr a))).

Definition skp (s : pst) (ws : bytes) : pst := match ws with [] => s | _ => with_cur s (cur s + N.of_nat (List.length ws)) end.
Lemma skp_facts s ws : cur (skp s ws) = cur s + N.of_nat (List.length ws) /\ is_ok (skp s ws) = is_ok s /\ depth (skp s ws) = depth s.
Proof. destruct ws; cbn [skp List.length N.of_nat]; repeat split; try reflexivity. lia. Qed.
Lemma absorb' f s ws : trivia ws -> slice m (cur s) (List.length ws) = ws -> cur s + N.of_nat (List.length ws) <= e ->
  fstarts (cur s + N.of_nat (List.length ws)) -> RV (S f) s = RV (S f) (skp s ws).
Proof.
  intros Ht Hsl Hle Hfs. destruct ws as [|b r]; [reflexivity|]. unfold skp.
  apply (read_value_absorbs_trivia c o handler xe xh sort m e f s (b :: r)); try assumption. discriminate.
Qed.
Lemma byte_at p l b r : l = b :: r -> slice m p (List.length l) = l -> m p = b.
Proof. intros -> H. cbn [List.length] in H. rewrite slice_S in H. now injection H. Qed.

Lemma byte_hd p b r k : slice m p (S k) = b :: r -> m p = b /\ slice m (p + 1) k = r.
Proof. rewrite slice_S. intros H. injection H as H1 H2. split; assumption. Qed.

(* one discard:  #_ ws d  in front of anything *)
Lemma discard_step n : GIH n -> forall ws d, (gsize d <= n)%nat -> trivia ws -> gwf d -> forall s, is_ok s = true ->
  let txt := "#"%byte :: "_"%byte :: ws ++ gpr d in
  cur s + N.of_nat (List.length txt) <= e -> slice m (cur s) (List.length txt) = txt -> follow (cur s + N.of_nat (List.length txt)) ->
  exists f0 s1, cur s1 = cur s + N.of_nat (List.length txt) /\ is_ok s1 = true /\ depth s1 = depth s /\
    forall f, (f0 <= f)%nat -> RV (S f) s = lv (RV f s1).
Proof.
  intros IH ws d Hsz Hws Hwd s Hok txt Hle Hsl Hfol. unfold txt in *. clear txt.
  cbn [List.length] in Hle, Hsl, Hfol |- *.
  apply byte_hd in Hsl. destruct Hsl as [Hb0 Hsl]. apply byte_hd in Hsl. destruct Hsl as [Hb1 Hsl].
  rewrite app_length in Hle, Hsl, Hfol |- *.
  rewrite slice_app in Hsl. apply app_eq_len in Hsl; [|now rewrite slice_length]. destruct Hsl as [Hsws Hsd].
  destruct (gpr_first d Hwd) as (bd & rd & Epd & Hd1 & Hd2 & _).
  assert (Hld : (0 < List.length (gpr d))%nat) by (rewrite Epd; cbn; lia).
  set (s' := with_start (enter s) (cur s)).
  set (sd := with_discard (with_cur s' (cur s + 2)) true).
  assert (Hcsd : cur sd = cur s + 2) by reflexivity.
  assert (Hoksd : is_ok sd = true) by exact Hok.
  destruct (skp_facts sd ws) as (Hc1 & Hok1 & Hd1'). set (sw := skp sd ws) in *.
  replace (cur s + 1 + 1) with (cur s + 2) in * by lia.
  assert (Hfs : fstarts (cur sd + N.of_nat (List.length ws))).
  { right. rewrite Hcsd. split; [lia|]. rewrite (byte_at _ (gpr d) bd rd Epd Hsd). split; assumption. }
  assert (Habs : forall f, RV (S f) sd = RV (S f) sw) by (intros f; apply absorb'; try assumption; rewrite Hcsd; try assumption; lia).
  destruct (IH d Hsz Hwd sw ltac:(now rewrite Hok1) ltac:(rewrite Hc1, Hcsd; lia) ltac:(rewrite Hc1, Hcsd; exact Hsd)
              ltac:(rewrite Hc1, Hcsd; replace (cur s + 2 + N.of_nat (List.length ws) + N.of_nat (List.length (gpr d)))
                       with (cur s + N.of_nat (S (S (List.length ws + List.length (gpr d))))) by lia; exact Hfol)) as (fd & Hfd).
  destruct (Hfd fd (le_n _)) as (nd & sdone & Hrd & _ & Hcd & Hokd & Hdd).
  set (s1 := with_discard sdone (discard s')).
  exists (S fd), s1. split; [unfold s1; cbn [cur with_discard]; rewrite Hcd, Hc1, Hcsd; lia|]. split; [exact Hokd|].
  split; [unfold s1; cbn [depth with_discard]; rewrite Hdd, Hd1'; reflexivity|].
  intros f Hf. destruct f as [|f]; [lia|].
  assert (Hrun : RV (S f) sd = Ret (Some nd) sdone).
  { rewrite Habs. replace (S f) with (fd + (S f - fd))%nat by lia. apply read_value_fuel_irrelevant; [exact Hrd|discriminate]. }
  destruct hash_facts as (_ & _ & Hpf & Hcls). rewrite forallb_forall in Hcls. specialize (Hcls c Hc). apply andb_prop in Hcls as [Hh Hne].
  pose proof (not_earlier_spec c _ 5 ltac:(lia) Hne) as Hn.
  rewrite RV_S. unfold value_body. cbv zeta. cbn [cur with_start enter].
  replace (cur s <? e) with true by (symmetry; apply N.ltb_lt; lia). rewrite Hb0, Hpf. cbn [cur with_start enter]. rewrite Hb0.
  usecls Hn 0%nat; usecls Hn 1%nat; usecls Hn 2%nat; usecls Hn 3%nat; usecls Hn 4%nat. rewrite Hh.
  replace (cur s + 1 <? e) with true by (symmetry; apply N.ltb_lt; lia). rewrite Hb1.
  replace (is_byte "_" "{") with false by reflexivity. replace (is_byte "_" "#") with false by reflexivity.
  replace (is_byte "_" "_") with true by reflexivity. cbn [andb].
  fold s'. fold sd. rewrite Hrun. fold s1. replace (is_ok s1) with true by (symmetry; exact Hokd). reflexivity.
Qed.

(* a whole gap in front of a form start *)
Lemma ends_ws_tail it r : ends_ws (it :: r) -> r <> [] -> ends_ws r.
Proof. destruct r as [|it2 r]; [congruence|]. intros H _. exact H. Qed.

Lemma gap_absorb n : GIH n -> forall g, Forall (fun it => (isize it <= n)%nat) g -> gapwf g -> alt g ->
  forall s, is_ok s = true ->
  cur s + N.of_nat (List.length (gappr g)) < e -> slice m (cur s) (List.length (gappr g)) = gappr g ->
  is_ws (m (cur s + N.of_nat (List.length (gappr g)))) = false -> is_semi (m (cur s + N.of_nat (List.length (gappr g)))) = false ->
  (ends_ws g \/ numdelim (bz (m (cur s + N.of_nat (List.length (gappr g))))) = true) ->
  exists k f0 s2, cur s2 = cur s + N.of_nat (List.length (gappr g)) /\ is_ok s2 = true /\ depth s2 = depth s /\
     forall f, (f0 <= f)%nat -> RV (S f + k) s = lvn k (RV (S f) s2).
Proof.
  intros IH. induction g as [|it r IHr]; intros Hsz Hw Halt s Hok Hlt Hsl Hb1 Hb2 Hend.
  - exists O, O, s. cbn [gappr map List.concat List.length N.of_nat]. split; [lia|]. split; [exact Hok|]. split; [reflexivity|].
    intros f _. now rewrite Nat.add_0_r.
  - inversion Hsz as [|? ? Hszi Hszr]; subst. cbn [gapwf fold_right] in Hw. destruct Hw as [Hwi Hwr].
    assert (Etxt : gappr (it :: r) = ipr it ++ gappr r) by reflexivity.
    rewrite Etxt in Hlt, Hsl, Hb1, Hb2, Hend |- *. rewrite app_length in Hlt, Hsl, Hb1, Hb2, Hend |- *.
    rewrite slice_app in Hsl. apply app_eq_len in Hsl; [|now rewrite slice_length]. destruct Hsl as [Hsi Hsr].
    destruct it as [t|ws d].
    + (* a trivia run *)
      cbn [iwf] in Hwi. destruct Hwi as [Ht Htne]. cbn [ipr] in *.
      assert (Haltr : alt r /\ match r with GWs _ :: _ => False | _ => True end) by (cbn [alt] in Halt; destruct r as [|[|] ?]; tauto).
      destruct Haltr as [Haltr Hnws].
      destruct (skp_facts s t) as (Hc1 & Hok1 & Hd1). set (s1 := skp s t) in *.
      assert (Hfs : fstarts (cur s + N.of_nat (List.length t))).
      { right. destruct r as [|[t2|ws2 d2] r'].
        - cbn [gappr map List.concat List.length N.of_nat] in *. replace (cur s + N.of_nat (List.length t + 0)) with (cur s + N.of_nat (List.length t)) in * by lia.
          split; [lia|split; assumption].
        - contradiction.
        - assert (E2 : gappr (GDisc ws2 d2 :: r') = "#"%byte :: ("_"%byte :: ws2 ++ gpr d2) ++ gappr r') by reflexivity.
          split; [rewrite E2 in Hlt; cbn [List.length] in Hlt; lia|].
          rewrite (byte_at _ _ _ _ E2 Hsr). split; reflexivity. }
      assert (Habs : forall f, RV (S f) s = RV (S f) s1) by (intros f; apply absorb'; try assumption; lia).
      assert (Hend' : ends_ws r \/ numdelim (bz (m (cur s1 + N.of_nat (List.length (gappr r))))) = true).
      { rewrite Hc1. replace (cur s + N.of_nat (List.length t) + N.of_nat (List.length (gappr r))) with (cur s + N.of_nat (List.length t + List.length (gappr r))) by lia.
        destruct Hend as [He|He]; [|now right]. left. destruct r as [|it2 r']; [exact I|]. apply (ends_ws_tail _ _ He). discriminate. }
      destruct (IHr Hszr Hwr Haltr s1 ltac:(now rewrite Hok1) ltac:(rewrite Hc1; lia) ltac:(rewrite Hc1; exact Hsr)
                  ltac:(rewrite Hc1; replace (cur s + N.of_nat (List.length t) + N.of_nat (List.length (gappr r))) with (cur s + N.of_nat (List.length t + List.length (gappr r))) by lia; exact Hb1)
                  ltac:(rewrite Hc1; replace (cur s + N.of_nat (List.length t) + N.of_nat (List.length (gappr r))) with (cur s + N.of_nat (List.length t + List.length (gappr r))) by lia; exact Hb2)
                  Hend') as (k & f0 & s2 & Hc2 & Hok2 & Hd2 & Hrun).
      exists k, f0, s2. split; [rewrite Hc2, Hc1; lia|]. split; [exact Hok2|]. split; [rewrite Hd2, Hd1; reflexivity|].
      intros f Hf. replace (S f + k)%nat with (S (f + k)) by lia. rewrite Habs. replace (S (f + k)) with (S f + k)%nat by lia. now apply Hrun.
    + (* a discard *)
      cbn [iwf] in Hwi. destruct Hwi as [Hws Hwd]. cbn [isize] in Hszi.
      assert (Haltr : alt r /\ match r with GDisc _ _ :: _ => False | _ => True end) by (cbn [alt] in Halt; destruct r as [|[|] ?]; tauto).
      destruct Haltr as [Haltr Hnd].
      assert (Eip : ipr (GDisc ws d) = "#"%byte :: "_"%byte :: ws ++ gpr d) by reflexivity.
      assert (Hfol : follow (cur s + N.of_nat (List.length (ipr (GDisc ws d))))).
      { right. destruct r as [|[t2|ws2 d2] r'].
        - cbn [gappr map List.concat List.length N.of_nat] in *. rewrite Nat.add_0_r in *. split; [lia|].
          destruct Hend as [He|He]; [cbn [ends_ws] in He; contradiction|exact He].
        - cbn [gapwf fold_right iwf] in Hwr. destruct Hwr as [[Ht2 Hne2] _].
          destruct (trivia_numdelim t2 Ht2 Hne2) as (b & rr & Et2 & Hnb).
          assert (E2 : gappr (GWs t2 :: r') = b :: rr ++ gappr r') by (change (gappr (GWs t2 :: r')) with (t2 ++ gappr r'); now rewrite Et2).
          split; [rewrite E2 in Hlt; cbn [List.length] in Hlt; lia|]. now rewrite (byte_at _ _ _ _ E2 Hsr).
        - contradiction. }
      destruct (discard_step n IH ws d Hszi Hws Hwd s Hok ltac:(rewrite <- Eip; lia) ltac:(rewrite <- Eip; exact Hsi) ltac:(rewrite <- Eip; exact Hfol))
        as (fd & s1 & Hc1 & Hok1 & Hd1 & Hstep). rewrite <- Eip in Hc1.
      assert (Hend' : ends_ws r \/ numdelim (bz (m (cur s1 + N.of_nat (List.length (gappr r))))) = true).
      { rewrite Hc1. replace (cur s + N.of_nat (List.length (ipr (GDisc ws d))) + N.of_nat (List.length (gappr r)))
          with (cur s + N.of_nat (List.length (ipr (GDisc ws d)) + List.length (gappr r))) by lia.
        destruct Hend as [He|He]; [|now right]. destruct r as [|it2 r']; [cbn [ends_ws] in He; contradiction|]. left. apply (ends_ws_tail _ _ He). discriminate. }
      destruct (IHr Hszr Hwr Haltr s1 Hok1 ltac:(rewrite Hc1; lia) ltac:(rewrite Hc1; exact Hsr)
                  ltac:(rewrite Hc1; replace (cur s + N.of_nat (List.length (ipr (GDisc ws d))) + N.of_nat (List.length (gappr r))) with (cur s + N.of_nat (List.length (ipr (GDisc ws d)) + List.length (gappr r))) by lia; exact Hb1)
                  ltac:(rewrite Hc1; replace (cur s + N.of_nat (List.length (ipr (GDisc ws d))) + N.of_nat (List.length (gappr r))) with (cur s + N.of_nat (List.length (ipr (GDisc ws d)) + List.length (gappr r))) by lia; exact Hb2)
                  Hend') as (k & f0 & s2 & Hc2 & Hok2 & Hd2 & Hrun).
      exists (S k), (Nat.max fd f0), s2. split; [rewrite Hc2, Hc1; lia|]. split; [exact Hok2|]. split; [rewrite Hd2, Hd1; reflexivity|].
      intros f Hf. replace (S f + S k)%nat with (S (S f + k)) by lia. rewrite (Hstep (S f + k)%nat) by lia.
      rewrite (Hrun f) by lia. reflexivity.
Qed.

(* a gap, then a form *)
Lemma gap_then_value n : GIH n -> forall g x, Forall (fun it => (isize it <= n)%nat) g -> gapwf g -> alt g -> ends_ws g ->
  (gsize x <= n)%nat -> gwf x -> forall s, is_ok s = true ->
  let txt := gappr g ++ gpr x in
  cur s + N.of_nat (List.length txt) <= e -> slice m (cur s) (List.length txt) = txt -> follow (cur s + N.of_nat (List.length txt)) ->
  exists f0, forall f, (f0 <= f)%nat -> exists nx sx, RV f s = Ret (Some nx) sx /\ denotes c (gerase x) nx /\
    cur sx = cur s + N.of_nat (List.length txt) /\ is_ok sx = true /\ depth sx = depth s.
Proof.
  intros IH g x Hszg Hwg Halt Hends Hszx Hwx s Hok txt Hle Hsl Hfol. unfold txt in *. clear txt.
  rewrite app_length in Hle, Hsl, Hfol |- *. rewrite slice_app in Hsl. apply app_eq_len in Hsl; [|now rewrite slice_length].
  destruct Hsl as [Hsg Hsx]. destruct (gpr_first x Hwx) as (b & r & Epx & Hb1 & Hb2 & _).
  assert (Hlx : (0 < List.length (gpr x))%nat) by (rewrite Epx; cbn; lia).
  pose proof (byte_at _ _ _ _ Epx Hsx) as Hmb.
  destruct (gap_absorb n IH g Hszg Hwg Halt s Hok ltac:(lia) Hsg ltac:(now rewrite Hmb) ltac:(now rewrite Hmb) (or_introl Hends))
    as (k & f0 & s2 & Hc2 & Hok2 & Hd2 & Hrun).
  destruct (IH x Hszx Hwx s2 Hok2 ltac:(rewrite Hc2; lia) ltac:(rewrite Hc2; exact Hsx)
              ltac:(rewrite Hc2; replace (cur s + N.of_nat (List.length (gappr g)) + N.of_nat (List.length (gpr x)))
                       with (cur s + N.of_nat (List.length (gappr g) + List.length (gpr x))) by lia; exact Hfol)) as (fx & Hfx).
  exists (S (Nat.max f0 fx) + k)%nat. intros f Hf.
  replace f with (S (f - k - 1) + k)%nat by lia. rewrite (Hrun (f - k - 1)%nat) by lia.
  destruct (Hfx (S (f - k - 1)) ltac:(lia)) as (nx & sx & Hr & Hden & Hcx & Hokx & Hdx). rewrite Hr.
  destruct (lvn_ret k (Some nx) sx) as (s' & E & H1 & H2 & H3). rewrite E. exists nx, s'. split; [reflexivity|]. split; [exact Hden|].
  split; [rewrite H1, Hcx, Hc2; lia|]. split; [now rewrite H2|]. now rewrite H3, Hdx, Hd2.
Qed.

(* a gap, then the closer *)
Lemma gap_then_closer n cl : GIH n -> (cl = "]"%byte \/ cl = ")"%byte) -> forall g, Forall (fun it => (isize it <= n)%nat) g -> gapwf g -> alt g ->
  forall s, is_ok s = true -> depth s <> 0 ->
  let txt := gappr g ++ [cl] in
  cur s + N.of_nat (List.length txt) <= e -> slice m (cur s) (List.length txt) = txt ->
  exists f0, forall f, (f0 <= f)%nat -> exists s', RV f s = Ret None s' /\
    cur s' + 1 = cur s + N.of_nat (List.length txt) /\ is_ok s' = true /\ depth s' = depth s /\ m (cur s') = cl.
Proof.
  intros IH Hcl g Hszg Hwg Halt s Hok Hdep txt Hle Hsl. unfold txt in *. clear txt.
  rewrite app_length in Hle, Hsl |- *. cbn [List.length] in Hle, Hsl |- *.
  rewrite slice_app in Hsl. apply app_eq_len in Hsl; [|now rewrite slice_length]. destruct Hsl as [Hsg Hsc].
  apply byte_hd in Hsc. destruct Hsc as [Hmb _].
  destruct byte_facts as (_ & _ & _ & _ & N2 & N3 & _).
  assert (Hcf : is_ws cl = false /\ is_semi cl = false /\ numdelim (bz cl) = true) by (destruct Hcl as [-> | ->]; repeat split; assumption).
  destruct Hcf as (Hw1 & Hw2 & Hw3).
  destruct (gap_absorb n IH g Hszg Hwg Halt s Hok ltac:(lia) Hsg ltac:(now rewrite Hmb) ltac:(now rewrite Hmb) ltac:(right; now rewrite Hmb))
    as (k & f0 & s2 & Hc2 & Hok2 & Hd2 & Hrun).
  exists (S f0 + k)%nat. intros f Hf. replace f with (S (f - k - 1) + k)%nat by lia. rewrite (Hrun (f - k - 1)%nat) by lia.
  destruct (rv_closer c Hc o handler xe xh sort m e (f - k - 1) s2 cl Hok2 ltac:(now rewrite Hd2) ltac:(rewrite Hc2; lia) ltac:(now rewrite Hc2) Hcl)
    as (s' & Hr & Hc' & Hok' & Hd'). rewrite Hr.
  destruct (lvn_ret k None s') as (s3 & E & H1 & H2 & H3). rewrite E. exists s3. split; [reflexivity|].
  split; [rewrite H1, Hc', Hc2; lia|]. split; [now rewrite H2|]. split; [now rewrite H3, Hd', Hd2|]. now rewrite H1, Hc', Hc2.
Qed.

Definition ggtail (cl : byte) (l : list (list gitem * gterm)) (tl : list gitem) : bytes :=
  List.concat (map (fun p => gappr (fst p) ++ gpr (snd p)) l) ++ gappr tl ++ [cl].

Definition elwf (p : list gitem * gterm) : Prop := (gapwf (fst p) /\ alt (fst p) /\ ends_ws (fst p)) /\ gwf (snd p).

Lemma gap_ws_first g : gapwf g -> starts_ws g -> exists b r, gappr g = b :: r /\ numdelim (bz b) = true.
Proof.
  destruct g as [|[t|ws d] r]; cbn [starts_ws]; try contradiction. intros [[Ht Hne] _] _.
  destruct (trivia_numdelim t Ht Hne) as (b & rr & -> & Hn). exists b, (rr ++ gappr r). split; [reflexivity|exact Hn].
Qed.

Lemma ggtail_first cl l tl : (cl = "]"%byte \/ cl = ")"%byte) -> gapwf tl -> tail_ok tl ->
  Forall elwf l -> Forall (fun p => starts_ws (fst p)) l ->
  exists b r, ggtail cl l tl = b :: r /\ numdelim (bz b) = true.
Proof.
  intros Hcl Htl Hto Hw Hs. destruct byte_facts as (_ & _ & _ & _ & N2 & N3 & _). unfold ggtail. destruct l as [|[g x] t].
  - cbn [map List.concat app]. destruct tl as [|[t0|ws d] r]; [| |contradiction].
    + cbn [gappr map List.concat app]. eexists. eexists. split; [reflexivity|]. destruct Hcl as [-> | ->]; assumption.
    + destruct (gap_ws_first (GWs t0 :: r) Htl I) as (b & rr & E & Hn). rewrite E. eexists. eexists. split; [reflexivity|exact Hn].
  - inversion Hw as [|? ? [[Hg _] _] _]; subst. inversion Hs as [|? ? Hsg _]; subst. cbn [fst snd] in *.
    destruct (gap_ws_first g Hg Hsg) as (b & rr & E & Hn). cbn [map List.concat fst snd]. rewrite E. eexists. eexists. split; [reflexivity|exact Hn].
Qed.

(* the element loop on  g1 x1 g2 x2 ... gk xk tl <closer> *)
Lemma elems_loop_gap n cl : GIH n -> (cl = "]"%byte \/ cl = ")"%byte) -> forall tl, Forall (fun it => (isize it <= n)%nat) tl -> gapwf tl -> alt tl ->
  forall l, Forall (fun p => Forall (fun it => (isize it <= n)%nat) (fst p) /\ (gsize (snd p) <= n)%nat) l -> Forall elwf l ->
  Forall (fun p => starts_ws (fst p)) l -> (l <> [] -> tail_ok tl) ->
  forall s acc, is_ok s = true -> depth s <> 0 ->
  cur s + N.of_nat (List.length (ggtail cl l tl)) <= e -> slice m (cur s) (List.length (ggtail cl l tl)) = ggtail cl l tl ->
  exists f0, forall f, (f0 <= f)%nat -> exists xs s',
    RE f s acc = Ret (Some (rev acc ++ xs)) s' /\ Forall2 (denotes c) (map (fun p => gerase (snd p)) l) xs /\
    cur s' + 1 = cur s + N.of_nat (List.length (ggtail cl l tl)) /\ is_ok s' = true /\ depth s' = depth s /\ m (cur s') = cl.
Proof.
  intros IH Hcl tl Hsztl Hwtl Halttl. induction l as [|[g x] t IHl]; intros Hsz Hw Hst Hto s acc Hok Hd Hle Hsl.
  - unfold ggtail in *. cbn [map List.concat app] in *.
    destruct (gap_then_closer n cl IH Hcl tl Hsztl Hwtl Halttl s Hok Hd Hle Hsl) as (f0 & Hf0).
    exists (S f0). intros f Hf. destruct f as [|f]; [lia|]. destruct (Hf0 f ltac:(lia)) as (s' & Hr & Hc' & Hok' & Hd' & Hm').
    rewrite RE_S. unfold elems_body. rewrite Hr. exists [], s'. rewrite app_nil_r. split; [reflexivity|]. split; [constructor|].
    repeat split; assumption.
  - inversion Hsz as [|? ? [Hszg Hszx] Hszt]; subst. inversion Hw as [|? ? [[Hwg [Haltg Hendg]] Hwx] Hwt]; subst.
    inversion Hst as [|? ? Hsg Hstt]; subst. cbn [fst snd] in *.
    assert (Egt : ggtail cl ((g, x) :: t) tl = (gappr g ++ gpr x) ++ ggtail cl t tl).
    { unfold ggtail. cbn [map List.concat fst snd]. rewrite <- !app_assoc. reflexivity. }
    rewrite Egt in Hle, Hsl |- *. rewrite app_length in Hle, Hsl |- *.
    rewrite slice_app in Hsl. apply app_eq_len in Hsl; [|now rewrite slice_length]. destruct Hsl as [Hgx Ht].
    set (q := cur s + N.of_nat (List.length (gappr g ++ gpr x))) in *.
    assert (Htok : tail_ok tl) by (destruct t; apply Hto; discriminate).
    destruct (ggtail_first cl t tl Hcl Hwtl Htok Hwt Hstt) as (b2 & r2 & Eg2 & Hnd2).
    assert (Hlen2 : (0 < List.length (ggtail cl t tl))%nat) by (rewrite Eg2; cbn; lia).
    pose proof (byte_at q _ _ _ Eg2 Ht) as Hmq.
    destruct (gap_then_value n IH g x Hszg Hwg Haltg Hendg Hszx Hwx s Hok ltac:(fold q; lia) Hgx
                ltac:(fold q; apply (follow_byte m e q b2); [lia|exact Hmq|exact Hnd2])) as (fv & Hfv).
    destruct (Hfv fv (le_n _)) as (nx & sx & Hrx & Hdx & Hcx & Hokx & Hdpx). fold q in Hcx.
    destruct (IHl Hszt Hwt Hstt ltac:(intros _; exact Htok) sx (nx :: acc) Hokx ltac:(now rewrite Hdpx) ltac:(rewrite Hcx; unfold q; lia)
                  ltac:(rewrite Hcx; exact Ht)) as (ft & Hft).
    exists (S (Nat.max fv ft)). intros f Hf. destruct f as [|f]; [lia|]. rewrite RE_S. unfold elems_body.
    assert (Hrx' : RV f s = Ret (Some nx) sx).
    { replace f with (fv + (f - fv))%nat by lia. apply read_value_fuel_irrelevant; [exact Hrx|discriminate]. }
    rewrite Hrx'. destruct (Hft f ltac:(lia)) as (xs & s' & Hre & Hden & Hc' & Hok' & Hd' & Hm').
    exists (nx :: xs), s'. split.
    { rewrite Hre. cbn [rev]. rewrite <- app_assoc. reflexivity. }
    cbn [map snd]. split; [constructor; assumption|].
    split; [rewrite Hc', Hcx; unfold q; lia|]. split; [exact Hok'|]. split; [rewrite Hd', Hdpx; reflexivity|exact Hm'].
Qed.

Lemma sizes_els n (els : list (list gitem * gterm)) :
  (fold_right (fun p acc => fold_right (fun it a2 => isize it + a2) O (fst p) + gsize (snd p) + acc) O els <= n)%nat ->
  Forall (fun p => Forall (fun it => (isize it <= n)%nat) (fst p) /\ (gsize (snd p) <= n)%nat) els.
Proof.
  induction els as [|p t IH]; cbn [fold_right]; intros H; constructor.
  - split; [apply gapwf_app_size; lia|lia].
  - apply IH. lia.
Qed.
Lemma elwf_Forall (els : list (list gitem * gterm)) :
  fold_right (fun p acc => (fold_right (fun it a2 => iwf it /\ a2) True (fst p) /\ alt (fst p) /\ ends_ws (fst p)) /\ gwf (snd p) /\ acc) True els ->
  Forall elwf els.
Proof. induction els as [|p t IH]; cbn [fold_right]; intros H; constructor; [unfold elwf, gapwf; tauto|apply IH; tauto]. Qed.
Lemma starts_Forall (t : list (list gitem * gterm)) : fold_right (fun p acc => starts_ws (fst p) /\ acc) True t -> Forall (fun p => starts_ws (fst p)) t.
Proof. induction t as [|p t IH]; cbn [fold_right]; intros H; constructor; [tauto|apply IH; tauto]. Qed.

(* the sequence reader behind the opener *)
Lemma seq_reads_gap n (vec : bool) : GIH n -> forall els tl, (gsize (GSeq vec els tl) <= S n)%nat -> gwf (GSeq vec els tl) -> forall s, is_ok s = true ->
  let K := if vec then KVector else KList in let cl := closer_of K in
  let body := ggtail cl els tl in
  cur s + 1 + N.of_nat (List.length body) <= e -> slice m (cur s + 1) (List.length body) = body ->
  exists f0, forall f, (f0 <= f)%nat -> exists xs s',
    RS f K 1 s = Ret (Some (mk (match K with KVector => VVector xs | _ => VList xs end) (cur s) (cur s'))) s' /\
    Forall2 (denotes c) (map (fun p => gerase (snd p)) els) xs /\ cur s' = cur s + 1 + N.of_nat (List.length body) /\
    is_ok s' = true /\ depth s' = depth s.
Proof.
  intros IH els tl Hsz Hw s Hok K cl body Hle Hsl. cbn [gwf] in Hw. destruct Hw as (Hwtl & Halttl & Htok & Hwels & Hsts).
  assert (Hcl : cl = "]"%byte \/ cl = ")"%byte) by (unfold cl, K; destruct vec; [left|right]; reflexivity).
  cbn [gsize] in Hsz.
  assert (Hszels : Forall (fun p => Forall (fun it => (isize it <= n)%nat) (fst p) /\ (gsize (snd p) <= n)%nat) els) by (apply sizes_els; lia).
  assert (Hsztl : Forall (fun it => (isize it <= n)%nat) tl) by (apply gapwf_app_size; lia).
  pose proof (elwf_Forall els Hwels) as Hwf.
  set (s1 := with_depth (with_cur s (cur s + 1)) (depth s + 1)).
  assert (Hok1 : is_ok s1 = true) by exact Hok.
  assert (Hd1 : depth s1 <> 0) by (unfold s1; cbn; lia).
  assert (Hc1 : cur s1 = cur s + 1) by reflexivity.
  assert (Hel : exists f0, forall f, (f0 <= f)%nat -> exists xs s2,
            RE f s1 [] = Ret (Some xs) s2 /\ Forall2 (denotes c) (map (fun p => gerase (snd p)) els) xs /\
            cur s2 + 1 = cur s + 1 + N.of_nat (List.length body) /\ is_ok s2 = true /\ depth s2 = depth s1 /\ m (cur s2) = cl).
  { destruct els as [|[g x] t].
    - destruct (elems_loop_gap n cl IH Hcl tl Hsztl Hwtl Halttl [] (Forall_nil _) (Forall_nil _) (Forall_nil _) ltac:(congruence) s1 [] Hok1 Hd1
                  ltac:(rewrite Hc1; exact Hle) ltac:(rewrite Hc1; exact Hsl)) as (f0 & Hf0).
      exists f0. intros f Hf. destruct (Hf0 f Hf) as (xs & s2 & H1 & H2 & H3 & H4 & H5 & H6). exists xs, s2.
      cbn [rev app] in H1. rewrite Hc1 in H3. repeat split; assumption.
    - inversion Hszels as [|? ? [Hszg Hszx] Hszt]; subst. inversion Hwf as [|? ? [[Hwg [Haltg Hendg]] Hwx] Hwt]; subst. cbn [fst snd] in *.
      pose proof (starts_Forall t Hsts) as Hstt.
      assert (Egt : ggtail cl ((g, x) :: t) tl = (gappr g ++ gpr x) ++ ggtail cl t tl).
      { unfold ggtail. cbn [map List.concat fst snd]. rewrite <- !app_assoc. reflexivity. }
      unfold body in *. rewrite Egt in Hle, Hsl |- *. rewrite app_length in Hle, Hsl |- *.
      rewrite slice_app in Hsl. apply app_eq_len in Hsl; [|now rewrite slice_length]. destruct Hsl as [Hgx Ht].
      set (q := cur s + 1 + N.of_nat (List.length (gappr g ++ gpr x))) in *.
      destruct (ggtail_first cl t tl Hcl Hwtl Htok Hwt Hstt) as (b2 & r2 & Eg2 & Hnd2).
      assert (Hlen2 : (0 < List.length (ggtail cl t tl))%nat) by (rewrite Eg2; cbn; lia).
      pose proof (byte_at q _ _ _ Eg2 Ht) as Hmq.
      destruct (gap_then_value n IH g x Hszg Hwg Haltg Hendg Hszx Hwx s1 Hok1 ltac:(rewrite Hc1; fold q; lia) ltac:(rewrite Hc1; exact Hgx)
                  ltac:(rewrite Hc1; fold q; apply (follow_byte m e q b2); [lia|exact Hmq|exact Hnd2])) as (fv & Hfv).
      destruct (Hfv fv (le_n _)) as (nx & sx & Hrx & Hdx & Hcx & Hokx & Hdpx). rewrite Hc1 in Hcx. fold q in Hcx.
      destruct (elems_loop_gap n cl IH Hcl tl Hsztl Hwtl Halttl t Hszt Hwt Hstt ltac:(intros _; exact Htok) sx [nx] Hokx ltac:(now rewrite Hdpx)
                  ltac:(rewrite Hcx; unfold q; lia) ltac:(rewrite Hcx; exact Ht)) as (ft & Hft).
      exists (S (Nat.max fv ft)). intros f Hf. destruct f as [|f]; [lia|]. rewrite RE_S. unfold elems_body.
      assert (Hrx' : RV f s1 = Ret (Some nx) sx).
      { replace f with (fv + (f - fv))%nat by lia. apply read_value_fuel_irrelevant; [exact Hrx|discriminate]. }
      rewrite Hrx'. destruct (Hft f ltac:(lia)) as (xs & s3 & H1 & H2 & H3 & H4 & H5 & H6).
      exists (nx :: xs), s3. cbn [rev app] in H1. split; [exact H1|]. cbn [map snd]. split; [constructor; assumption|].
      split; [rewrite H3, Hcx; unfold q; lia|]. split; [exact H4|]. split; [rewrite H5, Hdpx; reflexivity|exact H6]. }
  destruct Hel as (f0 & Hf0). exists (S f0). intros f Hf. destruct f as [|f]; [lia|].
  destruct (Hf0 f ltac:(lia)) as (xs & s2 & H1 & H2 & H3 & H4 & H5 & H6).
  rewrite RS_S. unfold seq_body. fold s1. rewrite H1, H4. cbn [negb].
  replace (e <=? cur s2) with false by (symmetry; apply N.leb_gt; lia).
  rewrite H6. fold cl. rewrite (Byte.byte_dec_lb eq_refl). cbn [negb].
  set (s3 := with_depth (with_cur s2 (cur s2 + 1)) (depth s2 - 1)).
  exists xs, s3.
  assert (Hc3 : cur s3 = cur s + 1 + N.of_nat (List.length body)) by (unfold s3; cbn; lia).
  assert (Hd3 : depth s3 = depth s) by (unfold s3; cbn; rewrite H5; unfold s1; cbn; lia).
  unfold K. destruct vec; (split; [reflexivity|]); repeat split; assumption.
Qed.

Theorem read_gterm : forall n, GIH n.
Proof.
  induction n as [|n IH]; intros a Hsz Hw s Hok Hle Hsl Hf.
  - destruct a; cbn in Hsz; lia.
  - destruct a as [nm|neg ds|vec els tl].
    + destruct Hw as [Hne Hid]. exists 1%nat. intros f Hf1. destruct f as [|f]; [lia|].
      now apply (rv_keyword c Hc o handler xe xh sort m e f s nm).
    + destruct Hw as (Hne & Hd & Hl). exists 1%nat. intros f Hf1. destruct f as [|f]; [lia|].
      now apply (rv_int c Hc o handler xe xh sort m e f s neg ds).
    + set (K := if vec then KVector else KList). set (op := if vec then "["%byte else "("%byte).
      assert (Hpr : gpr (GSeq vec els tl) = op :: ggtail (closer_of K) els tl) by (unfold op, K, ggtail; destruct vec; reflexivity).
      rewrite Hpr in Hle, Hsl |- *. cbn [List.length] in Hle, Hsl |- *. apply byte_hd in Hsl. destruct Hsl as [Hb Hbody].
      assert (Hlt : cur s < e) by lia.
      set (s0 := with_start (enter s) (cur s)).
      destruct (seq_reads_gap n vec IH els tl Hsz Hw s0 Hok ltac:(cbn [cur s0 with_start enter]; fold K; lia) Hbody) as (f0 & Hf0).
      exists (S f0). intros f Hf'. destruct f as [|f]; [lia|].
      destruct (Hf0 f ltac:(lia)) as (xs & s' & Hr & Hden & Hc' & Hok' & Hd'). fold K in Hr, Hc'.
      assert (Hdisp : RV (S f) s = match RS f K 1 s0 with Ret v s1 => Ret v (leave s1) | x => x end).
      { destruct (classes c Hc) as (_ & _ & _ & (Hv1 & Hv2) & (Hl1 & Hl2) & _).
        rewrite RV_S. unfold value_body. cbv zeta. cbn [cur with_start enter].
        replace (cur s <? e) with true by (symmetry; now apply N.ltb_lt). rewrite Hb.
        assert (Hpf : prefilter (bz op) = false) by (unfold op; destruct vec; reflexivity). rewrite Hpf.
        cbn [cur with_start enter]. rewrite Hb. fold s0. unfold op, K. destruct vec.
        - pose proof (not_earlier_spec c _ 3 ltac:(lia) Hv2) as Hn. usecls Hn 0%nat; usecls Hn 1%nat; usecls Hn 2%nat. rewrite Hv1.
          destruct (RS f KVector 1 s0); reflexivity.
        - pose proof (not_earlier_spec c _ 2 ltac:(lia) Hl2) as Hn. usecls Hn 0%nat; usecls Hn 1%nat. rewrite Hl1.
          destruct (RS f KList 1 s0); reflexivity. }
      rewrite Hdisp, Hr. eexists. eexists. split; [reflexivity|]. split.
      * cbn [gerase]. unfold K. destruct vec; econstructor; try reflexivity; exact Hden.
      * cbn [cur leave]. rewrite Hc'. cbn [cur s0 with_start enter depth leave is_ok err] in *.
        split; [lia|]. split; [exact Hok'|exact Hd'].
Qed.
End GAP.

(* ---- documents ---- *)
Theorem read_document_gap c o m a : In c all_cfgs -> gwf a ->
  slice m 0 (List.length (gpr a)) = gpr a ->
  exists r s n, run_doc c o m (N.of_nat (List.length (gpr a))) = Ret r s /\
                r_value r = Some n /\ denotes c (gerase a) n /\ r_err r = EOk /\ r_eof r = false.
Proof.
  intros Hc Hw Hsl. set (e := N.of_nat (List.length (gpr a))).
  destruct (read_gterm c Hc o builtin_handler no_ext_equal no_ext_hash (isort c) m e (gsize a) a (le_n _) Hw init_pst eq_refl
              ltac:(cbn [cur init_pst]; unfold e; lia) Hsl ltac:(left; cbn [cur init_pst]; unfold e; lia)) as (f0 & Hf0).
  destruct (Hf0 f0 (le_n _)) as (n & s' & Hr & Hden & Hcur & Hok & Hdep).
  assert (Herr : err s' = EOk) by (now apply is_ok_iff).
  assert (Hdoc : exists r, read_doc c o builtin_handler no_ext_equal no_ext_hash (isort c) m e f0 = Ret r s' /\
                           r_value r = Some n /\ r_err r = EOk /\ r_eof r = false).
  { unfold read_doc. rewrite Hr. cbv zeta. rewrite Hok.
    assert (Heof : is_eof s' = false) by (unfold is_eof; now rewrite Herr). rewrite Heof. cbn [andb].
    eexists. split; [reflexivity|]. cbn. repeat split; assumption. }
  destruct Hdoc as (r & Hrd & Hv & He & Hf).
  exists r, s', n. split; [|repeat split; assumption].
  apply (any_fuel_is_the_run c o m e f0 _ Hc Hrd). discriminate.
Qed.

(* C13 for whole documents of the fragment: two renderings of one term that differ in their trivia AND in their discarded
   forms are both accepted, and the two values are equal under the library's equality and hash alike *)
Theorem gaps_never_change_the_value c o m1 m2 a1 a2 : In c all_cfgs -> gwf a1 -> gwf a2 -> gerase a1 = gerase a2 ->
  (tdepth (gerase a1) <= max_depth)%nat ->
  slice m1 0 (List.length (gpr a1)) = gpr a1 -> slice m2 0 (List.length (gpr a2)) = gpr a2 ->
  exists r1 s1 n1 r2 s2 n2,
    run_doc c o m1 (N.of_nat (List.length (gpr a1))) = Ret r1 s1 /\ r_value r1 = Some n1 /\ r_err r1 = EOk /\
    run_doc c o m2 (N.of_nat (List.length (gpr a2))) = Ret r2 s2 /\ r_value r2 = Some n2 /\ r_err r2 = EOk /\
    denotes c (gerase a1) n1 /\ denotes c (gerase a1) n2 /\
    equal c no_ext_equal n1 n2 = true /\ hash_value c no_ext_hash n1 = hash_value c no_ext_hash n2.
Proof.
  intros Hc H1 H2 He Hd Hs1 Hs2.
  destruct (read_document_gap c o m1 a1 Hc H1 Hs1) as (r1 & s1 & n1 & A1 & B1 & C1 & D1 & _).
  destruct (read_document_gap c o m2 a2 Hc H2 Hs2) as (r2 & s2 & n2 & A2 & B2 & C2 & D2 & _).
  rewrite <- He in C2.
  exists r1, s1, n1, r2, s2, n2. repeat split; try assumption.
  - now apply (denotes_equal c no_ext_equal no_ext_hash (gerase a1)).
  - now apply (denotes_same_hash c no_ext_equal no_ext_hash (gerase a1)).
Qed.

(* no handler is ever invoked while such a document is read (the fragment has no tags; stated for completeness of the
   C13 clause in Properties_C13 through the discard-mode invariant) *)

(* non-vacuity:  [#_:x 1 #_[2 #_ 3 4] , (:a #_(;c<LF>) -20) #_ 7]  is a well-formed rendering of  [1 (:a -20)]  *)
Example gap_example :
  let d1 := GDisc [] (GKw ["x"%byte]) in
  let d2 := GDisc [] (GSeq true [([], GInt false ["2"%byte]); ([GWs [" "%byte]; GDisc [" "%byte] (GInt false ["3"%byte]); GWs [" "%byte]], GInt false ["4"%byte])] []) in
  let d3 := GDisc [] (GSeq false [] [GWs [";"; "c"; "010"]%byte]) in
  let a := GSeq true [([d1; GWs [" "%byte]], GInt false ["1"%byte]);
                      ([GWs [" "%byte]; d2; GWs [" "; ","; " "]%byte], GSeq false [([], GKw ["a"%byte]); ([GWs [" "%byte]; d3; GWs [" "%byte]], GInt true ["2"; "0"]%byte)] [])]
                     [GWs [" "%byte]; GDisc [" "%byte] (GInt false ["7"%byte])] in
  gwf a /\ gpr a = list_byte_of_string ("[#_:x 1 #_[2 #_ 3 4] , (:a #_(;c" ++ String (Ascii.ascii_of_nat 10) ") -20) #_ 7]") /\
  gerase a = TVec [TInt false ["1"%byte]; TList [TKw ["a"%byte]; TInt true ["2"; "0"]%byte]] /\
  (tdepth (gerase a) <= max_depth)%nat.
Proof. split; [|split; [reflexivity|split; [reflexivity|vm_compute; lia]]]. cbn. repeat split; try discriminate; try reflexivity; try exact I; left; discriminate. Qed.
