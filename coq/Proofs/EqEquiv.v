(* Proofs/EqEquiv.v -- on the collection-free-of-sets fragment (scalars, big numbers, strings,
   symbols, keywords, lists, vectors, tagged values; any nesting below the depth cap) the
   reader's equality is exactly "same normal form", hence an equivalence relation, and the hash
   is a function of the normal form, hence equal values hash alike.  Cached hashes are assumed
   coherent (0 = not computed, otherwise the value edn_value_hash would compute), which is what
   the library maintains. *)
From Coq Require Import ZArith NArith List Bool Lia.
From Coq.Strings Require Import Byte.
From Coq.Floats Require Import SpecFloat.
From Verif Require Import Lanes Common Values Floats Numbers Equality.
Import ListNotations.
Local Open Scope Z_scope.

(* ------------------------------------------------------------------ leaf facts *)
Lemma bytes_eqb_eq a : forall b, bytes_eqb a b = true <-> a = b.
Proof.
  induction a as [|x t IH]; intros [|y u]; cbn; split; intro H; try congruence; try discriminate.
  - apply andb_true_iff in H. destruct H as [H1 H2]. apply Byte.byte_dec_bl in H1. apply IH in H2. congruence.
  - injection H as -> ->. rewrite Byte.byte_dec_lb by reflexivity. now apply IH.
Qed.

Definition cf (x : spec_float) : spec_float := match x with S754_zero _ => S754_zero false | _ => x end.

Lemma pcompare_eq m1 m2 : Pos.compare_cont Eq m1 m2 = Eq -> m1 = m2.
Proof. apply Pos.compare_eq. Qed.

Lemma float_eq_cf x y : float_eq x y = true <-> cf x = cf y.
Proof.
  destruct x as [sx|sx| |sx mx ex], y as [sy|sy| |sy my ey]; unfold float_eq, cf, SFeqb, SFcompare; split; intro H;
    try (destruct sx); try (destruct sy); try discriminate; try reflexivity; try congruence.
  all: try (destruct (Z.compare_spec ex ey); try discriminate; subst;
            destruct (Pos.compare_cont Eq mx my) eqn:Hc; cbn in H; try discriminate; apply Pos.compare_eq in Hc; congruence).
  all: try (injection H as -> ->; rewrite Z.compare_refl, Pos.compare_cont_refl; reflexivity).
Qed.

Lemma float_hash_cf x : float_hash_bits x = float_hash_bits (cf x).
Proof. destruct x; reflexivity. Qed.

(* ------------------------------------------------------------------ normal forms *)
Inductive cval :=
| CNil | CBool (b : bool) | CInt (z : Z) | CBigInt (r : Z) (neg : bool) (d : bytes) | CFloat (x : spec_float)
| CBigDec (neg : bool) (d : bytes) | CRatio (n d : Z) | CBigRatio (s : bool) (a b : bytes) | CChar (cp : Z)
| CString (esc : bool) (raw : bytes) | CSym (kw : bool) (nsl : Z) (ns nm : bytes)
| CSeq (l : list cval) | CTag (t : bytes) (x : cval).

Section NF.
Variable c : cfg.
Variable xe : Z -> option (Z -> Z -> bool).
Variable xh : Z -> option (Z -> Z).

Fixpoint sequence {A} (l : list (option A)) : option (list A) :=
  match l with
  | [] => Some []
  | None :: _ => None
  | Some x :: t => match sequence t with Some r => Some (x :: r) | None => None end
  end.

Fixpoint nf (f : nat) (n : node) : option cval :=
  match f with
  | O => None
  | S f' =>
    match nval n with
    | VNil => Some CNil | VBool b => Some (CBool b) | VInt z => Some (CInt z)
    | VBigInt neg r d => Some (CBigInt r neg (clean_digits c d))
    | VFloat x => Some (CFloat (cf x))
    | VBigDec neg d => Some (CBigDec neg (clean_digits c d))
    | VRatio a b => Some (CRatio a b) | VBigRatio s a b => Some (CBigRatio s a b)
    | VChar cp => Some (CChar cp) | VString raw esc _ => Some (CString esc raw)
    | VSymbol ns nm => Some (CSym false (opt_len ns) (opt_bytes ns) nm)
    | VKeyword ns nm => Some (CSym true (opt_len ns) (opt_bytes ns) nm)
    | VList xs | VVector xs => option_map CSeq (sequence (map (nf f') xs))
    | VTagged t x => option_map (CTag t) (nf f' x)
    | VSet _ | VMap _ _ | VExternal _ _ => None
    end
  end.

(* hash as a function of the normal form *)
Definition seed (k : nat) : Z := fnv_step fnv_basis (nth k (type_tag c) (-1)).
Fixpoint hnf (v : cval) : Z :=
  match v with
  | CNil => seed 0 | CBool b => fnv_step (seed 1) (if b then 1 else 0)
  | CInt z => fnv_u64 (seed 2) (i64_bits z)
  | CBigInt r neg d => fnv_bytes (fnv_step (fnv_step (seed 3) r) (if neg then 1 else 0)) d
  | CFloat x => fnv_u64 (seed 4) (float_hash_bits x)
  | CBigDec neg d => fnv_bytes (fnv_step (seed 5) (if neg then 1 else 0)) d
  | CRatio a b => fnv_u64 (fnv_u64 (seed 6) (i64_bits a)) (i64_bits b)
  | CBigRatio _ _ _ => seed 7
  | CChar cp => fnv_step (seed 8) cp
  | CString _ raw => fnv_bytes (seed 9) raw
  | CSym kw _ ns nm => fnv_bytes (fnv_bytes (seed (if kw then 11 else 10)%nat) ns) nm
  | CSeq l => fold_left (fun a x => fnv_step a (hnf x)) l (seed 12)
  | CTag t x => fnv_step (fnv_bytes (seed 16) t) (hnf x)
  end.

Lemma sequence_map_spec {A B} (g : A -> option B) xs r :
  sequence (map g xs) = Some r <-> Forall2 (fun x y => g x = Some y) xs r.
Proof.
  revert r. induction xs as [|x t IH]; intros r; cbn [map sequence].
  - split; [intros H; injection H as <-; constructor|intros H; inversion H; reflexivity].
  - destruct (g x) as [y|] eqn:Hg.
    + destruct (sequence (map g t)) as [r'|] eqn:Hs.
      * split.
        -- intros H. injection H as <-. constructor; [assumption|]. now apply IH.
        -- intros H. inversion H as [|? ? ? ? H1 H2]; subst. apply IH in H2. congruence.
      * split; [discriminate|]. intros H. inversion H as [|? ? ? ? H1 H2]; subst. apply IH in H2. congruence.
    + split; [discriminate|]. intros H. inversion H as [|? ? ? ? H1 H2]; subst. congruence.
Qed.

(* the hash does not look at cached hashes, ranges or metadata and is a function of nf *)
Lemma hash_of_nf f : forall n v, nf f n = Some v -> forall g, (f <= g)%nat -> hash_fuel c xh g n = hnf v.
Proof.
  induction f as [|f IH]; intros n v Hn g Hg; [discriminate|].
  destruct g as [|g]; [lia|]. cbn [nf] in Hn. cbn [hash_fuel].
  destruct (nval n) eqn:Hv; try discriminate; try (injection Hn as <-; cbn [hnf]; unfold seed, type_of; cbn [kind_of kind_index]; try reflexivity).
  - f_equal. apply float_hash_cf.
  - (* list *)
    destruct (sequence (map (nf f) xs)) as [r|] eqn:Hs; [|discriminate]. injection Hn as <-.
    apply sequence_map_spec in Hs. cbn [hnf]. unfold seed, type_of. cbn [kind_of kind_index].
    clear Hv. generalize (fnv_step fnv_basis (nth 12 (type_tag c) (-1))). induction Hs as [|x y t r Hxy Hs IHs]; intros h; cbn [fold_left]; [reflexivity|].
    rewrite (IH x y Hxy g) by lia. apply IHs.
  - destruct (sequence (map (nf f) xs)) as [r|] eqn:Hs; [|discriminate]. injection Hn as <-.
    apply sequence_map_spec in Hs. cbn [hnf]. unfold seed, type_of. cbn [kind_of kind_index].
    clear Hv. generalize (fnv_step fnv_basis (nth 12 (type_tag c) (-1))). induction Hs as [|x y t r Hxy Hs IHs]; intros h; cbn [fold_left]; [reflexivity|].
    rewrite (IH x y Hxy g) by lia. apply IHs.
  - destruct (nf f v0) as [y|] eqn:Hy; [|discriminate]. injection Hn as <-. cbn [hnf]. unfold seed, type_of. cbn [kind_of kind_index].
    now rewrite (IH v0 y Hy g) by lia.
Qed.

(* ---- fuel irrelevance of nf *)
Lemma fold_max_ge (xs : list node) : forall k,
  (k <= fold_left (fun a x => Nat.max a (height x)) xs k)%nat /\
  (forall x, In x xs -> height x <= fold_left (fun a x => Nat.max a (height x)) xs k)%nat.
Proof.
  induction xs as [|y t IH]; intros k; cbn [fold_left]; [split; [lia|intros x []]|].
  destruct (IH (Nat.max k (height y))) as [H1 H2]. split; [lia|].
  intros x [<-|Hx]; [lia|now apply H2].
Qed.

Lemma height_pos n : (1 <= height n)%nat.
Proof. destruct n as [v a b mm h]. destruct v; cbn [height nval]; lia. Qed.

Lemma Forall2_impl_in {A B} (P Q : A -> B -> Prop) xs r :
  Forall2 P xs r -> (forall x y, In x xs -> P x y -> Q x y) -> Forall2 Q xs r.
Proof.
  intros H. induction H as [|x y t r0 Hxy H IH]; intros HPQ; constructor.
  - apply HPQ; [now left|assumption].
  - apply IH. intros x0 y0 Hin. apply HPQ. now right.
Qed.

Lemma nf_fuel f : forall a v, nf f a = Some v -> forall f', (height a <= f')%nat -> nf f' a = Some v.
Proof.
  induction f as [|f IH]; intros a v Hn f' Hf; [discriminate|].
  pose proof (height_pos a) as Hp. destruct f' as [|f']; [lia|].
  destruct a as [va ra ea ma ha]. cbn [nf nval] in *.
  destruct va; try discriminate; try exact Hn.
  - destruct (sequence (map (nf f) xs)) as [r|] eqn:Hs; [|discriminate]. cbn [option_map] in Hn. injection Hn as <-.
    apply sequence_map_spec in Hs. cbn [height nval] in Hf.
    assert (Hs' : Forall2 (fun x y => nf f' x = Some y) xs r).
    { apply (Forall2_impl_in _ _ _ _ Hs). intros x y Hin Hxy. apply (IH x y Hxy).
      pose proof (proj2 (fold_max_ge xs 0%nat) x Hin). lia. }
    apply sequence_map_spec in Hs'. now rewrite Hs'.
  - destruct (sequence (map (nf f) xs)) as [r|] eqn:Hs; [|discriminate]. cbn [option_map] in Hn. injection Hn as <-.
    apply sequence_map_spec in Hs. cbn [height nval] in Hf.
    assert (Hs' : Forall2 (fun x y => nf f' x = Some y) xs r).
    { apply (Forall2_impl_in _ _ _ _ Hs). intros x y Hin Hxy. apply (IH x y Hxy).
      pose proof (proj2 (fold_max_ge xs 0%nat) x Hin). lia. }
    apply sequence_map_spec in Hs'. now rewrite Hs'.
  - destruct (nf f v0) as [y|] eqn:Hy; [|discriminate]. cbn [option_map] in Hn. injection Hn as <-.
    cbn [height nval] in Hf. rewrite (IH v0 y Hy f') by lia. reflexivity.
Qed.

(* the value edn_value_hash computes, as a function of the normal form *)
Definition hv (n : node) : Z := let h := hash_internal c xh n in if h =? 0 then 1 else h.

Lemma hv_of_nf f a v : nf f a = Some v -> hv a = (if hnf v =? 0 then 1 else hnf v).
Proof.
  intros Hn. unfold hv, hash_internal.
  rewrite (hash_of_nf (S (height a)) a v); [reflexivity| |lia].
  apply (nf_fuel f a v Hn). lia.
Qed.

(* cached hashes are coherent: 0 (not computed) or the value edn_value_hash computes *)
Fixpoint cache_ok (f : nat) (n : node) : Prop :=
  match f with
  | O => True
  | S f' => (nhash n = 0 \/ nhash n = hv n) /\
            match nval n with
            | VList xs | VVector xs => Forall (cache_ok f') xs
            | VTagged _ x => cache_ok f' x
            | _ => True
            end
  end.

Lemma forall2b_Forall2 {A} (g : A -> A -> bool) xs ys : forall2b g xs ys = true <-> Forall2 (fun x y => g x y = true) xs ys.
Proof.
  revert ys. induction xs as [|x t IH]; intros [|y u]; cbn [forall2b]; split; intro H; try discriminate; try constructor;
    try (inversion H; fail).
  - apply andb_true_iff in H. tauto.
  - apply IH. apply andb_true_iff in H. tauto.
  - inversion H; subst. apply andb_true_iff. split; [assumption|]. now apply IH.
Qed.

Lemma Forall2_nf_l f xs ys r :
  Forall2 (fun x y => nf f x = Some y) xs r ->
  Forall2 (fun x y => forall v, nf f x = Some v -> nf f y = Some v) xs ys ->
  Forall2 (fun x y => nf f x = Some y) ys r.
Proof.
  intros H. revert ys. induction H as [|x v t r0 Hxv H IH]; intros ys Hy; inversion Hy; subst; constructor; auto.
Qed.

(* equality implies the same normal form *)
Lemma equal_to_nf f : forall a b va, nf f a = Some va -> equal_fuel c xe f a b = true -> nf f b = Some va.
Proof.
  induction f as [|f IH]; intros a b va Hn He; [discriminate|].
  cbn [nf] in Hn |- *. cbn [equal_fuel] in He.
  destruct (negb (type_of c (nval a) =? type_of c (nval b)) && negb (is_seq (nval a) && is_seq (nval b))); [discriminate|].
  destruct (negb (nhash a =? 0) && negb (nhash b =? 0) && negb (nhash a =? nhash b)); [discriminate|].
  destruct (nval a) eqn:Hva; try discriminate; destruct (nval b) eqn:Hvb; try discriminate.
  - exact Hn.
  - apply Bool.eqb_prop in He. now subst.
  - apply Z.eqb_eq in He. now subst.
  - apply andb_true_iff in He. destruct He as [He H3]. apply andb_true_iff in He. destruct He as [H1 H2].
    apply Z.eqb_eq in H1. apply Bool.eqb_prop in H2. apply bytes_eqb_eq in H3. subst. now rewrite <- H3.
  - apply float_eq_cf in He. now rewrite <- He.
  - apply andb_true_iff in He. destruct He as [H1 H2]. apply Bool.eqb_prop in H1. apply bytes_eqb_eq in H2. subst. now rewrite <- H2.
  - apply andb_true_iff in He. destruct He as [H1 H2]. apply Z.eqb_eq in H1, H2. now subst.
  - apply andb_true_iff in He. destruct He as [He H3]. apply andb_true_iff in He. destruct He as [H1 H2].
    apply Bool.eqb_prop in H1. apply bytes_eqb_eq in H2, H3. now subst.
  - apply Z.eqb_eq in He. now subst.
  - apply andb_true_iff in He. destruct He as [H1 H2]. apply Bool.eqb_prop in H1. apply bytes_eqb_eq in H2. now subst.
  - apply andb_true_iff in He. destruct He as [He H3]. apply andb_true_iff in He. destruct He as [H1 H2].
    apply Z.eqb_eq in H1. apply bytes_eqb_eq in H2, H3. rewrite <- H1, <- H2, <- H3. exact Hn.
  - apply andb_true_iff in He. destruct He as [He H3]. apply andb_true_iff in He. destruct He as [H1 H2].
    apply Z.eqb_eq in H1. apply bytes_eqb_eq in H2, H3. rewrite <- H1, <- H2, <- H3. exact Hn.
  - destruct (sequence (map (nf f) xs)) as [r|] eqn:Hs; [|discriminate]. apply sequence_map_spec in Hs.
    apply forall2b_Forall2 in He.
    assert (Hs' : Forall2 (fun x y => nf f x = Some y) xs0 r).
    { apply (Forall2_nf_l f xs xs0 r Hs). apply (Forall2_impl_in _ _ _ _ He). intros x y _ Hxy v Hv. now apply (IH x y v). }
    apply sequence_map_spec in Hs'. now rewrite Hs'.
  - destruct (sequence (map (nf f) xs)) as [r|] eqn:Hs; [|discriminate]. apply sequence_map_spec in Hs.
    apply forall2b_Forall2 in He.
    assert (Hs' : Forall2 (fun x y => nf f x = Some y) xs0 r).
    { apply (Forall2_nf_l f xs xs0 r Hs). apply (Forall2_impl_in _ _ _ _ He). intros x y _ Hxy v Hv. now apply (IH x y v). }
    apply sequence_map_spec in Hs'. now rewrite Hs'.
  - destruct (sequence (map (nf f) xs)) as [r|] eqn:Hs; [|discriminate]. apply sequence_map_spec in Hs.
    apply forall2b_Forall2 in He.
    assert (Hs' : Forall2 (fun x y => nf f x = Some y) xs0 r).
    { apply (Forall2_nf_l f xs xs0 r Hs). apply (Forall2_impl_in _ _ _ _ He). intros x y _ Hxy v Hv. now apply (IH x y v). }
    apply sequence_map_spec in Hs'. now rewrite Hs'.
  - destruct (sequence (map (nf f) xs)) as [r|] eqn:Hs; [|discriminate]. apply sequence_map_spec in Hs.
    apply forall2b_Forall2 in He.
    assert (Hs' : Forall2 (fun x y => nf f x = Some y) xs0 r).
    { apply (Forall2_nf_l f xs xs0 r Hs). apply (Forall2_impl_in _ _ _ _ He). intros x y _ Hxy v Hv. now apply (IH x y v). }
    apply sequence_map_spec in Hs'. now rewrite Hs'.
  - apply andb_true_iff in He. destruct He as [H1 H2]. apply bytes_eqb_eq in H1. subst.
    destruct (nf f v) as [y|] eqn:Hy; [|discriminate]. now rewrite (IH v v0 y Hy H2).
Qed.

Lemma bytes_eqb_refl l : bytes_eqb l l = true.
Proof. now apply bytes_eqb_eq. Qed.

Lemma Forall2_same_nf f xs ys r :
  Forall2 (fun x y => nf f x = Some y) xs r -> Forall2 (fun x y => nf f x = Some y) ys r ->
  Forall2 (fun x y => exists v, nf f x = Some v /\ nf f y = Some v) xs ys.
Proof.
  intros H. revert ys. induction H as [|x v t r0 Hxv H IH]; intros ys Hy; inversion Hy; subst; constructor; eauto.
Qed.

Lemma cache_guard f a b va : nf f a = Some va -> nf f b = Some va -> cache_ok f a -> cache_ok f b ->
  negb (nhash a =? 0) && negb (nhash b =? 0) && negb (nhash a =? nhash b) = false.
Proof.
  intros Ha Hb Hca Hcb. destruct f as [|f]; [discriminate|]. cbn [cache_ok] in Hca, Hcb.
  destruct Hca as [Hca _], Hcb as [Hcb _].
  pose proof (hv_of_nf _ _ _ Ha) as H1. pose proof (hv_of_nf _ _ _ Hb) as H2.
  destruct (Z.eqb_spec (nhash a) 0) as [|Hna]; [reflexivity|]. destruct (Z.eqb_spec (nhash b) 0) as [|Hnb]; [reflexivity|].
  cbn [negb andb]. destruct Hca as [|Hca]; [contradiction|]. destruct Hcb as [|Hcb]; [contradiction|].
  rewrite Hca, Hcb, H1, H2, Z.eqb_refl. reflexivity.
Qed.

(* the same normal form (and coherent caches) implies equality *)
Lemma nf_to_equal f : forall a b va, nf f a = Some va -> nf f b = Some va -> cache_ok f a -> cache_ok f b ->
  equal_fuel c xe f a b = true.
Proof.
  induction f as [|f IH]; intros a b va Hna Hnb Hca Hcb; [discriminate|].
  pose proof (cache_guard _ _ _ _ Hna Hnb Hca Hcb) as Hg.
  cbn [equal_fuel]. rewrite Hg. cbn [nf] in Hna, Hnb. cbn [cache_ok] in Hca, Hcb. destruct Hca as [_ Hca], Hcb as [_ Hcb].
  destruct (nval a) eqn:Hva; try discriminate; destruct (nval b) eqn:Hvb; try discriminate;
    repeat match goal with
           | H : option_map _ ?x = Some _ |- _ => destruct x eqn:?; cbn [option_map] in H; [|discriminate H]
           end;
    try congruence;
    unfold type_of; cbn [kind_of kind_index is_seq]; rewrite ?Z.eqb_refl; cbn [negb andb]; rewrite ?andb_false_r.
  all: try reflexivity.
  all: try (injection Hna as <-; injection Hnb; intros; subst;
            rewrite ?Z.eqb_refl, ?Bool.eqb_reflx, ?bytes_eqb_refl; reflexivity).
  - injection Hna as <-. injection Hnb. intros E1 E2 E3. rewrite ?E1, ?E2, ?E3, ?Z.eqb_refl, ?Bool.eqb_reflx, ?bytes_eqb_refl. reflexivity.
  - (* floats *) injection Hna as <-. injection Hnb as Hc. now apply float_eq_cf.
  - injection Hna as <-. injection Hnb. intros E1 E2. rewrite ?E1, ?E2, ?Z.eqb_refl, ?Bool.eqb_reflx, ?bytes_eqb_refl. reflexivity.
  - injection Hna as <-. injection Hnb. intros E1 E2 E3. rewrite ?E1, ?E2, ?E3, ?Z.eqb_refl, ?Bool.eqb_reflx, ?bytes_eqb_refl. reflexivity.
  - injection Hna as <-. injection Hnb. intros E1 E2 E3. rewrite ?E1, ?E2, ?E3, ?Z.eqb_refl, ?Bool.eqb_reflx, ?bytes_eqb_refl. reflexivity.
  - (* list / list *) injection Hna as <-. injection Hnb as ->.
    match goal with H1 : sequence _ = Some _, H2 : sequence _ = Some _ |- _ =>
      apply sequence_map_spec in H1; apply sequence_map_spec in H2; pose proof (Forall2_same_nf _ _ _ _ H1 H2) as HF end.
    apply forall2b_Forall2. clear -HF IH Hca Hcb. induction HF as [|x y t u [v [H1 H2]] HF IHF]; constructor.
    + inversion Hca; inversion Hcb; subst. now apply (IH x y v).
    + inversion Hca; inversion Hcb; subst. now apply IHF.
  - injection Hna as <-. injection Hnb as ->.
    match goal with H1 : sequence _ = Some _, H2 : sequence _ = Some _ |- _ =>
      apply sequence_map_spec in H1; apply sequence_map_spec in H2; pose proof (Forall2_same_nf _ _ _ _ H1 H2) as HF end.
    apply forall2b_Forall2. clear -HF IH Hca Hcb. induction HF as [|x y t u [v [H1 H2]] HF IHF]; constructor.
    + inversion Hca; inversion Hcb; subst. now apply (IH x y v).
    + inversion Hca; inversion Hcb; subst. now apply IHF.
  - injection Hna as <-. injection Hnb as ->.
    match goal with H1 : sequence _ = Some _, H2 : sequence _ = Some _ |- _ =>
      apply sequence_map_spec in H1; apply sequence_map_spec in H2; pose proof (Forall2_same_nf _ _ _ _ H1 H2) as HF end.
    apply forall2b_Forall2. clear -HF IH Hca Hcb. induction HF as [|x y t u [v [H1 H2]] HF IHF]; constructor.
    + inversion Hca; inversion Hcb; subst. now apply (IH x y v).
    + inversion Hca; inversion Hcb; subst. now apply IHF.
  - injection Hna as <-. injection Hnb as ->.
    match goal with H1 : sequence _ = Some _, H2 : sequence _ = Some _ |- _ =>
      apply sequence_map_spec in H1; apply sequence_map_spec in H2; pose proof (Forall2_same_nf _ _ _ _ H1 H2) as HF end.
    apply forall2b_Forall2. clear -HF IH Hca Hcb. induction HF as [|x y t u [v [H1 H2]] HF IHF]; constructor.
    + inversion Hca; inversion Hcb; subst. now apply (IH x y v).
    + inversion Hca; inversion Hcb; subst. now apply IHF.
  - (* tagged *) injection Hna as <-. injection Hnb as -> ->. rewrite bytes_eqb_refl. cbn [andb].
    match goal with H1 : nf f ?x = Some ?v, H2 : nf f ?y = Some ?v |- equal_fuel _ _ _ ?x ?y = true => now apply (IH x y v) end.
Qed.

Theorem equal_iff_nf f a b va : nf f a = Some va -> cache_ok f a -> cache_ok f b ->
  (equal_fuel c xe f a b = true <-> nf f b = Some va).
Proof.
  intros Ha Hca Hcb. split; [now apply equal_to_nf|]. intros Hb. now apply (nf_to_equal f a b va).
Qed.

(* ---- the equivalence, at the library's depth cap *)
Definition simple (n : node) : Prop := exists v, nf max_depth n = Some v.
Definition coherent (n : node) : Prop := cache_ok max_depth n.

Theorem equal_refl a : simple a -> coherent a -> equal c xe a a = true.
Proof. intros [v Hv] Hc. unfold equal. now apply (nf_to_equal _ a a v). Qed.

Theorem equal_sym a b : simple a -> coherent a -> coherent b -> equal c xe a b = true -> equal c xe b a = true.
Proof.
  intros [v Hv] Ha Hb He. unfold equal in *. pose proof (equal_to_nf _ _ _ _ Hv He) as Hb'.
  now apply (nf_to_equal _ b a v).
Qed.

Theorem equal_trans a b d : simple a -> coherent a -> coherent b -> coherent d ->
  equal c xe a b = true -> equal c xe b d = true -> equal c xe a d = true.
Proof.
  intros [v Hv] Ha Hb Hd H1 H2. unfold equal in *.
  pose proof (equal_to_nf _ _ _ _ Hv H1) as Hb'. pose proof (equal_to_nf _ _ _ _ Hb' H2) as Hd'.
  now apply (nf_to_equal _ a d v).
Qed.

Lemma hash_value_hv f n : cache_ok (S f) n -> hash_value c xh n = hv n.
Proof.
  intros [Hc _]. unfold hash_value, hv. destruct (Z.eqb_spec (nhash n) 0) as [Hz|Hnz]; [reflexivity|].
  destruct Hc as [Hc|Hc]; [contradiction|]. exact Hc.
Qed.

Theorem equal_same_hash a b : simple a -> coherent a -> coherent b ->
  equal c xe a b = true -> hash_value c xh a = hash_value c xh b.
Proof.
  intros [v Hv] Ha Hb He. unfold equal in He. pose proof (equal_to_nf _ _ _ _ Hv He) as Hb'.
  unfold coherent, max_depth in *. destruct (Z.to_nat MAX_RECURSION_DEPTH) as [|md] eqn:Hmd; [discriminate|].
  rewrite (hash_value_hv md a Ha), (hash_value_hv md b Hb).
  now rewrite (hv_of_nf _ _ _ Hv), (hv_of_nf _ _ _ Hb').
Qed.
End NF.

(* the depth cap makes the unrestricted reflexivity statement false (finding K10) *)
Fixpoint deep (n : nat) : node := match n with O => mk (VInt 1) 0 0 | S k => mk (VVector [deep k]) 0 0 end.
