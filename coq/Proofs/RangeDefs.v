(* Proofs/RangeDefs.v -- well-formedness of source ranges in a value tree, and the list lemmas the
   reader invariant (RangeInv.v) needs.

   wf n: the range of n is ordered, and the ranges of its children form an ascending chain of
   pairwise disjoint intervals inside it (list / vector / set elements in index order; map entries
   as k0 v0 k1 v1 ...; the operand of a tagged value).  A child whose range END is 0 is a node the
   reader synthesised rather than read from a span of the text (a namespaced-map key rewritten by
   the #: prefix): it has no place in the chain and is only required to be well-formed itself. *)
From Coq Require Import ZArith NArith List Bool Lia.
From Verif Require Import Lanes Common Values.
Import ListNotations.
Local Open Scope N_scope.

Section Chain.
Variable P : node -> Prop.
Fixpoint chain (lo hi : N) (l : list node) : Prop :=
  match l with
  | [] => lo <= hi
  | x :: t => P x /\ (if nre x =? 0 then chain lo hi t
                      else lo <= nrs x /\ nrs x <= nre x /\ chain (nre x) hi t)
  end.
End Chain.

Fixpoint interleave (ks vs : list node) : list node :=
  match ks, vs with
  | k :: ks', v :: vs' => k :: v :: interleave ks' vs'
  | _, _ => []
  end.

Section AllP.
Variable P : node -> Prop.
Fixpoint allP (l : list node) : Prop :=
  match l with [] => True | x :: t => P x /\ allP t end.
End AllP.
(* the order part: ranges only *)
Definition ord (lo hi : N) (l : list node) : Prop := chain (fun _ => True) lo hi l.

Fixpoint wf (n : node) : Prop :=
  match n with
  | Node v s e' _ _ =>
    s <= e' /\
    match v with
    | VList xs | VVector xs | VSet xs => allP wf xs /\ ord s e' xs
    | VMap ks vs => allP wf ks /\ allP wf vs /\ ord s e' (interleave ks vs)
    | VTagged _ x => wf x /\ ord s e' [x]
    | _ => True
    end
  end.

Definition kids_ok (s e' : N) (v : value) : Prop :=
  match v with
  | VList xs | VVector xs | VSet xs => allP wf xs /\ ord s e' xs
  | VMap ks vs => allP wf ks /\ allP wf vs /\ ord s e' (interleave ks vs)
  | VTagged _ x => wf x /\ ord s e' [x]
  | _ => True
  end.
Lemma wf_unfold n : wf n <-> nrs n <= nre n /\ kids_ok (nrs n) (nre n) (nval n).
Proof. destruct n as [v s e' mm h]. destruct v; cbn; tauto. Qed.

Section ChainFacts.
Variable P : node -> Prop.

Lemma chain_le : forall l lo hi, chain P lo hi l -> lo <= hi.
Proof.
  induction l as [|x t IH]; intros lo hi H; cbn [chain] in H; [exact H|].
  destruct H as [_ H]. destruct (nre x =? 0); [now apply IH|].
  destruct H as (H1 & H2 & H3). apply IH in H3. lia.
Qed.

Lemma chain_widen : forall l lo hi lo' hi', chain P lo hi l -> lo' <= lo -> hi <= hi' -> chain P lo' hi' l.
Proof.
  induction l as [|x t IH]; intros lo hi lo' hi' H Hl Hh; cbn [chain] in *; [lia|].
  destruct H as [Hp H]. split; [exact Hp|]. destruct (nre x =? 0); [now apply (IH lo hi)|].
  destruct H as (H1 & H2 & H3). repeat split; try lia. apply (IH (nre x) hi); [assumption|lia|assumption].
Qed.

(* appending a child that was read from the text *)
Lemma chain_snoc : forall l lo mid hi x, chain P lo mid l -> P x -> mid <= nrs x -> nrs x <= nre x -> nre x <= hi ->
  nre x <> 0 -> chain P lo hi (l ++ [x]).
Proof.
  induction l as [|y t IH]; intros lo mid hi x H Hp H1 H2 H3 H0; cbn [chain app] in *.
  - split; [exact Hp|]. apply N.eqb_neq in H0. rewrite H0. lia.
  - destruct H as [Hy H]. split; [exact Hy|]. destruct (nre y =? 0); [now apply (IH lo mid)|].
    destruct H as (Ha & Hb & Hc). repeat split; try assumption. now apply (IH (nre y) mid).
Qed.

(* appending a synthesised child *)
Lemma chain_snoc_synth : forall l lo hi x, chain P lo hi l -> P x -> nre x = 0 -> chain P lo hi (l ++ [x]).
Proof.
  induction l as [|y t IH]; intros lo hi x H Hp H0; cbn [chain app] in *.
  - split; [exact Hp|]. rewrite H0. cbn. exact H.
  - destruct H as [Hy H]. split; [exact Hy|]. destruct (nre y =? 0); [now apply IH|].
    destruct H as (Ha & Hb & Hc). repeat split; try assumption. now apply IH.
Qed.

Lemma interleave_snoc : forall ks vs k v, length ks = length vs ->
  interleave (ks ++ [k]) (vs ++ [v]) = interleave ks vs ++ [k; v].
Proof.
  induction ks as [|a ks IH]; intros [|b vs] k v Hl; cbn in Hl; try discriminate; cbn [interleave app]; [reflexivity|].
  rewrite IH by (injection Hl; trivial). reflexivity.
Qed.
End ChainFacts.

Lemma allP_app P l1 l2 : allP P (l1 ++ l2) <-> allP P l1 /\ allP P l2.
Proof. induction l1 as [|x t IH]; cbn [allP app]; [tauto|]. rewrite IH. tauto. Qed.
Lemma allP_rev P l : allP P (rev l) <-> allP P l.
Proof. induction l as [|x t IH]; cbn [allP rev]; [tauto|]. rewrite allP_app, IH. cbn [allP]. tauto. Qed.

(* nodes that differ in their cached hash only *)
Definition same_but_hash (x y : node) : Prop := exists h, y = set_hash x h.

Lemma same_but_hash_refl x : same_but_hash x x.
Proof. exists (nhash x). destruct x; reflexivity. Qed.
Lemma wf_set_hash x h : wf (set_hash x h) <-> wf x.
Proof. destruct x as [v s e' mm h0]. destruct v; cbn; tauto. Qed.
Lemma allP_same_but_hash : forall l l', Forall2 same_but_hash l l' -> allP wf l -> allP wf l'.
Proof.
  induction l as [|x t IH]; intros l' HF H; inversion HF as [|x0 y t0 t' [h Hy] HF']; subst; cbn [allP] in *; [exact I|].
  destruct H as [Hp H]. split; [now apply wf_set_hash|now apply IH].
Qed.
Lemma ord_same_but_hash : forall l l' lo hi, Forall2 same_but_hash l l' -> ord lo hi l -> ord lo hi l'.
Proof.
  unfold ord. induction l as [|x t IH]; intros l' lo hi HF H; inversion HF as [|x0 y t0 t' [h Hy] HF']; subst; cbn [chain] in *; [exact H|].
  destruct H as [_ H]. split; [exact I|].
  replace (nre (set_hash x h)) with (nre x) by (destruct x; reflexivity).
  replace (nrs (set_hash x h)) with (nrs x) by (destruct x; reflexivity).
  destruct (nre x =? 0); [now apply IH|]. destruct H as (Ha & Hb & Hc). repeat split; try assumption. now apply IH.
Qed.
Lemma interleave_same_but_hash : forall ks ks' vs, Forall2 same_but_hash ks ks' ->
  Forall2 same_but_hash (interleave ks vs) (interleave ks' vs).
Proof.
  induction ks as [|k ks IH]; intros ks' vs HF; inversion HF as [|x0 y t0 t' Hy HF']; subst; [constructor|].
  destruct vs as [|v vs]; cbn [interleave]; [constructor|].
  constructor; [exact Hy|]. constructor; [apply same_but_hash_refl|now apply IH].
Qed.

(* widening a node's own range keeps it well-formed *)
Lemma kids_ok_widen v lo hi lo' hi' : kids_ok lo hi v -> lo' <= lo -> hi <= hi' -> kids_ok lo' hi' v.
Proof.
  intros H Hl Hh. destruct v; try exact I; cbn [kids_ok] in *.
  - destruct H as [Ha Ho]. split; [exact Ha|]. eapply chain_widen; eassumption.
  - destruct H as [Ha Ho]. split; [exact Ha|]. eapply chain_widen; eassumption.
  - destruct H as (Ha & Hb & Ho). repeat split; try assumption. eapply chain_widen; eassumption.
  - destruct H as [Ha Ho]. split; [exact Ha|]. eapply chain_widen; eassumption.
  - destruct H as [Ha Ho]. split; [exact Ha|]. eapply chain_widen; eassumption.
Qed.
Lemma wf_set_rs n mm s' : wf n -> s' <= nrs n -> wf (set_rs (set_meta n mm) s').
Proof.
  intros H Hs. apply wf_unfold in H. destruct H as [Hle Hk]. apply wf_unfold.
  destruct n as [v s e' m0 h]. cbn [set_rs set_meta nrs nre nval] in *. split; [lia|].
  eapply kids_ok_widen; [exact Hk|lia|lia].
Qed.
Lemma wf_set_range_same n a b : wf n -> a <= nrs n -> nre n <= b -> wf (set_range n a b).
Proof.
  intros H Ha Hb. apply wf_unfold in H. destruct H as [Hle Hk]. apply wf_unfold.
  destruct n as [v s e' m0 h]. cbn [set_range nrs nre nval] in *. split; [lia|].
  eapply kids_ok_widen; [exact Hk|lia|lia].
Qed.

(* a leaf built by a token reader *)
Definition is_leaf (v : value) : bool :=
  match v with VList _ | VVector _ | VSet _ | VMap _ _ | VTagged _ _ => false | _ => true end.
Lemma wf_mk_leaf v a b : is_leaf v = true -> a <= b -> wf (mk v a b).
Proof. intros Hl Hab. unfold mk. destruct v; try discriminate; cbn; tauto. Qed.

(* ---- what the chain says in plain terms ---- *)
Section Plain.
Variable P : node -> Prop.
(* every child read from the text lies inside [lo, hi] *)
Lemma chain_inside : forall l lo hi, chain P lo hi l -> forall x, In x l -> nre x <> 0 -> lo <= nrs x /\ nre x <= hi.
Proof.
  induction l as [|y t IH]; intros lo hi H x Hin Hx; [destruct Hin|]. cbn [chain] in H. destruct H as [_ H].
  destruct (N.eqb_spec (nre y) 0) as [Hy|Hy].
  - destruct Hin as [->|Hin]; [congruence|]. now apply (IH lo hi).
  - destruct H as (H1 & H2 & H3). destruct Hin as [->|Hin].
    + split; [exact H1|]. now apply chain_le in H3.
    + destruct (IH _ _ H3 x Hin Hx). split; lia.
Qed.
(* a child that comes later starts at or after the end of every earlier one: pairwise disjoint, in index order *)
Lemma chain_ordered : forall l1 lo hi x l2, chain P lo hi (l1 ++ x :: l2) -> nre x <> 0 ->
  forall y, In y l2 -> nre y <> 0 -> nre x <= nrs y.
Proof.
  induction l1 as [|z t IH]; intros lo hi x l2 H Hx y Hin Hy; cbn [app chain] in H; destruct H as [_ H].
  - apply N.eqb_neq in Hx. rewrite Hx in H. destruct H as (_ & _ & H). now destruct (chain_inside _ _ _ H y Hin Hy).
  - destruct (nre z =? 0); [now apply (IH lo hi x l2)|]. destruct H as (_ & _ & H). now apply (IH (nre z) hi x l2).
Qed.
End Plain.

Lemma allP_In P l : allP P l -> forall x, In x l -> P x.
Proof. induction l as [|y t IH]; cbn [allP]; intros H x Hin; [destruct Hin|]. destruct Hin as [->|Hin]; [tauto|apply IH; tauto]. Qed.

Lemma wf_seq_kids n xs : wf n -> (nval n = VList xs \/ nval n = VVector xs \/ nval n = VSet xs) ->
  allP wf xs /\ ord (nrs n) (nre n) xs.
Proof.
  intros H Hv. apply wf_unfold in H. destruct H as [_ H]. destruct Hv as [Hv|[Hv|Hv]]; rewrite Hv in H; exact H.
Qed.
Lemma wf_children_inside n xs : wf n -> (nval n = VList xs \/ nval n = VVector xs \/ nval n = VSet xs) ->
  forall x, In x xs -> nre x <> 0 -> wf x /\ nrs n <= nrs x /\ nre x <= nre n.
Proof.
  intros H Hv x Hin Hx. destruct (wf_seq_kids n xs H Hv) as [Ha Ho].
  split; [now apply (allP_In wf xs)|]. exact (chain_inside _ _ _ _ Ho x Hin Hx).
Qed.
Lemma wf_children_ordered n xs : wf n -> (nval n = VList xs \/ nval n = VVector xs \/ nval n = VSet xs) ->
  forall l1 x l2 y, xs = l1 ++ x :: l2 -> In y l2 -> nre x <> 0 -> nre y <> 0 -> nre x <= nrs y.
Proof.
  intros H Hv l1 x l2 y -> Hin Hx Hy. destruct (wf_seq_kids _ _ H Hv) as [_ Ho].
  exact (chain_ordered _ _ _ _ _ _ Ho Hx y Hin Hy).
Qed.
Lemma wf_entries n ks vs : wf n -> nval n = VMap ks vs ->
  (forall x, In x (interleave ks vs) -> nre x <> 0 -> nrs n <= nrs x /\ nre x <= nre n) /\
  (forall l1 x l2 y, interleave ks vs = l1 ++ x :: l2 -> In y l2 -> nre x <> 0 -> nre y <> 0 -> nre x <= nrs y).
Proof.
  intros H Hv. apply wf_unfold in H. destruct H as [_ H]. rewrite Hv in H. destruct H as (_ & _ & Ho). split.
  - intros x Hin Hx. exact (chain_inside _ _ _ _ Ho x Hin Hx).
  - intros l1 x l2 y Heq Hin Hx Hy. unfold ord in Ho. rewrite Heq in Ho. exact (chain_ordered _ _ _ _ _ _ Ho Hx y Hin Hy).
Qed.
