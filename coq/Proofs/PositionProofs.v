(* Proofs/PositionProofs.v -- newline_get_position (binary search over the line-feed index)
   returns line = 1 + number of line feeds before the offset, column = 1 + distance from the
   last preceding line feed (or from the start of the input). *)
From Coq Require Import ZArith NArith List Bool Lia Sorting.Sorted.
From Coq.Strings Require Import Byte.
From Verif Require Import Lanes Common Values Scan Reader ScanProofs.
Import ListNotations.
Local Open Scope N_scope.

Definition sorted (l : list N) : Prop := forall i j, (i < j < List.length l)%nat -> nth i l 0 < nth j l 0.
(* number of recorded offsets strictly below off *)
Definition count_lt (l : list N) (off : N) : nat := List.length (filter (fun x => x <? off) l).

Lemma nthN_nat l i : nthN l (N.of_nat i) = nth i l 0.
Proof. unfold nthN. now rewrite Nat2N.id. Qed.

(* in a sorted list the elements below off are exactly a prefix *)
Lemma count_lt_prefix l off k :
  sorted l -> (k <= List.length l)%nat ->
  (forall i, (i < k)%nat -> nth i l 0 < off) -> (forall i, (k <= i < List.length l)%nat -> off <= nth i l 0) ->
  count_lt l off = k.
Proof.
  revert k. induction l as [|x t IH]; intros k Hs Hk Hlo Hhi.
  - cbn in *. lia.
  - unfold count_lt. cbn [filter]. destruct k as [|k].
    + assert (off <= x) by (apply (Hhi 0%nat); cbn; lia).
      replace (x <? off) with false by (symmetry; apply N.ltb_ge; assumption).
      apply (IH 0%nat).
      * intros i j Hij. apply (Hs (S i) (S j)). cbn. lia.
      * lia.
      * intros i Hi. lia.
      * intros i Hi. apply (Hhi (S i)). cbn. lia.
    + assert (x < off) by (apply (Hlo 0%nat); lia).
      replace (x <? off) with true by (symmetry; apply N.ltb_lt; assumption).
      cbn [List.length]. f_equal. apply (IH k).
      * intros i j Hij. apply (Hs (S i) (S j)). cbn. lia.
      * cbn in Hk. lia.
      * intros i Hi. apply (Hlo (S i)). lia.
      * intros i Hi. apply (Hhi (S i)). cbn. lia.
Qed.

Lemma bsearch_ok fuel l off left right result :
  sorted l ->
  (N.to_nat left <= N.to_nat right + 1 <= List.length l)%nat ->
  (N.to_nat right + 1 - N.to_nat left < fuel)%nat ->
  (forall i, (i < N.to_nat left)%nat -> nth i l 0 < off) ->
  (forall i, (N.to_nat right < i < List.length l)%nat -> off <= nth i l 0) ->
  result = (if left =? 0 then None else Some (left - 1)) ->
  bsearch fuel l off left right result =
  (let k := count_lt l off in if (k =? 0)%nat then None else Some (N.of_nat k - 1)).
Proof.
  revert left right result. induction fuel as [|f IH]; intros left right result Hs Hb Hf Hlo Hhi Hres; [lia|].
  cbn [bsearch]. destruct (N.leb_spec left right) as [Hle|Hgt].
  - set (mid := left + (right - left) / 2).
    assert (Hmid : left <= mid <= right).
    { assert (Hd : (right - left) / 2 <= right - left) by (apply N.div_le_upper_bound; lia).
      unfold mid. set (d := (right - left) / 2) in *. lia. }
    unfold nthN. destruct (N.ltb_spec (nth (N.to_nat mid) l 0) off) as [Hlt|Hge].
    + apply IH; try assumption; try lia.
      * intros i Hi. destruct (Nat.eq_dec i (N.to_nat mid)) as [->|Hne]; [assumption|].
        apply N.lt_trans with (nth (N.to_nat mid) l 0); [|assumption]. apply Hs. lia.
      * replace (mid + 1 =? 0) with false by (symmetry; apply N.eqb_neq; lia). f_equal. lia.
    + destruct (N.eqb_spec mid 0) as [Hz|Hnz].
      * (* everything is >= off *)
        assert (left = 0) by lia. subst left. cbn in Hres. subst result.
        assert (Hc : count_lt l off = 0%nat).
        { apply count_lt_prefix; try assumption; try lia. intros i Hi.
          destruct (Nat.eq_dec i 0) as [->|Hne]; [rewrite Hz in Hge; exact Hge|].
          apply N.le_trans with (nth 0 l 0); [rewrite Hz in Hge; exact Hge|]. apply N.lt_le_incl, Hs. lia. }
        rewrite Hc. reflexivity.
      * apply IH; try assumption; try lia.
        intros i Hi. destruct (Nat.eq_dec i (N.to_nat mid)) as [->|Hne]; [assumption|].
        destruct (Nat.lt_ge_cases (N.to_nat right) i) as [Hr|Hr]; [apply Hhi; lia|].
        apply N.le_trans with (nth (N.to_nat mid) l 0); [assumption|]. apply N.lt_le_incl, Hs. lia.
  - (* left = right + 1: the prefix below off has exactly `left` elements *)
    assert (Hc : count_lt l off = N.to_nat left).
    { apply count_lt_prefix; try assumption; try lia. intros i Hi. apply Hhi. lia. }
    rewrite Hc, Hres. cbn zeta. destruct (N.eqb_spec left 0) as [->|Hnz]; [reflexivity|].
    replace (N.to_nat left =? 0)%nat with false by (symmetry; apply Nat.eqb_neq; lia). f_equal. lia.
Qed.

Theorem search_line_correct l off : sorted l ->
  search_line l off = (let k := count_lt l off in if (k =? 0)%nat then None else Some (N.of_nat k - 1)).
Proof.
  intros Hs. unfold search_line. set (cnt := N.of_nat (List.length l)).
  destruct (N.eqb_spec cnt 0) as [Hz|Hnz]; cbn [orb].
  - destruct l; [reflexivity|unfold cnt in Hz; cbn in Hz; lia].
  - unfold nthN. cbn [N.to_nat]. destruct (N.leb_spec off (nth 0 l 0)) as [Hle|Hgt].
    + assert (Hc : count_lt l off = 0%nat).
      { apply count_lt_prefix; try assumption; try lia. intros i Hi.
        destruct (Nat.eq_dec i 0) as [->|Hne]; [assumption|].
        apply N.le_trans with (nth 0 l 0); [assumption|]. apply N.lt_le_incl, Hs. lia. }
      rewrite Hc. reflexivity.
    + apply bsearch_ok; try assumption; unfold cnt in *; try lia; try reflexivity; intros i Hi; lia.
Qed.

Lemma filter_length_le {A} (f : A -> bool) l : (List.length (filter f l) <= List.length l)%nat.
Proof. induction l as [|x t IH]; cbn; [lia|]. destruct (f x); cbn; lia. Qed.

Lemma count_lt_spec l off : sorted l ->
  forall i, (i < List.length l)%nat -> (nth i l 0 < off <-> (i < count_lt l off)%nat).
Proof.
  unfold count_lt. induction l as [|x t IH]; intros Hs i Hi; cbn in Hi; [lia|].
  assert (Hs' : sorted t) by (intros a c Hac; apply (Hs (S a) (S c)); cbn; lia).
  cbn [filter]. destruct (N.ltb_spec x off) as [Hx|Hx]; cbn [List.length].
  - destruct i as [|i]; cbn [nth]; [split; intros; [lia|assumption]|].
    rewrite (IH Hs' i ltac:(lia)). lia.
  - assert (Hall : forall j, (j < List.length t)%nat -> off <= nth j t 0).
    { intros j Hj. apply N.le_trans with x; [assumption|]. apply N.lt_le_incl. apply (Hs 0%nat (S j)). cbn. lia. }
    assert (Hz : List.length (filter (fun y => y <? off) t) = 0%nat).
    { clear -Hall. induction t as [|y t IH]; cbn; [reflexivity|].
      replace (y <? off) with false by (symmetry; apply N.ltb_ge; apply (Hall 0%nat); cbn; lia).
      apply IH. intros j Hj. apply (Hall (S j)). cbn. lia. }
    rewrite Hz. destruct i as [|i]; cbn [nth]; [lia|]. specialize (Hall i ltac:(lia)). lia.
Qed.

(* line and column *)
Theorem get_position_correct l off : sorted l ->
  get_position l off =
  let k := count_lt l off in
  (off, N.of_nat k + 1, if (k =? 0)%nat then off + 1 else off - nth (k - 1) l 0).
Proof.
  intros Hs. unfold get_position. rewrite search_line_correct by assumption. cbn zeta.
  destruct (Nat.eqb_spec (count_lt l off) 0) as [->|Hnz]; [reflexivity|].
  unfold nthN. replace (N.to_nat (N.of_nat (count_lt l off) - 1)) with (count_lt l off - 1)%nat by lia.
  assert (Hk : (count_lt l off <= List.length l)%nat) by (unfold count_lt; apply filter_length_le).
  assert (Hlt : nth (count_lt l off - 1) l 0 < off) by (apply (count_lt_spec l off Hs); lia).
  f_equal; [f_equal; lia|lia].
Qed.

(* the line-feed index produced by the (chunked) indexer is strictly increasing *)
Lemma lf_positions_bounds i l x : In x (lf_positions i l) -> i <= x < i + N.of_nat (List.length l).
Proof.
  revert i. induction l as [|b t IH]; intros i; cbn [lf_positions List.length]; [intros []|].
  destruct (is_lf b); [intros [<-|H]|intros H]; try lia; apply IH in H; lia.
Qed.

Lemma lf_positions_sorted i l : sorted (lf_positions i l).
Proof.
  revert i. induction l as [|b t IH]; intros i; cbn [lf_positions]; [intros a c H; cbn in H; lia|].
  destruct (is_lf b); [|apply IH].
  intros a c Hac. destruct a as [|a]; destruct c as [|c]; cbn [nth List.length] in *; try lia.
  - assert (In (nth c (lf_positions (i + 1) t) 0) (lf_positions (i + 1) t)) by (apply nth_In; lia).
    apply lf_positions_bounds in H. lia.
  - apply IH. lia.
Qed.

(* the number of indexed offsets below off is the number of line feeds among the first off bytes *)
Lemma count_lt_lf_positions i l off : i <= off ->
  count_lt (lf_positions i l) off = List.length (filter is_lf (firstn (N.to_nat (off - i)) l)).
Proof.
  revert i. induction l as [|b t IH]; intros i Hi.
  - cbn. now rewrite firstn_nil.
  - cbn [lf_positions]. destruct (N.eq_dec off i) as [->|Hne].
    + rewrite N.sub_diag. cbn [N.to_nat firstn filter List.length].
      (* nothing at or after i is below i *)
      assert (Hz : forall l0 j, i <= j -> count_lt (lf_positions j l0) i = 0%nat).
      { intros l0. induction l0 as [|b0 t0 IH0]; intros j Hj; cbn [lf_positions]; [reflexivity|].
        destruct (is_lf b0).
        - unfold count_lt. cbn [filter]. replace (j <? i) with false by (symmetry; apply N.ltb_ge; assumption).
          apply (IH0 (j + 1)). lia.
        - apply IH0. lia. }
      destruct (is_lf b).
      * unfold count_lt. cbn [filter]. rewrite N.ltb_irrefl. apply (Hz t (i + 1)). lia.
      * apply Hz. lia.
    + replace (N.to_nat (off - i)) with (S (N.to_nat (off - (i + 1)))) by lia.
      cbn [firstn filter]. destruct (is_lf b).
      * unfold count_lt. cbn [filter]. replace (i <? off) with true by (symmetry; apply N.ltb_lt; lia).
        cbn [List.length]. f_equal. apply IH. lia.
      * apply IH. lia.
Qed.
